package mobius

// Triage witnesses for findings reported by the static rules (see /verif/DESIGN.md section 5).
// They are NOT registered checks.  /verif/witness/run.sh copies /repo to a scratch directory,
// drops these files in, runs them there and removes the copy.  Each test only logs what it
// observes (prefix WITNESS); it never fails, so the same file can be run before and after a fix.

import (
	"io"
	"os"
	"path/filepath"
	"syscall"
	"testing"

	"github.com/jhalter/mobius/hotline"
)

func wsrv(root string) *hotline.Server {
	return &hotline.Server{
		Config: hotline.Config{FileRoot: root},
		FS:     &hotline.OSFileStore{},
		Logger: NewTestLogger(),
	}
}

func wcc(s *hotline.Server, bits ...int) *hotline.ClientConn {
	var a hotline.AccessBitmap
	for _, b := range bits {
		a.Set(b)
	}
	return &hotline.ClientConn{Server: s, Account: &hotline.Account{Login: "w", Access: a}, Logger: NewTestLogger()}
}

// #17 C15: rename through Update keeps the old login usable; #11 C07: Update writes outside Users/.
func TestWitnessAccountRenameAndTraversal(t *testing.T) {
	dir := t.TempDir()
	users := filepath.Join(dir, "cfg", "Users")
	_ = os.MkdirAll(users, 0755)
	_ = os.WriteFile(filepath.Join(users, "seed.yaml"), []byte("Login: seed\nName: seed\nPassword: x\nAccess:\n    DownloadFile: true\n"), 0644)
	am, err := NewYAMLAccountManager(users)
	if err != nil {
		t.Fatal(err)
	}
	_ = am.Create(*hotline.NewAccount("alice", "Alice", "pw", hotline.AccessBitmap{}))
	err = am.Update(*am.Get("alice"), "bob")
	t.Logf("WITNESS C15 rename alice->bob err=%v; old login still present=%v; new login present=%v", err, am.Get("alice") != nil, am.Get("bob") != nil)

	_ = am.Create(hotline.Account{Login: "../../escape", Name: "x"})
	if a := am.Get("../../escape"); a != nil {
		err = am.Update(*a, "../../escape")
		_, statErr := os.Stat(filepath.Join(dir, "escape.yaml"))
		t.Logf("WITNESS C07 Update(login=../../escape) err=%v; file written outside Users/: %v", err, statErr == nil)
	}
}

// #18 C19: one shared cursor for all readers.
func TestWitnessSharedCursor(t *testing.T) {
	p := filepath.Join(t.TempDir(), "MessageBoard.txt")
	_ = os.WriteFile(p, []byte("0123456789ABCDEFGHIJ"), 0644)
	fn, _ := NewFlatNews(p)
	_, _ = fn.Seek(0, 0) // reader A starts
	a := make([]byte, 8)
	n, _ := fn.Read(a)
	_, _ = fn.Seek(0, 0) // reader B starts in between
	restA, _ := io.ReadAll(fn)
	restB, _ := io.ReadAll(fn)
	t.Logf("WITNESS C19 reader A got %q, reader B got %q (text is %q)", string(a[:n])+string(restA), string(restB), "0123456789ABCDEFGHIJ")
}

// #10 C07: rename with a new name containing ../ leaves the folder (and the root).
func TestWitnessRenameTraversal(t *testing.T) {
	sandbox := t.TempDir()
	root := filepath.Join(sandbox, "root")
	_ = os.MkdirAll(filepath.Join(root, "sub"), 0755)
	_ = os.WriteFile(filepath.Join(root, "sub", "a.txt"), []byte("data"), 0644)
	cc := wcc(wsrv(root), hotline.AccessRenameFile)
	req := hotline.NewTransaction(hotline.TranSetFileInfo, [2]byte{0, 1},
		hotline.NewField(hotline.FieldFileName, []byte("a.txt")),
		hotline.NewField(hotline.FieldFilePath, hotline.EncodeFilePath("sub")),
		hotline.NewField(hotline.FieldFileNewName, []byte("../../escaped.txt")),
	)
	res := HandleSetFileInfo(cc, &req)
	_, outside := os.Stat(filepath.Join(sandbox, "escaped.txt"))
	_, inside := os.Stat(filepath.Join(root, "sub", "a.txt"))
	t.Logf("WITNESS C07 rename to ../../escaped.txt: replies=%d; file now outside root: %v; original still there: %v", len(res), outside == nil, inside == nil)
}

// #8 C05: an entry that is neither a directory nor a regular file is deleted / moved with no privilege at all.
func TestWitnessIrregularEntryNoPrivilege(t *testing.T) {
	root := t.TempDir()
	fifo := filepath.Join(root, "pipe")
	if err := syscall.Mkfifo(fifo, 0644); err != nil {
		t.Skip(err)
	}
	cc := wcc(wsrv(root)) // no privileges
	req := hotline.NewTransaction(hotline.TranDeleteFile, [2]byte{0, 1},
		hotline.NewField(hotline.FieldFileName, []byte("pipe")),
	)
	res := HandleDeleteFile(cc, &req)
	_, err := os.Lstat(fifo)
	errCode := [4]byte{}
	if len(res) > 0 {
		errCode = res[0].ErrorCode
	}
	t.Logf("WITNESS C05 delete of a FIFO by an account with no privileges: replies=%d errorCode=%v; entry removed: %v", len(res), errCode, os.IsNotExist(err))
}
