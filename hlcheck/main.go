package main

import (
	"encoding/json"
	"flag"
	"fmt"
	"os"
	"runtime/debug"
	"sort"
	"strconv"
	"strings"
	"time"
)

type propFunc func(R *Run)

var props = map[string]propFunc{}

func register(id string, f propFunc) { props[id] = f }

func main() {
	prop := flag.String("prop", "", "property id (C01..C20) or 'all'")
	tier := flag.String("tier", "", "quick|thorough (default: $VERIF_TIER or quick)")
	repo := flag.String("repo", "/repo", "repository root")
	verif := flag.String("verif", "/verif", "verif directory (known_findings.json, spec/, evidence/)")
	out := flag.String("out", "", "directory for evidence/replay output (default <verif>/evidence)")
	explain := flag.String("explain", "", "print a replay file")
	list := flag.Bool("list", false, "list properties")
	vocabOut := flag.Bool("vocab", false, "print the function vocabulary of the tree (for spec/vocabulary.txt)")
	declsOut := flag.Bool("decls", false, "print the reference declarations of the tree (for spec/decls.txt)")
	keepNorm := flag.Bool("keep-normalised", false, "print and keep the directory of the normalised copy (debugging)")
	flag.Parse()
	if *declsOut {
		pkgs, err := loadSyntax(*repo)
		if err != nil {
			fmt.Println(err)
			os.Exit(2)
		}
		printDecls(pkgs)
		return
	}
	if *vocabOut {
		pkgs, err := loadSyntax(*repo)
		if err != nil {
			fmt.Println(err)
			os.Exit(2)
		}
		var names []string
		for _, c := range newFunctions(pkgs, map[string]bool{}) {
			names = append(names, c.name)
		}
		sort.Strings(names)
		fmt.Println("# functions of the reference tree the rules were written and confirmed against (hlcheck -vocab)")
		for _, n := range names {
			fmt.Println(n)
		}
		return
	}
	if *explain != "" {
		b, err := os.ReadFile(*explain)
		if err != nil {
			fmt.Println(err)
			os.Exit(2)
		}
		var v struct {
			Property   string `json:"property"`
			Obligation Obl    `json:"obligation"`
		}
		_ = json.Unmarshal(b, &v)
		fmt.Printf("property %s\nrule      %s\nconstruct %s\nat        %s\nstatus    %s\nreason    %s\n", v.Property, v.Obligation.Rule, v.Obligation.Construct, v.Obligation.Pos, v.Obligation.Status, v.Obligation.Reason)
		for _, p := range v.Obligation.Path {
			fmt.Println("  ", p)
		}
		fmt.Printf("re-derive: /verif/bin/hlcheck -prop %s\n", v.Property)
		return
	}
	if *list {
		var ids []string
		for id := range props {
			ids = append(ids, id)
		}
		sort.Strings(ids)
		for _, id := range ids {
			fmt.Println(id)
		}
		return
	}
	if *tier == "" {
		*tier = os.Getenv("VERIF_TIER")
	}
	if *tier != "thorough" {
		*tier = "quick"
	}
	seed := 0
	if s := os.Getenv("VERIF_SEED"); s != "" {
		seed, _ = strconv.Atoi(s)
	}
	var todo []string
	if *prop == "all" {
		for id := range props {
			todo = append(todo, id)
		}
		sort.Strings(todo)
	} else if _, ok := props[*prop]; ok {
		todo = []string{*prop}
	} else {
		fmt.Printf("CHECKER-ERROR unknown property %q\n", *prop)
		os.Exit(2)
	}
	start := time.Now()
	// functions that are not in the vocabulary are expanded in a scratch copy first (normalise.go)
	analysed := *repo
	var norm *normInfo
	normNote := ""
	if vocab, verr := readVocabulary(*verif); verr != nil {
		normNote = "vocabulary not readable (" + verr.Error() + "): the tree is analysed as it is."
	} else if ni, nerr := normalise(*repo, vocab, func() *refDecls { d, _ := readDecls(*verif); return d }()); nerr != nil {
		normNote = "the normalised view could not be built (" + nerr.Error() + "): the tree is analysed as it is."
		if ni != nil {
			os.RemoveAll(ni.dir)
		}
	} else if ni != nil {
		norm = ni
		analysed = ni.dir
		if *keepNorm {
			fmt.Println("normalised copy:", ni.dir)
		}
	}
	cleanup := func() {
		if norm != nil && !*keepNorm {
			os.RemoveAll(norm.dir)
		}
	}
	if d, derr := readDecls(*verif); derr == nil && d != nil {
		refStructFields, refTypes = map[string]map[string]bool{}, map[string]bool{}
		for tn := range d.types {
			refTypes[tn] = true
		}
		for tn, fs := range d.fields {
			refStructFields[tn] = map[string]bool{}
			for _, f := range fs {
				refStructFields[tn][f[0]] = true
			}
		}
	}
	P, err := loadProg(analysed, "")
	if err != nil && norm != nil {
		normNote = "the normalised copy does not load (" + err.Error() + "): the tree is analysed as it is."
		os.RemoveAll(norm.dir)
		norm = nil
		P, err = loadProg(*repo, "")
	}
	if err != nil {
		// The tree does not load or type-check: no verdict can be given for it.
		fmt.Printf("CHECKER-ERROR %v\n", err)
		cleanup()
		os.Exit(2)
	}
	specDir = *verif + "/spec"
	if *out == "" {
		*out = *verif + "/evidence"
	}
	worst := 0
	for _, pid := range todo {
		if len(todo) > 1 {
			fmt.Println("== " + pid)
		}
		t0 := time.Now()
		if len(todo) == 1 {
			t0 = start
		}
		rc := runProp(P, pid, props[pid], *tier, analysed, norm, normNote, *verif, *out, seed, t0)
		if rc > worst {
			worst = rc
		}
	}
	_ = start
	cleanup()
	os.Exit(worst)
}

func runProp(P *Prog, prop string, f func(*Run), tierV string, analysed string, norm *normInfo, normNote, verifDir, outDir string, seed int, start time.Time) int {
	tier, repo, verif, out := &tierV, &analysed, &verifDir, &outDir
	_ = verif
	R := &Run{P: P, Prop: prop, Tier: *tier, floors: map[string]int{}, rules: map[string]string{}, start: start, fnsSeen: map[string]bool{}}
	curProg = P
	if norm != nil {
		P.norm = norm
		if len(norm.Renamed) > 0 {
			R.note("renamed declarations put back under their reference names: " + strings.Join(norm.Renamed, "; ") + ".")
		}
		R.note(fmt.Sprintf("normalised view: %d functions outside the reference vocabulary (%s); %d call sites expanded in %d rounds, %d helpers removed after expansion; not expanded: %v.", len(norm.NewFuncs), strings.Join(norm.NewFuncs, ", "), len(norm.Inlined), norm.Rounds, len(norm.Removed), norm.Left))
	}
	if normNote != "" {
		R.note(normNote)
	}
	func() {
		defer func() {
			if r := recover(); r != nil {
				R.und("checker-panic", fmt.Sprint(r), "-", "a rule panicked; no verdict for its instances: "+string(debug.Stack()))
			}
		}()
		f(R)
	}()
	if *tier == "thorough" {
		// the same rules under the other operating systems' build configurations (different filepath / syscall
		// surface, other build-constrained files): only obligations that differ from the primary run are added
		have := map[string]string{}
		for _, o := range R.Obls {
			have[o.key()] = o.Status
		}
		for _, goos := range []string{"windows", "darwin"} {
			P2, err := loadProg(*repo, goos)
			if err != nil {
				R.und("build-config", "GOOS="+goos, "-", "the tree does not load under GOOS="+goos+": "+err.Error())
				continue
			}
			P2.norm = norm
			R2 := &Run{P: P2, Prop: prop, Tier: *tier, floors: map[string]int{}, rules: map[string]string{}, start: start, fnsSeen: map[string]bool{}}
			curProg = P2
			func() {
				defer func() {
					if r := recover(); r != nil {
						R2.und("checker-panic", fmt.Sprint(r), "-", "a rule panicked under GOOS="+goos)
					}
				}()
				f(R2)
			}()
			differ := 0
			for _, o := range R2.Obls {
				if st, ok := have[o.key()]; !ok || st != o.Status {
					if o.Status != "discharged" {
						o.Construct = "[GOOS=" + goos + "] " + o.Construct
						R.Obls = append(R.Obls, o)
						differ++
					}
				}
			}
			curProg = P
			R.note(fmt.Sprintf("GOOS=%s: %d obligations evaluated, %d differing from the primary configuration.", goos, len(R2.Obls), differ))
		}
	}
	return R.finish(*verif, *out, seed)
}

var specDir string

func readSpec(name string, v any) error {
	b, err := os.ReadFile(specDir + "/" + name)
	if err != nil {
		return err
	}
	return json.Unmarshal(b, v)
}
