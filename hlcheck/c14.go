package main

// c14.go — C14: each client receives whole, well-formed, correlated transactions (structural part).
// c18.go / c19.go rules that need the lock engine live here too.

import (
	"fmt"
	"go/token"
	"go/types"
	"reflect"
	"strings"

	"golang.org/x/tools/go/ssa"
)

func sed(s string) string { return strings.TrimPrefix(s, "hotline.") }

func checkC14(R *Run) {
	P := R.P
	R.rule("conn-write-lock", "every write to a registered client's connection (io.Copy / binary.Write / Write with ClientConn.Connection as destination) holds a mutex that is a field of that same ClientConn for the whole call; the login sequence writes to its raw connection only before the connection is registered")
	R.rule("field-len-guard", "NewField computes the 16-bit size prefix from the very value whose bytes it stores, and that value is bounded by 65535 on every path (original data only on the edge where len(data) > MaxUint16 is false, otherwise a slice [:K] with K <= 65535)")
	R.rule("reply-ctor", "Transaction values with IsReply set are only built by NewReply and NewErrReply, which copy the request's ID and the receiver's client ID; every handler passes its own request parameter to them")
	R.rule("one-reply", "on every CFG path of every registered handler at most one reply-constructor call is executed (calls inside a loop count twice unless the path leaves the function)")
	R.rule("cursor", "(shared with C01) cursor protocol of Transaction.Read and Field.Read")
	R.rule("layout", "(shared with C01) wire layout of Transaction and Field")
	R.rule("id-unique", "(shared with C13) a reply finds its requester through the client ID: no two registered connections share one, and the zero ID is never handed out")
	R.ruleIDUnique()

	// ---- no-write-deadline: a write error on a client connection is only logged and the connection stays
	// registered; that is sound only while a failed write means a dead connection.  A write deadline makes a write
	// fail half-way on a connection that lives on, and the next transaction is appended to a partial one.
	R.rule("no-write-deadline", "no code of the server sets a deadline that can interrupt a write on a client connection (SetWriteDeadline / SetDeadline, directly, through an interface or a type assertion): a transaction is either written whole or the connection is dead")
	nDl := 0
	for _, fn := range P.Funcs {
		if fn.Pkg == nil || fn.Pkg.Pkg.Path() == cmdPath || isClientLibrary(fn) {
			continue
		}
		for _, ci := range callsIn(fn) {
			c := ci.Common()
			name := ""
			if c.IsInvoke() {
				name = c.Method.Name()
			} else if sf := c.StaticCallee(); sf != nil {
				name = sf.Name()
			}
			if name == "SetWriteDeadline" || name == "SetDeadline" {
				nDl++
				R.bad("no-write-deadline", fmt.Sprintf("%s: %s #%d", fname(fn), name, nDl), P.ipos(ci), "a write deadline is set on a connection: a transaction to a slow client is cut off after a partial write while the connection stays open, so the next transaction is appended to the fragment and the client loses framing")
			}
		}
	}
	if nDl == 0 {
		R.ok("no-write-deadline", "server packages", "-", "no SetWriteDeadline / SetDeadline call")
	}

	L := newLockInfo(P)
	// ---- conn-write-lock
	nW := 0
	for _, fn := range P.Funcs {
		if isClientLibrary(fn) {
			continue
		}
		for _, ci := range callsIn(fn) {
			c := ci.Common()
			name := calleeName(c)
			var dst ssa.Value
			switch {
			case name == "io.Copy" || name == "io.CopyN" || name == "io.CopyBuffer" || name == "encoding/binary.Write" || name == "io.WriteString":
				dst = c.Args[0]
			case c.IsInvoke() && c.Method.Name() == "Write":
				dst = c.Value
			default:
				continue
			}
			f, ok := loadedField(stripConv(dst))
			if !ok || f != "hotline.ClientConn.Connection" {
				continue
			}
			nW++
			R.analysed(fname(fn))
			u := stripConv(dst).(*ssa.UnOp)
			base := P.baseName(fn, u.X.(*ssa.FieldAddr).X)
			held := false
			var which string
			for k := range L.at[ci.(ssa.Instruction)] {
				if strings.HasPrefix(k.Field, "hotline.ClientConn.") && (k.Base == base) {
					held = true
					which = k.Field
				}
			}
			// the lock must be released only after the call: with the defer idiom it is; with explicit unlock it is by construction of the lock set
			R.check(held, "conn-write-lock", fmt.Sprintf("%s: %s to ClientConn.Connection #%d", fname(fn), name, nW), P.ipos(ci),
				"holds "+which+" of the same connection", fmt.Sprintf("a transaction is written to a client's connection without a per-connection mutex held (held: %v): concurrent senders interleave the bytes of transactions larger than one Write", L.at[ci.(ssa.Instruction)].names()))
		}
	}
	// the lock must cover the whole transaction: the io.Copy that drains a *Transaction towards a registered client
	nT := 0
	for _, fn := range P.Funcs {
		if isClientLibrary(fn) {
			continue
		}
		for _, ci := range callsIn(fn) {
			c := ci.Common()
			n := calleeName(c)
			if n != "io.Copy" && n != "io.CopyN" && n != "io.CopyBuffer" {
				continue
			}
			st, _ := concreteBelowInterface(c.Args[1])
			if typeName(st) != "*hotline.Transaction" {
				continue
			}
			// destination: a registered client's connection (directly or through a wrapper built from the client)
			toClient := P.reaches(c.Args[0], func(x ssa.Value) bool {
				if fa, ok := x.(*ssa.FieldAddr); ok {
					f, _ := fieldOf(fa)
					return f == "hotline.ClientConn.Connection"
				}
				if cv := callValue(x); cv != nil && calleeName(&cv.Call) == "(hotline.ClientManager).Get" {
					return true
				}
				return false
			})
			if !toClient {
				continue // the login sequence's own raw connection / ban notice: nobody else can address it yet
			}
			nT++
			held := false
			for k := range L.at[ci.(ssa.Instruction)] {
				if strings.HasPrefix(k.Field, "hotline.ClientConn.") {
					held = true
				}
			}
			R.check(held, "conn-write-lock", fmt.Sprintf("%s: copy of a whole Transaction to a client #%d", fname(fn), nT), P.ipos(ci),
				"the per-connection mutex is held across the copy of the whole transaction",
				"the copy of a whole Transaction towards a client's connection is not inside the per-connection critical section (locking inside each Write is not enough: io.Copy hands a transaction over in 32 KiB pieces, between which another sender's transaction can be written)")
		}
	}
	if nT == 0 {
		R.bad("conn-write-lock", "transaction copies to clients", "-", "no io.Copy of a Transaction towards a registered client found (mechanism moved)")
	}
	R.floor("conn-write-lock", 2)
	// raw connection writes in the login sequence only before registration
	if fn := R.mustFn("(*hotline.Server).handleNewConnection"); fn != nil {
		var rwc ssa.Value
		for _, p := range fn.Params {
			if strings.HasPrefix(typeName(p.Type()), "io.ReadWrite") {
				rwc = p
			}
		}
		var add ssa.Instruction
		for _, ci := range callsIn(fn) {
			n := calleeName(ci.Common())
			if n == "(hotline.ClientManager).Add" || n == "(*hotline.Server).NewClientConn" {
				add = ci
			}
		}
		bad := ""
		if add != nil && rwc != nil {
			after := reachableFrom(add.Block(), nil)
			for _, ci := range callsIn(fn) {
				c := ci.Common()
				n := calleeName(c)
				isWrite := (c.IsInvoke() && c.Method.Name() == "Write" && stripConv(c.Value) == rwc) ||
					((n == "io.Copy" || n == "io.CopyN" || n == "encoding/binary.Write") && len(c.Args) > 0 && stripConv(c.Args[0]) == rwc) ||
					(n == "hotline.sendBanMessage" && stripConv(c.Args[0]) == rwc)
				if !isWrite {
					continue
				}
				if after[ci.Block()] && (ci.Block() != add.Block() || instrIndex(ci.(ssa.Instruction)) > instrIndex(add)) {
					bad = P.ipos(ci)
				}
			}
		}
		R.check(add != nil && bad == "", "conn-write-lock", fname(fn)+": raw writes before registration", P.pos(fn.Pos()), "no direct write to the connection once it is registered", "the login sequence writes directly to the connection after it was registered (at "+bad+"): it can interleave with a transaction sent by another goroutine")
	}

	// ---- field-len-guard
	if fn := R.mustFn("hotline.NewField"); fn != nil {
		R.analysed(fname(fn))
		data := fn.Params[1]
		var put *ssa.Call
		for _, ci := range callsIn(fn) {
			if c, ok := ci.(*ssa.Call); ok && putUintWidth(calleeName(&c.Call)) == 2 {
				put = c
			}
		}
		// the prefix value and where it is stored: PutUint16(f.FieldSize[:], V), or the two bytes spelled out —
		// FieldSize[0] = byte(V >> 8), FieldSize[1] = byte(V)
		var prefixVal ssa.Value
		var putBlock *ssa.BasicBlock
		if put != nil {
			a := put.Call.Args
			prefixVal, putBlock = stripConv(a[len(a)-1]), put.Block()
		} else {
			hi, lo, blk := bytePairStore(fn)
			if hi != nil && lo != nil && stripConv(hi) == stripConv(lo) {
				prefixVal, putBlock = stripConv(lo), blk
			}
		}
		var problems []string
		// smallFact: a branch fact that bounds v (or len of the slice v measures) by 65535 on an edge reaching pred
		smallFact := func(same func(x ssa.Value) bool, pred *ssa.BasicBlock) bool {
			ok := false
			factEdges(fn, func(e Edge, f Fact) {
				if f.Kind != "truth" {
					return
				}
				b, isB := f.V.(*ssa.BinOp)
				if !isB {
					return
				}
				k, isK := constInt(b.Y)
				if !isK || !same(b.X) {
					return
				}
				small := false
				switch b.Op {
				case token.GTR:
					small = !f.Holds && k <= 65535
				case token.GEQ:
					small = !f.Holds && k <= 65536
				case token.LEQ:
					small = f.Holds && k <= 65535
				case token.LSS:
					small = f.Holds && k <= 65536
				}
				if small && (e.From == pred || e.To == pred || edgeDominates(fn, e, pred)) {
					ok = true
				}
			})
			return ok
		}
		isLen := func(v ssa.Value) (ssa.Value, bool) {
			if c, ok := v.(*ssa.Call); ok && calleeName(&c.Call) == "builtin.len" {
				return c.Call.Args[0], true
			}
			return nil, false
		}
		// sliceBounded: the slice value has at most 65535 elements when control arrives through pred
		var sliceBounded, intBounded func(v ssa.Value, pred *ssa.BasicBlock, d int) bool
		sliceBounded = func(v ssa.Value, pred *ssa.BasicBlock, d int) bool {
			if d > 10 {
				return false
			}
			if sl, ok := v.(*ssa.Slice); ok && sl.High != nil {
				if k, ok := constInt(sl.High); ok && k <= 65535 {
					return true
				}
				if _, isConst := sl.High.(*ssa.Const); !isConst && intBounded(sl.High, pred, d+1) {
					return true
				}
			}
			if mk, ok := v.(*ssa.MakeSlice); ok {
				return intBounded(stripConv(mk.Len), pred, d+1)
			}
			if m, ok := v.(*ssa.Phi); ok {
				for i, e := range m.Edges {
					if !sliceBounded(e, m.Block().Preds[i], d+1) {
						return false
					}
				}
				return true
			}
			return smallFact(func(x ssa.Value) bool { a, ok := isLen(x); return ok && a == v }, pred)
		}
		// intBounded: the integer is at most 65535 when control arrives through pred
		intBounded = func(v ssa.Value, pred *ssa.BasicBlock, d int) bool {
			if d > 10 {
				return false
			}
			if k, ok := constInt(v); ok {
				return k >= 0 && k <= 65535
			}
			if m, ok := v.(*ssa.Phi); ok {
				for i, e := range m.Edges {
					if !intBounded(e, m.Block().Preds[i], d+1) {
						return false
					}
				}
				return true
			}
			if c, ok := v.(*ssa.Call); ok && calleeName(&c.Call) == "builtin.min" {
				for _, a := range c.Call.Args {
					if intBounded(a, pred, d+1) {
						return true
					}
				}
			}
			if a, ok := isLen(v); ok && sliceBounded(a, pred, d+1) {
				return true
			}
			return smallFact(func(x ssa.Value) bool {
				if x == v {
					return true
				}
				a1, ok1 := isLen(x)
				a2, ok2 := isLen(v)
				return ok1 && ok2 && a1 == a2
			}, pred)
		}
		// sameLength: two integer values that are the same quantity (one SSA value, or len of one slice value)
		sameLength := func(a, b ssa.Value) bool {
			a, b = stripConv(a), stripConv(b)
			// len(make([]byte, n)) is n
			for _, p := range []*ssa.Value{&a, &b} {
				if x, ok := isLen(*p); ok {
					if mk, isMk := x.(*ssa.MakeSlice); isMk {
						*p = stripConv(mk.Len)
					}
				}
			}
			if a == b {
				return true
			}
			x, ok1 := isLen(a)
			y, ok2 := isLen(b)
			return ok1 && ok2 && x == y
		}
		if prefixVal == nil {
			problems = append(problems, "no PutUint16 of the size prefix found")
		} else {
			prefix := prefixVal
			// the bytes stored: Data = make([]byte, L) filled by copy(.., src) — or Data = v directly
			var stored ssa.Value
			eachInstr(fn, func(ins ssa.Instruction) {
				if st, ok := ins.(*ssa.Store); ok {
					if fa, ok := st.Addr.(*ssa.FieldAddr); ok {
						if f, _ := fieldOf(fa); f == "hotline.Field.Data" {
							stored = st.Val
						}
					}
				}
			})
			switch d := stored.(type) {
			case nil:
				problems = append(problems, "no store to Field.Data found")
			case *ssa.MakeSlice:
				if !sameLength(prefix, d.Len) {
					problems = append(problems, "the prefix is not the length the data buffer is made with")
				}
				// filled from the data parameter with a copy that covers the whole buffer: the source is the
				// measured value itself, or data[:L]
				copied := false
				for _, ci := range callsIn(fn) {
					c := ci.Common()
					if calleeName(c) != "builtin.copy" {
						continue
					}
					src := c.Args[1]
					if m, ok := isLen(stripConv(d.Len)); ok && src == m {
						copied = true
					}
					if sl, ok := src.(*ssa.Slice); ok && sl.Low == nil && sl.High != nil && sameLength(sl.High, d.Len) && (sl.X == ssa.Value(data)) {
						copied = true
					}
					// the buffer is min(len(data), K) long and filled from data itself: copy fills all of it with data's head
					if mc, ok := stripConv(d.Len).(*ssa.Call); ok && calleeName(&mc.Call) == "builtin.min" && src == ssa.Value(data) {
						for _, a := range mc.Call.Args {
							if m, isL := isLen(stripConv(a)); isL && m == ssa.Value(data) {
								copied = true
							}
						}
					}
				}
				if !copied {
					problems = append(problems, "the bytes stored are not the value whose length is put in the prefix")
				}
			default:
				if m, ok := isLen(prefix); !ok || m != stored {
					problems = append(problems, "the bytes stored are not the value whose length is put in the prefix")
				}
			}
			if !intBounded(prefix, putBlock, 0) {
				problems = append(problems, "the length put in the 16-bit prefix is not bounded by 65535 on every path (a longer field gets a wrapped prefix while all its bytes are emitted)")
			}
		}
		R.check(len(problems) == 0, "field-len-guard", "hotline.NewField", P.pos(fn.Pos()), "prefix = len(stored bytes) <= 65535 on every path", strings.Join(problems, "; "))
	}

	// ---- reply-ctor
	nCtor := 0
	for _, fn := range P.Funcs {
		if isClientLibrary(fn) {
			continue
		}
		eachInstr(fn, func(ins ssa.Instruction) {
			st, ok := ins.(*ssa.Store)
			if !ok {
				return
			}
			fa, ok := st.Addr.(*ssa.FieldAddr)
			if !ok {
				return
			}
			if f, _ := fieldOf(fa); f != "hotline.Transaction.IsReply" {
				return
			}
			if k, ok := constInt(st.Val); ok && k == 0 {
				return
			}
			n := fname(fn)
			if n == "(*hotline.Transaction).Write" {
				return // decoder
			}
			nCtor++
			R.check(n == "(*hotline.ClientConn).NewReply" || n == "(*hotline.ClientConn).NewErrReply", "reply-ctor", n+": sets IsReply", P.ipos(st), "one of the two reply constructors", "a reply transaction is built outside NewReply/NewErrReply")
		})
	}
	for _, n := range []string{"(*hotline.ClientConn).NewReply", "(*hotline.ClientConn).NewErrReply"} {
		fn := R.mustFn(n)
		if fn == nil {
			continue
		}
		idOK, cidOK, foreign := false, false, ""
		// delegation: the other constructor called with this one's own (cc, t), its result being the only
		// Transaction value this function stores or returns
		isDelegate := func(v ssa.Value) bool {
			c, ok := v.(*ssa.Call)
			if !ok {
				return false
			}
			cn := calleeName(&c.Call)
			return (cn == "(*hotline.ClientConn).NewReply" || cn == "(*hotline.ClientConn).NewErrReply") && cn != n &&
				len(c.Call.Args) >= 2 && c.Call.Args[0] == ssa.Value(fn.Params[0]) && c.Call.Args[1] == ssa.Value(fn.Params[1])
		}
		var fromDelegate func(v ssa.Value, d int) bool
		fromDelegate = func(v ssa.Value, d int) bool {
			if d > 4 {
				return false
			}
			if isDelegate(v) {
				return true
			}
			if u, ok := v.(*ssa.UnOp); ok && u.Op == token.MUL {
				if a, ok := u.X.(*ssa.Alloc); ok {
					n := 0
					for _, r := range *a.Referrers() {
						if st, ok := r.(*ssa.Store); ok && st.Addr == ssa.Value(a) {
							if !fromDelegate(st.Val, d+1) {
								return false
							}
							n++
						}
					}
					return n > 0
				}
			}
			return false
		}
		nWhole, nDeleg := 0, 0
		eachInstr(fn, func(ins ssa.Instruction) {
			st, ok := ins.(*ssa.Store)
			if !ok {
				return
			}
			if typeName(st.Val.Type()) == "hotline.Transaction" {
				if _, isCell := st.Addr.(*ssa.Alloc); isCell && isDelegate(st.Val) {
					return // the spill of the delegate's result into a local; its loads are judged where they are stored
				}
				nWhole++
				if fromDelegate(st.Val, 0) {
					nDeleg++
				}
				return
			}
			fa, ok := st.Addr.(*ssa.FieldAddr)
			if !ok {
				return
			}
			f, _ := fieldOf(fa)
			src := P.sym(st.Val)
			if f == "hotline.Transaction.ID" {
				if src == "field:hotline.Transaction.ID@param:"+fn.Params[1].Name() {
					idOK = true
				} else {
					foreign = "ID = " + src
				}
			}
			if f == "hotline.Transaction.ClientID" {
				if src == "field:hotline.ClientConn.ID@param:"+fn.Params[0].Name() {
					cidOK = true
				} else {
					foreign = "ClientID = " + src
				}
			}
		})
		for _, ret := range returnsOf(fn) {
			for _, r := range ret.Results {
				if typeName(r.Type()) == "hotline.Transaction" {
					nWhole++
					if fromDelegate(r, 0) {
						nDeleg++
					}
				}
			}
		}
		if nWhole > 0 && nWhole == nDeleg {
			idOK, cidOK = true, true
		}
		if foreign != "" {
			idOK = false
		}
		R.check(idOK && cidOK, "reply-ctor", n, P.pos(fn.Pos()), "ID = request.ID, ClientID = receiver's ID", fmt.Sprintf("the reply constructor does not copy the request's ID (%v) and the receiver's client ID (%v)", idOK, cidOK))
	}
	regs := R.registeredHandlers()
	nCalls := 0
	for _, reg := range regs {
		fn := reg.Fn
		for _, f := range withAnons(fn) {
			for _, ci := range callsIn(f) {
				n := calleeName(ci.Common())
				if n != "(*hotline.ClientConn).NewReply" && n != "(*hotline.ClientConn).NewErrReply" {
					continue
				}
				nCalls++
				a := ci.Common().Args
				if stripConv(resolveLocal(stripConv(a[0]))) != ssa.Value(fn.Params[0]) || stripConv(resolveLocal(stripConv(a[1]))) != ssa.Value(fn.Params[1]) {
					R.bad("reply-ctor", fmt.Sprintf("%s: %s #%d", fname(fn), sed(n), nCreateIn(f, ci)), P.ipos(ci), "a handler builds a reply for another request or on behalf of another connection than its own parameters")
				}
			}
		}
	}
	R.ok("reply-ctor", "handler call sites", "-", fmt.Sprintf("%d reply-constructor calls in %d handlers use the handler's own (cc, t)", nCalls, len(regs)))
	if nCalls < 90 {
		R.bad("reply-ctor", "floor", "-", fmt.Sprintf("only %d reply-constructor call sites found in handlers (about 100 on the reference tree)", nCalls))
	}

	// ---- one-reply
	for _, reg := range regs {
		fn := reg.Fn
		count := func(b *ssa.BasicBlock) int {
			n := 0
			for _, ins := range b.Instrs {
				if ci, ok := ins.(ssa.CallInstruction); ok {
					cn := calleeName(ci.Common())
					if cn == "(*hotline.ClientConn).NewReply" || cn == "(*hotline.ClientConn).NewErrReply" {
						n++
					}
				}
			}
			return n
		}
		// the largest number of reply constructions on a feasible path to a return (capped at 2), over
		// (block, state, count) triples of the path-sensitive traversal
		worst := 0
		var where ssa.Instruction
		if len(fn.Blocks) > 0 {
			type item struct {
				it psItem
				n  int
			}
			seen := map[string]bool{}
			work := []item{{psItem{fn.Blocks[0], nilState{}}, 0}}
			for len(work) > 0 && len(seen) < 40000 {
				w := work[len(work)-1]
				work = work[:len(work)-1]
				k := fmt.Sprintf("%d|%d|%s", w.it.blk.Index, w.n, w.it.st.key())
				if seen[k] {
					continue
				}
				seen[k] = true
				n := w.n + count(w.it.blk)
				if n > 2 {
					n = 2
				}
				if ret, isRet := w.it.blk.Instrs[len(w.it.blk.Instrs)-1].(*ssa.Return); isRet && n > worst {
					worst, where = n, ret
				}
				for _, s := range feasibleSuccs(w.it.blk, w.it.st, false) {
					work = append(work, item{psItem{s.blk, enterBlock(w.it.blk, s.blk, s.st)}, n})
				}
			}
		}
		pos := P.pos(fn.Pos())
		if where != nil {
			pos = P.ipos(where)
		}
		R.check(worst <= 1, "one-reply", fmt.Sprintf("%d %s", reg.Num, fname(fn)), pos, fmt.Sprintf("at most %d reply per path", worst), "a path through the handler builds more than one reply to the same request")
	}
	R.floor("one-reply", 43)

	// shared C01 rules for Transaction and Field
	R.checkCursor("cursor", func(n string) bool {
		return n == "(*hotline.Transaction).Read" || n == "(*hotline.Field).Read"
	})
	R.floor("cursor", 2)
	checkLayouts(R)
}

// =====================================================================================================
// C19

func checkC19(R *Run) {
	P := R.P
	R.rule("cursor-lockset", "every access to the read cursor of a store shared by all connections (FlatNews, Agreement) holds the store's mutex")
	R.rule("cursor-section", "a Seek followed by reads of the same shared store (Server.MessageBoard, Server.Agreement) sits in one critical section that every other user of that cursor also takes; without it two connections interleave Seek/Read on the one shared cursor")
	R.rule("post-order", "FlatNews.Write, under its mutex: new text = post followed by old text (argument order), written to the temp file, renamed, then success; the post handler broadcasts and replies only on the success edge of Write")
	R.rule("cursor", "(shared with C01) cursor protocol of FlatNews.Read and Agreement.Read")

	L := newLockInfo(P)
	stores := map[string][2]string{ // type → {cursor field, mutex field}
		"mobius.FlatNews":  {"mobius.FlatNews.readOffset", "mobius.FlatNews.mu"},
		"mobius.Agreement": {"mobius.Agreement.readOffset", "mobius.Agreement.mu"},
	}
	n := 0
	for _, fn := range P.Funcs {
		eachInstr(fn, func(ins ssa.Instruction) {
			fa, ok := ins.(*ssa.FieldAddr)
			if !ok {
				return
			}
			f, _ := fieldOf(fa)
			for typ, sp := range stores {
				if f != sp[0] {
					continue
				}
				if isFreshAlloc(fa.X) {
					continue
				}
				// classify read or write by the users of the address
				for _, r := range *fa.Referrers() {
					ri, ok := r.(ssa.Instruction)
					if !ok {
						continue
					}
					kind := ""
					switch x := r.(type) {
					case *ssa.Store:
						if x.Addr == ssa.Value(fa) {
							kind = "write"
						}
					case *ssa.UnOp:
						kind = "read"
					}
					if kind == "" {
						continue
					}
					n++
					base := P.baseName(fn, faBase(fa))
					R.check(L.held(ri, sp[1], base), "cursor-lockset", fmt.Sprintf("%s: %s of %s.readOffset", fname(fn), kind, strings.TrimPrefix(typ, "mobius.")), P.ipos(ri),
						"store mutex held", "the shared read cursor is accessed without the store's mutex (Read holds it): a concurrent Seek of another connection moves the cursor under a reader")
				}
			}
		})
	}
	R.floor("cursor-lockset", 8)

	// cursor-section: call sites Seek(...) on Server.MessageBoard / Server.Agreement followed by reads
	nSec := 0
	for _, fn := range P.Funcs {
		if isClientLibrary(fn) {
			continue
		}
		for _, ci := range callsIn(fn) {
			c := ci.Common()
			if !c.IsInvoke() || c.Method.Name() != "Seek" {
				continue
			}
			f, ok := loadedField(c.Value)
			if !ok || (f != "hotline.Server.MessageBoard" && f != "hotline.Server.Agreement") {
				continue
			}
			nSec++
			R.analysed(fname(fn))
			// the read that follows
			var rd ssa.CallInstruction
			for _, cj := range callsIn(fn) {
				cc := cj.Common()
				if calleeName(cc) == "io.ReadAll" || calleeName(cc) == "io.Copy" || calleeName(cc) == "io.ReadFull" {
					for _, a := range cc.Args {
						if f2, ok := loadedField(stripConv(a)); ok && f2 == f && instrDominates(ci.(ssa.Instruction), cj.(ssa.Instruction)) {
							rd = cj
						}
					}
				}
			}
			construct := fmt.Sprintf("%s: Seek+Read on %s", fname(fn), strings.TrimPrefix(f, "hotline."))
			if rd == nil {
				R.und("cursor-section", construct, P.ipos(ci), "Seek on a shared store without a recognised following read")
				continue
			}
			// some lock held at both
			common := intersect(L.at[ci.(ssa.Instruction)], L.at[rd.(ssa.Instruction)])
			R.check(len(common) > 0, "cursor-section", construct, P.ipos(ci), fmt.Sprintf("Seek and the read share the critical section %v", common.names()),
				"Seek and the following read of the store that all connections share are not inside one critical section: a second reader's Seek/Read interleaves, so one receives a garbled or duplicated text and the other an empty one")
		}
	}
	R.floor("cursor-section", 2)

	// post-order
	if fn := R.mustFn("(*mobius.FlatNews).Write"); fn != nil {
		R.analysed(fname(fn))
		var concat *ssa.Call
		var storeData *ssa.Store
		for _, ci := range callsIn(fn) {
			if c, ok := ci.(*ssa.Call); ok && calleeName(&c.Call) == "slices.Concat" {
				concat = c
			}
		}
		eachInstr(fn, func(ins ssa.Instruction) {
			if st, ok := ins.(*ssa.Store); ok {
				if fa, ok := st.Addr.(*ssa.FieldAddr); ok {
					if f, _ := fieldOf(fa); f == "mobius.FlatNews.data" {
						storeData = st
					}
				}
			}
		})
		ok := concat != nil && storeData != nil && storeData.Val == ssa.Value(concat)
		why := "f.data is not assigned slices.Concat(post, old text)"
		if ok {
			args := callArgsFlat(&concat.Call)
			ok = len(args) == 2 && args[0] == ssa.Value(fn.Params[1])
			if f, isF := loadedField(args[1]); !isF || f != "mobius.FlatNews.data" {
				ok = false
			}
			why = "the new post is not placed in front of the existing text"
		}
		if ok {
			ok = L.held(storeData, "mobius.FlatNews.mu", "this")
			why = "the board text is replaced without the store mutex"
		}
		// the old text is read inside the same hold of the mutex in which the new text is installed: read outside, two
		// posts made at the same moment both build on the same old board and the later one erases the earlier
		if ok {
			args := callArgsFlat(&concat.Call)
			if ld, isIns := args[1].(ssa.Instruction); isIns {
				if !L.held(ld, "mobius.FlatNews.mu", "this") {
					ok, why = false, "the existing text is read at "+P.ipos(ld)+" before the store mutex is taken: two posts made at the same moment both prepend to the same old board and one of them is lost although it was acknowledged"
				} else {
					for _, ci := range callsIn(fn) {
						if id, op, isLock := P.lockOp(fn, ci.Common()); isLock && op == "unlock" && id.Field == "mobius.FlatNews.mu" {
							if _, isDefer := ci.(*ssa.Defer); !isDefer && instrDominates(ld, ci.(ssa.Instruction)) && instrDominates(ci.(ssa.Instruction), storeData) {
								ok, why = false, "the mutex is released at "+P.ipos(ci)+" between reading the existing text and installing the new one"
							}
						}
					}
				}
			}
		}
		// what is written to the temp file is f.data, after the assignment
		if ok {
			written := false
			for _, ci := range callsIn(fn) {
				c := ci.Common()
				if calleeName(c) == "os.WriteFile" && classifyPath(P.sym(c.Args[0])).kind == "temp" {
					if f, isF := loadedField(c.Args[1]); isF && f == "mobius.FlatNews.data" && instrDominates(storeData, ci.(ssa.Instruction)) {
						written = true
					}
				}
			}
			ok = written
			why = "what is written to disk is not the new text"
		}
		// … and the board file is only replaced by a temp file that was written completely: a failed write must not be
		// renamed over the posts that were acknowledged earlier
		if ok {
			nRen := 0
			for _, ci := range callsIn(fn) {
				c := ci.Common()
				if calleeName(c) != "os.Rename" || classifyPath(P.sym(c.Args[1])).kind != "live" {
					continue
				}
				nRen++
				srcSym := P.sym(c.Args[0])
				steps := P.writeStepsOn(fn, func(p ssa.Value) bool { return P.sym(p) == srcSym }, 0)
				if len(steps) == 0 {
					ok, why = false, "the file renamed onto the board file is not written in FlatNews.Write"
				}
				for _, st := range steps {
					if st.err == nil {
						ok, why = false, "the error of "+st.what+" at "+P.ipos(st.ins)+" is dropped before the rename"
						continue
					}
					if st.ins.Block() == ci.Block() || nilReach(st.ins, map[ssa.Value]bool{st.err: false})[ci.Block()] {
						ok, why = false, "the rename onto the board file at "+P.ipos(ci)+" is reached although "+st.what+" at "+P.ipos(st.ins)+" failed: a truncated temp file replaces the board and the posts acknowledged earlier are gone after a restart"
					}
				}
			}
			if nRen == 0 {
				ok, why = false, "the new text is never renamed onto the board file"
			}
		}
		R.check(ok, "post-order", "mobius.FlatNews.Write", P.pos(fn.Pos()), "data = post ++ data under the mutex, then persisted", why)
	}
	var postHandler *ssa.Function
	for _, reg := range R.registeredHandlers() {
		if reg.Num == 103 {
			postHandler = reg.Fn
		}
	}
	if postHandler != nil {
		fn := postHandler
		cut := map[Edge]bool{}
		nW := 0
		factEdges(fn, func(e Edge, f Fact) {
			if f.Kind == "nil" && f.Holds {
				if c := callValue(f.V); c != nil && c.Call.IsInvoke() && c.Call.Method.Name() == "Write" {
					if fl, ok := loadedField(c.Call.Value); ok && fl == "hotline.Server.MessageBoard" {
						nW++
						cut[e] = true
					}
				}
			}
		})
		reach := reachable(fn, cut)
		bad := ""
		nEff := 0
		for _, ci := range callsIn(fn) {
			n := calleeName(ci.Common())
			if n == "(*hotline.ClientConn).SendAll" || n == "(*hotline.ClientConn).NewReply" {
				nEff++
				if reach[ci.Block()] {
					bad = n + " at " + P.ipos(ci)
				}
			}
		}
		R.check(nW > 0 && nEff >= 2 && bad == "", "post-order", fname(fn), P.pos(fn.Pos()), "announcement and reply only after MessageBoard.Write succeeded", "a post is announced / acknowledged on a path where writing it to the board did not succeed: "+bad)
	}
	R.floor("post-order", 2)

	// reload-section: reading the file and replacing the in-memory text happen under one hold of the store mutex
	R.rule("reload-section", "Reload of the board / agreement reads the file and assigns the in-memory text inside one critical section of the store mutex (otherwise a post acknowledged between the read and the assignment is overwritten in memory and lost with the next post)")
	for _, it := range []struct{ fn, mu, data string }{
		{"(*mobius.FlatNews).Reload", "mobius.FlatNews.mu", "mobius.FlatNews.data"},
		{"(*mobius.Agreement).Reload", "mobius.Agreement.mu", "mobius.Agreement.data"},
	} {
		fn := R.mustFn(it.fn)
		if fn == nil {
			continue
		}
		R.analysed(it.fn)
		var rd, st ssa.Instruction
		for _, ci := range callsIn(fn) {
			if n := calleeName(ci.Common()); n == "os.ReadFile" || n == "os.Open" {
				rd = ci.(ssa.Instruction)
			}
		}
		eachInstr(fn, func(ins ssa.Instruction) {
			if s2, ok := ins.(*ssa.Store); ok {
				if fa, ok := s2.Addr.(*ssa.FieldAddr); ok {
					if f, _ := fieldOf(fa); f == it.data {
						st = s2
					}
				}
			}
		})
		ok := rd != nil && st != nil && L.held(rd, it.mu, "this") && L.held(st, it.mu, "this")
		// and not released in between: the lock set at every instruction between read and store contains the mutex
		if ok {
			between, _ := mustPassAfterUntil(rd, st, func(x ssa.Instruction) bool {
				cx, isCall := x.(ssa.CallInstruction)
				if !isCall {
					return false
				}
				if _, isDefer := x.(*ssa.Defer); isDefer {
					return false
				}
				id, op, isLock := P.lockOp(fn, cx.Common())
				return isLock && op == "unlock" && id.Field == it.mu
			})
			ok = between
		}
		R.check(ok, "reload-section", it.fn, P.pos(fn.Pos()), "file read and assignment under one hold of the mutex", "the file is read outside the critical section in which the text is assigned: a post written in between is lost from memory (and from disk with the next post)")
		// a reload that reports success has read the file and replaced the text: no shortcut (cached size, time
		// stamp) decides that "nothing changed"
		if rd != nil && st != nil {
			always := true
			where := ""
			for _, must := range []ssa.Instruction{rd, st} {
				m := must
				if ok2, w, _ := successMustPass(fn, func(x ssa.Instruction) bool { return x == m }); !ok2 {
					always = false
					if w != nil {
						where = P.ipos(w)
					}
				}
			}
			R.check(always, "reload-section", it.fn+": unconditional", P.pos(fn.Pos()), "every successful return has read the file and replaced the text", "Reload can report success without reading the file and replacing the text (return at "+where+"): clients keep being shown the old text although the file was replaced")
		}
	}
	R.floor("reload-section", 4)

	// load-bytes-preserved: the text served is the file's bytes with line breaks swapped, nothing else
	R.rule("load-bytes-preserved", "what Reload / NewAgreement store as the in-memory text is the bytes read from the file passed only through strings.ReplaceAll / bytes.ReplaceAll and string<->[]byte conversions: no rune-wise or otherwise lossy rewriting (bytes that are not valid UTF-8, as in MacRoman texts, stay what they are)")
	for _, it := range []struct{ fn, data string }{
		{"(*mobius.FlatNews).Reload", "mobius.FlatNews.data"},
		{"(*mobius.Agreement).Reload", "mobius.Agreement.data"},
		{"mobius.NewAgreement", "mobius.Agreement.data"},
	} {
		fn := R.mustFn(it.fn)
		if fn == nil {
			continue
		}
		n := 0
		eachInstr(fn, func(ins ssa.Instruction) {
			st, ok := ins.(*ssa.Store)
			if !ok {
				return
			}
			fa, ok := st.Addr.(*ssa.FieldAddr)
			if !ok {
				return
			}
			if f, _ := fieldOf(fa); f != it.data {
				return
			}
			n++
			good, why := bytesPreserved(st.Val, 0)
			R.check(good, "load-bytes-preserved", fmt.Sprintf("%s: store of the text #%d", it.fn, n), P.ipos(st), "file bytes through ReplaceAll and conversions only", "the text kept in memory is not the file's bytes with line breaks swapped: "+why+" — bytes that are not valid UTF-8 are served (and, for the board, written back to the file) changed")
		})
		if n == 0 {
			R.und("load-bytes-preserved", it.fn, P.pos(fn.Pos()), "no store of the in-memory text found")
		}
	}
	R.floor("load-bytes-preserved", 3)

	// post-format: the line-break conversion covers the user's text
	R.rule("post-format", "what the post handler writes to the board, announces and stores is the result of replacing line feeds by carriage returns in the *formatted* post, i.e. the conversion's input contains the request's text")
	if postHandler != nil {
		fn := postHandler
		nW := 0
		for _, ci := range callsIn(fn) {
			c := ci.Common()
			if !(c.IsInvoke() && c.Method.Name() == "Write") {
				continue
			}
			if fl, ok := loadedField(c.Value); !ok || fl != "hotline.Server.MessageBoard" {
				continue
			}
			nW++
			converted := P.derivesAll(c.Args[0], func(x ssa.Value) bool {
				rc, ok := x.(*ssa.Call)
				if !ok || (calleeName(&rc.Call) != "strings.ReplaceAll" && calleeName(&rc.Call) != "bytes.ReplaceAll") {
					return false
				}
				from, _ := constString(stripConv(rc.Call.Args[1]))
				to, _ := constString(stripConv(rc.Call.Args[2]))
				if from != "\n" || to != "\r" {
					return false
				}
				return P.reachesDeep(rc.Call.Args[0], func(y ssa.Value) bool {
					if fa, ok := y.(*ssa.FieldAddr); ok {
						f, _ := fieldOf(fa)
						return f == "hotline.Field.Data"
					}
					return false
				})
			})
			R.check(converted, "post-format", fname(fn)+": text written to the board", P.ipos(ci), "LF→CR conversion applied to the formatted post including the user's text", "the text written to the board is not the LF→CR conversion of the whole formatted post: line feeds in the user's text are stored and served unconverted")
		}
		if nW == 0 {
			R.bad("post-format", fname(fn), P.pos(fn.Pos()), "no write to the message board found")
		}
	}

	R.checkCursor("cursor", func(n string) bool {
		return n == "(*mobius.FlatNews).Read" || n == "(*mobius.Agreement).Read"
	})
	R.floor("cursor", 2)
}

// =====================================================================================================
// C18

func checkC18(R *Run) {
	P := R.P
	R.rule("cursor", "(shared with C01) cursor protocol of NewsArtListData.Read, NewsArtList.Read, NewsCategoryListData15.Read")
	R.rule("layout", "(shared with C01) wire layouts of the three news list records")
	R.rule("persist-on-mutate", "CreateGrouping, DeleteNewsItem, PostArticle and DeleteArticle reach a success return only through writeFile, called with the store mutex held; Load reads the path writeFile renames onto")
	R.rule("news-lockset", "every access to the category / article maps of the threaded news store holds the store mutex (also in helpers called with it held)")
	R.rule("list-order", "GetNewsArtListData sorts the collected articles by numeric ID before encoding them, announces len of what it encodes, and each list entry takes ID, date, parent, title, poster and size from the same article")
	R.rule("post-id", "PostArticle stores the article under max(existing IDs)+1 (1 for an empty category), records the requested parent, links the previous newest article to it, and inserts into the category addressed by the path")

	R.checkCursor("cursor", func(n string) bool { return strings.Contains(n, "News") && strings.HasPrefix(n, "(*hotline.") })
	R.floor("cursor", 3)
	checkLayoutsFiltered(R, func(t string) bool { return strings.Contains(t, "News") })

	L := newLockInfo(P)
	wf := P.fn("(*mobius.ThreadedNewsYAML).writeFile")
	// the persist step: the call of writeFile — or, when its body was moved into a helper with another signature and is
	// found in place, the rename onto the store's file path that it ends with
	isRenameOntoStore := func(ins ssa.Instruction) bool {
		ci, ok := ins.(ssa.CallInstruction)
		if !ok || calleeName(ci.Common()) != "os.Rename" || len(ci.Common().Args) != 2 {
			return false
		}
		return stripRecv(P.sym(ci.Common().Args[1])) == "field:mobius.ThreadedNewsYAML.filePath"
	}
	inlinePersist := false
	if wf == nil {
		for _, m := range []string{"CreateGrouping", "DeleteNewsItem", "PostArticle", "DeleteArticle"} {
			if fn := P.fn("(*mobius.ThreadedNewsYAML)." + m); fn != nil {
				for _, ci := range callsIn(fn) {
					if isRenameOntoStore(ci.(ssa.Instruction)) {
						inlinePersist = true
					}
				}
			}
		}
		if !inlinePersist {
			wf = R.mustFn("(*mobius.ThreadedNewsYAML).writeFile") // reports the missing anchor
		}
	}
	for _, m := range []string{"CreateGrouping", "DeleteNewsItem", "PostArticle", "DeleteArticle"} {
		fn := R.mustFn("(*mobius.ThreadedNewsYAML)." + m)
		if fn == nil || wf == nil && !inlinePersist {
			continue
		}
		R.analysed(fname(fn))
		isWF := func(ins ssa.Instruction) bool {
			if inlinePersist {
				return isRenameOntoStore(ins)
			}
			ci, ok := ins.(ssa.CallInstruction)
			return ok && calleeName(ci.Common()) == "(*mobius.ThreadedNewsYAML).writeFile"
		}
		okAll := true
		why := ""
		passOK, w, nRet := successMustPass(fn, isWF)
		if !passOK {
			okAll = false
			why = "a success return is reachable without writeFile"
			if w != nil {
				why = "a success return at " + P.ipos(w) + " is reachable without writeFile"
			}
		}
		for _, ci := range callsIn(fn) {
			if isWF(ci.(ssa.Instruction)) && !L.held(ci.(ssa.Instruction), "mobius.ThreadedNewsYAML.mu", "this") {
				okAll = false
				why = "writeFile is called without the store mutex"
			}
		}
		R.check(okAll && nRet > 0, "persist-on-mutate", fname(fn), P.pos(fn.Pos()), "every success return passes through writeFile under the mutex", why)
	}
	if wf == nil && inlinePersist {
		wf = P.fn("(*mobius.ThreadedNewsYAML).CreateGrouping") // where the rename onto the store's path is found
	}
	if ld := R.mustFn("(*mobius.ThreadedNewsYAML).Load"); ld != nil && wf != nil {
		reads := false
		for _, ci := range callsIn(ld) {
			if n := calleeName(ci.Common()); n == "os.Open" || n == "os.ReadFile" {
				if stripRecv(P.sym(ci.Common().Args[0])) == "field:mobius.ThreadedNewsYAML.filePath" {
					reads = true
				}
			}
		}
		renames := false
		for _, ci := range callsIn(wf) {
			if calleeName(ci.Common()) == "os.Rename" && stripRecv(P.sym(ci.Common().Args[1])) == "field:mobius.ThreadedNewsYAML.filePath" {
				renames = true
			}
		}
		R.check(reads && renames, "persist-on-mutate", "mobius.ThreadedNewsYAML.Load / writeFile", P.pos(ld.Pos()), "Load reads the path writeFile renames onto", "the loader does not read the file the mutators write")
	}
	// the loader only reads: what a restart loads is what the last acknowledged mutation renamed into place (it never
	// promotes, repairs or removes files — a leftover temp file is a half-written one)
	if ld := R.mustFn("(*mobius.ThreadedNewsYAML).Load"); ld != nil {
		mut := ""
		for f := range P.reachFuncs(ld) {
			if !P.isRepoPkg(pkgOf(f)) {
				continue
			}
			for _, ci := range callsIn(f) {
				switch n := calleeName(ci.Common()); n {
				case "os.Rename", "os.Remove", "os.RemoveAll", "os.WriteFile", "os.Create", "os.Truncate", "os.Symlink", "os.Link":
					mut = n + " at " + P.ipos(ci)
				case "os.OpenFile":
					if fl, ok := constInt(ci.Common().Args[1]); !ok || fl&0x3 != 0 {
						mut = n + " (writable) at " + P.ipos(ci)
					}
				}
			}
		}
		R.check(mut == "", "persist-on-mutate", "mobius.ThreadedNewsYAML.Load: read-only", P.pos(ld.Pos()), "the loader performs no filesystem mutation", "the loader changes the filesystem ("+mut+"): a restart can replace the last acknowledged state by something else (e.g. a temp file a crash left half-written)")
	}
	R.floor("persist-on-mutate", 5)

	// news-lockset
	nAcc := 0
	perField := map[string]int{}
	for _, a := range P.mapAccesses() {
		owner, ok := mapOwnerTable[a.field]
		if !ok || owner != "mobius.ThreadedNewsYAML.mu" {
			continue
		}
		if isFreshAlloc(a.base) {
			continue
		}
		nAcc++
		perField[a.field]++
		R.check(L.heldAnyBase(a.ins, owner), "news-lockset", fmt.Sprintf("%s: %s of %s #%d", fname(a.fn), a.kind, a.field, nAcc), P.ipos(a.ins), "store mutex held", "the news maps are accessed without the store mutex")
	}
	// vacuity guard: the table's map fields still exist and each is accessed somewhere (the number of access sites
	// itself is free to change: folding duplicated traversals into one helper removes sites)
	// (SubCats is only ever reached through a lookup in Categories and is attributed to it)
	for _, f := range []string{"hotline.ThreadedNews.Categories", "hotline.NewsCategoryListData15.Articles"} {
		if perField[f] == 0 {
			R.und("news-lockset", "table: "+f, "-", "no access to this map field was found: the field was renamed or moved and the owner table is stale")
		}
	}
	R.floor("news-lockset", 2) // one site per map field at least (see above); folding traversals into one helper leaves two

	// path resolution (shared with C05) and the persisted shape of the tree
	R.ruleKindTargetAgree()
	R.rule("tree-tags", "the map fields of the persisted news tree (ThreadedNews.Categories, NewsCategoryListData15.Articles / SubCats) are always written: their yaml tags carry no omitempty, so an empty grouping reloads with allocated (non-nil) maps and can be posted into")
	for _, it := range []struct{ typ, field string }{{"ThreadedNews", "Categories"}, {"NewsCategoryListData15", "Articles"}, {"NewsCategoryListData15", "SubCats"}} {
		tn, _ := P.Hot.Pkg.Scope().Lookup(it.typ).(*types.TypeName)
		good, tag := false, "?"
		if tn != nil {
			if st, ok := tn.Type().Underlying().(*types.Struct); ok {
				for i := 0; i < st.NumFields(); i++ {
					if st.Field(i).Name() == it.field {
						tag = reflect.StructTag(st.Tag(i)).Get("yaml")
						good = !strings.Contains(tag, "omitempty") && tag != "-"
					}
				}
			}
		}
		R.check(good, "tree-tags", "hotline."+it.typ+"."+it.field, "hotline/news.go", "yaml tag "+tag, "the map is left out of the file when empty (yaml tag "+tag+"): after a reload it is nil and the next post or create into that grouping panics or is lost")
	}
	R.floor("tree-tags", 3)

	// single-copy: what the store answers comes from the one tree that the mutators change and persist
	R.rule("single-copy", "every value a method of the threaded news store returns is derived from the ThreadedNews tree (or from no store field at all), never from another field of the store: there is no second, separately invalidated copy (memo, cache, index) that can go stale when an ancestor bundle is deleted or the file is reloaded")
	nReaders := 0
	for _, fn := range P.Funcs {
		if fn.Signature.Recv() == nil || len(fn.Params) == 0 || typeName(derefType(fn.Params[0].Type())) != "mobius.ThreadedNewsYAML" || fn.Parent() != nil {
			continue
		}
		res := fn.Signature.Results()
		for i := 0; i < res.Len(); i++ {
			if isErrorType(res.At(i).Type()) {
				continue
			}
			nReaders++
			other := ""
			for _, ret := range returnsOf(fn) {
				if len(ret.Block().Preds) == 0 && ret.Block() != fn.Blocks[0] {
					continue
				}
				P.reaches(retValue(ret, i), func(x ssa.Value) bool {
					fa, ok := x.(*ssa.FieldAddr)
					if !ok {
						return false
					}
					f, _ := fieldOf(fa)
					if strings.HasPrefix(f, "mobius.ThreadedNewsYAML.") && f != "mobius.ThreadedNewsYAML.ThreadedNews" {
						other = f
						return true
					}
					return false
				})
			}
			R.analysed(fname(fn))
			R.check(other == "", "single-copy", fmt.Sprintf("%s: result %d", fname(fn), i), P.pos(fn.Pos()), "derived from the tree only", "the result can come from "+other+", a second copy of the news data kept next to the tree: it is not what the mutators change, so it can show articles that were deleted with an enclosing bundle or before a reload")
		}
	}
	R.floor("single-copy", 4)

	// list-order
	if fn := R.mustFn("(*hotline.NewsCategoryListData15).GetNewsArtListData"); fn != nil {
		R.analysed(fname(fn))
		var sortCall, encodeLoopRead ssa.CallInstruction
		for _, ci := range callsIn(fn) {
			switch calleeName(ci.Common()) {
			case "slices.SortFunc", "sort.Slice", "sort.SliceStable", "slices.SortStableFunc":
				sortCall = ci
			case "io.ReadAll":
				encodeLoopRead = ci
			case "slices.Concat":
				// the entry encoded in place (its encoder expanded here)
				if encodeLoopRead == nil {
					encodeLoopRead = ci
				}
			}
		}
		ok := sortCall != nil && encodeLoopRead != nil && instrDominates(sortCall.(ssa.Instruction), encodeLoopRead.(ssa.Instruction))
		why := "the articles are not sorted before they are encoded"
		// the other way to the same order: the entries are built while walking slices.Sorted(maps.Keys(Articles)) — the
		// numeric IDs in ascending order — and each entry's ID is the key it was built for
		sortedKeys := false
		if !ok {
			for _, ci := range callsIn(fn) {
				sc, isCall := ci.(*ssa.Call)
				if !isCall || calleeName(&sc.Call) != "slices.Sorted" || len(sc.Call.Args) != 1 {
					continue
				}
				kc := callValue(stripConv(sc.Call.Args[0]))
				if kc == nil || calleeName(&kc.Call) != "maps.Keys" || len(kc.Call.Args) != 1 {
					continue
				}
				if f, isF := loadedField(stripConv(kc.Call.Args[0])); !isF || f != "hotline.NewsCategoryListData15.Articles" {
					continue
				}
				for _, cj := range callsIn(fn) {
					c := cj.Common()
					if !strings.HasSuffix(calleeName(c), ".PutUint32") || len(c.Args) < 2 {
						continue
					}
					toID := P.reaches(c.Args[len(c.Args)-2], func(x ssa.Value) bool {
						fa, isFa := x.(*ssa.FieldAddr)
						if !isFa {
							return false
						}
						f, _ := fieldOf(fa)
						return f == "hotline.NewsArtList.ID"
					})
					fromKey := P.reaches(c.Args[len(c.Args)-1], func(x ssa.Value) bool { return x == ssa.Value(sc) })
					if toID && fromKey && instrDominates(sc, cj.(ssa.Instruction)) {
						sortedKeys = true
					}
				}
				// … or the entry's ID field is assigned the encoded key (`ID: [4]byte(AppendUint32(nil, id))`)
				eachInstr(fn, func(ins ssa.Instruction) {
					st, isSt := ins.(*ssa.Store)
					if !isSt {
						return
					}
					fa, isFa := st.Addr.(*ssa.FieldAddr)
					if !isFa {
						return
					}
					if f, _ := fieldOf(fa); f != "hotline.NewsArtList.ID" {
						return
					}
					viaEnc := false
					fromKey := P.reaches(st.Val, func(x ssa.Value) bool {
						if cv := callValue(x); cv != nil && (strings.HasSuffix(calleeName(&cv.Call), ".AppendUint32") || strings.HasSuffix(calleeName(&cv.Call), ".PutUint32")) {
							viaEnc = true
						}
						return x == ssa.Value(sc)
					})
					if fromKey && viaEnc && instrDominates(sc, st) {
						sortedKeys = true
					}
				})
			}
			if sortedKeys {
				ok = true
			}
		}
		if ok && !sortedKeys {
			// comparator compares Uint32 of a.ID and b.ID
			cmpOK := false
			for _, cb := range funcArgsPassed(sortCall) {
				ids := 0
				for _, cj := range callsIn(cb) {
					if n := calleeName(cj.Common()); n == "bytes.Compare" {
						// the IDs are fixed-width big-endian: comparing their bytes is comparing their values
						for _, a := range cj.Common().Args {
							if P.reaches(a, func(x ssa.Value) bool {
								fa, isFa := x.(*ssa.FieldAddr)
								if !isFa {
									return false
								}
								f, _ := fieldOf(fa)
								return f == "hotline.NewsArtList.ID"
							}) {
								ids++
							}
						}
					} else if strings.HasSuffix(n, ".Uint32") {
						if P.reaches(cj.Common().Args[len(cj.Common().Args)-1], func(x ssa.Value) bool {
							fa, isFa := x.(*ssa.FieldAddr)
							if !isFa {
								return false
							}
							f, _ := fieldOf(fa)
							return f == "hotline.NewsArtList.ID"
						}) {
							ids++
						}
					}
				}
				cmpOK = ids == 2
			}
			ok = cmpOK
			why = "the sort comparator does not compare the numeric IDs of the two entries"
		}
		if ok {
			// Count = len(newsArts): the Count field of the result
			cnt := false
			eachInstr(fn, func(ins ssa.Instruction) {
				if st, isSt := ins.(*ssa.Store); isSt {
					if fa, isFa := st.Addr.(*ssa.FieldAddr); isFa {
						if f, _ := fieldOf(fa); f == "hotline.NewsArtListData.Count" {
							if c, isC := stripConv(st.Val).(*ssa.Call); isC && calleeName(&c.Call) == "builtin.len" {
								cnt = true
							}
							// a counter that starts at 0 and is incremented once per encoded entry
							if phi, isPhi := stripConv(st.Val).(*ssa.Phi); isPhi {
								zero, inc := false, false
								for _, e := range phi.Edges {
									if k, isK := constInt(e); isK && k == 0 {
										zero = true
									} else if b, isB := e.(*ssa.BinOp); isB && b.Op == token.ADD && b.X == ssa.Value(phi) {
										if k, isK := constInt(b.Y); isK && k == 1 {
											inc = true
										}
									}
								}
								if zero && inc && len(phi.Edges) == 2 {
									cnt = true
								}
							}
						}
					}
				}
			})
			ok = cnt
			why = "the announced count is not the number of encoded entries"
		}
		if ok {
			// entry fields from the same article
			want := map[string]string{"TimeStamp": "Date", "ParentID": "ParentArt", "Title": "Title", "Poster": "Poster"}
			got := map[string]string{}
			eachInstr(fn, func(ins ssa.Instruction) {
				if st, isSt := ins.(*ssa.Store); isSt {
					if fa, isFa := st.Addr.(*ssa.FieldAddr); isFa {
						f, _ := fieldOf(fa)
						if strings.HasPrefix(f, "hotline.NewsArtList.") {
							P.reaches(st.Val, func(x ssa.Value) bool {
								if fa2, ok2 := x.(*ssa.FieldAddr); ok2 {
									if f2, _ := fieldOf(fa2); strings.HasPrefix(f2, "hotline.NewsArtData.") {
										got[shortField(f)] = shortField(f2)
										return true
									}
								}
								return false
							})
						}
					}
				}
			})
			for k, v := range want {
				if got[k] != v {
					ok = false
					why = fmt.Sprintf("list entry field %s is filled from article field %q, expected %s", k, got[k], v)
				}
			}
		}
		R.check(ok, "list-order", fname(fn), P.pos(fn.Pos()), "sorted by numeric ID, counted, fields from the same article", why)
	}

	// post-id
	if fn := R.mustFn("(*mobius.ThreadedNewsYAML).PostArticle"); fn != nil {
		R.analysed(fname(fn))
		var upd *ssa.MapUpdate
		eachInstr(fn, func(ins ssa.Instruction) {
			if mu, ok := ins.(*ssa.MapUpdate); ok {
				if _, isPtr := mu.Value.Type().Underlying().(*types.Pointer); isPtr && typeName(mu.Value.Type()) == "*hotline.NewsArtData" {
					upd = mu
				}
			}
		})
		ok := upd != nil
		why := "no insertion of the article into the category's article map"
		if ok {
			// key = phi(1, last(sorted keys)+1)
			key := upd.Key
			hasOne, hasMaxPlus1, viaMax := false, false, false
			var phi *ssa.Phi
			if p, isPhi := key.(*ssa.Phi); isPhi {
				phi = p
				for _, e := range p.Edges {
					if k, isK := constInt(stripConv(e)); isK && k == 1 {
						hasOne = true
						continue
					}
					if b, isB := stripConv(e).(*ssa.BinOp); isB && b.Op == token.ADD {
						if k, isK := constInt(b.Y); isK && k == 1 {
							// b.X derives from keys[len(keys)-1] after sort.Ints(keys), or is slices.Max(keys) / max over the keys
							if P.reaches(b.X, func(x ssa.Value) bool {
								ia, isIA := x.(*ssa.IndexAddr)
								if !isIA {
									return false
								}
								sub, isSub := ia.Index.(*ssa.BinOp)
								return isSub && sub.Op == token.SUB
							}) {
								hasMaxPlus1 = true
							}
							if P.reaches(b.X, func(x ssa.Value) bool {
								c, isC := x.(*ssa.Call)
								return isC && (calleeName(&c.Call) == "slices.Max" || calleeName(&c.Call) == "slices.MaxFunc")
							}) {
								hasMaxPlus1, viaMax = true, true
							}
							if isMaxFoldOverKeys(fn, b.X) {
								hasMaxPlus1, viaMax = true, true
							}
						}
					}
				}
			}
			sorted := false
			for _, ci := range callsIn(fn) {
				if n := calleeName(ci.Common()); n == "sort.Ints" || n == "slices.Sort" {
					sorted = true
				}
			}
			ok = phi != nil && hasOne && hasMaxPlus1 && (sorted || viaMax)
			why = "the new article's ID is not 'largest existing ID + 1, or 1 for an empty category'"
		}
		if ok {
			// parent recorded: PutUint32(article.ParentArt, parentArticleID)
			rec := false
			for _, ci := range callsIn(fn) {
				c := ci.Common()
				if putUintWidth(calleeName(c)) == 4 {
					a := c.Args
					if a[len(a)-1] == ssa.Value(fn.Params[2]) {
						if sl, isSl := a[len(a)-2].(*ssa.Slice); isSl {
							if fa, isFa := sl.X.(*ssa.FieldAddr); isFa {
								if f, _ := fieldOf(fa); f == "hotline.NewsArtData.ParentArt" {
									rec = true
								}
							}
						}
					}
				}
			}
			ok = rec
			why = "the requested parent ID is not recorded in the article"
		}
		R.check(ok, "post-id", fname(fn), P.pos(fn.Pos()), "ID = max+1 (or 1), parent recorded", why)
	}
}

func init() {
	register("C14", checkC14)
	register("C18", checkC18)
	register("C19", checkC19)
}

// bytesPreserved: v is the result of os.ReadFile passed only through ReplaceAll and byte/string conversions.
func bytesPreserved(v ssa.Value, depth int) (bool, string) {
	if depth > 12 {
		return false, "derivation too deep"
	}
	switch x := v.(type) {
	case *ssa.Convert:
		return bytesPreserved(x.X, depth+1)
	case *ssa.ChangeType:
		return bytesPreserved(x.X, depth+1)
	case *ssa.Phi:
		for _, e := range x.Edges {
			if ok, why := bytesPreserved(e, depth+1); !ok {
				return false, why
			}
		}
		return true, ""
	case *ssa.Extract:
		if c, ok := x.Tuple.(*ssa.Call); ok && x.Index == 0 {
			if n := calleeName(&c.Call); n == "os.ReadFile" || n == "io.ReadAll" {
				return true, ""
			}
		}
		return false, "derived from " + x.Tuple.Name()
	case *ssa.Call:
		switch calleeName(&x.Call) {
		case "strings.ReplaceAll", "bytes.ReplaceAll":
			return bytesPreserved(x.Call.Args[0], depth+1)
		}
		return false, "passes through " + calleeName(&x.Call)
	case *ssa.UnOp:
		if a, ok := x.X.(*ssa.Alloc); ok && x.Op == token.MUL {
			if val, single := singleStore(a); single {
				return bytesPreserved(val, depth+1)
			}
		}
	}
	return false, "an unrecognised step (" + v.Name() + ")"
}

// bytePairStore finds, in fn, the pair of stores that spell a big-endian uint16 into a two-byte array:
// x[0] = byte(V >> 8) and x[1] = byte(V) on the same array. It returns the two V operands and the block of the
// low-byte store.
func bytePairStore(fn *ssa.Function) (hi, lo ssa.Value, blk *ssa.BasicBlock) {
	type pair struct {
		hi, lo ssa.Value
		blk    *ssa.BasicBlock
	}
	byBase := map[ssa.Value]*pair{}
	eachInstr(fn, func(ins ssa.Instruction) {
		st, ok := ins.(*ssa.Store)
		if !ok {
			return
		}
		ia, ok := st.Addr.(*ssa.IndexAddr)
		if !ok {
			return
		}
		arr, ok := derefType(ia.X.Type()).Underlying().(*types.Array)
		if !ok || arr.Len() != 2 {
			return
		}
		idx, ok := constInt(ia.Index)
		if !ok {
			return
		}
		cv, ok := st.Val.(*ssa.Convert)
		if !ok {
			return
		}
		p := byBase[ia.X]
		if p == nil {
			p = &pair{}
			byBase[ia.X] = p
		}
		switch idx {
		case 0:
			if sh, ok := cv.X.(*ssa.BinOp); ok && sh.Op == token.SHR {
				if k, ok := constInt(sh.Y); ok && k == 8 {
					p.hi = sh.X
				}
			}
		case 1:
			p.lo, p.blk = cv.X, st.Block()
		}
	})
	for _, p := range byBase {
		if p.hi != nil && p.lo != nil {
			return blockLocalValue(p.hi), blockLocalValue(p.lo), p.blk
		}
	}
	return nil, nil, nil
}

// blockLocalValue: a load of a cell that the same block stored into just before (no call in between) denotes the
// stored value; two such loads of one cell are then the same value.
func blockLocalValue(v ssa.Value) ssa.Value {
	ld, ok := v.(*ssa.UnOp)
	if !ok || ld.Op != token.MUL || ld.Block() == nil {
		return v
	}
	instrs := ld.Block().Instrs
	at := -1
	for i, ins := range instrs {
		if ins == ssa.Instruction(ld) {
			at = i
		}
	}
	blk := ld.Block()
	for depth := 0; depth < 4; depth++ {
		for i := at - 1; i >= 0; i-- {
			switch x := instrs[i].(type) {
			case *ssa.Store:
				if x.Addr == ld.X {
					return x.Val
				}
			case ssa.CallInstruction:
				return v
			}
		}
		// nothing in this block: the block before it, when there is exactly one way in
		if len(blk.Preds) != 1 {
			return v
		}
		blk = blk.Preds[0]
		instrs = blk.Instrs
		at = len(instrs)
	}
	return v
}

// bytePairInto: the value V whose big-endian bytes the two stores base[0] = byte(V>>8), base[1] = byte(V) spell
// into the given two-byte array, and the low-byte store; nil when base is not written that way.
func bytePairInto(fn *ssa.Function, base ssa.Value) (ssa.Value, *ssa.Store) {
	var hi, lo ssa.Value
	var loStore *ssa.Store
	eachInstr(fn, func(ins ssa.Instruction) {
		st, ok := ins.(*ssa.Store)
		if !ok {
			return
		}
		ia, ok := st.Addr.(*ssa.IndexAddr)
		if !ok || ia.X != base {
			return
		}
		idx, ok := constInt(ia.Index)
		cv, isCv := st.Val.(*ssa.Convert)
		if !ok || !isCv {
			return
		}
		switch idx {
		case 0:
			if sh, ok := cv.X.(*ssa.BinOp); ok && sh.Op == token.SHR {
				if k, ok := constInt(sh.Y); ok && k == 8 {
					hi = sh.X
				}
			}
		case 1:
			lo, loStore = cv.X, st
		}
	})
	if hi != nil && lo != nil && stripConv(blockLocalValue(hi)) == stripConv(blockLocalValue(lo)) {
		return blockLocalValue(lo), loStore
	}
	return nil, nil
}

// isMaxFoldOverKeys: v is the result of a hand-written maximum over the keys of a ranged map —
// `for id := range m { if [!found ||] id > best { best = id } }`: a loop-carried value that is only ever replaced by
// the range key, on the branch where the key compares greater than it.
func isMaxFoldOverKeys(fn *ssa.Function, v ssa.Value) bool {
	// the phis the value is made of
	phis := map[*ssa.Phi]bool{}
	var collect func(x ssa.Value, d int)
	collect = func(x ssa.Value, d int) {
		x = stripConv(x)
		p, ok := x.(*ssa.Phi)
		if !ok || phis[p] || d > 6 {
			return
		}
		phis[p] = true
		for _, e := range p.Edges {
			collect(e, d+1)
		}
	}
	collect(v, 0)
	if len(phis) == 0 {
		return false
	}
	isKey := func(x ssa.Value) bool {
		ex, ok := stripConv(x).(*ssa.Extract)
		if !ok || ex.Index != 1 {
			return false
		}
		nx, ok := ex.Tuple.(*ssa.Next)
		if !ok {
			return false
		}
		rg, ok := nx.Iter.(*ssa.Range)
		if !ok {
			return false
		}
		_, isMap := rg.X.Type().Underlying().(*types.Map)
		return isMap
	}
	inPhis := func(x ssa.Value) bool {
		p, ok := stripConv(x).(*ssa.Phi)
		return ok && phis[p]
	}
	// every non-phi operand of those phis is the range key or the initial zero
	keyIn := false
	for p := range phis {
		for _, e := range p.Edges {
			e = stripConv(e)
			if _, isPhi := e.(*ssa.Phi); isPhi {
				continue
			}
			if isKey(e) {
				keyIn = true
				continue
			}
			if k, isK := constInt(e); isK && k == 0 {
				continue
			}
			return false
		}
	}
	if !keyIn {
		return false
	}
	// … and the key is taken on the branch where it is greater — whenever it is greater: between taking the next key and
	// the comparison no other test decides (only "is there a next key" and a found-so-far flag)
	onlyFoldTests := func(cmp *ssa.BinOp) bool {
		for d := cmp.Block().Idom(); d != nil; d = d.Idom() {
			if len(d.Instrs) == 0 {
				continue
			}
			iff, isIf := d.Instrs[len(d.Instrs)-1].(*ssa.If)
			if !isIf {
				continue
			}
			cond := iff.Cond
			if u, isU := cond.(*ssa.UnOp); isU && u.Op == token.NOT {
				cond = u.X
			}
			if ex, isEx := cond.(*ssa.Extract); isEx && ex.Index == 0 {
				if _, isNext := ex.Tuple.(*ssa.Next); isNext {
					return true // reached the head of the loop
				}
			}
			if ph, isPhi := cond.(*ssa.Phi); isPhi {
				if bt, isB := ph.Type().Underlying().(*types.Basic); isB && bt.Info()&types.IsBoolean != 0 {
					continue // the found-so-far flag
				}
			}
			return false
		}
		return false
	}
	greater := false
	eachInstr(fn, func(ins ssa.Instruction) {
		b, ok := ins.(*ssa.BinOp)
		if !ok {
			return
		}
		switch b.Op {
		case token.GTR:
			if isKey(b.X) && inPhis(b.Y) && onlyFoldTests(b) {
				greater = true
			}
		case token.LSS:
			if inPhis(b.X) && isKey(b.Y) && onlyFoldTests(b) {
				greater = true
			}
		}
		if (b.Op == token.LSS && isKey(b.X) && inPhis(b.Y)) || (b.Op == token.GTR && inPhis(b.X) && isKey(b.Y)) {
			greater = false // a minimum
		}
	})
	return greater
}
