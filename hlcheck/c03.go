package main

// c03.go — C03: hostile input is contained to the offending connection (structural part).

import (
	"fmt"
	"go/token"
	"go/types"
	"sort"
	"strings"

	"golang.org/x/tools/go/ssa"
)

// map fields of structs without their own mutex: the lock that owns them
var mapOwnerTable = map[string]string{
	"hotline.ThreadedNews.Categories":         "mobius.ThreadedNewsYAML.mu",
	"hotline.NewsCategoryListData15.Articles": "mobius.ThreadedNewsYAML.mu",
	"hotline.NewsCategoryListData15.SubCats":  "mobius.ThreadedNewsYAML.mu",
	"hotline.PrivateChat.ClientConn":          "hotline.MemChatManager.mu",
}

// map fields that are written during set-up only (never from a goroutine started by the server)
var setupOnlyMaps = map[string]bool{
	"hotline.Server.handlers": true,
}

// the partial client library is not part of the server process
func isClientLibrary(fn *ssa.Function) bool {
	n := fname(rootFn(fn))
	return strings.HasPrefix(n, "(*hotline.Client).") || n == "hotline.NewClient" || n == "hotline.NewUIClient" || strings.HasPrefix(n, "hotline.GetListing")
}

type mapAccess struct {
	fn    *ssa.Function
	ins   ssa.Instruction
	field string
	base  ssa.Value
	kind  string
}

// mapAccesses enumerates lookups, updates, deletes and ranges on maps loaded from struct fields.
func (P *Prog) mapAccesses() []mapAccess {
	var out []mapAccess
	fieldOfMap := func(v ssa.Value) (string, ssa.Value, bool) {
		v = stripConv(v)
		if u, ok := v.(*ssa.UnOp); ok {
			if fa, ok := u.X.(*ssa.FieldAddr); ok {
				if _, isMap := derefType(fa.Type()).Underlying().(*types.Map); isMap {
					f, _ := fieldOf(fa)
					return f, fa.X, true
				}
			}
		}
		if f, ok := v.(*ssa.Field); ok {
			if _, isMap := f.Type().Underlying().(*types.Map); isMap {
				n, _ := fieldOf(f)
				return n, f.X, true
			}
		}
		// nested: chats[id] (lookup) then .ClientConn — handled by the first case on the inner FieldAddr
		// map element that is itself a map: transfers[type][id]
		if l, ok := v.(*ssa.Lookup); ok {
			if _, isMap := l.Type().Underlying().(*types.Map); isMap {
				if f, b, ok := fieldOfMapInner(l); ok {
					return f, b, true
				}
			}
		}
		// a map value that travelled through locals / phis / struct values taken out of another map
		var f string
		var b ssa.Value
		seen := map[ssa.Value]bool{}
		var walk func(x ssa.Value)
		walk = func(x ssa.Value) {
			if x == nil || seen[x] || f != "" {
				return
			}
			seen[x] = true
			x = stripConv(x)
			switch y := x.(type) {
			case *ssa.Phi:
				for _, e := range y.Edges {
					walk(e)
				}
			case *ssa.UnOp:
				if fa, ok := y.X.(*ssa.FieldAddr); ok {
					if _, isMap := derefType(fa.Type()).Underlying().(*types.Map); isMap {
						f, _ = fieldOf(fa)
						b = fa.X
					}
				}
			case *ssa.Field:
				if _, isMap := y.Type().Underlying().(*types.Map); isMap {
					f, _ = fieldOf(y)
					b = y.X
				}
			case *ssa.Extract:
				walk(y.Tuple)
			case *ssa.Lookup:
				walk(y.X)
			}
		}
		walk(v)
		if f != "" {
			return f, b, true
		}
		return "", nil, false
	}
	for _, fn := range P.Funcs {
		eachInstr(fn, func(ins ssa.Instruction) {
			switch x := ins.(type) {
			case *ssa.Lookup:
				if _, isMap := x.X.Type().Underlying().(*types.Map); isMap {
					if f, b, ok := fieldOfMap(x.X); ok {
						out = append(out, mapAccess{fn, ins, f, b, "lookup"})
					}
				}
			case *ssa.MapUpdate:
				if f, b, ok := fieldOfMap(x.Map); ok {
					out = append(out, mapAccess{fn, ins, f, b, "update"})
				}
			case *ssa.Range:
				if _, isMap := x.X.Type().Underlying().(*types.Map); isMap {
					if f, b, ok := fieldOfMap(x.X); ok {
						out = append(out, mapAccess{fn, ins, f, b, "range"})
					}
				}
			case *ssa.Call:
				if calleeName(&x.Call) == "builtin.delete" {
					if f, b, ok := fieldOfMap(x.Call.Args[0]); ok {
						out = append(out, mapAccess{fn, ins, f, b, "delete"})
					}
				}
			}
		})
	}
	return out
}

func fieldOfMapInner(l *ssa.Lookup) (string, ssa.Value, bool) {
	v := stripConv(l.X)
	if u, ok := v.(*ssa.UnOp); ok {
		if fa, ok := u.X.(*ssa.FieldAddr); ok {
			f, _ := fieldOf(fa)
			return f, fa.X, true
		}
	}
	return "", nil, false
}

// ownerMutexes: mutex fields of the struct that declares a field.
func (P *Prog) ownerMutexes(field string) []string {
	i := strings.LastIndex(field, ".")
	typ := field[:i]
	var out []string
	for _, named := range P.named {
		if shortName(named.Obj().Pkg().Path()+"."+named.Obj().Name()) != typ {
			continue
		}
		st, ok := named.Underlying().(*types.Struct)
		if !ok {
			continue
		}
		for j := 0; j < st.NumFields(); j++ {
			tn := typeName(st.Field(j).Type())
			if tn == "sync.Mutex" || tn == "sync.RWMutex" {
				out = append(out, typ+"."+st.Field(j).Name())
			}
		}
	}
	return out
}

func checkC03(R *Run) {
	P := R.P
	R.rule("recover-entry", "the two per-connection entry functions defer dontPanic as their first call, directly (not wrapped in a closure), and dontPanic calls recover() in its own body; every registered handler and transfer handler is only reachable below those entry functions")
	R.rule("go-panic", "no function reachable from a `go` statement whose target is not recover-guarded contains an explicit panic or an unchecked type assertion on a non-constant interface value (an unrecovered panic in such a goroutine terminates the process)")
	R.rule("map-lockset", "every lookup/store/delete/range on a map held in a struct field (outside the constructor that allocates the struct, and outside the client library) is executed with a mutex of the owning struct held on the same object; maps of lock-less structs are owned by the lock named in the owner table; set-up-only maps are never written from code reachable from a goroutine")
	R.rule("lock-release", "every Lock/RLock is immediately followed by the matching deferred Unlock, or is released on every path to the function's exit before the lock can be taken again; the 'acquired while holding' graph over mutex fields is acyclic")
	R.rule("pairing", "every increment of a gauge (a Stats key that is decremented somewhere) is followed in the same block by a defer that decrements the same key; the transfer looked up by handleFileTransfer is deleted by a defer registered before the transfer is served; the registration of a connection is followed by a deferred Disconnect")
	R.rule("reg-implies-auth", "in the login sequence ClientManager.Add is only reachable after Authenticate returned true and on the edge where the connection's Account is not nil")

	// ---- recover-entry
	for _, n := range []string{"(*hotline.Server).handleNewConnection", "(*hotline.Server).handleFileTransfer"} {
		fn := R.mustFn(n)
		if fn == nil {
			continue
		}
		R.analysed(n)
		ok := false
		why := "the first call is not `defer dontPanic(...)`"
		for _, ins := range fn.Blocks[0].Instrs {
			ci, isCall := ins.(ssa.CallInstruction)
			if !isCall {
				continue
			}
			if d, isDefer := ins.(*ssa.Defer); isDefer && calleeName(&d.Call) == "hotline.dontPanic" {
				ok = true
			} else {
				why = "the first call is " + calleeName(ci.Common()) + ", not `defer dontPanic(...)`"
			}
			break
		}
		R.check(ok, "recover-entry", n, P.pos(fn.Pos()), "defers dontPanic before anything else", why)
	}
	if dp := R.mustFn("hotline.dontPanic"); dp != nil {
		direct := false
		for _, ci := range callsIn(dp) {
			if calleeName(ci.Common()) == "builtin.recover" {
				direct = true
			}
		}
		R.check(direct, "recover-entry", "hotline.dontPanic", P.pos(dp.Pos()), "calls recover() in its own body", "dontPanic does not call recover() directly in its own body (recover only stops a panic when called directly by the deferred function)")
	}
	// handlers only below the entry functions
	{
		entrySet := map[*ssa.Function]bool{}
		for _, n := range []string{"(*hotline.Server).handleNewConnection", "(*hotline.Server).handleFileTransfer"} {
			if f := P.fn(n); f != nil {
				entrySet[f] = true
			}
		}
		var subjects []*ssa.Function
		for _, reg := range R.registeredHandlers() {
			subjects = append(subjects, reg.Fn)
		}
		for _, n := range []string{"hotline.DownloadHandler", "hotline.UploadHandler", "hotline.DownloadFolderHandler", "hotline.UploadFolderHandler", "(*hotline.ClientConn).handleTransaction"} {
			if f := P.fn(n); f != nil {
				subjects = append(subjects, f)
			}
		}
		bad := 0
		isSubjectFn := func(f *ssa.Function) bool {
			for _, s2 := range subjects {
				if s2 == f {
					return true
				}
			}
			return entrySet[f] || fname(f) == "(*hotline.ClientConn).handleTransaction" || f.Pkg != nil && f.Pkg.Pkg.Path() == cmdPath
		}
		// a function literal of a package-level table is not run by the package initialiser it is written in: it runs
		// where the table's function values are called
		var tableLitGuarded func(lit *ssa.Function, depth int) bool
		tableLitGuarded = func(lit *ssa.Function, depth int) bool {
			if depth > 3 {
				return false
			}
			for _, ci2 := range P.callers[lit] {
				c2 := ci2.Parent()
				if c2.Parent() != nil && rootFn(c2).Name() == "init" {
					if !tableLitGuarded(c2, depth+1) {
						return false
					}
					continue
				}
				if !isSubjectFn(rootFn(c2)) {
					return false
				}
			}
			return true
		}
		for _, s := range subjects {
			for _, ci := range P.callers[s] {
				caller := rootFn(ci.Parent())
				if entrySet[caller] || fname(caller) == "(*hotline.ClientConn).handleTransaction" {
					continue
				}
				if ci.Parent().Parent() != nil && caller.Name() == "init" && caller.Signature.Recv() == nil && tableLitGuarded(ci.Parent(), 0) {
					continue
				}
				if caller.Pkg != nil && caller.Pkg.Pkg.Path() == cmdPath {
					continue
				}
				// callers that are themselves subjects are fine
				isSubject := false
				for _, s2 := range subjects {
					if s2 == caller {
						isSubject = true
					}
				}
				if isSubject {
					continue
				}
				bad++
				R.bad("recover-entry", fname(s)+" called from "+fname(caller), P.ipos(ci), "code that parses client bytes is called from outside the recover-guarded connection entry functions")
			}
		}
		if bad == 0 {
			R.ok("recover-entry", "handlers below the guarded entries", "-", fmt.Sprintf("%d handler/transfer functions are only called from the guarded entry functions", len(subjects)))
		}
	}

	// ---- go-panic
	guarded := func(fn *ssa.Function) bool {
		if fn == nil || len(fn.Blocks) == 0 {
			return false
		}
		for _, ins := range fn.Blocks[0].Instrs {
			if d, ok := ins.(*ssa.Defer); ok {
				if calleeName(&d.Call) == "hotline.dontPanic" {
					return true
				}
			}
		}
		return false
	}
	nGo := 0
	for _, fn := range P.Funcs {
		if isClientLibrary(fn) || (fn.Pkg != nil && fn.Pkg.Pkg.Path() == cmdPath) {
			continue
		}
		eachInstr(fn, func(ins ssa.Instruction) {
			g, ok := ins.(*ssa.Go)
			if !ok {
				return
			}
			nGo++
			targets := append(P.callees(g), funcArgsPassed(g)...)
			var findings []string
			seen := map[*ssa.Function]bool{}
			var walk func(f *ssa.Function, chain []string)
			walk = func(f *ssa.Function, chain []string) {
				if f == nil || seen[f] || f.Blocks == nil || guarded(f) {
					return
				}
				seen[f] = true
				eachInstr(f, func(i2 ssa.Instruction) {
					switch y := i2.(type) {
					case *ssa.Panic:
						if !y.Pos().IsValid() {
							return // compiler-generated (e.g. "blocking select matched no case"), not reachable
						}
						findings = append(findings, fmt.Sprintf("explicit panic at %s (%s)", P.ipos(y), strings.Join(append(chain, fname(f)), " → ")))
					case *ssa.TypeAssert:
						if !y.CommaOk {
							// assertion on the listener's address type is not client-controlled; report assertions on other values
							if c := callValue(y.X); c != nil && c.Call.IsInvoke() && c.Call.Method.Name() == "RemoteAddr" {
								return
							}
							if c := callValue(y.X); c != nil && (calleeName(&c.Call) == "(context.Context).Value") {
								return
							}
							findings = append(findings, fmt.Sprintf("unchecked type assertion at %s (%s)", P.ipos(y), strings.Join(append(chain, fname(f)), " → ")))
						}
					}
				})
				for _, ci := range callsIn(f) {
					if _, isGo := ci.(*ssa.Go); isGo {
						continue
					}
					for _, c := range append(P.callees(ci), funcArgsPassed(ci)...) {
						walk(c, append(chain, fname(f)))
					}
				}
			}
			for _, t := range targets {
				walk(t, nil)
			}
			tname := "dynamic"
			if len(targets) > 0 {
				tname = fname(targets[0])
			}
			R.check(len(findings) == 0, "go-panic", fmt.Sprintf("%s: go %s #%d", fname(fn), tname, nGo), P.ipos(g),
				fmt.Sprintf("%d functions reachable without recover guard, no panic site", len(seen)), strings.Join(findings, "; "))
		})
	}
	R.floor("go-panic", 10)
	R.ruleEncoderSliceGuard()
	R.ruleAcceptLoopSurvives()

	// ---- map-lockset
	L := newLockInfo(P)
	accesses := P.mapAccesses()
	fromGo := P.reachFromGo()
	nAcc := 0
	byField := map[string]int{}
	for _, a := range accesses {
		if isClientLibrary(a.fn) || (a.fn.Pkg != nil && a.fn.Pkg.Pkg.Path() == cmdPath) {
			continue
		}
		if !strings.HasPrefix(a.field, "hotline.") && !strings.HasPrefix(a.field, "mobius.") {
			continue
		}
		if strings.HasPrefix(a.field, "hotline.Client.") {
			continue
		}
		// constructors: the base is a fresh allocation in this function
		if al, ok := a.base.(*ssa.Alloc); ok && al.Heap || isFreshAlloc(a.base) {
			continue
		}
		nAcc++
		byField[a.field]++
		R.analysed(fname(a.fn))
		construct := fmt.Sprintf("%s: %s of %s #%d", fname(a.fn), a.kind, a.field, byField[a.field])
		if setupOnlyMaps[a.field] {
			if a.kind == "update" || a.kind == "delete" {
				R.check(!fromGo[rootFn(a.fn)], "map-lockset", construct, P.ipos(a.ins), "set-up only write (not reachable from a goroutine)", "a map that has no lock is written from code reachable from a goroutine")
			} else {
				R.ok("map-lockset", construct, P.ipos(a.ins), "read of a set-up-only map")
			}
			continue
		}
		var wantLocks []string
		base := P.baseName(a.fn, a.base)
		if owner, ok := mapOwnerTable[a.field]; ok {
			wantLocks = []string{owner}
			held := L.heldAnyBase(a.ins, owner)
			R.check(held, "map-lockset", construct, P.ipos(a.ins), "owner lock "+owner+" held", fmt.Sprintf("the map is accessed without %s held (held: %v)", owner, L.at[a.ins].names()))
			continue
		}
		wantLocks = P.ownerMutexes(a.field)
		if len(wantLocks) == 0 {
			if fromGo[rootFn(a.fn)] {
				R.bad("map-lockset", construct, P.ipos(a.ins), "the struct that holds this map has no mutex at all and the access runs in a goroutine: concurrent connections make this a fatal 'concurrent map read and map write'")
			} else {
				R.und("map-lockset", construct, P.ipos(a.ins), "map field of a struct without a mutex and without an entry in the owner table: cannot tell which lock protects it")
			}
			continue
		}
		held := false
		for _, w := range wantLocks {
			if L.held(a.ins, w, base) {
				held = true
			}
		}
		R.check(held, "map-lockset", construct, P.ipos(a.ins), "mutex of the owning struct held on the same object",
			fmt.Sprintf("the map is accessed without a mutex of its struct (%s) held on %s (held: %v): concurrent connections make this a fatal 'concurrent map read and map write'", strings.Join(wantLocks, " / "), base, L.at[a.ins].names()))
	}
	R.floor("map-lockset", 40)
	var fields []string
	for f, n := range byField {
		fields = append(fields, fmt.Sprintf("%s×%d", f, n))
	}
	sort.Strings(fields)
	R.note("map accesses checked: " + strings.Join(fields, ", ") + ".")

	// ---- lock-release
	var guardedRoots []*ssa.Function
	for _, n := range []string{"(*hotline.Server).handleNewConnection", "(*hotline.Server).handleFileTransfer"} {
		if f := P.fn(n); f != nil {
			guardedRoots = append(guardedRoots, f)
		}
	}
	for _, reg := range R.registeredHandlers() {
		guardedRoots = append(guardedRoots, reg.Fn)
	}
	guardedReach := P.reachFuncs(guardedRoots...)
	nLocks := 0
	orderEdges := map[string]map[string]string{}
	for _, fn := range P.Funcs {
		if isClientLibrary(fn) {
			continue
		}
		for _, b := range fn.Blocks {
			for i, ins := range b.Instrs {
				ci, ok := ins.(ssa.CallInstruction)
				if !ok {
					continue
				}
				if _, isDefer := ins.(*ssa.Defer); isDefer {
					continue
				}
				id, op, ok := P.lockOp(fn, ci.Common())
				if !ok || op != "lock" {
					continue
				}
				nLocks++
				// lock order edges
				for h := range L.at[ins] {
					if h.Field == id.Field && h.Base == id.Base {
						R.bad("lock-release", fmt.Sprintf("%s: re-lock of %s", fname(fn), id.Field), P.ipos(ins), "the mutex is locked while this function (or its caller) already holds it: self-deadlock")
						continue
					}
					if orderEdges[h.Field] == nil {
						orderEdges[h.Field] = map[string]string{}
					}
					orderEdges[h.Field][id.Field] = P.ipos(ins)
				}
				// idiom 1: next call instruction is the matching deferred unlock
				deferred := false
				for j := i + 1; j < len(b.Instrs); j++ {
					if cj, ok := b.Instrs[j].(ssa.CallInstruction); ok {
						if d, isDefer := b.Instrs[j].(*ssa.Defer); isDefer {
							if id2, op2, ok2 := P.lockOp(fn, &d.Call); ok2 && op2 == "unlock" && id2 == id {
								deferred = true
							}
						}
						_ = cj
						break
					}
				}
				construct := fmt.Sprintf("%s: Lock %s #%d", fname(fn), id.Field, nthLock(fn, ins))
				if deferred {
					R.ok("lock-release", construct, P.ipos(ins), "followed by the matching deferred unlock")
					continue
				}
				// idiom 2: released on every path before exit / before being taken again
				ok2, ret := mustPassAfter(ins, func(x ssa.Instruction) bool {
					cx, isCall := x.(ssa.CallInstruction)
					if !isCall {
						return false
					}
					if _, isDefer := x.(*ssa.Defer); isDefer {
						return false
					}
					id3, op3, ok3 := P.lockOp(fn, cx.Common())
					return ok3 && op3 == "unlock" && id3 == id
				})
				relock := reachesWithoutUnlock(P, fn, ins, id)
				why := "the lock is not released on every path"
				if ret != nil {
					why += " (return at " + P.ipos(ret) + ")"
				}
				if relock {
					why += "; it can be taken again while still held"
				}
				// every release is a call that was deferred in a helper the normalised view expanded: it ran on a panic too
				viaLowered, _ := mustPassAfter(ins, func(x ssa.Instruction) bool {
					cx, isCall := x.(ssa.CallInstruction)
					if !isCall || !P.loweredDefer(x) {
						return false
					}
					id3, op3, ok3 := P.lockOp(fn, cx.Common())
					return ok3 && op3 == "unlock" && id3 == id
				})
				if ok2 && !relock && !viaLowered && guardedReach[rootFn(fn)] {
					if pi := mayPanicInSection(P, fn, ins, id); pi != nil {
						ok2 = false
						why = "the section between this Lock and its explicit Unlock contains an operation that can panic at " + P.ipos(pi) + " (" + describePanicSite(pi) + "); the connection's recover swallows the panic but the mutex stays locked, so every later caller blocks forever — use defer Unlock or make the section panic-free"
					}
				}
				R.check(ok2 && !relock, "lock-release", construct, P.ipos(ins), "released on every path before the function exits or locks again; the explicitly unlocked section cannot panic", why)
			}
		}
	}
	R.floor("lock-release", 40)
	R.ruleGoNilCapture(guardedReach)
	R.ruleLockCopy()
	// cycle detection
	{
		cyc := ""
		var visit func(n string, stack []string, seen map[string]bool)
		visit = func(n string, stack []string, seen map[string]bool) {
			for m := range orderEdges[n] {
				for _, s := range stack {
					if s == m {
						cyc = strings.Join(append(stack, n, m), " → ")
					}
				}
				if !seen[m] {
					seen[m] = true
					visit(m, append(stack, n), seen)
				}
			}
		}
		for n := range orderEdges {
			visit(n, nil, map[string]bool{})
		}
		var edges []string
		for a, m := range orderEdges {
			for b := range m {
				edges = append(edges, a+" → "+b)
			}
		}
		sort.Strings(edges)
		R.check(cyc == "", "lock-release", "lock-order graph", "-", "acyclic: "+strings.Join(edges, ", "), "cycle in the 'acquired while holding' graph: "+cyc)
	}

	// ---- pairing
	{
		// gauge keys: constants passed to Stats.Decrement anywhere
		gauge := map[int64]bool{}
		for _, fn := range P.Funcs {
			for _, ci := range callsIn(fn) {
				n := calleeName(ci.Common())
				if n == "(hotline.Counter).Decrement" || n == "(*hotline.Stats).Decrement" {
					for _, a := range callArgsFlat(ci.Common()) {
						if k, ok := constInt(a); ok {
							gauge[k] = true
						}
					}
				}
			}
		}
		decrements := func(f *ssa.Function, key int64) bool {
			found := false
			for g := range P.reachFuncs(f) {
				for _, ci := range callsIn(g) {
					n := calleeName(ci.Common())
					if n == "(hotline.Counter).Decrement" || n == "(*hotline.Stats).Decrement" {
						for _, a := range callArgsFlat(ci.Common()) {
							if k, ok := constInt(a); ok && k == key {
								found = true
							}
						}
					}
				}
			}
			return found
		}
		nInc := 0
		nTable := 0
		for _, fn := range P.Funcs {
			for _, b := range fn.Blocks {
				for i, ins := range b.Instrs {
					ci, ok := ins.(ssa.CallInstruction)
					if !ok {
						continue
					}
					n := calleeName(ci.Common())
					if n != "(hotline.Counter).Increment" && n != "(*hotline.Stats).Increment" {
						continue
					}
					if _, isDefer := ins.(*ssa.Defer); isDefer {
						continue
					}
					// keys that are not constants (taken from a table): the very next call must be a deferred Decrement
					// of one of the same values (compared as expressions: the same field of the same table entry)
					for _, a := range callArgsFlat(ci.Common()) {
						if _, isC := constInt(a); isC {
							continue
						}
						key := cellSym(P, a)
						var nextDefer *ssa.Defer
						for j := i + 1; j < len(b.Instrs); j++ {
							if _, isCall := b.Instrs[j].(ssa.CallInstruction); isCall {
								nextDefer, _ = b.Instrs[j].(*ssa.Defer)
								break
							}
						}
						if nextDefer == nil {
							continue // a pure counter among the keys (or no defer at all: decided by the other keys)
						}
						found := false
						check := func(c *ssa.CallCommon) {
							dn := calleeName(c)
							if dn == "(hotline.Counter).Decrement" || dn == "(*hotline.Stats).Decrement" {
								for _, a2 := range callArgsFlat(c) {
									if cellSym(P, a2) == key {
										found = true
									}
								}
							}
						}
						check(&nextDefer.Call)
						for _, t := range P.callees(nextDefer) {
							for g := range P.reachFuncs(t) {
								for _, cj := range callsIn(g) {
									check(cj.Common())
								}
							}
						}
						if found {
							nInc++
							nTable++
							R.ok("pairing", fmt.Sprintf("%s: gauge %s incremented #%d", fname(fn), key, nInc), P.ipos(ins), "next call is a defer that decrements the same table value")
						}
					}
					for _, a := range callArgsFlat(ci.Common()) {
						k, isC := constInt(a)
						if !isC || !gauge[k] {
							continue
						}
						nInc++
						paired := false
						for j := i + 1; j < len(b.Instrs); j++ {
							cj, isCall := b.Instrs[j].(ssa.CallInstruction)
							if !isCall {
								continue
							}
							if d, isDefer := b.Instrs[j].(*ssa.Defer); isDefer {
								// direct deferred Decrement(key) or a closure doing it
								dn := calleeName(&d.Call)
								if dn == "(hotline.Counter).Decrement" || dn == "(*hotline.Stats).Decrement" {
									for _, a2 := range callArgsFlat(&d.Call) {
										if k2, ok := constInt(a2); ok && k2 == k {
											paired = true
										}
									}
								}
								for _, t := range P.callees(d) {
									if decrements(t, k) {
										paired = true
									}
								}
							}
							_ = cj
							break
						}
						R.check(paired, "pairing", fmt.Sprintf("%s: gauge %d incremented #%d", fname(fn), k, nInc), P.ipos(ins), "next call is a defer that decrements it", "a gauge is incremented without the matching decrement being deferred immediately (a panic or early return leaves the counter too high)")
					}
				}
			}
		}
		// (one table-driven increment stands for all the entries of its table)
		if nInc < 5 && !(nTable > 0 && nInc >= 2) {
			R.bad("pairing", "gauge increments", "-", fmt.Sprintf("%d gauge increments found, 5 confirmed on the reference tree", nInc))
		}
		// transfer deletion
		if fn := P.fn("(*hotline.Server).handleFileTransfer"); fn != nil {
			var get ssa.CallInstruction
			var delDefer ssa.Instruction
			var firstServe ssa.Instruction
			for _, b := range fn.Blocks {
				for _, ins := range b.Instrs {
					ci, ok := ins.(ssa.CallInstruction)
					if !ok {
						continue
					}
					n := calleeName(ci.Common())
					if n == "(hotline.FileTransferMgr).Get" {
						get = ci
					}
					if d, isDefer := ins.(*ssa.Defer); isDefer {
						for _, t := range P.callees(d) {
							for g := range P.reachFuncs(t) {
								for _, cj := range callsIn(g) {
									if calleeName(cj.Common()) == "(hotline.FileTransferMgr).Delete" {
										delDefer = ins
									}
								}
							}
						}
					}
					switch n {
					case "hotline.DownloadHandler", "hotline.UploadHandler", "hotline.DownloadFolderHandler", "hotline.UploadFolderHandler", "hotline.ReadPath":
						if firstServe == nil {
							firstServe = ins
						}
					}
				}
			}
			ok := get != nil && delDefer != nil && firstServe != nil && instrDominates(get.(ssa.Instruction), delDefer) && instrDominates(delDefer, firstServe)
			R.check(ok, "pairing", "(*hotline.Server).handleFileTransfer: transfer deletion", P.pos(fn.Pos()), "Get → defer Delete → serve", "the looked-up transfer is not removed by a defer registered before the transfer is served (a failing or panicking transfer would stay registered)")
		}
		// registration followed by deferred Disconnect
		if fn := P.fn("(*hotline.Server).handleNewConnection"); fn != nil {
			for _, b := range fn.Blocks {
				for i, ins := range b.Instrs {
					ci, ok := ins.(ssa.CallInstruction)
					if !ok {
						continue
					}
					n := calleeName(ci.Common())
					if n != "(hotline.ClientManager).Add" && n != "(*hotline.Server).NewClientConn" {
						continue
					}
					paired := false
					for j := i + 1; j < len(b.Instrs); j++ {
						if _, isCall := b.Instrs[j].(ssa.CallInstruction); isCall {
							if d, isDefer := b.Instrs[j].(*ssa.Defer); isDefer && calleeName(&d.Call) == "(*hotline.ClientConn).Disconnect" {
								paired = true
							}
							break
						}
					}
					R.check(paired, "pairing", "(*hotline.Server).handleNewConnection: registration", P.ipos(ins), "followed by defer Disconnect", "a registered connection is not unregistered by a deferred Disconnect registered right after the registration")
				}
			}
		}
	}

	// ---- reg-implies-auth
	if fn := P.fn("(*hotline.Server).handleNewConnection"); fn != nil {
		n := 0
		for _, ci := range callsIn(fn) {
			name := calleeName(ci.Common())
			if name != "(hotline.ClientManager).Add" && name != "(*hotline.Server).NewClientConn" {
				continue
			}
			n++
			authCut := map[Edge]bool{}
			nilCut := map[Edge]bool{}
			factEdges(fn, func(e Edge, f Fact) {
				if f.Kind == "truth" && f.Holds {
					if c, ok := f.V.(*ssa.Call); ok && calleeName(&c.Call) == "(*hotline.ClientConn).Authenticate" {
						authCut[e] = true
					}
				}
				if f.Kind == "nil" && !f.Holds {
					if fl, ok := loadedField(f.V); ok && fl == "hotline.ClientConn.Account" {
						nilCut[e] = true // keep only the "Account is nil" paths
					}
				}
			})
			if len(authCut) == 0 {
				// the comparison Authenticate consists of, written out in the login sequence (see login-gate)
				factEdgesImplied(fn, func(e Edge, f Fact) {
					if _, _, isAuth := P.inlineAuthFact(f); isAuth && f.Holds {
						authCut[e] = true
					}
				})
			}
			noAuth := reachable(fn, authCut)[ci.Block()]
			nilAcc := len(nilCut) == 0 || reachable(fn, nilCut)[ci.Block()]
			var why []string
			if noAuth {
				why = append(why, "reachable without Authenticate having returned true")
			}
			if nilAcc {
				why = append(why, "reachable with a nil Account (handlers dereference Account of every registry entry: another client's request would panic)")
			}
			R.check(!noAuth && !nilAcc, "reg-implies-auth", fmt.Sprintf("%s: %s", fname(fn), name), P.ipos(ci), "registered only when authenticated and with a non-nil account", strings.Join(why, "; "))
		}
		if n == 0 {
			R.bad("reg-implies-auth", fname(fn), P.pos(fn.Pos()), "the login sequence no longer registers the connection (mechanism moved)")
		}
	}
}

func nthLock(fn *ssa.Function, target ssa.Instruction) int {
	n := 0
	found := 0
	eachInstr(fn, func(ins ssa.Instruction) {
		if ci, ok := ins.(ssa.CallInstruction); ok {
			if _, isDefer := ins.(*ssa.Defer); isDefer {
				return
			}
			switch calleeName(ci.Common()) {
			case "(*sync.Mutex).Lock", "(*sync.RWMutex).Lock", "(*sync.RWMutex).RLock":
				n++
				if ins == target {
					found = n
				}
			}
		}
	})
	return found
}

// reachesWithoutUnlock: can the same Lock call be executed again before the lock was released?
func reachesWithoutUnlock(P *Prog, fn *ssa.Function, lock ssa.Instruction, id LockID) bool {
	type st struct {
		b   *ssa.BasicBlock
		idx int
	}
	seen := map[*ssa.BasicBlock]bool{}
	work := []st{{lock.Block(), instrIndex(lock) + 1}}
	for len(work) > 0 {
		s := work[len(work)-1]
		work = work[:len(work)-1]
		stop := false
		for i := s.idx; i < len(s.b.Instrs); i++ {
			ins := s.b.Instrs[i]
			if ins == lock {
				return true
			}
			if cx, ok := ins.(ssa.CallInstruction); ok {
				if _, isDefer := ins.(*ssa.Defer); !isDefer {
					if id3, op3, ok3 := P.lockOp(fn, cx.Common()); ok3 && op3 == "unlock" && id3 == id {
						stop = true
						break
					}
				}
			}
		}
		if stop {
			continue
		}
		for _, n := range s.b.Succs {
			if !seen[n] {
				seen[n] = true
				work = append(work, st{n, 0})
			}
		}
	}
	return false
}

func isFreshAlloc(v ssa.Value) bool {
	switch x := v.(type) {
	case *ssa.Alloc:
		return true
	case *ssa.UnOp:
		_, ok := x.X.(*ssa.Alloc)
		return ok
	}
	return false
}

// reachFromGo: functions reachable from any `go` statement of the server packages.
func (P *Prog) reachFromGo() map[*ssa.Function]bool {
	var roots []*ssa.Function
	for _, fn := range P.Funcs {
		if fn.Pkg != nil && fn.Pkg.Pkg.Path() == cmdPath {
			continue
		}
		eachInstr(fn, func(ins ssa.Instruction) {
			if g, ok := ins.(*ssa.Go); ok {
				roots = append(roots, P.callees(g)...)
			}
		})
	}
	return P.reachFuncs(roots...)
}

func init() { register("C03", checkC03) }

// mayPanicInSection looks, between a Lock and the matching explicit Unlock, for an operation that can panic:
// a dereference of a pointer that came out of a map lookup or call without a nil test, an index with a
// non-constant bound, an unchecked type assertion, or a call into other repo code.
func mayPanicInSection(P *Prog, fn *ssa.Function, lock ssa.Instruction, id LockID) ssa.Instruction {
	type st struct {
		b   *ssa.BasicBlock
		idx int
	}
	seen := map[*ssa.BasicBlock]bool{}
	work := []st{{lock.Block(), instrIndex(lock) + 1}}
	nilChecked := func(v ssa.Value, at *ssa.BasicBlock) bool {
		ok := false
		factEdges(fn, func(e Edge, f Fact) {
			if f.Kind == "nil" && !f.Holds && f.V == v && (e.To == at && len(at.Preds) == 1 || edgeDominates(fn, e, at)) {
				ok = true
			}
			// comma-ok lookup: `x, ok := m[k]; if !ok { return }`
			if f.Kind == "truth" && f.Holds {
				if ex, isEx := f.V.(*ssa.Extract); isEx && ex.Index == 1 {
					if ev, isEv := v.(*ssa.Extract); isEv && ev.Tuple == ex.Tuple && (e.To == at && len(at.Preds) == 1 || edgeDominates(fn, e, at)) {
						ok = true
					}
				}
			}
		})
		return ok
	}
	for len(work) > 0 {
		s := work[len(work)-1]
		work = work[:len(work)-1]
		stop := false
		for i := s.idx; i < len(s.b.Instrs); i++ {
			ins := s.b.Instrs[i]
			if cx, ok := ins.(ssa.CallInstruction); ok {
				if _, isDefer := ins.(*ssa.Defer); !isDefer {
					if id3, op3, ok3 := P.lockOp(fn, cx.Common()); ok3 && op3 == "unlock" && id3 == id {
						stop = true
						break
					}
				}
			}
			switch x := ins.(type) {
			case *ssa.FieldAddr:
				// dereference of a pointer loaded from a map / returned by a call, not nil-tested
				base := x.X
				switch b := base.(type) {
				case *ssa.Lookup:
					if _, isPtr := b.Type().Underlying().(*types.Pointer); isPtr && !nilChecked(b, x.Block()) {
						return x
					}
				case *ssa.Extract:
					if _, isLk := b.Tuple.(*ssa.Lookup); isLk {
						if _, isPtr := b.Type().Underlying().(*types.Pointer); isPtr && !nilChecked(b, x.Block()) {
							return x
						}
					}
				}
			case *ssa.TypeAssert:
				if !x.CommaOk {
					return x
				}
			case *ssa.IndexAddr:
				if _, isConst := x.Index.(*ssa.Const); !isConst {
					if _, isArrPtr := x.X.Type().Underlying().(*types.Pointer); !isArrPtr {
						if _, fromRange := x.Index.(*ssa.BinOp); !fromRange { // range loops index with the loop counter
							return x
						}
					}
				}
			case *ssa.Call:
				if cal, ok := x.Call.Value.(*ssa.Function); ok && cal.Blocks != nil && P.isRepoPkg(pkgOf(cal)) {
					if id2, _, isLock := P.lockOp(fn, &x.Call); !isLock {
						_ = id2
						if len(cal.Blocks) > 1 || containsDeref(cal) {
							return x
						}
					}
				}
			case *ssa.Panic:
				if x.Pos().IsValid() {
					return x
				}
			}
		}
		if stop {
			continue
		}
		for _, n := range s.b.Succs {
			if !seen[n] {
				seen[n] = true
				work = append(work, st{n, 0})
			}
		}
	}
	return nil
}

func containsDeref(fn *ssa.Function) bool {
	found := false
	eachInstr(fn, func(ins ssa.Instruction) {
		switch ins.(type) {
		case *ssa.Lookup, *ssa.TypeAssert, *ssa.Panic:
			found = true
		}
	})
	return found
}

func describePanicSite(ins ssa.Instruction) string {
	switch x := ins.(type) {
	case *ssa.FieldAddr:
		return "field access through a pointer taken from a map lookup without a nil test"
	case *ssa.TypeAssert:
		return "unchecked type assertion"
	case *ssa.IndexAddr:
		return "index with a non-constant bound"
	case *ssa.Call:
		return "call of " + calleeName(&x.Call)
	case *ssa.Panic:
		return "explicit panic"
	}
	return "operation that can panic"
}

// cellSym renders a value for comparison between a function and a closure it creates: loads of a captured variable
// are named by the variable, not by the (different) SSA values on the two sides.
func cellSym(P *Prog, v ssa.Value) string {
	v = stripConv(v)
	switch x := v.(type) {
	case *ssa.Field:
		n, _ := fieldOf(x)
		return cellSym(P, x.X) + "." + shortField(n)
	case *ssa.UnOp:
		if x.Op == token.MUL {
			switch a := x.X.(type) {
			case *ssa.FieldAddr:
				n, _ := fieldOf(a)
				return cellSym(P, a.X) + "." + shortField(n)
			case *ssa.Alloc:
				return "var:" + a.Comment
			case *ssa.FreeVar:
				return "var:" + a.Name()
			}
		}
	case *ssa.Alloc:
		return "var:" + x.Comment
	case *ssa.FreeVar:
		return "var:" + x.Name()
	case *ssa.Extract:
		return cellSym(P, x.Tuple) + fmt.Sprintf("#%d", x.Index)
	}
	return P.sym(v)
}

// ruleEncoderSliceGuard: the list encoders run in the goroutine of whoever asks for the list, on values another
// client supplied (icon, flags, names).  A re-slice x[k:] / x[len(x)-k:] of such a variable-length field panics for
// a shorter value — in the asking client's connection.  Every such re-slice must be dominated by a test of len(x).
func (R *Run) ruleEncoderSliceGuard() {
	P := R.P
	R.rule("encoder-slice-guard", "in the Read encoders, every re-slice with a lower bound of a variable-length byte field of the receiver is dominated by a branch on len of that same field (so that a value of unexpected length, supplied by another client, cannot make the encoder panic inside the connection of whoever requested the list)")
	n := 0
	for _, fn := range P.Funcs {
		if fn.Name() != "Read" || fn.Signature.Recv() == nil || fn.Parent() != nil || fn.Pkg == nil || fn.Pkg.Pkg.Path() != hotPath {
			continue
		}
		eachInstr(fn, func(ins ssa.Instruction) {
			sl, ok := ins.(*ssa.Slice)
			if !ok || sl.Low == nil {
				return
			}
			if k, isK := constInt(sl.Low); isK && k == 0 {
				return
			}
			f, isField := loadedField(sl.X)
			if !isField {
				return
			}
			if _, isSlice := sl.X.Type().Underlying().(*types.Slice); !isSlice {
				return
			}
			// the encoder's own cursor into a buffer it built is the cursor rule's business
			if strings.HasSuffix(f, ".readOffset") {
				return
			}
			n++
			guarded := false
			factEdges(fn, func(e Edge, fc Fact) {
				var lenCall *ssa.Call
				switch fc.Kind {
				case "eq":
					lenCall, _ = fc.V.(*ssa.Call)
				case "truth":
					if b, isB := fc.V.(*ssa.BinOp); isB {
						lenCall, _ = b.X.(*ssa.Call)
					}
				}
				if lenCall == nil || calleeName(&lenCall.Call) != "builtin.len" || !sameLoc(lenCall.Call.Args[0], sl.X) {
					return
				}
				if (e.To == sl.Block() && len(sl.Block().Preds) == 1) || edgeDominates(fn, e, sl.Block()) {
					guarded = true
				}
			})
			R.analysed(fname(fn))
			R.check(guarded, "encoder-slice-guard", fmt.Sprintf("%s: re-slice of %s #%d", fname(fn), shortField(f), n), P.ipos(sl), "under a test of its length", "a field of client-chosen length is re-sliced with a lower bound without a test of its length: a value that is too short makes the encoder panic in the connection of the client that asked for the list")
		})
	}
	if n == 0 {
		R.ok("encoder-slice-guard", "Read encoders", "-", "no re-slice of a variable-length field with a lower bound")
	}
}

// ruleAcceptLoopSurvives: ListenAndServe wraps both accept loops in log.Fatal, so a loop that returns ends the
// process.  A failed Accept (other than on a closed listener / cancelled context) must lead back to Accept.
func (R *Run) ruleAcceptLoopSurvives() {
	P := R.P
	R.rule("accept-loop-survives", "in Server.Serve and Server.ServeFileTransfers no return is reachable from a failed Accept except on the edge where the error is net.ErrClosed: a transient accept error (file descriptors exhausted by a connection flood) does not end the loop, which would end the process through log.Fatal")
	for _, name := range []string{"(*hotline.Server).Serve", "(*hotline.Server).ServeFileTransfers"} {
		fn := R.mustFn(name)
		if fn == nil {
			continue
		}
		R.analysed(fname(fn))
		var acc *ssa.Call
		for _, ci := range callsIn(fn) {
			if c, ok := ci.(*ssa.Call); ok && c.Call.IsInvoke() && c.Call.Method.Name() == "Accept" {
				acc = c
			}
		}
		if acc == nil {
			R.und("accept-loop-survives", fname(fn), P.pos(fn.Pos()), "no Accept call found")
			continue
		}
		ev := errResult(acc)
		if ev == nil {
			R.bad("accept-loop-survives", fname(fn), P.ipos(acc), "the error of Accept is dropped")
			continue
		}
		// the error may live in a variable (it does when a closure captures it): its loads in this function
		// denote the same value as long as this function stores into the variable only once
		evs := map[ssa.Value]bool{ev: true}
		init := nilState{ev: 2}
		for _, r := range *ev.Referrers() {
			st, ok := r.(*ssa.Store)
			if !ok {
				continue
			}
			cell, ok := st.Addr.(*ssa.Alloc)
			if !ok {
				continue
			}
			nLocal := 0
			eachInstr(fn, func(ins ssa.Instruction) {
				if s2, ok := ins.(*ssa.Store); ok && s2.Addr == ssa.Value(cell) {
					nLocal++
				}
			})
			if nLocal != 1 {
				continue
			}
			eachInstr(fn, func(ins ssa.Instruction) {
				if u, ok := ins.(*ssa.UnOp); ok && u.Op == token.MUL && u.X == ssa.Value(cell) {
					evs[u] = true
					init[u] = 2
				}
			})
		}
		cut := map[Edge]bool{}
		factEdges(fn, func(e Edge, f Fact) {
			if f.Kind != "truth" || !f.Holds {
				return
			}
			c, ok := f.V.(*ssa.Call)
			if !ok || calleeName(&c.Call) != "errors.Is" || len(c.Call.Args) != 2 {
				return
			}
			if g, _ := globalName(c.Call.Args[1]); g == "net.ErrClosed" && evs[stripConv(c.Call.Args[0])] {
				cut[e] = true
			}
		})
		var witness ssa.Instruction
		ab := acc.Block()
		var items []psItem
		for _, s := range feasibleSuccs(ab, init, true) {
			if !cut[Edge{ab, s.blk}] {
				items = append(items, psItem{s.blk, enterBlock(ab, s.blk, s.st)})
			}
		}
		exploreCond(items, cut, nil, true, func(b *ssa.BasicBlock, st nilState) bool {
			if witness != nil {
				return false
			}
			if b == ab || (b.Dominates(ab) && inLoop(b)) {
				return false // back at Accept, or at the head of the loop around it (where a cancelled context ends it)
			}
			if r, ok := b.Instrs[len(b.Instrs)-1].(*ssa.Return); ok {
				witness = r
				return false
			}
			return true
		})
		pos := P.ipos(acc)
		if witness != nil {
			pos = P.ipos(witness)
		}
		R.check(witness == nil, "accept-loop-survives", fname(fn), pos, "a failed Accept leads back to Accept (or the listener is closed)", "the accept loop returns after a failed Accept: ListenAndServe passes that to log.Fatal, so a transient error such as EMFILE during a connection flood terminates the server and every session")
	}
	R.floor("accept-loop-survives", 2)
}

// ruleGoNilCapture (C03): a goroutine started from request-handling code runs outside the connection's recover. A
// pointer it captures that came from a lookup which answers nil for an unknown key (ClientManager.Get, AccountManager.Get,
// FileTransferMgr.Get, a plain map lookup) and that the goroutine dereferences must have been proved non-nil before the
// `go`: by a nil test, or by a dereference that every path to the `go` passes (which panics inside the recovered
// connection loop instead). A nil dereference in the goroutine itself terminates the whole server.
func (R *Run) ruleGoNilCapture(guardedReach map[*ssa.Function]bool) {
	P := R.P
	R.rule("go-nil-capture", "a pointer obtained from a lookup that answers nil for an unknown key and captured by a goroutine started in request-handling code is, on every path to the `go` statement, either tested against nil or dereferenced (directly, or as the receiver of a method that dereferences its receiver before anything else), so that the goroutine, which no recover protects, cannot be the first to dereference a nil")
	mayNil := func(v ssa.Value) (string, bool) {
		switch x := v.(type) {
		case *ssa.Call:
			n := calleeName(&x.Call)
			if x.Call.IsInvoke() && x.Call.Method.Name() == "Get" {
				if _, isPtr := x.Type().Underlying().(*types.Pointer); isPtr {
					return n, true
				}
			}
		case *ssa.Lookup:
			if _, isPtr := x.Type().Underlying().(*types.Pointer); isPtr && !x.CommaOk {
				return "map lookup", true
			}
		}
		return "", false
	}
	// entryDerefs: the method dereferences its receiver in its entry block before any branch
	entryDerefs := func(m *ssa.Function) bool {
		if m == nil || len(m.Blocks) == 0 || len(m.Params) == 0 {
			return false
		}
		recv := m.Params[0]
		for _, ins := range m.Blocks[0].Instrs {
			switch x := ins.(type) {
			case *ssa.FieldAddr:
				if x.X == ssa.Value(recv) {
					return true
				}
			case *ssa.UnOp:
				if x.Op == token.MUL && x.X == ssa.Value(recv) {
					return true
				}
			}
		}
		return false
	}
	n := 0
	for _, fn := range P.Funcs {
		if !guardedReach[rootFn(fn)] || isClientLibrary(fn) {
			continue
		}
		eachInstr(fn, func(ins ssa.Instruction) {
			g, ok := ins.(*ssa.Go)
			if !ok {
				return
			}
			var cl *ssa.Function
			var bindings []ssa.Value
			switch cv := g.Call.Value.(type) {
			case *ssa.MakeClosure:
				cl, _ = cv.Fn.(*ssa.Function)
				bindings = cv.Bindings
			case *ssa.Function:
				if cv.Parent() != nil {
					cl = cv
				}
			}
			if cl == nil || g.Call.IsInvoke() {
				return
			}
			// what the goroutine is handed: the variables its literal captures and the arguments of the call
			type handed struct {
				b     ssa.Value
				inner ssa.Value // the free variable or parameter that stands for it inside the goroutine
			}
			var hs []handed
			for i, b := range bindings {
				if i < len(cl.FreeVars) {
					hs = append(hs, handed{b, cl.FreeVars[i]})
				}
			}
			for i, a := range g.Call.Args {
				if i < len(cl.Params) {
					hs = append(hs, handed{a, cl.Params[i]})
				}
			}
			for _, h := range hs {
				b, fv := h.b, h.inner
				_, isParam := fv.(*ssa.Parameter)
				// the captured variable's value
				v := b
				var cell *ssa.Alloc
				if a, isA := b.(*ssa.Alloc); isA && !isParam {
					cell = a
					if val, single := singleStore(a); single {
						v = val
					} else {
						continue
					}
				}
				var argCell *ssa.Alloc
				if isParam {
					// an argument read from a local variable that is assigned once
					if u, isU := stripConv(b).(*ssa.UnOp); isU && u.Op == token.MUL {
						if a, isA := u.X.(*ssa.Alloc); isA {
							if val, single := singleStore(a); single {
								v, argCell = val, a
							}
						}
					}
				}
				src, isMay := mayNil(stripConv(v))
				if !isMay {
					continue
				}
				// does the goroutine dereference it?
				derefs := false
				var vals []ssa.Value
				if cell != nil {
					for _, r := range *fv.Referrers() {
						if u, isU := r.(*ssa.UnOp); isU && u.Op == token.MUL {
							vals = append(vals, u)
						}
					}
				} else {
					vals = append(vals, fv)
				}
				if argCell != nil {
					cell = argCell
				}
				for _, pv := range vals {
					if pv.Referrers() == nil {
						continue
					}
					for _, r := range *pv.Referrers() {
						switch x := r.(type) {
						case *ssa.FieldAddr:
							derefs = true
						case ssa.CallInstruction:
							if len(x.Common().Args) > 0 && x.Common().Args[0] == pv && !x.Common().IsInvoke() {
								derefs = true
							}
						}
					}
				}
				if !derefs {
					continue
				}
				n++
				// proof before the go statement
				same := func(x ssa.Value) bool {
					x = stripConv(x)
					if x == stripConv(v) {
						return true
					}
					if u, isU := x.(*ssa.UnOp); isU && u.Op == token.MUL && cell != nil && u.X == ssa.Value(cell) {
						return true
					}
					return false
				}
				proved := false
				factEdges(fn, func(e Edge, f Fact) {
					if f.Kind == "nil" && !f.Holds && same(f.V) && (e.To == g.Block() && len(g.Block().Preds) == 1 || edgeDominates(fn, e, g.Block())) {
						proved = true
					}
				})
				if !proved {
					eachInstr(fn, func(j ssa.Instruction) {
						if proved || !instrDominates(j, g) {
							return
						}
						switch x := j.(type) {
						case *ssa.FieldAddr:
							if same(x.X) {
								proved = true
							}
						case *ssa.Call:
							if m := x.Call.StaticCallee(); m != nil && len(x.Call.Args) > 0 && same(x.Call.Args[0]) && m.Signature.Recv() != nil && entryDerefs(m) {
								proved = true
							}
						}
					})
				}
				R.check(proved, "go-nil-capture", fmt.Sprintf("%s: go #%d captures %s", fname(fn), nCreateIn(fn, g), fv.Name()), P.ipos(g),
					"result of "+src+" is tested or dereferenced on every path before the goroutine starts",
					fmt.Sprintf("the goroutine dereferences %s, the result of %s, which is nil for an unknown key, and nothing on the way to the `go` statement tests or dereferences it: the nil dereference happens in a goroutine that no recover protects and terminates the server for every user", fv.Name(), src))
			}
		})
	}
	R.floor("go-nil-capture", 1)
}

// ruleLockCopy: a mutex protects what it is declared next to only if every goroutine locks the same mutex. A method
// with a value receiver (or any helper handed the struct by value) locks the mutex of its private copy: the callers
// exclude nobody, while the map or slice header next to it is still shared (what `go vet` calls copylocks; the suite
// is run with -vet=off).
func (R *Run) ruleLockCopy() {
	P := R.P
	R.rule("lock-copy", "no sync.Mutex / sync.RWMutex operation is applied to a mutex inside a local variable that was filled by copying a struct from a parameter, a field or a global (value receivers, by-value parameters): such a lock excludes nobody")
	n := 0
	for _, fn := range P.Funcs {
		if fn.Pkg == nil || fn.Pkg.Pkg.Path() == cmdPath || isClientLibrary(fn) {
			continue
		}
		for _, ci := range callsIn(fn) {
			c := ci.Common()
			name := calleeName(c)
			if !strings.HasPrefix(name, "(*sync.Mutex).") && !strings.HasPrefix(name, "(*sync.RWMutex).") || len(c.Args) == 0 {
				continue
			}
			if !strings.HasSuffix(name, "Lock") {
				continue
			}
			n++
			root, path := addrPath(c.Args[0])
			al, isLocal := root.(*ssa.Alloc)
			if !isLocal || len(path) == 0 {
				continue
			}
			copied := ""
			for _, r := range *al.Referrers() {
				st, isSt := r.(*ssa.Store)
				if !isSt || st.Addr != ssa.Value(al) {
					continue
				}
				switch v := st.Val.(type) {
				case *ssa.Parameter:
					copied = "parameter " + v.Name()
				case *ssa.UnOp:
					if v.Op == token.MUL {
						if src, _ := addrPath(v.X); src != nil {
							if _, fresh := src.(*ssa.Alloc); !fresh {
								copied = P.sym(v)
							}
						}
					}
				}
			}
			if copied != "" {
				R.bad("lock-copy", fmt.Sprintf("%s: %s #%d", fname(fn), sed(name), nCreateIn(fn, ci)), P.ipos(ci),
					"the mutex that is locked lives in a local copy of the struct (copied from "+copied+"): every caller locks a mutex of its own, so the data the struct's mutex is declared to guard is accessed without exclusion")
			}
		}
	}
	if n > 0 {
		R.ok("lock-copy", "server packages", "-", fmt.Sprintf("%d lock operations examined", n))
	}
	R.floor("lock-copy", 1)
}
