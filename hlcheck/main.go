package main

import (
	"encoding/json"
	"flag"
	"fmt"
	"os"
	"runtime/debug"
	"sort"
	"strconv"
	"time"
)

type propFunc func(R *Run)

var props = map[string]propFunc{}

func register(id string, f propFunc) { props[id] = f }

func main() {
	prop := flag.String("prop", "", "property id (C01..C20) or 'all'")
	tier := flag.String("tier", "", "quick|thorough (default: $VERIF_TIER or quick)")
	repo := flag.String("repo", "/repo", "repository root")
	verif := flag.String("verif", "/verif", "verif directory (known_findings.json, spec/, evidence/)")
	out := flag.String("out", "", "directory for evidence/replay output (default <verif>/evidence)")
	explain := flag.String("explain", "", "print a replay file")
	list := flag.Bool("list", false, "list properties")
	flag.Parse()
	if *explain != "" {
		b, err := os.ReadFile(*explain)
		if err != nil {
			fmt.Println(err)
			os.Exit(2)
		}
		var v struct {
			Property   string `json:"property"`
			Obligation Obl    `json:"obligation"`
		}
		_ = json.Unmarshal(b, &v)
		fmt.Printf("property %s\nrule      %s\nconstruct %s\nat        %s\nstatus    %s\nreason    %s\n", v.Property, v.Obligation.Rule, v.Obligation.Construct, v.Obligation.Pos, v.Obligation.Status, v.Obligation.Reason)
		for _, p := range v.Obligation.Path {
			fmt.Println("  ", p)
		}
		fmt.Printf("re-derive: /verif/bin/hlcheck -prop %s\n", v.Property)
		return
	}
	if *list {
		var ids []string
		for id := range props {
			ids = append(ids, id)
		}
		sort.Strings(ids)
		for _, id := range ids {
			fmt.Println(id)
		}
		return
	}
	if *tier == "" {
		*tier = os.Getenv("VERIF_TIER")
	}
	if *tier != "thorough" {
		*tier = "quick"
	}
	seed := 0
	if s := os.Getenv("VERIF_SEED"); s != "" {
		seed, _ = strconv.Atoi(s)
	}
	f, ok := props[*prop]
	if !ok {
		fmt.Printf("CHECKER-ERROR unknown property %q\n", *prop)
		os.Exit(2)
	}
	start := time.Now()
	P, err := loadProg(*repo, "")
	if err != nil {
		// The tree does not load or type-check: no verdict can be given for it.
		fmt.Printf("CHECKER-ERROR %v\n", err)
		os.Exit(2)
	}
	specDir = *verif + "/spec"
	R := &Run{P: P, Prop: *prop, Tier: *tier, floors: map[string]int{}, rules: map[string]string{}, start: start, fnsSeen: map[string]bool{}}
	func() {
		defer func() {
			if r := recover(); r != nil {
				R.und("checker-panic", fmt.Sprint(r), "-", "a rule panicked; no verdict for its instances: "+string(debug.Stack()))
			}
		}()
		f(R)
	}()
	if *tier == "thorough" {
		// the same rules under the other operating systems' build configurations (different filepath / syscall
		// surface, other build-constrained files): only obligations that differ from the primary run are added
		have := map[string]string{}
		for _, o := range R.Obls {
			have[o.key()] = o.Status
		}
		for _, goos := range []string{"windows", "darwin"} {
			P2, err := loadProg(*repo, goos)
			if err != nil {
				R.und("build-config", "GOOS="+goos, "-", "the tree does not load under GOOS="+goos+": "+err.Error())
				continue
			}
			R2 := &Run{P: P2, Prop: *prop, Tier: *tier, floors: map[string]int{}, rules: map[string]string{}, start: start, fnsSeen: map[string]bool{}}
			func() {
				defer func() {
					if r := recover(); r != nil {
						R2.und("checker-panic", fmt.Sprint(r), "-", "a rule panicked under GOOS="+goos)
					}
				}()
				f(R2)
			}()
			differ := 0
			for _, o := range R2.Obls {
				if st, ok := have[o.key()]; !ok || st != o.Status {
					if o.Status != "discharged" {
						o.Construct = "[GOOS=" + goos + "] " + o.Construct
						R.Obls = append(R.Obls, o)
						differ++
					}
				}
			}
			R.note(fmt.Sprintf("GOOS=%s: %d obligations evaluated, %d differing from the primary configuration.", goos, len(R2.Obls), differ))
		}
	}
	if *out == "" {
		*out = *verif + "/evidence"
	}
	os.Exit(R.finish(*verif, *out, seed))
}

var specDir string

func readSpec(name string, v any) error {
	b, err := os.ReadFile(specDir + "/" + name)
	if err != nil {
		return err
	}
	return json.Unmarshal(b, v)
}
