package main

// c07root.go — C07 requester-root: "the client's file root" is the root of the account that makes the request.
// Every path a handler resolves, and every transfer it registers, must be anchored at FileRoot() of the handler's
// own connection; the transfer connection later resolves with the root stored in the transfer.

import (
	"fmt"
	"strings"

	"golang.org/x/tools/go/ssa"
)

func (R *Run) ruleRequesterRoot() {
	P := R.P
	R.rule("requester-root", "the root handed to ReadPath / NewFileTransfer in code handling a request is FileRoot() of the function's own connection parameter (per-account root if set, else the server's), never another root; NewFileTransfer stores that parameter in the transfer and the transfer connection resolves with the stored root; the banner transfer carries no root")
	n := 0
	isOwnRoot := func(fn *ssa.Function, v ssa.Value) (bool, string) {
		c := callValue(stripConv(v))
		if c == nil || calleeName(&c.Call) != "(*hotline.ClientConn).FileRoot" {
			if f, ok := loadedField(v); ok {
				return false, "the field " + f
			}
			return false, P.sym(v)
		}
		recv := stripConv(c.Call.Args[0])
		// the connection parameter of the (root) function, directly or captured by a closure
		if p, ok := recv.(*ssa.Parameter); ok && typeName(derefType(p.Type())) == "hotline.ClientConn" {
			return true, ""
		}
		if fv, ok := recv.(*ssa.FreeVar); ok && typeName(derefType(fv.Type())) == "hotline.ClientConn" {
			return true, ""
		}
		return false, "FileRoot() of another connection (" + P.sym(recv) + ")"
	}
	for _, fn := range P.Funcs {
		if fn.Pkg == nil || fn.Pkg.Pkg.Path() == cmdPath || isClientLibrary(fn) {
			continue
		}
		for _, ci := range callsIn(fn) {
			c := ci.Common()
			var root ssa.Value
			name := calleeName(c)
			switch name {
			case "hotline.ReadPath":
				root = c.Args[0]
			case "(*hotline.ClientConn).NewFileTransfer":
				root = c.Args[2]
			default:
				continue
			}
			n++
			construct := fmt.Sprintf("%s: %s #%d", fname(fn), sed(name), nCreateIn(fn, ci))
			R.analysed(fname(fn))
			if name == "hotline.ReadPath" {
				if f, ok := loadedField(root); ok && f == "hotline.FileTransfer.FileRoot" {
					R.ok("requester-root", construct, P.ipos(ci), "the root stored in the transfer when it was granted")
					continue
				}
			} else {
				if s, isC := constString(root); isC && s == "" {
					if g, _ := globalName(c.Args[1]); g == "hotline.BannerDownload" {
						R.ok("requester-root", construct, P.ipos(ci), "banner transfer: no root")
						continue
					}
					if k, ok := constInt(c.Args[1]); ok {
						if bc := P.Hot.Const("BannerDownload"); bc != nil {
							if bk, ok := constInt(bc.Value); ok && bk == k {
								R.ok("requester-root", construct, P.ipos(ci), "banner transfer: no root")
								continue
							}
						}
					}
				}
				// the transfer is registered for the connection whose root it gets
				if rc := callValue(stripConv(root)); rc != nil && len(rc.Call.Args) > 0 && stripConv(rc.Call.Args[0]) != stripConv(c.Args[0]) {
					R.bad("requester-root", construct, P.ipos(ci), "the transfer is registered for one connection with the root of another")
					continue
				}
			}
			ok, what := isOwnRoot(fn, root)
			R.check(ok, "requester-root", construct, P.ipos(ci), "root = FileRoot() of the requesting connection", "the path is anchored at "+what+" instead of the requesting account's root (cc.FileRoot()): an account with its own file root acts outside it")
		}
	}
	if fn := R.mustFn("(*hotline.ClientConn).NewFileTransfer"); fn != nil {
		stored := false
		eachInstr(fn, func(ins ssa.Instruction) {
			if st, ok := ins.(*ssa.Store); ok {
				if fa, ok := st.Addr.(*ssa.FieldAddr); ok {
					if f, _ := fieldOf(fa); f == "hotline.FileTransfer.FileRoot" && st.Val == ssa.Value(fn.Params[2]) {
						stored = true
					}
				}
			}
		})
		n++
		R.check(stored, "requester-root", "hotline.ClientConn.NewFileTransfer: FileRoot", P.pos(fn.Pos()), "stores its root parameter in the transfer", "the transfer does not keep the root it was granted with")
	}
	if fn := R.mustFn("(*hotline.ClientConn).FileRoot"); fn != nil {
		var got []string
		good := true
		for _, ret := range returnsOf(fn) {
			f, ok := loadedField(ret.Results[0])
			if !ok || (f != "hotline.Account.FileRoot" && f != "hotline.Config.FileRoot") {
				good = false
			}
			got = append(got, f)
		}
		// the account's root wins when it is set
		pref := false
		factEdges(fn, func(e Edge, f Fact) {
			if f.Kind == "eq" {
				if fl, ok := loadedField(f.V); ok && fl == "hotline.Account.FileRoot" {
					pref = true
				}
			}
		})
		n++
		R.check(good && pref && len(got) == 2, "requester-root", "hotline.ClientConn.FileRoot", P.pos(fn.Pos()), "account root if set, else server root", fmt.Sprintf("FileRoot() does not return the account's own root when set and the server's otherwise (returns %v)", got))
	}
	R.floor("requester-root", 14)
}

// ruleStorePassthrough: the path classification treats FileStore.X(path, …) as the filesystem call os.X(path, …).
// That is only right while the one real implementation hands every path string through unchanged: each method of
// OSFileStore is exactly one call of the os function of the same name with its own parameters, in order.
func (R *Run) ruleStorePassthrough() {
	P := R.P
	R.rule("store-passthrough", "every method of hotline.OSFileStore consists of one call os.<same name>(its parameters, unchanged and in order) whose results it returns: a path that was classified SAFE at the FileStore call is the path the operating system sees (no re-rooting, relativising or rewriting inside the store)")
	n := 0
	for _, fn := range P.Funcs {
		if fn.Signature.Recv() == nil || fn.Parent() != nil || typeName(derefType(fn.Params[0].Type())) != "hotline.OSFileStore" {
			continue
		}
		n++
		R.analysed(fname(fn))
		var why []string
		var osCall *ssa.Call
		nCalls := 0
		for _, ci := range callsIn(fn) {
			nCalls++
			if c, ok := ci.(*ssa.Call); ok && calleeName(&c.Call) == "os."+fn.Name() {
				osCall = c
			}
		}
		switch {
		case osCall == nil:
			why = append(why, "no call of os."+fn.Name())
		case nCalls != 1:
			why = append(why, fmt.Sprintf("%d calls instead of the single os.%s", nCalls, fn.Name()))
		default:
			if len(osCall.Call.Args) != len(fn.Params)-1 {
				why = append(why, "argument count differs")
			} else {
				for i, a := range osCall.Call.Args {
					if a != ssa.Value(fn.Params[i+1]) {
						why = append(why, fmt.Sprintf("argument %d is %s, not the method's own parameter %s", i+1, P.sym(a), fn.Params[i+1].Name()))
					}
				}
			}
			if len(fn.Blocks) != 1 {
				why = append(why, "more than one basic block")
			}
		}
		R.check(len(why) == 0, "store-passthrough", fname(fn), P.pos(fn.Pos()), "= os."+fn.Name()+"(params…)", "the file store does not hand its arguments to the operating system unchanged: "+fmt.Sprint(why)+" — paths judged safe by the classification are not the paths that are used")
	}
	R.floor("store-passthrough", 8)
}

// ruleAccountPathShape: every filesystem path built from the accounts directory has the closed form
// Join(accountDir, Join("/", login)+".yaml") / Join(accountDir, Join("/", login+".yaml")) (optionally + a constant
// temp suffix): the extension is part of the anchored component, so the result is a file INSIDE the directory for
// every login — also for logins that clean to "/" ("..", ".", "x/.."), where a suffix appended after the outer Join
// would name a sibling of the accounts directory.
func (R *Run) ruleAccountPathShape() {
	P := R.P
	R.rule("account-path-shape", "every path argument derived from YAMLAccountManager.accountDir is Join(accountDir, <anchored login>.yaml) with the extension inside the anchored component (or the constant glob pattern of the loader): no login can make it name something outside the accounts directory")
	n := 0
	for _, fn := range P.Funcs {
		if fn.Pkg == nil || fn.Pkg.Pkg.Path() != mobPath {
			continue
		}
		for _, ci := range callsIn(fn) {
			c := ci.Common()
			for _, i := range pathArgs(c) {
				s := stripRecv(P.sym(c.Args[i]))
				if !strings.Contains(s, "mobius.YAMLAccountManager.accountDir") {
					continue
				}
				n++
				construct := fmt.Sprintf("%s: %s #%d arg %d", fname(fn), sed(calleeName(c)), nCreateIn(fn, ci), i)
				R.analysed(fname(fn))
				if strings.Contains(s, `"*.yaml"`) && !strings.Contains(s, "param:") {
					R.ok("account-path-shape", construct, P.ipos(ci), "constant glob pattern")
					continue
				}
				_, anchored := P.fileLogin(c.Args[i])
				R.check(anchored, "account-path-shape", construct, P.ipos(ci), "Join(accountDir, anchored login + \".yaml\")", "the account file path "+s+" is not of the form Join(accountDir, Join(\"/\", login)+\".yaml\"): for a login that cleans to \"/\" it names a file outside the accounts directory")
			}
		}
	}
	R.floor("account-path-shape", 6)
}
