package main

// layout.go — E-layout: symbolic wire layouts of encoders, compared with spec/layouts.json; prefix
// arithmetic; decoder/encoder offset agreement.

import (
	"encoding/hex"
	"encoding/json"
	"fmt"
	"go/ast"
	"go/constant"
	"go/token"
	"go/types"
	"sort"
	"strings"

	"golang.org/x/tools/go/ssa"
)

type Seg struct {
	Kind  string // field | const | lenof | countof | valof | var | each | computed | unknown
	W     int    // width in bytes, -1 = variable
	Name  string
	Bytes []byte
	Expr  string
	Via   string
}

func (s Seg) String() string {
	w := fmt.Sprint(s.W)
	if s.W < 0 {
		w = "*"
	}
	switch s.Kind {
	case "const":
		return fmt.Sprintf("const[%s]=%x", w, s.Bytes)
	case "computed", "unknown":
		return fmt.Sprintf("%s[%s](%s)", s.Kind, w, s.Expr)
	}
	return fmt.Sprintf("%s[%s]:%s", s.Kind, w, s.Name)
}

type layoutCtx struct {
	P     *Prog
	depth int
	seen  map[ssa.Value]bool
	use   *ssa.BasicBlock // where the assembled buffer is emitted: phi operands that cannot reach it are not alternatives
}

// fieldPath renders FieldAddr chains rooted at a receiver/parameter as "A.B".
func fieldPath(v ssa.Value) (string, bool) {
	var parts []string
	for {
		fa, ok := v.(*ssa.FieldAddr)
		if !ok {
			break
		}
		t := derefType(fa.X.Type())
		st, ok := t.Underlying().(*types.Struct)
		if !ok {
			return "", false
		}
		f := st.Field(fa.Field)
		if !f.Embedded() {
			parts = append([]string{f.Name()}, parts...)
		}
		v = fa.X
	}
	if len(parts) == 0 {
		return "", false
	}
	switch v.(type) {
	case *ssa.Parameter, *ssa.Alloc, *ssa.UnOp, *ssa.FreeVar:
		return strings.Join(parts, "."), true
	}
	return strings.Join(parts, "."), true
}

func cross(a, b [][]Seg) [][]Seg {
	var out [][]Seg
	for _, x := range a {
		for _, y := range b {
			out = append(out, append(append([]Seg{}, x...), y...))
		}
	}
	return out
}

func one(s Seg) [][]Seg { return [][]Seg{{s}} }

// classifyVal classifies the integer written into a length/count/size slot.
func (L *layoutCtx) classifyVal(v ssa.Value) (kind, name string) {
	for {
		switch x := v.(type) {
		case *ssa.Convert:
			v = x.X
			continue
		case *ssa.ChangeType:
			v = x.X
			continue
		}
		break
	}
	lenOf := func(x ssa.Value) (string, bool) {
		c, ok := x.(*ssa.Call)
		if !ok || calleeName(&c.Call) != "builtin.len" {
			return "", false
		}
		a := stripConv(c.Call.Args[0])
		if u, ok := a.(*ssa.UnOp); ok && u.Op == token.MUL {
			if p, ok := fieldPath(u.X); ok {
				return p, true
			}
		}
		if fa, ok := a.(*ssa.FieldAddr); ok { // len of array field through pointer
			if p, ok := fieldPath(fa); ok {
				return p, true
			}
		}
		return "local:" + L.P.sym(a), true
	}
	if n, ok := lenOf(v); ok {
		return "lenof", n
	}
	if b, ok := v.(*ssa.BinOp); ok && b.Op == token.ADD {
		l, ok1 := lenOf(stripConv(b.X))
		r, ok2 := lenOf(stripConv(b.Y))
		if ok1 && ok2 {
			parts := []string{l, r}
			sort.Strings(parts)
			return "countof", strings.Join(parts, "+")
		}
	}
	if u, ok := v.(*ssa.UnOp); ok && u.Op == token.MUL {
		if p, ok := fieldPath(u.X); ok {
			return "valof", p
		}
	}
	return "computed", L.P.sym(v)
}

func putUintWidth(name string) int {
	switch {
	case strings.HasSuffix(name, "PutUint16"):
		return 2
	case strings.HasSuffix(name, "PutUint32"):
		return 4
	case strings.HasSuffix(name, "PutUint64"):
		return 8
	}
	return 0
}

// arraySegs: contents of a local [N]byte cell.
func (L *layoutCtx) arraySegs(a *ssa.Alloc) [][]Seg {
	arr, ok := derefType(a.Type()).Underlying().(*types.Array)
	if !ok {
		return one(Seg{Kind: "unknown", W: -1, Expr: "cell " + a.Name()})
	}
	n := int(arr.Len())
	if n == 0 {
		return [][]Seg{{}}
	}
	elems := make([]ssa.Value, n)
	var put *ssa.Call
	var putVal ssa.Value
	for _, r := range *a.Referrers() {
		switch x := r.(type) {
		case *ssa.IndexAddr:
			idx, ok := constInt(x.Index)
			for _, rr := range *x.Referrers() {
				if st, ok2 := rr.(*ssa.Store); ok2 && st.Addr == ssa.Value(x) {
					if !ok || idx < 0 || int(idx) >= n {
						return one(Seg{Kind: "unknown", W: n, Expr: "dynamic index store"})
					}
					elems[idx] = st.Val
				}
			}
		case *ssa.Slice:
			for _, rr := range *x.Referrers() {
				if c, ok := rr.(*ssa.Call); ok {
					if w := putUintWidth(calleeName(&c.Call)); w > 0 {
						args := c.Call.Args
						if len(args) >= 2 && args[len(args)-2] == ssa.Value(x) {
							put = c
							putVal = args[len(args)-1]
						}
					}
				}
			}
		}
	}
	if put != nil {
		w := putUintWidth(calleeName(&put.Call))
		k, name := L.classifyVal(putVal)
		s := Seg{Kind: k, W: n, Name: name}
		if k == "computed" {
			s.Expr = name
		}
		if w != n {
			s.Kind = "unknown"
			s.Expr = fmt.Sprintf("%d-byte buffer filled by %s", n, calleeName(&put.Call))
		}
		return one(s)
	}
	allConst, anySet := true, false
	for _, e := range elems {
		if e == nil {
			continue
		}
		anySet = true
		if _, ok := constInt(e); !ok {
			allConst = false
		}
	}
	if !anySet {
		return one(Seg{Kind: "const", W: n, Bytes: make([]byte, n)})
	}
	if allConst {
		b := make([]byte, n)
		for i, e := range elems {
			if e != nil {
				c, _ := constInt(e)
				b[i] = byte(c)
			}
		}
		return one(Seg{Kind: "const", W: n, Bytes: b})
	}
	var out []Seg
	for _, e := range elems {
		if e == nil {
			out = append(out, Seg{Kind: "const", W: 1, Bytes: []byte{0}})
			continue
		}
		if c, ok := constInt(e); ok {
			out = append(out, Seg{Kind: "const", W: 1, Bytes: []byte{byte(c)}})
			continue
		}
		if u, ok := e.(*ssa.UnOp); ok && u.Op == token.MUL {
			if p, ok := fieldPath(u.X); ok {
				out = append(out, Seg{Kind: "field", W: 1, Name: p})
				continue
			}
		}
		k, name := L.classifyVal(e)
		s := Seg{Kind: k, W: 1, Name: name}
		if k == "computed" {
			s.Expr = name
		}
		out = append(out, s)
	}
	return [][]Seg{out}
}

// inlineCall: the layouts of result #idx of a repo helper, over its returns (returns that hand back a nil
// slice together with a non-nil error emit nothing and are left out).
func (L *layoutCtx) inlineCall(x *ssa.Call, idx int) [][]Seg {
	P := L.P
	cal, ok := x.Call.Value.(*ssa.Function)
	if !ok || cal.Blocks == nil || !P.isRepoPkg(pkgOf(cal)) {
		return nil
	}
	var out [][]Seg
	L.depth++
	defer func() { L.depth-- }()
	prefix := ""
	if cal.Signature.Recv() != nil && len(x.Call.Args) > 0 {
		if pth, ok := fieldPath(x.Call.Args[0]); ok {
			prefix = pth + "."
		}
	}
	for _, ret := range returnsOf(cal) {
		if idx >= len(ret.Results) {
			continue
		}
		if isNilConst(ret.Results[idx]) && isErrorReturn(ret) {
			continue
		}
		for _, alt := range L.segs(ret.Results[idx]) {
			for i := range alt {
				if alt[i].Via == "" {
					alt[i].Via = fname(cal)
				}
				if prefix != "" && alt[i].Name != "" && !strings.HasPrefix(alt[i].Name, "local:") && !strings.HasPrefix(alt[i].Name, "param:") {
					parts := strings.Split(alt[i].Name, "+")
					for j := range parts {
						parts[j] = prefix + parts[j]
					}
					alt[i].Name = strings.Join(parts, "+")
				}
			}
			out = append(out, alt)
		}
	}
	return out
}

// isErrorReturn: the return hands back a definitely non-nil error.
func isErrorReturn(ret *ssa.Return) bool {
	for _, r := range ret.Results {
		if types.Identical(r.Type(), types.Universe.Lookup("error").Type()) && !isNilConst(r) {
			if compatible(r, "nil", false) == 1 {
				return true
			}
		}
	}
	return false
}

func (L *layoutCtx) segs(v ssa.Value) [][]Seg {
	P := L.P
	if L.depth > 6 {
		return one(Seg{Kind: "unknown", W: -1, Expr: "depth"})
	}
	switch x := v.(type) {
	case *ssa.Call:
		name := calleeName(&x.Call)
		switch {
		case name == "slices.Concat":
			out := [][]Seg{{}}
			for _, a := range callArgsFlat(&x.Call) {
				out = cross(out, L.segs(a))
			}
			return out
		case name == "builtin.append":
			args := x.Call.Args
			left := L.segs(args[0])
			var right [][]Seg
			if len(args) > 1 {
				if el, ok := varargElems(args[1]); ok && len(el) > 0 {
					// appended individual bytes
					var ss []Seg
					for _, e := range el {
						if c, ok := constInt(e); ok {
							ss = append(ss, Seg{Kind: "const", W: 1, Bytes: []byte{byte(c)}})
						} else {
							k, n := L.classifyVal(e)
							ss = append(ss, Seg{Kind: k, W: 1, Name: n, Expr: n})
						}
					}
					right = [][]Seg{ss}
				} else {
					right = L.segs(args[1])
				}
			}
			if right == nil {
				return left
			}
			return cross(left, right)
		case strings.HasSuffix(name, "AppendUint16") || strings.HasSuffix(name, "AppendUint32") || strings.HasSuffix(name, "AppendUint64"):
			// binary.BigEndian.AppendUintN(b, v): b followed by the N/8 bytes of v
			args := x.Call.Args
			if len(args) < 2 {
				break
			}
			w := map[byte]int{'6': 2, '2': 4, '4': 8}[name[len(name)-1]]
			var left [][]Seg
			if isNilConst(args[len(args)-2]) {
				left = [][]Seg{{}}
			} else {
				left = L.segs(args[len(args)-2])
			}
			k, nm := L.classifyVal(args[len(args)-1])
			sg := Seg{Kind: k, W: w, Name: nm}
			if k == "computed" {
				sg.Expr = nm
			}
			return cross(left, one(sg))
		case name == "slices.Clip" || name == "slices.Clone" || name == "bytes.Clone":
			return L.segs(x.Call.Args[0])
		case name == "(*bytes.Buffer).Bytes":
			each := one(Seg{Kind: "each", W: -1, Name: L.bufferSource(x)})
			// bytes.NewBuffer(init): what the buffer started with comes first
			if nb, ok := x.Call.Args[0].(*ssa.Call); ok && calleeName(&nb.Call) == "bytes.NewBuffer" && !isNilConst(nb.Call.Args[0]) {
				return cross(L.segs(nb.Call.Args[0]), each)
			}
			return each
		}
		// repo helper returning bytes: inline its returned expression
		if out := L.inlineCall(x, 0); out != nil {
			return out
		}
		return one(Seg{Kind: "unknown", W: -1, Expr: "call " + name})
	case *ssa.Extract:
		// `b, err := helper()`: the bytes result of a repo helper that also returns an error
		if c, ok := x.Tuple.(*ssa.Call); ok {
			if out := L.inlineCall(c, x.Index); out != nil {
				return out
			}
			return one(Seg{Kind: "unknown", W: -1, Expr: "call " + calleeName(&c.Call)})
		}
	case *ssa.Phi:
		if L.seen[x] {
			return one(Seg{Kind: "each", W: -1, Name: "loop"})
		}
		for _, e := range x.Edges {
			if c, ok := e.(*ssa.Call); ok && calleeName(&c.Call) == "builtin.append" && c.Call.Args[0] == ssa.Value(x) {
				// an accumulation loop: what the buffer held before the loop, then one piece per iteration
				L.seen[x] = true
				init := [][]Seg{}
				for _, e2 := range x.Edges {
					if e2 == e {
						continue
					}
					if isNilConst(e2) {
						init = append(init, []Seg{})
					} else if mk, isMk := e2.(*ssa.MakeSlice); isMk {
						if n, isC := constInt(mk.Len); isC && n == 0 {
							init = append(init, []Seg{})
						} else {
							init = append(init, L.segs(e2)...)
						}
					} else {
						init = append(init, L.segs(e2)...)
					}
				}
				delete(L.seen, x)
				if len(init) == 0 {
					init = [][]Seg{{}}
				}
				return cross(dedupAlts(init), one(Seg{Kind: "each", W: -1, Name: "loop"}))
			}
		}
		L.seen[x] = true
		defer delete(L.seen, x)
		var out [][]Seg
		for i, e := range x.Edges {
			// an operand that arrives only on paths which never emit the buffer (an error recorded and returned
			// afterwards) is not a layout of the record
			if L.use != nil && x.Parent() == L.use.Parent() && L.depth == 0 && !reachesViaEdge(x.Block().Preds[i], x.Block(), L.use) {
				continue
			}
			cond := L.edgeCond(x, i)
			var alts [][]Seg
			if isNilConst(e) {
				alts = [][]Seg{{}}
			} else {
				alts = L.segs(e)
			}
			for _, a := range alts {
				if cond != "" {
					a = append([]Seg{{Kind: "when", W: 0, Name: cond}}, a...)
				}
				out = append(out, a)
			}
		}
		return dedupAlts(out)
	case *ssa.Slice:
		if x.Low != nil || x.High != nil {
			// make([]byte, n): slice t[:n]
			if a, ok := x.X.(*ssa.Alloc); ok && x.Low == nil {
				if arr, ok := derefType(a.Type()).Underlying().(*types.Array); ok {
					if h, ok := constInt(x.High); ok && h == arr.Len() {
						return L.arraySegs(a)
					}
				}
			}
			return one(Seg{Kind: "unknown", W: -1, Expr: "sub-slice " + P.sym(x)})
		}
		switch b := x.X.(type) {
		case *ssa.FieldAddr:
			if p, ok := fieldPath(b); ok {
				if arr, ok := derefType(b.Type()).Underlying().(*types.Array); ok {
					return one(Seg{Kind: "field", W: int(arr.Len()), Name: p})
				}
			}
		case *ssa.Alloc:
			// array value spilled to a cell: `x := f(); x[:]`
			if val, ok := singleStore(b); ok {
				if c := callValue(val); c != nil {
					if cal, ok := c.Call.Value.(*ssa.Function); ok && cal.Blocks != nil && P.isRepoPkg(pkgOf(cal)) {
						return L.segs(c)
					}
				}
			}
			return L.arraySegs(b)
		}
		return one(Seg{Kind: "unknown", W: -1, Expr: "slice " + P.sym(x)})
	case *ssa.UnOp:
		if x.Op == token.MUL {
			switch a := x.X.(type) {
			case *ssa.FieldAddr:
				if p, ok := fieldPath(a); ok {
					return one(Seg{Kind: "var", W: -1, Name: p})
				}
			case *ssa.Global:
				if b, ok := P.globalBytesAny(a); ok {
					return one(Seg{Kind: "const", W: len(b), Bytes: b})
				}
			case *ssa.Alloc:
				// an array variable filled in place (PutUintNN(x[:], v), x[i] = b) and then read whole
				if _, isArr := derefType(a.Type()).Underlying().(*types.Array); isArr {
					inPlace := false
					for _, r := range *a.Referrers() {
						switch r.(type) {
						case *ssa.Slice, *ssa.IndexAddr:
							inPlace = true
						}
					}
					if inPlace {
						return L.arraySegs(a)
					}
				}
				if val, ok := singleStore(a); ok {
					return L.segs(val)
				}
			}
		}
	case *ssa.MakeSlice:
		// make([]byte, n, …): n zero bytes (nothing for n = 0)
		if n, ok := constInt(x.Len); ok && n >= 0 && n <= 64 {
			if n == 0 {
				return [][]Seg{{}}
			}
			return one(Seg{Kind: "const", W: int(n), Bytes: make([]byte, n)})
		}
	case *ssa.Convert:
		if s, ok := constString(x.X); ok {
			return one(Seg{Kind: "const", W: len(s), Bytes: []byte(s)})
		}
		if u, ok := x.X.(*ssa.UnOp); ok && u.Op == token.MUL {
			if p, ok := fieldPath(u.X); ok {
				return one(Seg{Kind: "var", W: -1, Name: p})
			}
		}
		return L.segs(x.X)
	case *ssa.ChangeType:
		return L.segs(x.X)
	case *ssa.Const:
		if x.Value == nil {
			return [][]Seg{{}}
		}
		// a string constant appended byte-wise (`append(b, "INFO"...)`)
		if x.Value.Kind() == constant.String {
			bs := []byte(constant.StringVal(x.Value))
			return one(Seg{Kind: "const", W: len(bs), Bytes: bs})
		}
	case *ssa.Parameter:
		return one(Seg{Kind: "var", W: -1, Name: "param:" + x.Name()})
	}
	return one(Seg{Kind: "unknown", W: -1, Expr: P.sym(v)})
}

// edgeCond describes the condition under which edge i of phi is taken, when it is an (in)equality of a
// receiver field with constant bytes ("Type==0003").
func (L *layoutCtx) edgeCond(phi *ssa.Phi, i int) string {
	blk := phi.Block()
	pred := blk.Preds[i]
	var iff *ssa.If
	var to *ssa.BasicBlock
	if len(pred.Instrs) > 0 {
		if x, ok := pred.Instrs[len(pred.Instrs)-1].(*ssa.If); ok {
			iff, to = x, blk
		}
	}
	cur := pred
	for iff == nil && len(cur.Preds) == 1 {
		p0 := cur.Preds[0]
		if x, ok := p0.Instrs[len(p0.Instrs)-1].(*ssa.If); ok {
			iff, to = x, cur
			break
		}
		cur = p0
	}
	if iff == nil {
		return ""
	}
	f := ifFacts(iff)
	b := iff.Block()
	if b.Succs[0] == b.Succs[1] {
		return ""
	}
	if b.Succs[1] == to {
		f.Holds = !f.Holds
	}
	bin, ok := f.V.(*ssa.BinOp)
	if !ok || (bin.Op != token.EQL && bin.Op != token.NEQ) {
		return ""
	}
	eq := f.Holds == (bin.Op == token.EQL)
	for _, pair := range [][2]ssa.Value{{bin.X, bin.Y}, {bin.Y, bin.X}} {
		if u, ok := pair[0].(*ssa.UnOp); ok && u.Op == token.MUL {
			if pth, ok := fieldPath(u.X); ok {
				if bs, ok := L.P.bytesOf(pair[1]); ok {
					op := "=="
					if !eq {
						op = "!="
					}
					return fmt.Sprintf("%s%s%x", pth, op, bs)
				}
			}
		}
	}
	return ""
}

func pkgOf(fn *ssa.Function) *types.Package {
	if fn.Pkg != nil {
		return fn.Pkg.Pkg
	}
	if fn.Parent() != nil {
		return pkgOf(fn.Parent())
	}
	return nil
}

func dedupAlts(in [][]Seg) [][]Seg {
	seen := map[string]bool{}
	var out [][]Seg
	for _, a := range in {
		k := fmt.Sprint(a)
		if !seen[k] {
			seen[k] = true
			out = append(out, a)
		}
	}
	return out
}

// bufferSource: what a bytes.Buffer was filled from (ReadFrom(&elem) in a loop over a receiver field).
func (L *layoutCtx) bufferSource(bytesCall *ssa.Call) string {
	buf := bytesCall.Call.Args[0]
	fn := bytesCall.Parent()
	src := "?"
	for _, ci := range callsIn(fn) {
		c := ci.Common()
		if calleeName(c) == "(*bytes.Buffer).ReadFrom" && c.Args[0] == buf {
			F := &Flow{P: L.P, Visit: func(x ssa.Value) bool {
				if fa, ok := x.(*ssa.FieldAddr); ok {
					if p, ok := fieldPath(fa); ok && src == "?" {
						src = p
					}
				}
				return true
			}}
			F.Back(c.Args[1])
		}
	}
	return src
}

// globalBytesAny: []byte / [N]byte package variable initialised by a composite literal or []byte("...").
func (P *Prog) globalBytesAny(g *ssa.Global) ([]byte, bool) {
	if g.Pkg == nil {
		return nil, false
	}
	if b, ok := P.globalBytes(g.Pkg.Pkg.Path(), g.Name()); ok {
		return b, true
	}
	for _, p := range P.Pkgs {
		if p.PkgPath != g.Pkg.Pkg.Path() {
			continue
		}
		for _, f := range p.Syntax {
			for _, d := range f.Decls {
				gd, ok := d.(*ast.GenDecl)
				if !ok || gd.Tok != token.VAR {
					continue
				}
				for _, s := range gd.Specs {
					vs := s.(*ast.ValueSpec)
					for i, n := range vs.Names {
						if n.Name != g.Name() || i >= len(vs.Values) {
							continue
						}
						if call, ok := vs.Values[i].(*ast.CallExpr); ok && len(call.Args) == 1 {
							if tv, ok := p.TypesInfo.Types[call.Args[0]]; ok && tv.Value != nil && tv.Value.Kind() == constant.String {
								return []byte(constant.StringVal(tv.Value)), true
							}
						}
					}
				}
			}
		}
	}
	return nil, false
}

// ---------------------------------------------------------------------------------------------
// spec side

type specSeg struct {
	W           int    `json:"w"`
	Field       string `json:"field"`
	Const       string `json:"const"`
	Value       string `json:"value"`
	LenOf       string `json:"len_of"`
	CountOf     string `json:"count_of"`
	Of          string `json:"of"`
	Var         string `json:"var"`
	Each        string `json:"each"`
	Embed       string `json:"embed"`
	Stored      bool   `json:"stored"`
	Slice       bool   `json:"slice"`
	ExpectConst string `json:"expect_const"`
}

type specObj struct {
	Type     string    `json:"type"`
	Encoder  string    `json:"encoder"`
	Decoder  string    `json:"decoder"`
	Segments []specSeg `json:"segments"`
	Bundle   []specSeg `json:"segments_bundle"`
	Category []specSeg `json:"segments_category"`
	SizeFn   []string  `json:"size_fn"`
}

func (s specSeg) String() string {
	b, _ := json.Marshal(s)
	return string(b)
}

// matchSeg compares one extracted segment with one spec segment.
func matchSeg(got Seg, want specSeg, prefix string) (bool, string) {
	name := func(n string) string { return prefix + n }
	switch {
	case want.Var != "":
		if got.Kind == "var" && got.Name == name(want.Var) {
			return true, ""
		}
	case want.Each != "":
		if got.Kind == "each" && (got.Name == name(want.Of) || got.Name == "loop") {
			return true, ""
		}
	case want.Const != "":
		b, _ := hex.DecodeString(want.Const)
		if got.Kind == "const" && got.W == want.W && string(got.Bytes) == string(b) {
			return true, ""
		}
	case want.Field != "" && want.Slice:
		if got.Kind == "var" && got.Name == name(want.Field) {
			return true, ""
		}
	case want.Field != "":
		if got.Kind == "field" && got.W == want.W && got.Name == name(want.Field) {
			return true, ""
		}
		// a one-byte field appended as a value (`append(b, t.Flags)`) is that field
		if got.Kind == "valof" && got.W == 1 && want.W == 1 && got.Name == name(want.Field) {
			return true, ""
		}
	case want.Value == "len":
		if got.Kind == "lenof" && got.W == want.W && got.Name == name(want.LenOf) {
			return true, ""
		}
	case want.Value == "count":
		of := want.CountOf
		if of == "" {
			of = want.Of
		}
		parts := strings.Split(of, "+")
		for i := range parts {
			parts[i] = name(parts[i])
		}
		sort.Strings(parts)
		norm := strings.Join(parts, "+")
		if (got.Kind == "countof" || got.Kind == "lenof" || got.Kind == "valof") && got.W == want.W && (got.Name == norm || (strings.HasPrefix(got.Name, "local:") && !strings.Contains(of, "+"))) {
			return true, ""
		}
	case want.Value == "size":
		if (got.Kind == "computed" || got.Kind == "lenof") && got.W == want.W {
			return true, ""
		}
	}
	return false, fmt.Sprintf("code emits %s, protocol layout says %s", got, want)
}

func (R *Run) compareLayout(rule, construct, pos string, alts [][]Seg, want []specSeg, all map[string]specObj, wantCond string) {
	// expand embeds
	type ws struct {
		s      specSeg
		prefix string
	}
	var flat []ws
	for _, s := range want {
		if s.Embed != "" {
			emb, ok := all[s.Embed]
			if !ok {
				R.und(rule, construct, pos, "spec embeds unknown object "+s.Embed)
				return
			}
			prefix := s.Embed[strings.LastIndex(s.Embed, ".")+1:] + "."
			for _, e := range emb.Segments {
				flat = append(flat, ws{e, prefix})
			}
			continue
		}
		flat = append(flat, ws{s, ""})
	}
	// every alternative the code can emit (one per combination of phi edges) that applies to this form must equal
	// the protocol layout; at least one must apply
	var firstWhy string
	var okDesc string
	nApplicable, nMatch := 0, 0
	negOf := func(c string) string {
		if strings.Contains(c, "==") {
			return strings.Replace(c, "==", "!=", 1)
		}
		return strings.Replace(c, "!=", "==", 1)
	}
	for _, gotRaw := range alts {
		var got []Seg
		var conds []string
		for _, g := range gotRaw {
			if g.Kind == "when" {
				conds = append(conds, g.Name)
			} else {
				got = append(got, g)
			}
		}
		if wantCond != "" {
			other := false
			for _, c := range conds {
				if c == negOf(wantCond) {
					other = true
				}
			}
			if other {
				continue // belongs to the other form
			}
		}
		nApplicable++
		if len(got) > len(flat) {
			// constant bytes emitted one by one (`append(b, 0, 1)`) where the protocol names one constant: adjacent
			// constants are joined up to the width the protocol gives at that position
			var joined []Seg
			j := 0
			for _, g := range got {
				k := len(joined)
				if g.Kind == "const" && k > 0 && joined[k-1].Kind == "const" && k-1 < len(flat) && j == k-1 {
					if w := flat[k-1].s; joined[k-1].W+g.W <= w.W {
						joined[k-1].W += g.W
						joined[k-1].Bytes = append(append([]byte{}, joined[k-1].Bytes...), g.Bytes...)
						continue
					}
				}
				joined = append(joined, g)
				j = len(joined) - 1
			}
			got = joined
		}
		if len(got) != len(flat) {
			if firstWhy == "" {
				firstWhy = fmt.Sprintf("code emits %d segments %v, protocol layout has %d", len(got), got, len(flat))
			}
			continue
		}
		ok := true
		for i := range got {
			g := got[i]
			pfx := flat[i].prefix
			w := flat[i].s
			if pfx != "" {
				// embedded object: names are relative to the embedding field; stored prefixes may be recomputed
				if w.Stored && w.LenOf != "" && g.Kind == "lenof" {
					w = specSeg{W: w.W, Value: "len", LenOf: w.LenOf}
				}
			}
			if m, why := matchSeg(g, w, pfx); !m {
				// a stored prefix field may legitimately be emitted as a freshly computed length
				if w.Stored && w.LenOf != "" {
					if m2, _ := matchSeg(g, specSeg{W: w.W, Value: "len", LenOf: w.LenOf}, pfx); m2 {
						continue
					}
				}
				ok = false
				if firstWhy == "" {
					firstWhy = fmt.Sprintf("segment %d: %s", i+1, why)
					if len(conds) > 0 {
						firstWhy += fmt.Sprintf(" (on the path where %v)", conds)
					}
				}
				break
			}
		}
		if ok {
			nMatch++
			if okDesc == "" {
				var desc []string
				for _, g := range got {
					desc = append(desc, g.String())
				}
				okDesc = strings.Join(desc, " ")
			}
		}
	}
	if nApplicable > 0 && nMatch == nApplicable {
		R.ok(rule, construct, pos, "layout = "+okDesc)
		return
	}
	if nApplicable == 0 {
		firstWhy = "no path of the encoder emits this form (expected under " + wantCond + ")"
	}
	R.bad(rule, construct, pos, "wire layout differs from the protocol's record layout: "+firstWhy)
}

func checkLayouts(R *Run) { checkLayoutsFiltered(R, nil) }

func checkLayoutsFiltered(R *Run, only func(typ string) bool) {
	P := R.P
	R.rule("layout", "the operand list of the buffer each encoder assembles (slices.Concat / append chains, helper results inlined), turned into segments (fixed field of width N, constant bytes, variable field, N-byte length-of / count-of / computed value), equals the record layout of spec/layouts.json written from the protocol document: same order, widths, constants, and every length/count slot measures the segment the protocol says it announces")
	R.rule("prefix", "size helpers are arithmetic consequences of the layouts: Transaction.Size = w(param count) + Σ(w(Field header) + len(Data)) with both widths derived from the extracted layouts; FlatFileInformationFork.DataSize/Size = Σ fixed widths + len of each variable segment; stored prefix fields (Field.FieldSize, FileNameWithInfo.NameSize, FlatFileInformationFork.CommentSize/NameSize, FileHeader.Size) are outside decoders only written with the length of the data stored next to them")
	R.rule("codec-agree", "for types with both directions, the byte range each decoder assigns to a struct field equals that field's cumulative offset and width in the encoder's layout")

	var spec struct {
		Objects []specObj `json:"objects"`
	}
	if err := readSpec("layouts.json", &spec); err != nil {
		R.und("layout", "spec/layouts.json", "-", err.Error())
		return
	}
	all := map[string]specObj{}
	for _, o := range spec.Objects {
		all[o.Type] = o
	}
	extracted := map[string][][]Seg{}
	for _, o := range spec.Objects {
		if o.Encoder != "Read" {
			continue
		}
		if only != nil && !only(o.Type) {
			continue
		}
		fn := P.fn("(*" + o.Type + ").Read")
		if fn == nil {
			R.und("layout", o.Type+".Read", "-", "encoder named by the layout table does not exist (stale table)")
			continue
		}
		R.analysed(fname(fn))
		// the buffer = operand of the copy
		var buf ssa.Value
		var emit *ssa.Call
		for _, ci := range callsIn(fn) {
			if c, ok := ci.(*ssa.Call); ok && calleeName(&c.Call) == "builtin.copy" && c.Call.Args[0] == ssa.Value(fn.Params[1]) {
				emit = c
				src := c.Call.Args[1]
				// (the remainder chosen between nil — nothing left — and buf[cursor:]: the cursor rule vouches for the shape)
				if phi, isPhi := src.(*ssa.Phi); isPhi {
					var only ssa.Value
					for _, e := range phi.Edges {
						if isNilConst(e) {
							continue
						}
						if only != nil && only != e {
							only = nil
							break
						}
						only = e
					}
					if only != nil {
						src = only
					}
				}
				if sl, ok := src.(*ssa.Slice); ok {
					buf = sl.X
				} else {
					buf = src
				}
			}
		}
		if buf == nil {
			R.und("layout", o.Type+".Read", P.pos(fn.Pos()), "no copy(p, buf…) found")
			continue
		}
		L := &layoutCtx{P: P, seen: map[ssa.Value]bool{}}
		if bi, ok := stripSlice(buf).(ssa.Instruction); ok && bi.Parent() == fn {
			// where the buffer is emitted: an operand that cannot reach that point is not a layout of the record
			L.use = emit.Block()
		}
		alts := L.segs(buf)
		extracted[o.Type] = alts
		pos := P.pos(fn.Pos())
		if len(o.Bundle) > 0 {
			// two spec variants; every code alternative must equal one of them and both must occur
			R.compareLayout("layout", o.Type+".Read (bundle form)", pos, alts, o.Bundle, all, "Type!=0003")
			R.compareLayout("layout", o.Type+".Read (category form)", pos, alts, o.Category, all, "Type==0003")
			continue
		}
		R.compareLayout("layout", o.Type+".Read", pos, alts, o.Segments, all, "")
	}
	if only != nil {
		return
	}
	R.floor("layout", 12)

	R.checkPrefixes(extracted, all)
	R.checkCodecAgree(extracted, all)
}

func orEmpty(a, b [][]Seg) [][]Seg {
	if len(a) > 0 {
		return a
	}
	return b
}

func fixedWidth(segs []Seg) (int, []string) {
	w := 0
	var vars []string
	for _, s := range segs {
		if s.W >= 0 {
			w += s.W
		} else {
			vars = append(vars, s.Name)
		}
	}
	sort.Strings(vars)
	return w, vars
}

// affine describes c + Σ len(field_i) extracted from an int expression.
func (P *Prog) affineLen(v ssa.Value, c *int64, lens *[]string) bool {
	return P.affineLenD(v, c, lens, 0)
}

// narrowing: an integer conversion to a type of fewer than 32 bits. Inside a sum it makes the sum wrap for operands
// the wire format allows (a field of 65532…65535 data bytes plus its 4-byte header); only the outermost conversion —
// to the width of the prefix that is written — is part of the format.
func narrowing(v ssa.Value) bool {
	cv, ok := v.(*ssa.Convert)
	if !ok {
		return false
	}
	b, ok := cv.Type().Underlying().(*types.Basic)
	if !ok {
		return false
	}
	switch b.Kind() {
	case types.Int8, types.Uint8, types.Int16, types.Uint16:
		return true
	}
	return false
}

func (P *Prog) affineLenD(v ssa.Value, c *int64, lens *[]string, depth int) bool {
	for {
		if depth > 0 && narrowing(v) {
			return false
		}
		switch x := v.(type) {
		case *ssa.Convert:
			v = x.X
			depth++
			continue
		case *ssa.ChangeType:
			v = x.X
			continue
		}
		break
	}
	switch x := v.(type) {
	case *ssa.Const:
		n, ok := constInt(x)
		if !ok {
			return false
		}
		*c += n
		return true
	case *ssa.BinOp:
		if x.Op == token.ADD {
			return P.affineLenD(x.X, c, lens, depth+1) && P.affineLenD(x.Y, c, lens, depth+1)
		}
	case *ssa.Call:
		if calleeName(&x.Call) == "builtin.len" {
			a := stripConv(x.Call.Args[0])
			if u, ok := a.(*ssa.UnOp); ok && u.Op == token.MUL {
				if p, ok := fieldPath(u.X); ok {
					*lens = append(*lens, p)
					return true
				}
			}
			if fa, ok := a.(*ssa.FieldAddr); ok {
				if arr, ok := derefType(fa.Type()).Underlying().(*types.Array); ok {
					*c += arr.Len()
					return true
				}
			}
			// a value measured before it is put into its field: named after the one field it is stored into
			if refs := a.Referrers(); refs != nil {
				name, n := "", 0
				for _, r := range *refs {
					if st, ok := r.(*ssa.Store); ok && st.Val == a {
						if p, ok := fieldPath(st.Addr); ok {
							name = p
							n++
						}
					}
				}
				if n == 1 {
					*lens = append(*lens, name)
					return true
				}
			}
			if sl, ok := a.(*ssa.Slice); ok {
				if fa, ok := sl.X.(*ssa.FieldAddr); ok {
					if arr, ok := derefType(fa.Type()).Underlying().(*types.Array); ok {
						*c += arr.Len()
						return true
					}
				}
			}
		}
	}
	return false
}

// putValue finds the value written by the PutUintNN call that fills the byte slice returned/used.
func findPutValues(fn *ssa.Function) []ssa.Value {
	return findPutValuesDepth(fn, 0)
}

func findPutValuesDepth(fn *ssa.Function, depth int) []ssa.Value {
	var out []ssa.Value
	for _, ci := range callsIn(fn) {
		n := calleeName(ci.Common())
		if putUintWidth(n) > 0 || strings.HasSuffix(n, "AppendUint16") || strings.HasSuffix(n, "AppendUint32") || strings.HasSuffix(n, "AppendUint64") {
			a := ci.Common().Args
			out = append(out, a[len(a)-1])
		}
	}
	// … or spelled out as a byte pair: x[0] = byte(v >> 8); x[1] = byte(v)
	if hi, lo, _ := bytePairStore(fn); hi != nil && lo != nil && stripConv(hi) == stripConv(lo) {
		out = append(out, lo)
	}
	if len(out) == 0 && depth < 2 {
		// the size is computed by a sibling method of the same receiver that this one hands on
		for _, ci := range callsIn(fn) {
			h := ci.Common().StaticCallee()
			if h == nil || h.Blocks == nil || h.Pkg != fn.Pkg || h.Signature.Recv() == nil || fn.Signature.Recv() == nil || len(ci.Common().Args) == 0 || ci.Common().Args[0] != ssa.Value(fn.Params[0]) {
				continue
			}
			out = append(out, findPutValuesDepth(h, depth+1)...)
		}
	}
	return out
}

func (R *Run) checkPrefixes(extracted map[string][][]Seg, all map[string]specObj) {
	P := R.P
	// Field header width and param-count width from the extracted layouts
	fieldHdr, countW := -1, -1
	if a := extracted["hotline.Field"]; len(a) == 1 {
		fieldHdr, _ = fixedWidth(a[0])
	}
	if a := extracted["hotline.Transaction"]; len(a) == 1 {
		for _, s := range a[0] {
			if s.Kind == "countof" || (s.Kind == "lenof" && s.Name == "Fields") {
				countW = s.W
			}
		}
	}
	if fn := R.mustFn("(*hotline.Transaction).Size"); fn != nil {
		R.analysed(fname(fn))
		ok := false
		why := "Size() is not of the form PutUint32(acc + C2) with acc = Σ over Fields of (len(Data) + C1)"
		for _, v := range findPutValues(fn) {
			// acc + C2 with acc starting at 0, or acc alone starting at C2
			var phi *ssa.Phi
			var c2 int64
			if b, isBin := stripConv(v).(*ssa.BinOp); isBin && b.Op == token.ADD {
				ph, isPhi := b.X.(*ssa.Phi)
				k, isC := constInt(b.Y)
				if !isPhi || !isC {
					continue
				}
				phi, c2 = ph, k
			} else if ph, isPhi := stripConv(v).(*ssa.Phi); isPhi {
				phi = ph
			} else {
				continue
			}
			// phi = [C0, phi + (len(Data)+C1)]
			var c1 int64 = -1
			dataLen := false
			zero := false
			for _, e := range phi.Edges {
				if n, ok := constInt(e); ok {
					zero = true
					c2 += n
					continue
				}
				if step, ok := e.(*ssa.BinOp); ok && step.Op == token.ADD && step.X == ssa.Value(phi) {
					var c int64
					var lens []string
					if P.affineLen(step.Y, &c, &lens) && len(lens) == 1 && strings.HasSuffix(lens[0], "Data") {
						c1 = c
						dataLen = true
					}
				}
			}
			if zero && dataLen {
				ok = int(c1) == fieldHdr && int(c2) == countW
				why = fmt.Sprintf("Size() adds %d per field and %d once; the layouts give a %d-byte field header and a %d-byte parameter count", c1, c2, fieldHdr, countW)
			}
		}
		R.check(ok, "prefix", "hotline.Transaction.Size", P.pos(fn.Pos()), fmt.Sprintf("= %d + Σ(%d + len(Data)), widths derived from the layouts", countW, fieldHdr), why)
	}
	// FlatFileInformationFork.DataSize / Size
	if a := extracted["hotline.FlatFileInformationFork"]; len(a) == 1 {
		fixed, vars := fixedWidth(a[0])
		for _, m := range []string{"DataSize", "Size"} {
			fn := R.mustFn("(*hotline.FlatFileInformationFork)." + m)
			if fn == nil {
				continue
			}
			R.analysed(fname(fn))
			ok := false
			why := "no affine size expression found"
			for _, v := range findPutValues(fn) {
				var c int64
				var lens []string
				if P.affineLen(v, &c, &lens) {
					sort.Strings(lens)
					ok = int(c) == fixed && strings.Join(lens, ",") == strings.Join(vars, ",")
					why = fmt.Sprintf("%s() = %d + len(%s); the fork's layout has %d fixed bytes and variable parts %v", m, c, strings.Join(lens, ")+len("), fixed, vars)
				}
			}
			R.check(ok, "prefix", "hotline.FlatFileInformationFork."+m, P.pos(fn.Pos()), fmt.Sprintf("= %d + len(%s)", fixed, strings.Join(vars, ")+len(")), why)
		}
	}
	// NewFileHeader: Size = len(FilePath) + len(Type)
	if fn := R.mustFn("hotline.NewFileHeader"); fn != nil {
		R.analysed(fname(fn))
		ok := false
		why := "no size expression found"
		for _, v := range findPutValues(fn) {
			var c int64
			var lens []string
			if P.affineLen(v, &c, &lens) {
				ok = c == 2 && len(lens) == 1 && strings.HasSuffix(lens[0], "FilePath")
				why = fmt.Sprintf("Size = %d + len(%v); the header's size covers the 2-byte type and the encoded path", c, lens)
			}
		}
		R.check(ok, "prefix", "hotline.NewFileHeader: Size", P.pos(fn.Pos()), "= 2 + len(FilePath)", why)
	}
	// stored prefixes: writers outside decoders
	stored := map[string]string{ // prefix field → data field
		"hotline.Field.FieldSize":                     "hotline.Field.Data",
		"hotline.FileNameWithInfoHeader.NameSize":     "hotline.FileNameWithInfo.Name",
		"hotline.FlatFileInformationFork.CommentSize": "hotline.FlatFileInformationFork.Comment",
		"hotline.FlatFileInformationFork.NameSize":    "hotline.FlatFileInformationFork.Name",
	}
	nW := 0
	for _, fn := range P.Funcs {
		n := fn.Name()
		if (n == "Write" || n == "UnmarshalBinary" || n == "ReadFrom") && fn.Signature.Recv() != nil {
			continue // decoders take the prefix from the wire
		}
		if fn.Pkg != nil && fn.Pkg.Pkg.Path() == cmdPath {
			continue
		}
		eachInstr(fn, func(ins ssa.Instruction) {
			var fa *ssa.FieldAddr
			var val ssa.Value
			direct := false // val is the measured integer itself rather than bytes filled by PutUintNN
			switch x := ins.(type) {
			case *ssa.Store:
				f, ok := x.Addr.(*ssa.FieldAddr)
				if !ok {
					// the prefix spelled out byte by byte: F[0] = byte(V >> 8); F[1] = byte(V)
					if ia, isIA := x.Addr.(*ssa.IndexAddr); isIA {
						if f2, isF := ia.X.(*ssa.FieldAddr); isF {
							if v, lo := bytePairInto(fn, f2); lo == x {
								fa, val, direct = f2, v, true
							}
						}
					}
					if fa == nil {
						return
					}
					break
				}
				fa, val = f, x.Val
			case *ssa.Call:
				name := calleeName(&x.Call)
				if putUintWidth(name) > 0 || name == "builtin.copy" {
					var dst ssa.Value
					if name == "builtin.copy" {
						dst = x.Call.Args[0]
						val = x.Call.Args[1]
					} else {
						a := x.Call.Args
						dst = a[len(a)-2]
						val = x
					}
					if sl, ok := dst.(*ssa.Slice); ok {
						if f, ok := sl.X.(*ssa.FieldAddr); ok {
							fa = f
						}
					}
				}
			}
			if fa == nil {
				return
			}
			pf, _ := fieldOf(fa)
			dataField, isStored := stored[pf]
			if !isStored {
				return
			}
			// whole-struct literal zeroing (composite literal init) has const value
			nW++
			measured := P.measuredBy(val)
			if direct {
				measured = ""
				mv := stripConv(val)
				if c, ok := mv.(*ssa.Call); ok && calleeName(&c.Call) == "builtin.len" {
					measured = P.lengthOrigin(c.Call.Args[0])
				} else if _, isConst := mv.(*ssa.Const); !isConst {
					measured = "int:" + mv.Name()
				}
			}
			// the data stored in the same function
			var dataSyms []string
			eachInstr(fn, func(i2 ssa.Instruction) {
				if st, ok := i2.(*ssa.Store); ok {
					if f2, ok := st.Addr.(*ssa.FieldAddr); ok {
						if df, _ := fieldOf(f2); df == dataField {
							dataSyms = append(dataSyms, P.lengthOrigin(st.Val))
						}
					}
					// the whole record stored at once from a repo constructor: the data is what the constructor
					// puts into the field, expressed by the argument it was given
					if c := callValue(st.Val); c != nil {
						if h, ok := c.Call.Value.(*ssa.Function); ok && h.Blocks != nil && P.isRepoPkg(pkgOf(h)) {
							eachInstr(h, func(i3 ssa.Instruction) {
								st3, ok := i3.(*ssa.Store)
								if !ok {
									return
								}
								f3, ok := st3.Addr.(*ssa.FieldAddr)
								if !ok {
									return
								}
								if df, _ := fieldOf(f3); df != dataField {
									return
								}
								src := stripConv(st3.Val)
								for k, prm := range h.Params {
									if src == ssa.Value(prm) && k < len(c.Call.Args) {
										dataSyms = append(dataSyms, P.lengthOrigin(c.Call.Args[k]))
									}
								}
							})
						}
					}
				}
			})
			good := false
			for _, d := range dataSyms {
				if measured != "" && d == measured {
					good = true
				}
			}
			R.check(good, "prefix", fmt.Sprintf("%s: write of %s", fname(fn), shortField(pf)), P.ipos(ins),
				"prefix = length of the data stored next to it ("+measured+")",
				fmt.Sprintf("stored length prefix %s is written from len(%s) but the data stored in the same function has length of %v", pf, measured, dataSyms))
		})
	}
	if nW < 4 {
		R.bad("prefix", "stored-prefix writers", "-", fmt.Sprintf("only %d writers of stored length prefixes found (NewField, SetComment, GetFileNameList, flattenedFileObject expected)", nW))
	}
}

// measuredBy: for a prefix value (PutUintNN call / byte slice / array built from one), the sym of X in uintN(len(X)).
func (P *Prog) measuredBy(v ssa.Value) string {
	var put *ssa.Call
	switch x := v.(type) {
	case *ssa.Call:
		if putUintWidth(calleeName(&x.Call)) > 0 {
			put = x
		}
	}
	if put == nil {
		// follow: value is (a conversion of) a byte slice filled by PutUintNN
		var root ssa.Value = v
		F := &Flow{P: P, Visit: func(y ssa.Value) bool {
			if a, ok := y.(*ssa.Alloc); ok {
				root = a
				for _, r := range *a.Referrers() {
					if sl, ok := r.(*ssa.Slice); ok {
						for _, rr := range *sl.Referrers() {
							if c, ok := rr.(*ssa.Call); ok && putUintWidth(calleeName(&c.Call)) > 0 {
								put = c
							}
						}
					}
				}
				return false
			}
			return put == nil
		}}
		F.Back(v)
		_ = root
	}
	if put == nil {
		return ""
	}
	a := put.Call.Args
	val := stripConv(a[len(a)-1])
	if c, ok := val.(*ssa.Call); ok && calleeName(&c.Call) == "builtin.len" {
		return P.lengthOrigin(c.Call.Args[0])
	}
	if _, isConst := val.(*ssa.Const); !isConst {
		// a computed length (`size := len(data); if size > K { size = K }`): the same SSA value must size the data
		return "int:" + val.Name()
	}
	return ""
}

// lengthOrigin: a normal form of "the thing whose length matters": conversions and equal-length copies removed.
func (P *Prog) lengthOrigin(v ssa.Value) string {
	v = stripConv(v)
	// f.Data = make([]byte, len(data)) ; copy(f.Data, data)  → origin is data
	if ms, ok := v.(*ssa.MakeSlice); ok {
		if c, ok := stripConv(ms.Len).(*ssa.Call); ok && calleeName(&c.Call) == "builtin.len" {
			return P.lengthOrigin(c.Call.Args[0])
		}
		if l := stripConv(ms.Len); l != nil {
			if _, isConst := l.(*ssa.Const); !isConst {
				return "int:" + l.Name()
			}
		}
	}
	return stripRecv(P.sym(v))
}

// ---------------------------------------------------------------------------------------------
// codec-agree

type byteRange struct{ lo, hi int }

// decoderRanges extracts field ← p[lo:hi] assignments with constant bounds from a positional decoder.
func (P *Prog) decoderRanges(fn *ssa.Function) map[string]byteRange {
	out := map[string]byteRange{}
	if len(fn.Params) < 2 {
		return out
	}
	p := fn.Params[1]
	rangeOf := func(v ssa.Value) (byteRange, bool) {
		v = stripConv(v)
		if u, ok := v.(*ssa.UnOp); ok && u.Op == token.MUL {
			switch a := u.X.(type) {
			case *ssa.SliceToArrayPointer:
				v = a.X
			case *ssa.IndexAddr:
				if a.X == ssa.Value(p) {
					if i, ok := constInt(a.Index); ok {
						return byteRange{int(i), int(i) + 1}, true
					}
				}
				return byteRange{}, false
			}
		}
		if sl, ok := v.(*ssa.Slice); ok && sl.X == ssa.Value(p) {
			lo := int64(0)
			if sl.Low != nil {
				l, ok := constInt(sl.Low)
				if !ok {
					return byteRange{}, false
				}
				lo = l
			}
			if sl.High == nil {
				return byteRange{}, false
			}
			hi, ok := constInt(sl.High)
			if !ok {
				return byteRange{}, false
			}
			return byteRange{int(lo), int(hi)}, true
		}
		return byteRange{}, false
	}
	eachInstr(fn, func(ins ssa.Instruction) {
		switch x := ins.(type) {
		case *ssa.Store:
			fa, ok := x.Addr.(*ssa.FieldAddr)
			if !ok || fa.X != ssa.Value(fn.Params[0]) {
				return
			}
			if r, ok := rangeOf(x.Val); ok {
				if path, ok := fieldPath(fa); ok {
					out[path] = r
				}
			}
		case *ssa.Call:
			if calleeName(&x.Call) == "builtin.copy" {
				if sl, ok := x.Call.Args[0].(*ssa.Slice); ok {
					if fa, ok := sl.X.(*ssa.FieldAddr); ok && fa.X == ssa.Value(fn.Params[0]) {
						if r, ok := rangeOf(x.Call.Args[1]); ok {
							if path, ok := fieldPath(fa); ok {
								out[path] = r
							}
						}
					}
				}
			}
		}
	})
	return out
}

func (R *Run) checkCodecAgree(extracted map[string][][]Seg, all map[string]specObj) {
	P := R.P
	n := 0
	for typ, alts := range extracted {
		if len(alts) != 1 {
			continue
		}
		o := all[typ]
		for _, dec := range strings.Split(o.Decoder, ",") {
			dec = strings.TrimSpace(dec)
			if dec != "Write" && dec != "UnmarshalBinary" {
				continue
			}
			fn := P.fn("(*" + typ + ")." + dec)
			if fn == nil {
				continue
			}
			ranges := P.decoderRanges(fn)
			if len(ranges) == 0 {
				continue // decoders based on binary.Read are covered by struct order below
			}
			R.analysed(fname(fn))
			off := 0
			for _, s := range alts[0] {
				if s.W < 0 {
					break
				}
				if s.Kind == "field" || s.Kind == "var" {
					if r, ok := ranges[s.Name]; ok {
						n++
						R.check(r.lo == off && r.hi == off+s.W, "codec-agree", fmt.Sprintf("%s.%s: %s", typ, dec, s.Name), P.pos(fn.Pos()),
							fmt.Sprintf("decoder reads bytes [%d:%d) = encoder offset", r.lo, r.hi),
							fmt.Sprintf("decoder takes %s from bytes [%d:%d) but the encoder emits it at [%d:%d)", s.Name, r.lo, r.hi, off, off+s.W))
					}
				}
				off += s.W
			}
			// fields decoded that are slice-typed with fixed spec width (User.Icon/Flags)
			off = 0
			for i, s := range alts[0] {
				w := s.W
				if w < 0 && i < len(o.Segments) && o.Segments[i].Slice {
					w = o.Segments[i].W
					if r, ok := ranges[s.Name]; ok {
						n++
						R.check(r.lo == off && r.hi == off+w, "codec-agree", fmt.Sprintf("%s.%s: %s", typ, dec, s.Name), P.pos(fn.Pos()),
							fmt.Sprintf("decoder reads bytes [%d:%d)", r.lo, r.hi),
							fmt.Sprintf("decoder takes %s from bytes [%d:%d) but the protocol places it at [%d:%d)", s.Name, r.lo, r.hi, off, off+w))
					}
				}
				if w < 0 {
					break
				}
				off += w
			}
		}
	}
	// binary.Read-based decoders: struct field order = encoder order (FileNameWithInfoHeader)
	if alts := extracted["hotline.FileNameWithInfo"]; len(alts) == 1 {
		if tn, ok := P.Hot.Pkg.Scope().Lookup("FileNameWithInfoHeader").(*types.TypeName); ok {
			st := tn.Type().Underlying().(*types.Struct)
			good := true
			for i := 0; i < st.NumFields(); i++ {
				if i >= len(alts[0]) || alts[0][i].Name != st.Field(i).Name() {
					good = false
				}
				if arr, ok := st.Field(i).Type().Underlying().(*types.Array); ok && i < len(alts[0]) && int(arr.Len()) != alts[0][i].W {
					good = false
				}
			}
			n++
			R.check(good, "codec-agree", "hotline.FileNameWithInfo: header struct order", "hotline/file_name_with_info.go", "binary.Read order = encoder order", "the header struct decoded with binary.Read lists its fields in another order/width than the encoder emits them")
		}
	}
	if n < 20 {
		R.bad("codec-agree", "floor", "-", fmt.Sprintf("only %d decoder fields compared (expected at least 20)", n))
	}
}

// ruleShiftEncoding (C01, shared with C09/C10): an integer spelled out byte by byte — x[i] = byte(v >> k) for one
// and the same v over consecutive indices of one byte array / slice literal — is big-endian and complete: with n
// bytes written, byte i carries v >> 8*(n-1-i). A repeated or missing shift sends a value that agrees with the
// intended one only while the affected byte is zero.
func (R *Run) ruleShiftEncoding() {
	P := R.P
	R.rule("shift-encoding", "where the bytes of one integer are written into consecutive elements of a byte array with explicit shifts, element i of n receives v >> 8·(n−1−i) (big-endian, every byte once)")
	n := 0
	for _, fn := range P.Funcs {
		if isClientLibrary(fn) || fn.Pkg == nil || fn.Pkg.Pkg.Path() == cmdPath {
			continue
		}
		type elem struct {
			idx   int64
			shift int64
			v     ssa.Value
			st    *ssa.Store
		}
		byBase := map[ssa.Value][]elem{}
		eachInstr(fn, func(ins ssa.Instruction) {
			st, ok := ins.(*ssa.Store)
			if !ok {
				return
			}
			ia, ok := st.Addr.(*ssa.IndexAddr)
			if !ok {
				return
			}
			idx, ok := constInt(ia.Index)
			if !ok {
				return
			}
			cv, ok := st.Val.(*ssa.Convert)
			if !ok {
				return
			}
			if b, isB := cv.Type().Underlying().(*types.Basic); !isB || (b.Kind() != types.Uint8 && b.Kind() != types.Byte) {
				return
			}
			shift := int64(0)
			v := cv.X
			if sh, isSh := cv.X.(*ssa.BinOp); isSh && sh.Op == token.SHR {
				k, isK := constInt(sh.Y)
				if !isK {
					return
				}
				shift, v = k, sh.X
			}
			if _, isConst := v.(*ssa.Const); isConst {
				return
			}
			if bt, isB := v.Type().Underlying().(*types.Basic); !isB || bt.Info()&types.IsInteger == 0 || bt.Kind() == types.Uint8 || bt.Kind() == types.Int8 {
				return
			}
			byBase[ia.X] = append(byBase[ia.X], elem{idx, shift, blockLocalValue(v), st})
		})
		for _, es := range byBase {
			// groups of consecutive indices that spell the same value
			sort.Slice(es, func(i, j int) bool { return es[i].idx < es[j].idx })
			for i := 0; i < len(es); {
				j := i + 1
				for j < len(es) && es[j].idx == es[j-1].idx+1 && stripConv(es[j].v) == stripConv(es[i].v) {
					j++
				}
				if j-i >= 2 {
					n++
					cnt := int64(j - i)
					good := true
					var got []string
					for k := i; k < j; k++ {
						got = append(got, fmt.Sprint(es[k].shift))
						if es[k].shift != 8*(cnt-1-int64(k-i)) {
							good = false
						}
					}
					R.analysed(fname(fn))
					R.check(good, "shift-encoding", fmt.Sprintf("%s: %d bytes of %s", fname(fn), cnt, P.sym(es[i].v)), P.ipos(es[i].st),
						"big-endian, every byte once", fmt.Sprintf("the %d bytes are written with the shifts [%s], not [%d … 8 0]: the value on the wire differs from the value meant as soon as the affected byte is non-zero", cnt, strings.Join(got, " "), 8*(cnt-1)))
				}
				i = j
			}
		}
	}
	R.note(fmt.Sprintf("%d integers written byte by byte with shifts.", n))
}

// encoderLayout: the segments that (*typ).Read emits (one alternative), extracted as the layout rule does.
func (P *Prog) encoderLayout(typ string) ([]Seg, bool) {
	fn := P.fn("(*" + typ + ").Read")
	if fn == nil || len(fn.Params) < 2 {
		return nil, false
	}
	var buf ssa.Value
	var emit *ssa.Call
	for _, ci := range callsIn(fn) {
		if c, ok := ci.(*ssa.Call); ok && calleeName(&c.Call) == "builtin.copy" && c.Call.Args[0] == ssa.Value(fn.Params[1]) {
			emit = c
			src := c.Call.Args[1]
			if phi, isPhi := src.(*ssa.Phi); isPhi {
				var only ssa.Value
				for _, e := range phi.Edges {
					if isNilConst(e) {
						continue
					}
					if only != nil && only != e {
						only = nil
						break
					}
					only = e
				}
				if only != nil {
					src = only
				}
			}
			if sl, ok := src.(*ssa.Slice); ok {
				buf = sl.X
			} else {
				buf = src
			}
		}
	}
	if buf == nil {
		return nil, false
	}
	L := &layoutCtx{P: P, seen: map[ssa.Value]bool{}}
	if bi, ok := stripSlice(buf).(ssa.Instruction); ok && bi.Parent() == fn {
		L.use = emit.Block()
	}
	alts := L.segs(buf)
	if len(alts) != 1 {
		return nil, false
	}
	var out []Seg
	for _, g := range alts[0] {
		if g.Kind != "when" {
			out = append(out, g)
		}
	}
	return out, true
}
