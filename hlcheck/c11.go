package main

// c11.go — C11: file views agree and file operations carry the whole file (narrow structural part).

import (
	"fmt"
	"go/token"
	"go/types"
	"sort"
	"strings"

	"golang.org/x/tools/go/ssa"
)

func checkC11(R *Run) {
	P := R.P
	R.rule("sidefile-complete", "the set of fileWrapper path fields that any method hands to the filesystem (data, partial data, resource fork, info fork) is exactly the set renamed by Move — each to Join(newPath, the matching name method) — and removed by Delete; the name methods build the same names as NewFileWrapper's paths; for the three side files only 'does not exist' is tolerated")
	R.rule("charmap-pair", "names are listed through NewEncoder and decoded in ReadPath / handlers through NewDecoder of one and the same charmap in both packages")
	R.rule("ignore-both", "GetFileNameList applies the same ignore predicate with the same pattern list to the listed entries and to the children it counts for a folder")
	R.rule("view-agree", "the list and get-info report a file's size through the same fileWrapper.TotalSize() of a wrapper created with offset 0 and its type from the same information-fork field; a partial upload is listed under its name without the .incomplete suffix")
	R.rule("mkdir-no-replace", "the new-folder handler reaches Mkdir only on the edge where Stat of the target reported 'does not exist'")

	// ---- sidefile-complete
	used := map[string]bool{}
	for _, fn := range P.Funcs {
		if fn.Signature.Recv() == nil || typeName(derefType(fn.Params[0].Type())) != "hotline.fileWrapper" {
			continue
		}
		for _, ci := range callsIn(fn) {
			for _, i := range pathArgs(ci.Common()) {
				if f, ok := loadedField(ci.Common().Args[i]); ok && strings.HasPrefix(f, "hotline.fileWrapper.") {
					used[f] = true
				}
			}
		}
	}
	var usedList []string
	for f := range used {
		usedList = append(usedList, shortField(f))
	}
	sort.Strings(usedList)
	wantName := map[string]string{
		"dataPath":       "field:hotline.fileWrapper.Name",
		"incompletePath": "(*hotline.fileWrapper).incompleteDataName(param:f)",
		"rsrcPath":       "(*hotline.fileWrapper).rsrcForkName(param:f)",
		"infoPath":       "(*hotline.fileWrapper).infoForkName(param:f)",
	}
	// the paths NewFileWrapper gives the wrapper (the names the wrapper looks for)
	pathOf := map[string]string{}
	if nf := P.fn("hotline.NewFileWrapper"); nf != nil {
		eachInstr(nf, func(ins ssa.Instruction) {
			if st, ok := ins.(*ssa.Store); ok {
				if fa, ok := st.Addr.(*ssa.FieldAddr); ok {
					f, _ := fieldOf(fa)
					if strings.HasPrefix(f, "hotline.fileWrapper.") {
						pathOf[shortField(f)] = P.sym(st.Val)
					}
				}
			}
		})
	}
	// a name built in place, X(f.Name), is the wrapper's own name for the field when NewFileWrapper's path is Join(dir, X(name))
	inlineName := func(field, sym string) bool {
		if sym == "" || pathOf["Name"] == "" {
			return false
		}
		want := strings.ReplaceAll(sym, "field:hotline.fileWrapper.Name", pathOf["Name"])
		return want != sym && strings.Contains(pathOf[field], want) && strings.HasPrefix(pathOf[field], "Join(")
	}
	inPlace := map[string]bool{}
	if mv := R.mustFn("(*hotline.fileWrapper).Move"); mv != nil {
		R.analysed(fname(mv))
		moved := map[string]string{}
		movedRaw := map[string]string{}
		for _, ci := range callsIn(mv) {
			c := ci.Common()
			if calleeName(c) != "(hotline.FileStore).Rename" && calleeName(c) != "os.Rename" {
				continue
			}
			src, ok := loadedField(resolveLocal(stripConv(c.Args[0])))
			if _, _, tr := tableRows(c.Args[0]); tr != nil {
				ok = false
			}
			if !ok {
				// table-driven: for _, sf := range []sideFile{{path: f.xPath, name: X(f.Name)}, …} { Rename(sf.path, Join(newPath, sf.name)) }
				if arr, _, srcRows := tableRows(c.Args[0]); srcRows != nil {
					if dj := callValue(c.Args[1]); dj != nil && calleeName(&dj.Call) == "path/filepath.Join" {
						if a := callArgsFlat(&dj.Call); len(a) == 2 && a[0] == ssa.Value(mv.Params[1]) {
							// the name column may hold bound method values that the loop calls: `{path: f.xPath, name: f.xName}` … `sf.name()`
							if nc, isCall := a[1].(*ssa.Call); isCall && !nc.Call.IsInvoke() && nc.Call.StaticCallee() == nil && len(nc.Call.Args) == 0 {
								if arr2, _, fnRows := tableRows(nc.Call.Value); arr2 == arr && len(fnRows) == len(srcRows) {
									for k := range srcRows {
										mc, isMC := fnRows[k].(*ssa.MakeClosure)
										sf, isF := loadedField(srcRows[k])
										if !isMC || !isF || len(mc.Bindings) != 1 {
											continue
										}
										bf, _ := mc.Fn.(*ssa.Function)
										if bf == nil || !strings.HasSuffix(bf.Name(), "$bound") {
											continue
										}
										if m, isM := bf.Object().(*types.Func); isM {
											name := shortName(m.FullName()) + "(" + P.sym(mc.Bindings[0]) + ")"
											moved[shortField(sf)] = stripRecvKeepParam(name)
											movedRaw[shortField(sf)] = stripRecv(name)
										}
									}
								}
							}
							if arr2, _, dstRows := tableRows(a[1]); arr2 == arr && len(dstRows) == len(srcRows) {
								for k := range srcRows {
									if sf, isF := loadedField(srcRows[k]); isF {
										moved[shortField(sf)] = stripRecvKeepParam(P.sym(dstRows[k]))
										movedRaw[shortField(sf)] = stripRecv(P.sym(dstRows[k]))
									}
								}
							}
						}
					}
				}
				continue
			}
			dst := callValue(c.Args[1])
			target := ""
			if dst != nil && calleeName(&dst.Call) == "path/filepath.Join" {
				a := callArgsFlat(&dst.Call)
				if len(a) == 2 && a[0] == ssa.Value(mv.Params[1]) {
					target = stripRecvKeepParam(P.sym(a[1]))
					movedRaw[shortField(src)] = stripRecv(P.sym(a[1]))
				}
			}
			moved[shortField(src)] = target
		}
		for _, f := range usedList {
			got, ok := moved[f]
			want := wantName[f]
			good := ok && (want == "" || normName(got) == normName(want))
			if ok && !good && f != "dataPath" && inlineName(f, movedRaw[f]) {
				good, inPlace[f] = true, true
			}
			R.check(good, "sidefile-complete", "hotline.fileWrapper.Move: "+f, P.pos(mv.Pos()), "renamed to Join(newPath, "+got+")",
				fmt.Sprintf("Move does not take %s along to Join(newPath, its own name) (found target %q): the side file stays behind or is renamed to a wrong name", f, got))
		}
		// tolerated errors
		R.check(tolerantOnlyNotExist(P, mv, 1), "sidefile-complete", "hotline.fileWrapper.Move: error policy", P.pos(mv.Pos()), "side-file renames tolerate only ErrNotExist", "a failed rename of a side file is ignored for errors other than 'does not exist' (or the data rename's error is dropped)")
	}
	if dl := R.mustFn("(*hotline.fileWrapper).Delete"); dl != nil {
		R.analysed(fname(dl))
		removed := map[string]bool{}
		for _, ci := range callsIn(dl) {
			c := ci.Common()
			n := calleeName(c)
			if n == "(hotline.FileStore).Remove" || n == "(hotline.FileStore).RemoveAll" || n == "os.Remove" || n == "os.RemoveAll" {
				for _, f := range elemFields(c.Args[0]) {
					removed[shortField(f)] = true
				}
			}
		}
		for _, f := range usedList {
			R.check(removed[f], "sidefile-complete", "hotline.fileWrapper.Delete: "+f, P.pos(dl.Pos()), "removed", "Delete leaves "+f+" behind")
			// … and on every path that reports success (a side file that does not exist must not end the function)
			if removed[f] {
				field := f
				okAll, w, _ := successMustPass(dl, func(ins ssa.Instruction) bool {
					ci, isCall := ins.(ssa.CallInstruction)
					if !isCall {
						return false
					}
					n := calleeName(ci.Common())
					if n != "(hotline.FileStore).Remove" && n != "(hotline.FileStore).RemoveAll" && n != "os.Remove" && n != "os.RemoveAll" {
						return false
					}
					for _, x := range elemFields(ci.Common().Args[0]) {
						if shortField(x) == field {
							return true
						}
					}
					return false
				})
				if !okAll {
					// the removal sits in a loop over a literal of the path fields: the loop body runs for every
					// element, so it is enough that the loop itself is on every successful path and that no
					// iteration can leave the function with success
					for _, ci := range callsIn(dl) {
						fs := elemFields(ci.Common().Args[0])
						if len(fs) < 2 || !inLoop(ci.Block()) {
							continue
						}
						has := false
						for _, x := range fs {
							has = has || shortField(x) == field
						}
						if !has {
							continue
						}
						hdr := ci.Block()
						if u, isU := stripConv(ci.Common().Args[0]).(*ssa.Index); isU {
							if ii, isI := u.Index.(ssa.Instruction); isI {
								hdr = ii.Block()
							}
						}
						// range over a slice literal: the element is loaded through &lit[i]
						if u, isU := stripConv(ci.Common().Args[0]).(*ssa.UnOp); isU && u.Op == token.MUL {
							if ia, isIA := u.X.(*ssa.IndexAddr); isIA {
								if ii, isI := ia.Index.(ssa.Instruction); isI {
									hdr = ii.Block()
								}
							}
						}
						var tIdx ssa.Value
						if _, _, tr := tableRowsIdx(ci.Common().Args[0], &tIdx); tr != nil {
							if ii, isI := tIdx.(ssa.Instruction); isI {
								hdr = ii.Block()
							}
						}
						loopOnPath, _, _ := successMustPass(dl, func(ins ssa.Instruction) bool { return ins.Block() == hdr })
						// inside the loop, a success return is impossible: every return reachable from the body
						// without coming back to the header carries a non-nil error
						escapes := false
						explore([]psItem{{ci.Block(), nilState{}}}, nil, true, func(b *ssa.BasicBlock, st nilState) bool {
							if b == hdr {
								return false
							}
							if r, isRet := b.Instrs[len(b.Instrs)-1].(*ssa.Return); isRet {
								if n := len(r.Results); n > 0 && st.of(r.Results[n-1]) != 2 {
									escapes = true
								}
								return false
							}
							return true
						})
						if loopOnPath && !escapes {
							okAll, w = true, nil
						}
					}
				}
				pos := P.pos(dl.Pos())
				if w != nil {
					pos = P.ipos(w)
				}
				R.check(okAll, "sidefile-complete", "hotline.fileWrapper.Delete: "+f+" on every successful path", pos, "removed before every success return", "Delete can report success without having tried to remove "+f+" (e.g. it returns as soon as an earlier side file turns out not to exist): the fork stays behind and is inherited by the next file of that name")
			}
		}
		R.check(tolerantOnlyNotExist(P, dl, 1), "sidefile-complete", "hotline.fileWrapper.Delete: error policy", P.pos(dl.Pos()), "side-file removals tolerate only ErrNotExist", "a failed removal is ignored for errors other than 'does not exist'")
	}
	// name methods vs NewFileWrapper paths
	if nf := R.mustFn("hotline.NewFileWrapper"); nf != nil {
		nameSym := pathOf["Name"]
		for field, method := range map[string]string{"incompletePath": "incompleteDataName", "rsrcPath": "rsrcForkName", "infoPath": "infoForkName"} {
			m := P.fn("(*hotline.fileWrapper)." + method)
			if m == nil {
				if inPlace[field] {
					R.ok("sidefile-complete", "hotline.fileWrapper."+method+" vs "+field, "-", "the name is built in place in Move with the construction NewFileWrapper uses")
					continue
				}
				R.und("sidefile-complete", "name method "+method, "-", "method does not exist")
				continue
			}
			var retSym string
			for _, ret := range returnsOf(m) {
				retSym = stripRecv(P.sym(ret.Results[0]))
			}
			// path = Join(dir, X(fName)); name method = X(f.Name)
			want := strings.ReplaceAll(retSym, "field:hotline.fileWrapper.Name", nameSym)
			good := strings.Contains(pathOf[field], want) && strings.HasPrefix(pathOf[field], "Join(")
			R.check(good, "sidefile-complete", "hotline.fileWrapper."+method+" vs "+field, P.pos(m.Pos()), "same name construction", fmt.Sprintf("%s() builds %s but NewFileWrapper's %s is %s: Move would rename the side file to a name the wrapper does not look for", method, retSym, field, pathOf[field]))
		}
	}
	R.floor("sidefile-complete", 13)

	// ---- charmap-pair
	{
		found := map[string]string{}
		for _, sp := range P.RepoPkgs {
			init := sp.Func("init")
			if init == nil {
				continue
			}
			eachInstr(init, func(ins ssa.Instruction) {
				st, ok := ins.(*ssa.Store)
				if !ok {
					return
				}
				g, ok := st.Addr.(*ssa.Global)
				if !ok || (g.Name() != "txtDecoder" && g.Name() != "txtEncoder") {
					return
				}
				c := callValue(st.Val)
				if c == nil {
					return
				}
				cm, _ := globalName(c.Call.Args[0])
				found[shortName(sp.Pkg.Path()+"."+g.Name())] = calleeName(&c.Call) + " of " + cm
			})
		}
		var cms []string
		okAll := len(found) >= 4
		for k, v := range found {
			wantFn := "NewDecoder"
			if strings.HasSuffix(k, "Encoder") {
				wantFn = "NewEncoder"
			}
			if !strings.Contains(v, wantFn) {
				okAll = false
			}
			cms = append(cms, v[strings.LastIndex(v, " ")+1:])
		}
		for _, c := range cms {
			if c != cms[0] {
				okAll = false
			}
		}
		R.check(okAll, "charmap-pair", "txtEncoder / txtDecoder in both packages", "-", fmt.Sprintf("%v", found), fmt.Sprintf("the listing encoder and the path decoder are not NewEncoder/NewDecoder of one charmap in both packages: %v", found))
		// uses: listing encodes, ReadPath decodes
		enc, dec := false, false
		if g := P.fn("hotline.GetFileNameList"); g != nil {
			for _, ci := range callsIn(g) {
				if strings.HasSuffix(calleeName(ci.Common()), "encoding.Encoder).String") {
					if gn, _ := globalName(ci.Common().Args[0]); gn == "hotline.txtEncoder" {
						enc = true
					}
				}
			}
		}
		if g := P.fn("hotline.ReadPath"); g != nil {
			for _, ci := range callsIn(g) {
				if strings.HasSuffix(calleeName(ci.Common()), "encoding.Decoder).String") {
					if gn, _ := globalName(ci.Common().Args[0]); gn == "hotline.txtDecoder" {
						dec = true
					}
				}
			}
		}
		R.check(enc && dec, "charmap-pair", "GetFileNameList encodes / ReadPath decodes", "-", "listed names are encoded with txtEncoder, request paths decoded with txtDecoder", "the listing no longer encodes names with txtEncoder or ReadPath no longer decodes with txtDecoder: a listed name would not address the entry it names")
	}

	// ---- charmap-pair, second half: every client-supplied component of the path ReadPath returns has been decoded
	if g := R.mustFn("hotline.ReadPath"); g != nil {
		isDecode := func(c *ssa.Call) bool {
			n := calleeName(&c.Call)
			if !strings.HasSuffix(n, "encoding.Decoder).String") && !strings.HasSuffix(n, "encoding.Decoder).Bytes") {
				return false
			}
			gn, _ := globalName(c.Call.Args[0])
			return gn == "hotline.txtDecoder"
		}
		nRet := 0
		raw := ""
		for _, ret := range returnsOf(g) {
			v := retValue(ret, 0)
			if sv, isC := constString(v); isC && sv == "" {
				continue
			}
			nRet++
			F := &Flow{P: P, Call: func(c *ssa.Call, idx int) ([]ssa.Value, bool) {
				if idx == -2 {
					// a call that fills a local through its address (fp.Write(filePath)): the local holds what was passed in
					return callArgsFlat(&c.Call), true
				}
				if isDecode(c) {
					return nil, true
				}
				return callArgsFlat(&c.Call), true
			}, Visit: func(x ssa.Value) bool {
				if c, ok := x.(*ssa.Call); ok && isDecode(c) {
					return false
				}
				if x == ssa.Value(g.Params[1]) {
					raw = "the path items (filePath)"
					return false
				}
				if x == ssa.Value(g.Params[2]) {
					raw = "the file name (fileName)"
					return false
				}
				return true
			}}
			F.Back(v)
		}
		R.check(nRet > 0 && raw == "", "charmap-pair", "hotline.ReadPath: every client component decoded", P.pos(g.Pos()), "path items and file name pass through txtDecoder before they are returned", "ReadPath returns "+raw+" without passing them through txtDecoder: a folder or file listed with a non-ASCII name cannot be addressed by the name the listing shows")
	}

	// ---- wrapper-stale: a fileWrapper computes its four paths when it is built; after Move / Delete they name
	// nothing (or the place the file left), so no further method of the same wrapper may run
	R.rule("wrapper-stale", "typestate of *fileWrapper: after Move or Delete has been called on a wrapper, no other method of that same wrapper value is reachable in the function (its paths still name the old location: a fork written through it lands under the old name and is orphaned)")
	nMoves := 0
	for _, fn := range P.Funcs {
		if fn.Pkg == nil || fn.Pkg.Pkg.Path() == cmdPath {
			continue
		}
		if fn.Signature.Recv() != nil && typeName(derefType(fn.Params[0].Type())) == "hotline.fileWrapper" {
			continue // the wrapper's own methods
		}
		for _, f := range withAnons(fn) {
			for _, ci := range callsIn(f) {
				m := ci.Common()
				mn := calleeName(m)
				if mn != "(*hotline.fileWrapper).Move" && mn != "(*hotline.fileWrapper).Delete" {
					continue
				}
				nMoves++
				recv := cellOf(m.Args[0])
				construct := fmt.Sprintf("%s: %s #%d", fname(f), sed(mn), nCreateIn(f, ci))
				R.analysed(fname(f))
				after := reachableFrom(ci.Block(), nil)
				var stale ssa.Instruction
				for _, cj := range callsIn(f) {
					if cj == ci {
						continue
					}
					c := cj.Common()
					n := calleeName(c)
					if !strings.HasPrefix(n, "(*hotline.fileWrapper).") || len(c.Args) == 0 || cellOf(c.Args[0]) != recv {
						continue
					}
					later := false
					if cj.Block() == ci.Block() {
						later = instrIndex(cj.(ssa.Instruction)) > instrIndex(ci.(ssa.Instruction)) || inLoop(ci.Block())
					} else {
						later = after[cj.Block()]
					}
					if later {
						stale = cj.(ssa.Instruction)
					}
				}
				pos := P.ipos(ci)
				what := ""
				if stale != nil {
					pos = P.ipos(stale)
					what = calleeName(stale.(ssa.CallInstruction).Common())
				}
				R.check(stale == nil, "wrapper-stale", construct, pos, "no use of the wrapper afterwards", "the wrapper is used again ("+what+") after it was moved / deleted: its paths still name the old location")
			}
		}
	}
	R.floor("wrapper-stale", 3)

	// ---- path-string-compare: resolved paths are compared component-wise or not at all
	R.rule("path-string-compare", "no strings.HasPrefix / HasSuffix / Contains relates two resolved filesystem paths (results of ReadPath): 'Music' is a string prefix of 'Music Archive' without containing it, so such a test refuses or allows operations on siblings")
	nCmp := 0
	isResolved := func(v ssa.Value) bool {
		return P.reaches(v, func(x ssa.Value) bool {
			c := callValue(x)
			return c != nil && calleeName(&c.Call) == "hotline.ReadPath"
		})
	}
	for _, fn := range P.Funcs {
		if fn.Pkg == nil || fn.Pkg.Pkg.Path() == cmdPath {
			continue
		}
		for _, ci := range callsIn(fn) {
			c := ci.Common()
			switch calleeName(c) {
			case "strings.HasPrefix", "strings.HasSuffix", "strings.Contains":
				if len(c.Args) == 2 && isResolved(c.Args[0]) && isResolved(c.Args[1]) {
					nCmp++
					R.bad("path-string-compare", fmt.Sprintf("%s: %s #%d", fname(fn), calleeName(c), nCmp), P.ipos(ci), "two resolved paths are related by a string test: a sibling whose name merely starts with the other's name is treated as lying inside it")
				}
			}
		}
	}
	if nCmp == 0 {
		R.ok("path-string-compare", "server packages", "-", "no string-prefix test between resolved paths")
	}

	// ---- ignore-both
	if g := R.mustFn("hotline.GetFileNameList"); g != nil {
		R.analysed(fname(g))
		var calls []*ssa.Call
		for _, ci := range callsIn(g) {
			if c, ok := ci.(*ssa.Call); ok && calleeName(&c.Call) == "hotline.ignoreFile" {
				calls = append(calls, c)
			}
		}
		sameList := len(calls) >= 3
		for _, c := range calls {
			if c.Call.Args[1] != ssa.Value(g.Params[1]) {
				sameList = false
			}
		}
		// one on the entry itself (skips the entry), others guard the counters
		entrySkip, counted := 0, 0
		for _, c := range calls {
			nm := callValue(c.Call.Args[0])
			if nm == nil {
				continue
			}
			// counter increments dominated by the false edge?
			cut := map[Edge]bool{}
			factEdges(g, func(e Edge, f Fact) {
				if f.V == ssa.Value(c) && !f.Holds {
					cut[e] = true
				}
			})
			reach := reachable(g, cut)
			// find increments of a local counter in blocks no longer reachable
			blocked := false
			eachInstr(g, func(ins ssa.Instruction) {
				if b, ok := ins.(*ssa.BinOp); ok && b.Op.String() == "+" {
					if k, ok := constInt(b.Y); ok && k == 1 && !reach[b.Block()] && reachable(g, nil)[b.Block()] {
						blocked = true
					}
				}
			})
			// does skipping on this predicate suppress the entry itself?
			suppresses := false
			for _, cj := range callsIn(g) {
				if calleeName(cj.Common()) == "hotline.NewField" {
					if gn, _ := globalName(cj.Common().Args[0]); gn == "hotline.FieldFileNameWithInfo" && !reach[cj.Block()] {
						suppresses = true
					}
				}
			}
			if suppresses {
				entrySkip++
			} else if blocked {
				counted++
			}
		}
		R.check(sameList && counted >= 2 && entrySkip >= 1, "ignore-both", "hotline.GetFileNameList", P.pos(g.Pos()), fmt.Sprintf("%d ignoreFile calls with the configured list: entries and folder counts", len(calls)),
			fmt.Sprintf("the ignore predicate is not applied with the same list to entries and to counted children (calls: %d, same list: %v, guarding counts: %d, guarding entries: %d)", len(calls), sameList, counted, entrySkip))
	}

	// ---- view-agree
	{
		sizeSrc := map[string]string{}
		typeSrc := map[string]string{}
		offsets := map[string]bool{}
		for _, n := range []string{"hotline.GetFileNameList", "mobius.HandleGetFileInfo"} {
			fn := R.mustFn(n)
			if fn == nil {
				continue
			}
			R.analysed(n)
			for _, ci := range callsIn(fn) {
				c := ci.Common()
				switch calleeName(c) {
				case "(*hotline.fileWrapper).TotalSize":
					sizeSrc[n] = "TotalSize"
				case "hotline.NewFileWrapper":
					k, ok := constInt(c.Args[2])
					offsets[n] = ok && k == 0
				}
			}
			eachInstr(fn, func(ins ssa.Instruction) {
				if fa, ok := ins.(*ssa.FieldAddr); ok {
					if f, _ := fieldOf(fa); f == "hotline.FlatFileInformationFork.TypeSignature" {
						typeSrc[n] = "TypeSignature"
					}
				}
			})
		}
		good := len(sizeSrc) == 2 && len(typeSrc) == 2 && offsets["hotline.GetFileNameList"] && offsets["mobius.HandleGetFileInfo"]
		R.check(good, "view-agree", "list vs get-info: size and type source", "-", "both use TotalSize() of an offset-0 wrapper and the info fork's TypeSignature", fmt.Sprintf("list and get-info take size/type from different sources (size %v, type %v, offset-0 wrappers %v)", sizeSrc, typeSrc, offsets))
		// sizes put into the list come from Stat (follows aliases) or from TotalSize, never from the directory entry's own Lstat info
		if g := P.fn("hotline.GetFileNameList"); g != nil {
			nSz, badSz := 0, ""
			for _, ci := range callsIn(g) {
				c := ci.Common()
				if putUintWidth(calleeName(c)) != 4 {
					continue
				}
				a := c.Args
				dstF := ""
				if sl, ok := a[len(a)-2].(*ssa.Slice); ok {
					if fa, ok := sl.X.(*ssa.FieldAddr); ok {
						dstF, _ = fieldOf(fa)
					}
				}
				if dstF != "hotline.FileNameWithInfoHeader.FileSize" {
					continue
				}
				v := stripConv(a[len(a)-1])
				sz, ok := v.(*ssa.Call)
				if !ok || !sz.Call.IsInvoke() || sz.Call.Method.Name() != "Size" {
					continue // a count of children
				}
				nSz++
				src := callValue(sz.Call.Value)
				if src == nil || calleeName(&src.Call) != "os.Stat" {
					badSz = P.ipos(ci)
				}
			}
			R.check(nSz > 0 && badSz == "", "view-agree", "hotline.GetFileNameList: alias size", P.pos(g.Pos()), "the size listed for an alias is the Size() of the Stat'ed target", "the size listed for an alias at "+badSz+" is not taken from os.Stat of the target (the directory entry's own info describes the link, not the file): list and get-info/download disagree")
		}
		// partial upload listed under its final name
		if g := P.fn("hotline.GetFileNameList"); g != nil {
			ok := false
			for _, ci := range callsIn(g) {
				c := ci.Common()
				if calleeName(c) == "strings.ReplaceAll" || calleeName(c) == "strings.TrimSuffix" {
					for _, a := range c.Args[1:] {
						if s, isC := constString(a); isC && s == ".incomplete" {
							ok = true
						}
					}
				}
			}
			R.check(ok, "view-agree", "hotline.GetFileNameList: partial uploads", P.pos(g.Pos()), "the .incomplete suffix is stripped from listed names", "partial uploads are no longer listed under their final name")
		}
	}

	// ---- mkdir-no-replace
	for _, reg := range R.registeredHandlers() {
		if reg.Num != 205 {
			continue
		}
		fn := reg.Fn
		R.analysed(fname(fn))
		cut := map[Edge]bool{}
		n := 0
		factEdges(fn, func(e Edge, f Fact) {
			if f.Kind == "truth" {
				if c, ok := f.V.(*ssa.Call); ok && (calleeName(&c.Call) == "os.IsNotExist" || calleeName(&c.Call) == "errors.Is") {
					if st := callValue(c.Call.Args[0]); st != nil && strings.HasSuffix(calleeName(&st.Call), ".Stat") {
						n++
						if f.Holds {
							cut[e] = true
						}
					}
				}
			}
		})
		reach := reachable(fn, cut)
		for _, ci := range callsIn(fn) {
			if n2 := calleeName(ci.Common()); n2 == "(hotline.FileStore).Mkdir" || n2 == "os.Mkdir" || n2 == "os.MkdirAll" {
				R.check(n > 0 && !reach[ci.Block()], "mkdir-no-replace", fname(fn)+": Mkdir", P.ipos(ci), "only when Stat said 'does not exist'", "the folder is created although the target may already exist (Stat did not report 'does not exist')")
				// same path for Stat and Mkdir
			}
		}
	}
	R.floor("mkdir-no-replace", 1)
}

func stripRecvKeepParam(s string) string { return s }

func normName(s string) string {
	s = strings.ReplaceAll(s, "@param:f", "")
	s = strings.ReplaceAll(s, "(param:f)", "()")
	return s
}

// tolerantOnlyNotExist: in fn, every filesystem call after the first `skip` ones either returns its error,
// or ignores it only when errors.Is(err, os.ErrNotExist).
// elemFields: the struct fields a path operand stands for — the loaded field itself, or, for the element variable
// of `for _, p := range [...]string{f.a, f.b, f.c}`, every field stored into the literal (the range must cover
// all of its elements).
func elemFields(v ssa.Value) []string {
	// an element of a local array (or a field of a local struct) that merely carries the path
	if r := resolveLocal(stripConv(v)); r != stripConv(v) {
		if f, ok := loadedField(r); ok {
			return []string{f}
		}
	}
	// a column of a literal table of structs that a loop ranges over
	if _, _, rows := tableRows(v); rows != nil {
		var out []string
		for _, r := range rows {
			f, ok := loadedField(r)
			if !ok {
				return nil
			}
			out = append(out, f)
		}
		return out
	}
	if f, ok := loadedField(v); ok {
		return []string{f}
	}
	var cell *ssa.Alloc
	var index ssa.Value
	var ia *ssa.IndexAddr
	switch x := stripConv(v).(type) {
	case *ssa.Index:
		// range over an array value: t = *cell; t[i]
		if u, ok := x.X.(*ssa.UnOp); ok && u.Op == token.MUL {
			if a, ok := u.X.(*ssa.Alloc); ok {
				// the array value must be read after the literal's element stores
				cell, index = a, x.Index
				for _, r := range *a.Referrers() {
					if e, ok := r.(*ssa.IndexAddr); ok {
						for _, rr := range *e.Referrers() {
							if st, ok := rr.(*ssa.Store); ok && !instrDominates(st, u) {
								return nil
							}
						}
					}
				}
			}
		}
	case *ssa.UnOp:
		if x.Op != token.MUL {
			return nil
		}
		var ok bool
		if ia, ok = x.X.(*ssa.IndexAddr); !ok {
			return nil
		}
		index = ia.Index
		switch y := ia.X.(type) {
		case *ssa.Alloc:
			cell = y
		case *ssa.Slice:
			if a, ok := y.X.(*ssa.Alloc); ok && y.Low == nil && y.High == nil {
				cell = a
			}
		}
	}
	if cell == nil {
		return nil
	}
	arr, ok := derefType(cell.Type()).Underlying().(*types.Array)
	if !ok || !rangeIndexCovers(index, arr.Len()) {
		return nil
	}
	got := map[int64]string{}
	for _, r := range *cell.Referrers() {
		e, ok := r.(*ssa.IndexAddr)
		if !ok || e == ia {
			continue
		}
		k, isConst := constInt(e.Index)
		for _, rr := range *e.Referrers() {
			if st, ok := rr.(*ssa.Store); ok && st.Addr == ssa.Value(e) {
				f, isField := loadedField(st.Val)
				if !isConst || !isField {
					return nil
				}
				got[k] = f
			}
		}
	}
	if int64(len(got)) != arr.Len() {
		return nil
	}
	var out []string
	for i := int64(0); i < arr.Len(); i++ {
		out = append(out, got[i])
	}
	return out
}

// rangeIndexCovers: idx is the index of a `for i := range <n elements>` loop in go/ssa's shape — idx = phi+1 with
// phi starting at -1, tested `idx < n` in its own block with the body on the true edge.
func rangeIndexCovers(idx ssa.Value, n int64) bool {
	b, ok := idx.(*ssa.BinOp)
	if !ok || b.Op != token.ADD {
		return false
	}
	phi, ok := b.X.(*ssa.Phi)
	if one, ok1 := constInt(b.Y); !ok || !ok1 || one != 1 || len(phi.Edges) < 2 {
		return false
	}
	init := false
	for _, e := range phi.Edges {
		if k, ok := constInt(e); ok && k == -1 {
			init = true
		} else if e != ssa.Value(b) {
			return false
		}
	}
	blk := b.Block()
	iff, ok := blk.Instrs[len(blk.Instrs)-1].(*ssa.If)
	if !init || !ok {
		return false
	}
	cond, ok := iff.Cond.(*ssa.BinOp)
	if !ok || cond.Op != token.LSS || cond.X != ssa.Value(b) {
		return false
	}
	if k, ok := constInt(cond.Y); ok {
		return k == n
	}
	if c, ok := cond.Y.(*ssa.Call); ok && calleeName(&c.Call) == "builtin.len" {
		if sl, ok := c.Call.Args[0].(*ssa.Slice); ok && sl.Low == nil && sl.High == nil {
			if a, ok := sl.X.(*ssa.Alloc); ok {
				if arr, ok := derefType(a.Type()).Underlying().(*types.Array); ok {
					return arr.Len() == n
				}
			}
		}
	}
	return false
}

func tolerantOnlyNotExist(P *Prog, fn *ssa.Function, skip int) bool {
	n := 0
	ok := true
	for _, ci := range callsIn(fn) {
		c, isCall := ci.(*ssa.Call)
		if !isCall || pathArgs(&c.Call) == nil {
			continue
		}
		n++
		// the error must be tested: err != nil
		tested := false
		factEdges(fn, func(e Edge, f Fact) {
			if f.Kind == "nil" && callValue(f.V) == c {
				tested = true
			}
		})
		if !tested {
			ok = false
			continue
		}
		if n <= skip {
			// the primary operation: any error returns
			cut := map[Edge]bool{}
			factEdges(fn, func(e Edge, f Fact) {
				if f.Kind == "nil" && callValue(f.V) == c && f.Holds {
					cut[e] = true
				}
			})
			// with only the failure edge kept, no further filesystem call may be reachable
			reach := reachable(fn, cut)
			for _, cj := range callsIn(fn) {
				if c2, ok2 := cj.(*ssa.Call); ok2 && c2 != c && pathArgs(&c2.Call) != nil && instrDominates(c, c2) && reach[c2.Block()] {
					ok = false
				}
			}
			continue
		}
		// side files: the "continue" edge after an error must be guarded by errors.Is(err, ErrNotExist)
		guarded := false
		for _, cj := range callsIn(fn) {
			if c2, ok2 := cj.(*ssa.Call); ok2 && calleeName(&c2.Call) == "errors.Is" && callValue(c2.Call.Args[0]) == c {
				if g, _ := globalName(c2.Call.Args[1]); g == "io/fs.ErrNotExist" || g == "os.ErrNotExist" {
					guarded = true
				}
			}
		}
		if !guarded {
			ok = false
		}
	}
	return ok && n > skip
}

func init() { register("C11", checkC11) }

// tableRows: v reads column j of the element of a literal table of structs that the enclosing loop ranges over in
// full — `for _, e := range []T{{…}, {…}} { … e.f … }`. It returns the table's backing array, the column and, per
// row, the value the literal puts into that column.
func tableRows(v ssa.Value) (*ssa.Alloc, int, []ssa.Value) {
	a, j, rows := tableRowsIdx(v, nil)
	return a, j, rows
}

// tableRowsIdx also hands out the loop's index value.
func tableRowsIdx(v ssa.Value, index *ssa.Value) (*ssa.Alloc, int, []ssa.Value) {
	ld, ok := stripConv(v).(*ssa.UnOp)
	if !ok || ld.Op != token.MUL {
		return nil, 0, nil
	}
	fa, ok := ld.X.(*ssa.FieldAddr)
	if !ok {
		return nil, 0, nil
	}
	var ia *ssa.IndexAddr
	switch x := fa.X.(type) {
	case *ssa.IndexAddr:
		ia = x
	case *ssa.Alloc:
		// the range variable: one copy of the element per iteration (possibly handed on to a by-value parameter of an
		// expanded helper: a copy of the copy)
		cur := x
		for d := 0; d < 4 && ia == nil; d++ {
			src := soleStoreAny(cur)
			if _, isIdx := stripConv(src).(*ssa.Index); isIdx {
				break // an element of the array value the range statement copied: see below
			}
			el, isLd := stripConv(src).(*ssa.UnOp)
			if !isLd || el.Op != token.MUL {
				return nil, 0, nil
			}
			switch y := el.X.(type) {
			case *ssa.IndexAddr:
				ia = y
			case *ssa.Alloc:
				cur = y
			default:
				return nil, 0, nil
			}
		}
	}
	var arr *ssa.Alloc
	var idxVal ssa.Value
	if ia == nil {
		// the element taken out of the array value that the range statement copied: `t = *arr; t[i]`
		if al, isAl := fa.X.(*ssa.Alloc); isAl {
			cur := al
			for d := 0; d < 4 && arr == nil; d++ {
				src := stripConv(soleStoreAny(cur))
				switch y := src.(type) {
				case *ssa.Index:
					if ld, isLd := y.X.(*ssa.UnOp); isLd && ld.Op == token.MUL {
						if a2, isA := ld.X.(*ssa.Alloc); isA {
							arr, idxVal = a2, y.Index
						}
					}
					if arr == nil {
						return nil, 0, nil
					}
				case *ssa.UnOp:
					a2, isA := y.X.(*ssa.Alloc)
					if y.Op != token.MUL || !isA {
						return nil, 0, nil
					}
					cur = a2
				default:
					return nil, 0, nil
				}
			}
		}
		if arr == nil {
			return nil, 0, nil
		}
	} else {
		idxVal = ia.Index
		switch y := ia.X.(type) {
		case *ssa.Alloc:
			arr = y
		case *ssa.Slice:
			if a, ok := y.X.(*ssa.Alloc); ok && y.Low == nil && y.High == nil {
				arr = a
			}
		}
	}
	if arr == nil {
		return nil, 0, nil
	}
	// the array ranged over may be a copy of the variable that holds the literal (the result variable of an expansion)
	for d := 0; d < 3; d++ {
		src := soleStoreAny(arr)
		if src == nil {
			break
		}
		ld2, isLd := stripConv(src).(*ssa.UnOp)
		if !isLd || ld2.Op != token.MUL {
			break
		}
		a2, isA := ld2.X.(*ssa.Alloc)
		if !isA {
			break
		}
		arr = a2
	}
	at, ok := derefType(arr.Type()).Underlying().(*types.Array)
	if !ok || !rangeIndexCovers(idxVal, at.Len()) {
		return nil, 0, nil
	}
	rows := make([]ssa.Value, at.Len())
	for _, r := range *arr.Referrers() {
		e, ok := r.(*ssa.IndexAddr)
		if !ok || ia != nil && e == ia {
			continue
		}
		k, isConst := constInt(e.Index)
		if !isConst || k < 0 || k >= at.Len() {
			return nil, 0, nil
		}
		fieldStore := func(base ssa.Value) {
			refs := base.Referrers()
			if refs == nil {
				return
			}
			for _, rr := range *refs {
				f2, ok := rr.(*ssa.FieldAddr)
				if !ok || f2.Field != fa.Field {
					continue
				}
				for _, r3 := range *f2.Referrers() {
					if st, ok := r3.(*ssa.Store); ok && st.Addr == ssa.Value(f2) {
						rows[k] = st.Val
					}
				}
			}
		}
		fieldStore(e)
		// the element built in a temporary and stored whole: `t = T{…}; arr[k] = t`
		for _, rr := range *e.Referrers() {
			if st, ok := rr.(*ssa.Store); ok && st.Addr == ssa.Value(e) {
				if tl, isLd := st.Val.(*ssa.UnOp); isLd && tl.Op == token.MUL {
					if tmp, isAl := tl.X.(*ssa.Alloc); isAl {
						fieldStore(tmp)
					}
				}
			}
		}
	}
	for _, r := range rows {
		if r == nil {
			return nil, 0, nil
		}
	}
	if index != nil {
		*index = idxVal
	}
	return arr, fa.Field, rows
}
