package main

// c06.go — C06: no privilege amplification; protected users cannot be kicked.

import (
	"fmt"
	"go/token"
	"go/types"

	"golang.org/x/tools/go/ssa"
)

// induction describes a loop counter taking the values lo, lo+1, ..., hi-1 in the loop body.
type induction struct {
	phi       *ssa.Phi
	lo, hi    int64
	testBlock *ssa.BasicBlock // block holding the loop test on the counter
	bodyStart *ssa.BasicBlock // first block of an iteration
	exitEdges []Edge          // every edge that leaves the loop through its test(s)
	rotated   bool
}

// inductionOf recognises the two loop shapes go/ssa produces for a counter v: `for i := lo; i < hi; i++`
// (test at the top, on the phi) and the rotated `for i := range hi` form (constant entry test, test on phi+1 at
// the bottom).  v must be the phi itself.
func inductionOf(v ssa.Value) (*induction, bool) {
	phi, ok := v.(*ssa.Phi)
	if !ok || len(phi.Edges) != 2 {
		return nil, false
	}
	var init int64
	var step *ssa.BinOp
	haveInit := false
	for _, e := range phi.Edges {
		if c, ok := constInt(e); ok {
			init, haveInit = c, true
			continue
		}
		if b, ok := e.(*ssa.BinOp); ok && b.Op == token.ADD && b.X == ssa.Value(phi) {
			if c, ok := constInt(b.Y); ok && c == 1 {
				step = b
			}
		}
	}
	if !haveInit || step == nil {
		return nil, false
	}
	fn := phi.Parent()
	for _, b := range fn.Blocks {
		if len(b.Instrs) == 0 {
			continue
		}
		i, ok := b.Instrs[len(b.Instrs)-1].(*ssa.If)
		if !ok {
			continue
		}
		bin, ok := i.Cond.(*ssa.BinOp)
		if !ok {
			continue
		}
		n, ok := constInt(bin.Y)
		if !ok {
			continue
		}
		switch bin.Op {
		case token.LSS:
		case token.LEQ:
			n++
		default:
			continue
		}
		if bin.X == ssa.Value(phi) && b == phi.Block() {
			return &induction{phi: phi, lo: init, hi: n, testBlock: b, bodyStart: b.Succs[0], exitEdges: []Edge{{b, b.Succs[1]}}}, true
		}
		if bin.X == ssa.Value(step) && b.Succs[0] == phi.Block() {
			ind := &induction{phi: phi, lo: init, hi: n, testBlock: b, bodyStart: phi.Block(), exitEdges: []Edge{{b, b.Succs[1]}}, rotated: true}
			// the constant entry test
			for _, pred := range phi.Block().Preds {
				if pred == b || len(pred.Instrs) == 0 {
					continue
				}
				if pi, ok := pred.Instrs[len(pred.Instrs)-1].(*ssa.If); ok {
					if pb, ok := pi.Cond.(*ssa.BinOp); ok {
						c0, ok0 := constInt(pb.X)
						c1, ok1 := constInt(pb.Y)
						if ok0 && ok1 && c0 == init && ((pb.Op == token.LSS && c1 == n) || (pb.Op == token.LEQ && c1+1 == n)) && pred.Succs[0] == phi.Block() {
							ind.exitEdges = append(ind.exitEdges, Edge{pred, pred.Succs[1]})
							continue
						}
					}
					return nil, false
				}
			}
			return ind, true
		}
	}
	return nil, false
}

// cellOf identifies a local variable cell: load of an Alloc, or load of a free variable bound to one.
// anonParamArg: the argument that a function literal called (or started with go / defer) on the spot receives for its
// parameter p; nil when the literal has another use or more than one such site.
func anonParamArg(p *ssa.Parameter) ssa.Value {
	fn := p.Parent()
	if fn == nil || fn.Parent() == nil {
		return nil
	}
	idx := -1
	for i, q := range fn.Params {
		if q == p {
			idx = i
		}
	}
	if idx < 0 {
		return nil
	}
	var arg ssa.Value
	n := 0
	for _, pf := range withAnons(rootFn(fn)) {
		for _, ci := range callsIn(pf) {
			cv := ci.Common().Value
			if mc, ok := cv.(*ssa.MakeClosure); ok {
				cv = mc.Fn
			}
			if cv == ssa.Value(fn) && !ci.Common().IsInvoke() && idx < len(ci.Common().Args) {
				arg = ci.Common().Args[idx]
				n++
			}
		}
	}
	if n != 1 || fn.Referrers() != nil && len(*fn.Referrers()) > 1 {
		return nil
	}
	return arg
}

func cellOf(v ssa.Value) ssa.Value {
	v = stripConv(v)
	if p, ok := v.(*ssa.Parameter); ok {
		if a := anonParamArg(p); a != nil {
			return cellOf(a)
		}
		return v
	}
	u, ok := v.(*ssa.UnOp)
	if !ok || u.Op != token.MUL {
		return v
	}
	switch x := u.X.(type) {
	case *ssa.Alloc:
		return x
	case *ssa.FreeVar:
		fn := x.Parent()
		idx := -1
		for i, fv := range fn.FreeVars {
			if fv == x {
				idx = i
			}
		}
		if idx >= 0 && fn.Parent() != nil {
			var found ssa.Value
			for _, pf := range withAnons(rootFn(fn)) {
				eachInstr(pf, func(ins ssa.Instruction) {
					if mc, ok := ins.(*ssa.MakeClosure); ok && mc.Fn == fn && idx < len(mc.Bindings) {
						found = mc.Bindings[idx]
					}
				})
			}
			if found != nil {
				return found
			}
		}
	}
	return v
}

// singleStore: the cell is assigned exactly once (so all its loads denote one value); returns that value.
func singleStore(cell ssa.Value) (ssa.Value, bool) {
	a, ok := cell.(*ssa.Alloc)
	if !ok {
		return nil, false
	}
	var val ssa.Value
	n := 0
	for _, f := range withAnons(rootFn(a.Parent())) {
		eachInstr(f, func(ins ssa.Instruction) {
			if s, ok := ins.(*ssa.Store); ok {
				root, path := addrPath(s.Addr)
				if len(path) == 0 && (root == ssa.Value(a) || cellOfAddr(root) == ssa.Value(a)) {
					n++
					val = s.Val
				}
			}
		})
	}
	return val, n == 1
}

func cellOfAddr(addr ssa.Value) ssa.Value {
	if fv, ok := addr.(*ssa.FreeVar); ok {
		return cellOf(&ssa.UnOp{Op: token.MUL, X: fv})
	}
	return addr
}

type subsetRes struct {
	ind         *induction
	auth, isSet *ssa.Call
	why         []string
}

// subsetLoopIn looks in fn for the per-bit subset loop on requester `own`: a counting loop whose exit edges are the
// only way to the sink blocks, holding IsSet(i) and own.Authorize(i) on the same counter as branch conditions.
// why lists what is wrong with a recognised loop (wrong range; an iteration with the bit requested and not held
// can complete or reach a sink).
func (P *Prog) subsetLoopIn(fn *ssa.Function, own ssa.Value, sinks []*ssa.BasicBlock, bits int64) (*subsetRes, []string) {
	var problems []string
	var res *subsetRes
	for _, cj := range callsIn(fn) {
		c, ok := cj.(*ssa.Call)
		if !ok {
			continue
		}
		recv, p, arg, ok := authorizeCall(c)
		if ok && recv != own {
			// (the requester carried in a field of a local parameter object)
			recv = stripConv(resolveLocal(stripConv(recv)))
		}
		if !ok || p >= 0 || recv != own {
			continue
		}
		ind, ok := inductionOf(arg)
		if !ok {
			problems = append(problems, "Authorize with a non-constant argument that is not a recognised loop counter at "+P.ipos(c))
			continue
		}
		exitCut := map[Edge]bool{}
		for _, e := range ind.exitEdges {
			exitCut[e] = true
		}
		r := reachable(fn, exitCut)
		escapes := false
		for _, sb := range sinks {
			if r[sb] {
				escapes = true
			}
		}
		if escapes {
			continue
		}
		for _, ck := range callsIn(fn) {
			c2, ok := ck.(*ssa.Call)
			if ok && calleeName(&c2.Call) == "(*hotline.AccessBitmap).IsSet" && len(c2.Call.Args) == 2 && c2.Call.Args[1] == arg {
				res = &subsetRes{ind: ind, auth: c, isSet: c2}
			}
		}
	}
	if res == nil {
		return nil, problems
	}
	found := res.ind
	if found.lo != 0 || found.hi != bits {
		res.why = append(res.why, fmt.Sprintf("the loop covers bits %d..%d, not 0..%d", found.lo, found.hi-1, bits-1))
	}
	cut := map[Edge]bool{}
	nIs, nAu := 0, 0
	factEdges(fn, func(e Edge, f Fact) {
		if f.V == ssa.Value(res.isSet) {
			nIs++
		}
		if f.V == ssa.Value(res.auth) {
			nAu++
		}
		if f.Kind != "truth" {
			return
		}
		if f.V == ssa.Value(res.isSet) && !f.Holds {
			cut[e] = true
		}
		if f.V == ssa.Value(res.auth) && f.Holds {
			cut[e] = true
		}
	})
	used := func(c *ssa.Call) bool {
		if c.Referrers() == nil {
			return false
		}
		for _, r := range *c.Referrers() {
			if _, dbg := r.(*ssa.DebugRef); !dbg {
				return true
			}
		}
		return false
	}
	if (nIs == 0 && !used(res.isSet)) || (nAu == 0 && !used(res.auth)) {
		res.why = append(res.why, "IsSet/Authorize results are not used")
	}
	// the refusing iteration: the requested bit is set, the requester lacks it. Walked with these two outcomes fixed
	// (so that a verdict collected in a flag is followed too), it must neither start another iteration nor reach Create.
	seed := nilState{res.isSet: 2, res.auth: 1}
	first, reenter, sinkHit := true, false, false
	exploreCond([]psItem{{found.bodyStart, seed}}, cut, nil, false, func(b *ssa.BasicBlock, _ nilState) bool {
		if b == res.isSet.Block() {
			// the test of the requested bit: reached once in this iteration, a second time only in a next one
			if first {
				first = false
				return true
			}
			reenter = true
			return false
		}
		for _, sb := range sinks {
			if b == sb {
				sinkHit = true
			}
		}
		return true
	})
	if reenter {
		res.why = append(res.why, "an iteration in which the requested bit is set and the requester lacks it can complete (the loop goes on to the next bit)")
	}
	if sinkHit {
		res.why = append(res.why, "Create (or the helper's 'allowed' result) is reachable from inside such an iteration")
	}
	if !found.bodyStart.Dominates(res.isSet.Block()) || !found.bodyStart.Dominates(res.auth.Block()) {
		res.why = append(res.why, "the IsSet/Authorize tests are not inside the loop body")
	}
	return res, problems
}

// subsetHelperIn recognises the loop extracted into a bool predicate: a call h(.., own, .., &bitmap, ..) in fn whose
// callee holds the subset loop on the corresponding parameters, returns one constant (the verdict "exceeds") only
// from inside a refusing iteration and the other constant only through the loop exit — and the sink in fn is
// unreachable once the edges on which the call yields the "allowed" constant are cut.
func (P *Prog) subsetHelperIn(fn *ssa.Function, own ssa.Value, sink *ssa.BasicBlock, bits int64) (*subsetRes, *ssa.Call, ssa.Value) {
	for _, cj := range callsIn(fn) {
		c, ok := cj.(*ssa.Call)
		if !ok {
			continue
		}
		h, ok := c.Call.Value.(*ssa.Function)
		if !ok || h.Blocks == nil || !P.isRepoPkg(pkgOf(h)) || h.Signature.Results().Len() != 1 {
			continue
		}
		if b, ok := h.Signature.Results().At(0).Type().Underlying().(*types.Basic); !ok || b.Kind() != types.Bool {
			continue
		}
		k := -1
		for i, a := range c.Call.Args {
			if a == own && i < len(h.Params) {
				k = i
			}
		}
		if k < 0 {
			continue
		}
		for _, badVal := range []bool{true, false} {
			var sinks []*ssa.BasicBlock
			allConst := true
			for _, ret := range returnsOf(h) {
				cst, ok := ret.Results[0].(*ssa.Const)
				if !ok || cst.Value == nil {
					allConst = false
					break
				}
				if (cst.Value.String() == "true") != badVal {
					sinks = append(sinks, ret.Block())
				}
			}
			if !allConst || len(sinks) == 0 {
				continue
			}
			res, _ := P.subsetLoopIn(h, h.Params[k], sinks, bits)
			if res == nil {
				continue
			}
			// the bitmap tested inside is one of the helper's parameters, only ever read through IsSet
			j := -1
			for i, prm := range h.Params {
				if res.isSet.Call.Args[0] == ssa.Value(prm) {
					j = i
				}
			}
			if j < 0 || j >= len(c.Call.Args) {
				res.why = append(res.why, "the bitmap tested in "+fname(h)+" is not one of its parameters")
				return res, c, nil
			}
			for _, r := range *h.Params[j].Referrers() {
				switch x := r.(type) {
				case *ssa.DebugRef:
				case *ssa.Call:
					if calleeName(&x.Call) != "(*hotline.AccessBitmap).IsSet" {
						res.why = append(res.why, "the helper passes the bitmap on to "+calleeName(&x.Call))
					}
				default:
					res.why = append(res.why, "the helper uses the bitmap other than through IsSet at "+P.ipos(x))
				}
			}
			// in fn: the sink only on edges where the verdict is "allowed"
			cut := map[Edge]bool{}
			n := 0
			factEdges(fn, func(e Edge, f Fact) {
				if f.Kind == "truth" && f.V == ssa.Value(c) {
					n++
					if f.Holds != badVal {
						cut[e] = true
					}
				}
			})
			if n == 0 {
				res.why = append(res.why, "the verdict of "+fname(h)+" is not used as a branch condition")
			}
			if reachable(fn, cut)[sink] {
				res.why = append(res.why, "Create is reachable without "+fname(h)+" having returned its 'allowed' verdict")
			}
			return res, c, c.Call.Args[j]
		}
	}
	return nil, nil, nil
}

// canon names the object a value denotes, looking through single-assignment local cells: a variable that is
// assigned once (directly, or as the parameter binding of an expanded helper) denotes what was assigned to it.
func canon(v ssa.Value) ssa.Value {
	for d := 0; d < 6; d++ {
		c := cellOf(v)
		a, ok := c.(*ssa.Alloc)
		if !ok {
			return stripConv(c)
		}
		val, single := singleStore(a)
		if !single {
			return a
		}
		v = val
	}
	return v
}

func checkC06(R *Run) {
	P := R.P
	R.rule("subset-loop", "every AccountManager.Create reachable from a handler is preceded by a loop over i = 0..63 (init 0, step 1, bound 8*len(AccessBitmap)) in which an iteration with requested.IsSet(i) true and requester.Authorize(i) false (same i) can neither complete nor reach Create; Create is only reachable through the loop's exit edge")
	R.rule("subset-bitmap", "the bitmap tested in the loop is the very cell whose value becomes the Access of the account passed to Create, and it is not written after the loop starts")
	R.rule("nodiscon-guard", "in the disconnect-user handler every ban (BanMgr.Add) and the Disconnect of the target are unreachable when target.Authorize(23 cannot-be-disconnected) is true, and the tested connection is the one that is banned/disconnected (the ClientMgr.Get result for the request's user-ID field)")

	bitmapBits := int64(64)
	if tn, ok := P.Hot.Pkg.Scope().Lookup("AccessBitmap").(*types.TypeName); ok {
		if arr, ok := tn.Type().Underlying().(*types.Array); ok {
			bitmapBits = arr.Len() * 8
		}
	}

	regs := R.registeredHandlers()
	handlerSet := map[*ssa.Function]bool{}
	for _, r := range regs {
		handlerSet[r.Fn] = true
	}
	nCreate := 0
	for _, reg := range regs {
		fn := reg.Fn
		for _, ci := range callsIn(fn) {
			if calleeName(ci.Common()) != "(hotline.AccountManager).Create" {
				continue
			}
			nCreate++
			R.analysed(fname(fn))
			construct := fmt.Sprintf("%s: Create at %s", fname(fn), "call "+fmt.Sprint(nCreate))
			construct = fmt.Sprintf("%s: AccountManager.Create #%d", fname(fn), nCreateIn(fn, ci))
			pos := P.ipos(ci)
			own := ssa.Value(fn.Params[0])
			res, problems := P.subsetLoopIn(fn, own, []*ssa.BasicBlock{ci.Block()}, bitmapBits)
			var checkStart ssa.Instruction
			var bmVal ssa.Value
			var helperCall *ssa.Call
			if res != nil {
				checkStart = res.ind.bodyStart.Instrs[0]
				bmVal = res.isSet.Call.Args[0]
			} else {
				// the loop extracted into a predicate helper: `if exceeds(cc, &bitmap) { refuse }`
				res, helperCall, bmVal = P.subsetHelperIn(fn, own, ci.Block(), bitmapBits)
				if res != nil {
					checkStart = helperCall
				}
			}
			if res == nil {
				R.und("subset-loop", construct, pos, "no per-bit loop 'requested.IsSet(i) && !requester.Authorize(i) → refuse' whose exit dominates this Create was recognised (accepted idiom: counting loop over the bit index with IsSet and Authorize on the same counter, in the handler or in a bool helper taking the requester and the bitmap). "+fmt.Sprint(problems))
				continue
			}
			found := res.ind
			R.check(len(res.why) == 0, "subset-loop", construct, pos, fmt.Sprintf("loop over bits %d..%d refuses on requested∧¬held; Create only after loop exit", found.lo, found.hi-1),
				"the per-bit subset check before Create is broken: "+fmt.Sprint(res.why))

			// subset-bitmap
			// the cell: a local variable, or a field of a local struct variable (every address of that field)
			cellSet := map[ssa.Value]bool{}
			var cellRefs []ssa.Instruction
			okB := true
			var whyB []string
			switch c := bmVal.(type) {
			case *ssa.Alloc:
				cellSet[c] = true
				cellRefs = append(cellRefs, *c.Referrers()...)
				// the tested variable is a copy (a by-value parameter of an expanded helper) of another local: what is
				// said about the copy is said about the original, which must not change once the copy is taken either
				for cur, d := c, 0; d < 3; d++ {
					src := soleStoreAny(cur)
					ld, isLd := src.(*ssa.UnOp)
					if !isLd || ld.Op != token.MUL {
						break
					}
					orig, isAl := ld.X.(*ssa.Alloc)
					if !isAl || !pristineCopy(cur) {
						break
					}
					cellSet[orig] = true
					for _, r := range *orig.Referrers() {
						if r != ssa.Instruction(ld) {
							cellRefs = append(cellRefs, r)
						}
					}
					cur = orig
				}
			case *ssa.FieldAddr:
				base, isLocal := c.X.(*ssa.Alloc)
				if !isLocal {
					break
				}
				for _, r := range *base.Referrers() {
					switch x := r.(type) {
					case *ssa.FieldAddr:
						if x.Field == c.Field {
							cellSet[x] = true
							cellRefs = append(cellRefs, *x.Referrers()...)
						}
					case *ssa.DebugRef, *ssa.UnOp:
					default:
						// the whole struct written or handed out: only before the check starts
						if !instrDominates(r, checkStart) {
							okB = false
							whyB = append(whyB, "the struct holding the bitmap is written or handed out after the check started at "+P.ipos(r))
						}
					}
				}
			}
			if len(cellSet) == 0 {
				R.und("subset-bitmap", construct, pos, "the tested bitmap is not a local variable cell")
				continue
			}
			// Create's argument derives from NewAccount(..., load bm) or a composite with Access = load bm
			derives := false
			F := &Flow{P: P, Call: func(c *ssa.Call, idx int) ([]ssa.Value, bool) {
				if calleeName(&c.Call) == "hotline.NewAccount" && len(c.Call.Args) == 4 {
					if ld, ok := c.Call.Args[3].(*ssa.UnOp); ok && ld.Op == token.MUL && cellSet[ld.X] {
						derives = true
					}
					return []ssa.Value{c.Call.Args[3]}, true
				}
				return nil, true
			}, Visit: func(x ssa.Value) bool {
				if cellSet[x] {
					derives = true
					return false
				}
				if fa, ok := x.(*ssa.FieldAddr); ok {
					if f, _ := fieldOf(fa); f != "hotline.Account.Access" {
						// other fields of the account are irrelevant
						_ = f
					}
				}
				return true
			}}
			F.Back(ci.Common().Args[0])
			if !derives {
				okB = false
				whyB = append(whyB, "the Access of the account passed to Create does not come from the bitmap that was checked")
			}
			for _, r := range cellRefs {
				switch x := r.(type) {
				case *ssa.DebugRef:
				case *ssa.UnOp:
				case *ssa.Call:
					n := calleeName(&x.Call)
					if n == "(*hotline.AccessBitmap).IsSet" || x == helperCall {
						continue
					}
					if !instrDominates(x, checkStart) {
						okB = false
						whyB = append(whyB, "the bitmap is passed to "+n+" after the check started at "+P.ipos(x))
					}
				case *ssa.Slice:
					for _, rr := range *x.Referrers() {
						if ins, ok := rr.(ssa.Instruction); ok && !instrDominates(ins, checkStart) {
							okB = false
							whyB = append(whyB, "the bitmap's bytes are accessible for writing after the check started at "+P.ipos(ins))
						}
					}
				case *ssa.IndexAddr, *ssa.Store:
					if !instrDominates(x.(ssa.Instruction), checkStart) {
						okB = false
						whyB = append(whyB, "the bitmap is written after the check started at "+P.ipos(x.(ssa.Instruction)))
					}
				default:
					okB = false
					whyB = append(whyB, fmt.Sprintf("unrecognised use of the bitmap at %s", P.ipos(x)))
				}
			}
			R.check(okB, "subset-bitmap", construct, pos, "checked cell = stored Access; no write after the loop starts", "the checked bitmap and the stored bitmap can differ: "+fmt.Sprint(whyB))
		}
	}
	R.floor("subset-loop", 2)
	R.floor("subset-bitmap", 2)
	R.ruleSessionAccessRefresh()
	R.ruleManagerStoresGiven()

	// Create must not be called from anywhere else on a request path
	for _, fn := range P.Funcs {
		if handlerSet[fn] || fn.Pkg == nil || fn.Pkg.Pkg.Path() == cmdPath {
			continue
		}
		for _, ci := range callsIn(fn) {
			if calleeName(ci.Common()) == "(hotline.AccountManager).Create" {
				R.und("subset-loop", fname(fn)+": AccountManager.Create", P.ipos(ci), "account creation outside a registered handler: not covered by the subset-loop idiom")
			}
		}
	}

	// nodiscon-guard
	var disc *HandlerReg
	for i := range regs {
		if regs[i].Num == 110 {
			disc = &regs[i]
		}
	}
	if disc == nil {
		R.bad("nodiscon-guard", "transaction 110", "-", "no handler registered for Disconnect User")
		return
	}
	fn := disc.Fn
	R.analysed(fname(fn))
	memo := map[*ssa.Function]map[string][]string{}
	own := ssa.Value(fn.Params[0])
	// the target cell: receiver of Disconnect (directly or in the go closure)
	var targetCell ssa.Value
	var discSites []ssa.Instruction
	for _, f := range withAnons(fn) {
		for _, ci := range callsIn(f) {
			if calleeName(ci.Common()) == "(*hotline.ClientConn).Disconnect" {
				targetCell = canon(ci.Common().Args[0])
			}
		}
	}
	sites := P.effectSites(fn, own, memo)
	for _, s := range sites {
		if _, ok := s.classes["disconnect"]; ok {
			discSites = append(discSites, s.ins)
		}
		if _, ok := s.classes["ban.add"]; ok {
			discSites = append(discSites, s.ins)
		}
	}
	if targetCell == nil || len(discSites) == 0 {
		R.bad("nodiscon-guard", fname(fn), P.pos(fn.Pos()), "the handler of transaction 110 contains no Disconnect / ban site any more: the disconnect mechanism moved and the rule cannot vouch for it")
		return
	}
	val, single := singleStore(targetCell)
	fromGet := false
	if c := callValue(targetCell); c != nil && calleeName(&c.Call) == "(hotline.ClientManager).Get" {
		fromGet, single = true, true
	} else if single {
		if c := callValue(val); c != nil && calleeName(&c.Call) == "(hotline.ClientManager).Get" {
			fromGet = true
		}
	} else if c := callValue(targetCell); c != nil && calleeName(&c.Call) == "(hotline.ClientManager).Get" {
		fromGet = true
		single = true
	}
	R.check(single && fromGet, "nodiscon-guard", fname(fn)+": target identity", P.pos(fn.Pos()),
		"the disconnected connection is the single ClientMgr.Get result", "the connection that is disconnected is not a single-assignment ClientMgr.Get result, so the protection test may concern another connection")
	cut := map[Edge]bool{}
	nGuard := 0
	factEdges(fn, func(e Edge, f Fact) {
		for _, pf := range P.expandFact(f, isAuthorizePrim, 0) {
			if pf.kind != "truth" || len(pf.args) != 2 || pf.args[0] == nil {
				continue
			}
			if k, ok := constInt(pf.args[1]); ok && k == 23 && canon(pf.args[0]) == targetCell {
				nGuard++
				if !pf.holds {
					cut[e] = true
				}
			}
		}
	})
	reach := reachable(fn, cut)
	for _, s := range discSites {
		name := "go/closure"
		if ci, ok := s.(ssa.CallInstruction); ok {
			name = calleeName(ci.Common())
			if name == "" {
				name = "go closure"
			}
		}
		R.check(nGuard > 0 && !reach[s.Block()], "nodiscon-guard", fmt.Sprintf("%s: %s #%d", fname(fn), name, nCreateIn(fn, s)), P.ipos(s),
			"unreachable for a protected target", "a target whose account has cannot-be-disconnected (23) still reaches this ban/disconnect site", P.describePath(pathTo(fn, s.Block(), cut))...)
	}
	R.floor("nodiscon-guard", 3)
}

// nCreateIn: ordinal of the instruction among the calls to the same callee in fn (stable construct key).
func nCreateIn(fn *ssa.Function, target ssa.Instruction) int {
	tci, ok := target.(ssa.CallInstruction)
	if !ok {
		return 0
	}
	name := calleeName(tci.Common())
	n := 0
	for _, ci := range callsIn(fn) {
		if calleeName(ci.Common()) == name {
			n++
			if ci == tci {
				return n
			}
		}
	}
	return 0
}

func init() { register("C06", checkC06) }

// ruleSessionAccessRefresh (C06): the subset check and the protection check read the access snapshot of LIVE
// sessions (cc.Account.Access).  When an account is edited, every connected session of that login that is told its
// new access (TranUserAccess) must also get it: the store into the session's Account.Access follows the notice on
// every path through the iteration.
func (R *Run) ruleSessionAccessRefresh() {
	P := R.P
	R.rule("session-access-refresh", "in the account editor, every construction of the 'your access changed' notice (TranUserAccess) for a connected session is followed, before the next session is considered or the handler returns, by the store of the edited access into that session's Account.Access: no condition (such as 'the admin flag did not flip') skips the refresh")
	n := 0
	for _, reg := range R.registeredHandlers() {
		fn := reg.Fn
		for _, ci := range callsIn(fn) {
			c := ci.Common()
			if calleeName(c) != "hotline.NewTransaction" {
				continue
			}
			if g, _ := globalName(c.Args[0]); g != "hotline.TranUserAccess" {
				continue
			}
			n++
			R.analysed(fname(fn))
			isRefresh := func(ins ssa.Instruction) bool {
				st, ok := ins.(*ssa.Store)
				if !ok {
					return false
				}
				fa, ok := st.Addr.(*ssa.FieldAddr)
				if !ok {
					return false
				}
				if f, _ := fieldOf(fa); f != "hotline.Account.Access" {
					return false
				}
				acc, ok := loadedField(fa.X)
				return ok && acc == "hotline.ClientConn.Account"
			}
			// from the notice: the refresh before the loop comes round or the function returns
			start := ci.(ssa.Instruction)
			ok := true
			var where ssa.Instruction
			sb := start.Block()
			hit := false
			for i := instrIndex(start) + 1; i < len(sb.Instrs); i++ {
				if isRefresh(sb.Instrs[i]) {
					hit = true
				}
			}
			if !hit {
				var items []psItem
				for _, s := range feasibleSuccs(sb, nilState{}, false) {
					items = append(items, psItem{s.blk, enterBlock(sb, s.blk, s.st)})
				}
				explore(items, nil, false, func(b *ssa.BasicBlock, _ nilState) bool {
					if !ok {
						return false
					}
					if b == sb {
						ok = false // came round the loop
						where = start
						return false
					}
					for _, ins := range b.Instrs {
						if isRefresh(ins) {
							return false
						}
						if r, isRet := ins.(*ssa.Return); isRet {
							ok = false
							where = r
							return false
						}
					}
					return true
				})
			}
			pos := P.ipos(ci)
			if where != nil {
				pos = P.ipos(where)
			}
			R.check(ok, "session-access-refresh", fmt.Sprintf("%s: TranUserAccess notice #%d", fname(fn), nCreateIn(fn, ci)), pos, "followed by session.Account.Access = edited access", "a connected session is told its access changed but keeps its old access snapshot on some path: it goes on passing (or failing) the privilege, subset and protection checks of the account it used to be")
		}
	}
	R.floor("session-access-refresh", 1)
}

// soleStoreAny: the one value stored whole into the local variable (whatever else is done with the variable); nil
// when it is stored into more than once.
func soleStoreAny(a *ssa.Alloc) ssa.Value {
	var src ssa.Value
	for _, r := range *a.Referrers() {
		if st, ok := r.(*ssa.Store); ok && st.Addr == ssa.Value(a) {
			if src != nil {
				return nil
			}
			src = st.Val
		}
	}
	return src
}

// pristineCopy: the local variable is given its value once and is afterwards only read (loads, IsSet on it, indexed
// reads) — it still equals what it was copied from.
func pristineCopy(a *ssa.Alloc) bool {
	for _, r := range *a.Referrers() {
		switch x := r.(type) {
		case *ssa.Store:
			if x.Addr != ssa.Value(a) {
				return false
			}
		case *ssa.UnOp, *ssa.DebugRef:
		case *ssa.Call:
			if calleeName(&x.Call) != "(*hotline.AccessBitmap).IsSet" {
				return false
			}
		case *ssa.IndexAddr:
			for _, rr := range *x.Referrers() {
				if u, ok := rr.(*ssa.UnOp); !ok || u.Op != token.MUL {
					if _, dbg := rr.(*ssa.DebugRef); !dbg {
						return false
					}
				}
			}
		default:
			return false
		}
	}
	return true
}
