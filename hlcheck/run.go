package main

// run.go — obligations, floors, known findings, evidence and exit codes.

import (
	"encoding/json"
	"fmt"
	"os"
	"path/filepath"
	"sort"
	"strings"
	"time"
)

type Obl struct {
	Rule      string   `json:"rule"`
	Construct string   `json:"construct"`
	Pos       string   `json:"pos"`
	Status    string   `json:"status"` // discharged | violated | undecided
	Reason    string   `json:"reason"`
	Path      []string `json:"path,omitempty"`
	Trivial   bool     `json:"-"`
}

func (o *Obl) key() string { return o.Rule + " | " + o.Construct }

type Run struct {
	P       *Prog
	Prop    string
	Tier    string
	Obls    []*Obl
	floors  map[string]int
	rules   map[string]string // rule -> text
	order   []string
	notes   []string
	assume  []string
	start   time.Time
	fnsSeen map[string]bool
	sites   int
}

func (R *Run) rule(name, text string) {
	if _, ok := R.rules[name]; !ok {
		R.order = append(R.order, name)
	}
	R.rules[name] = text
}

func (R *Run) add(rule, construct, pos, status, reason string, path []string) *Obl {
	o := &Obl{Rule: rule, Construct: construct, Pos: pos, Status: status, Reason: reason, Path: path}
	R.Obls = append(R.Obls, o)
	return o
}
func (R *Run) ok(rule, construct, pos, reason string) *Obl {
	return R.add(rule, construct, pos, "discharged", reason, nil)
}
func (R *Run) bad(rule, construct, pos, reason string, path ...string) *Obl {
	return R.add(rule, construct, pos, "violated", reason, path)
}
func (R *Run) und(rule, construct, pos, reason string, path ...string) *Obl {
	return R.add(rule, construct, pos, "undecided", reason, path)
}
func (R *Run) check(cond bool, rule, construct, pos, okReason, badReason string, path ...string) bool {
	if cond {
		R.ok(rule, construct, pos, okReason)
	} else {
		R.bad(rule, construct, pos, badReason, path...)
	}
	return cond
}

// floor demands at least n obligations for a rule (a rule that matches fewer instances than were
// confirmed by hand has gone vacuous).
func (R *Run) floor(rule string, n int) { R.floors[rule] = n }

func (R *Run) note(s string)       { R.notes = append(R.notes, s) }
func (R *Run) assumes(s ...string) { R.assume = append(R.assume, s...) }
func (R *Run) analysed(fn string)  { R.fnsSeen[fn] = true }
func (R *Run) countSites(n int)    { R.sites += n }

type KnownFinding struct {
	Property  string `json:"property"`
	Rule      string `json:"rule"`
	Construct string `json:"construct"`
	Status    string `json:"status"` // known | fixed
	Commit    string `json:"commit,omitempty"`
	What      string `json:"what"`
}

func loadKnown(path string) ([]KnownFinding, error) {
	b, err := os.ReadFile(path)
	if err != nil {
		if os.IsNotExist(err) {
			return nil, nil
		}
		return nil, err
	}
	var f struct {
		Findings []KnownFinding `json:"findings"`
	}
	if err := json.Unmarshal(b, &f); err != nil {
		return nil, err
	}
	return f.Findings, nil
}

// finish applies floors and known findings, writes evidence and replay files, prints the verdict
// and returns the exit code.
func (R *Run) finish(verifDir, evDir string, seed int) int {
	// floors
	counts := map[string]int{}
	for _, o := range R.Obls {
		counts[o.Rule]++
	}
	for rule, n := range R.floors {
		if counts[rule] < n {
			R.bad(rule, "floor:"+rule, "-", fmt.Sprintf("rule matched %d instances, fewer than the %d confirmed by hand on the reference tree: the guarded mechanism changed shape and the rule can no longer vouch for it", counts[rule], n))
		}
	}
	sort.SliceStable(R.Obls, func(i, j int) bool {
		if R.Obls[i].Rule != R.Obls[j].Rule {
			return R.Obls[i].Rule < R.Obls[j].Rule
		}
		return R.Obls[i].Construct < R.Obls[j].Construct
	})
	known, err := loadKnown(filepath.Join(verifDir, "known_findings.json"))
	if err != nil {
		fmt.Printf("CHECKER-ERROR cannot read known_findings.json: %v\n", err)
		return 2
	}
	var viol []*Obl
	var knownHits []string
	discharged := 0
	distinct := map[string]bool{}
	for _, o := range R.Obls {
		if !o.Trivial {
			distinct[o.key()] = true
		}
		if o.Status == "discharged" {
			discharged++
			continue
		}
		matched := false
		for _, k := range known {
			if k.Status == "known" && k.Property == R.Prop && k.Rule == o.Rule && k.Construct == o.Construct {
				matched = true
				line := fmt.Sprintf("KNOWN-FINDING: property=%s %s [%s | %s at %s]", R.Prop, k.What, o.Rule, o.Construct, o.Pos)
				knownHits = append(knownHits, line)
				break
			}
		}
		if !matched {
			viol = append(viol, o)
		}
	}
	wall := time.Since(R.start).Seconds()
	// evidence
	perRule := map[string]map[string]int{}
	for _, o := range R.Obls {
		if perRule[o.Rule] == nil {
			perRule[o.Rule] = map[string]int{}
		}
		perRule[o.Rule][o.Status]++
	}
	var samples []any
	seenRule := map[string]int{}
	for _, o := range R.Obls {
		if seenRule[o.Rule] < 3 || o.Status != "discharged" {
			seenRule[o.Rule]++
			samples = append(samples, o)
		}
	}
	var ruleTexts []map[string]string
	for _, n := range R.order {
		ruleTexts = append(ruleTexts, map[string]string{"rule": n, "text": R.rules[n]})
	}
	var fns []string
	for f := range R.fnsSeen {
		fns = append(fns, f)
	}
	sort.Strings(fns)
	expl := "Static analysis of /repo's current source (go/packages type-checked AST + go/ssa of the three repository packages; mobius code is never executed). " +
		"Each rule instance is an obligation keyed rule+construct; 'discharged' means the structural condition holds on every path/instance the rule enumerates. " +
		"Rules: " + strings.Join(R.order, ", ") + ". " + strings.Join(R.notes, " ")
	ev := map[string]any{
		"property_id": R.Prop,
		"tier":        R.Tier,
		"seed":        seed,
		"level":       "other",
		"wall_s":      wall,
		"violations":  len(viol),
		"assumptions": append([]string{"Go type checker and go/ssa (x/tools v0.29.0) are correct", "documented contracts of the Go standard library"}, R.assume...),
		"coverage": map[string]any{
			"explanation":         expl,
			"evaluations":         len(R.Obls),
			"distinct_nontrivial": len(distinct),
			"rule":                "one obligation per rule instance found in the resolved program (call site, function, table entry, CFG path class); distinct = distinct rule+construct keys; non-trivial = the construct contains the guarded/flowing element (not a vacuous match)",
			"obligations":         len(R.Obls),
			"discharged":          discharged,
			"exhaustive":          true,
			"per_rule":            perRule,
			"rules":               ruleTexts,
			"floors":              R.floors,
			"functions_analysed":  fns,
			"call_sites_examined": R.sites,
			"packages":            []string{hotPath, mobPath, cmdPath},
			"repo_functions":      len(R.P.Funcs),
			"mocks_excluded":      R.P.Mocks,
			"known_findings":      knownHits,
			"samples":             samples,
		},
	}
	_ = os.MkdirAll(filepath.Join(evDir, "replay"), 0755)
	b, _ := json.MarshalIndent(ev, "", " ")
	if err := os.WriteFile(filepath.Join(evDir, R.Prop+".json"), b, 0644); err != nil {
		fmt.Printf("CHECKER-ERROR cannot write evidence: %v\n", err)
		return 2
	}
	for _, l := range knownHits {
		fmt.Println(l)
	}
	fmt.Printf("hlcheck %s tier=%s: %d obligations, %d discharged, %d known findings, %d violations; %d rules; %.1fs\n",
		R.Prop, R.Tier, len(R.Obls), discharged, len(knownHits), len(viol), len(R.order), wall)
	for _, n := range R.order {
		fmt.Printf("  rule %-26s %v\n", n, perRule[n])
	}
	if len(viol) == 0 {
		return 0
	}
	for i, o := range viol {
		rp := filepath.Join(evDir, "replay", fmt.Sprintf("%s-%d.json", R.Prop, i+1))
		rb, _ := json.MarshalIndent(map[string]any{"property": R.Prop, "obligation": o}, "", " ")
		_ = os.WriteFile(rp, rb, 0644)
		fmt.Printf("  %s %s: %s at %s: %s\n", strings.ToUpper(o.Status), o.Rule, o.Construct, o.Pos, o.Reason)
		for _, p := range o.Path {
			fmt.Printf("      %s\n", p)
		}
		fmt.Printf("VIOLATION property=%s replay=%s\n", R.Prop, rp)
	}
	return 1
}
