package main

// taint.go — path-taint: an interprocedural, field-based classification of string/byte values used
// as filesystem paths (C07, C10, C11).
//
// Classes (ordered): SAFE  — trusted (constant, configuration, file-system derived) or a trusted root
//                            followed only by anchored components: may be handed to a filesystem call;
//                    ANCH  — the result of Join("/", …): a cleaned rooted path that cannot contain "..";
//                            safe as a non-first component under a SAFE root, not as a path by itself;
//                    TAINT — client-controlled bytes that have not been anchored.

import (
	"fmt"
	"go/token"
	"go/types"
	"strings"

	"golang.org/x/tools/go/ssa"
)

type pclass int

const (
	SAFE pclass = iota
	ANCH
	TAINT
)

func (c pclass) String() string { return [...]string{"SAFE", "ANCHORED", "TAINTED"}[c] }

type pval struct {
	c   pclass
	why []string // how taint got here (source first)
}

func joinP(a, b pval) pval {
	if b.c > a.c {
		return b
	}
	return a
}

type Taint struct {
	yieldSeen map[*ssa.Function]bool
	P         *Prog
	sources   map[string]string // field → reason
	memo      map[ssa.Value]pval
	visiting  map[ssa.Value]bool
	override  map[ssa.Value]pval // parameter overrides (used to analyse a function body under assumptions)
	depth     int
}

// networkFields derives the struct fields that receive bytes of a decoder's input or of a stream read.
func (P *Prog) networkFields() map[string]string {
	out := map[string]string{"hotline.Field.Data": "data of a request field"}
	for _, fn := range P.Funcs {
		if isClientLibrary(fn) {
			continue
		}
		name := fn.Name()
		if (name == "Write" || name == "UnmarshalBinary") && fn.Signature.Recv() != nil && len(fn.Params) == 2 && typeName(fn.Params[1].Type()) == "[]byte" {
			p := fn.Params[1]
			eachInstr(fn, func(ins ssa.Instruction) {
				st, ok := ins.(*ssa.Store)
				if !ok {
					return
				}
				fa, ok := st.Addr.(*ssa.FieldAddr)
				if !ok {
					return
				}
				derived := false
				F := &Flow{P: P, Visit: func(x ssa.Value) bool {
					if x == ssa.Value(p) {
						derived = true
						return false
					}
					return !derived
				}, Call: func(c *ssa.Call, idx int) ([]ssa.Value, bool) {
					if idx == -2 {
						return nil, true
					}
					return callArgsFlat(&c.Call), true
				}}
				F.Back(st.Val)
				if derived {
					t := st.Val.Type().Underlying()
					if _, isSlice := t.(*types.Slice); isSlice || isStringType(t) {
						f, _ := fieldOf(fa)
						out[f] = "bytes decoded by " + fname(fn)
					}
				}
			})
		}
		// buffers filled from a stream
		for _, ci := range callsIn(fn) {
			c := ci.Common()
			n := calleeName(c)
			if n != "io.ReadFull" && n != "io.ReadAtLeast" && n != "encoding/binary.Read" {
				continue
			}
			t, _ := concreteBelowInterface(c.Args[0])
			if !isStreamType(t) {
				continue
			}
			buf := c.Args[1]
			if n == "encoding/binary.Read" {
				buf = c.Args[2]
			}
			b := stripConv(buf)
			if sl, ok := b.(*ssa.Slice); ok {
				b = sl.X
			}
			if u, ok := b.(*ssa.UnOp); ok {
				b = u.X
			}
			if fa, ok := b.(*ssa.FieldAddr); ok {
				f, _ := fieldOf(fa)
				out[f] = "bytes read from the connection in " + fname(fn)
			}
		}
	}
	return out
}

func isStringType(t types.Type) bool {
	b, ok := t.(*types.Basic)
	return ok && b.Info()&types.IsString != 0
}

func newTaint(P *Prog) *Taint {
	return &Taint{P: P, sources: P.networkFields(), memo: map[ssa.Value]pval{}, visiting: map[ssa.Value]bool{}, override: map[ssa.Value]pval{}}
}

func (T *Taint) tainted(reason string, pos string) pval {
	return pval{TAINT, []string{reason + " (" + pos + ")"}}
}

func (T *Taint) via(v pval, step string) pval {
	if v.c == SAFE {
		return v
	}
	if len(v.why) < 12 {
		v.why = append(append([]string{}, v.why...), step)
	}
	return v
}

// Class classifies v.
func (T *Taint) Class(v ssa.Value) pval {
	if v == nil {
		return pval{}
	}
	if o, ok := T.override[v]; ok {
		return o
	}
	if m, ok := T.memo[v]; ok {
		return m
	}
	if T.visiting[v] || T.depth > 60 {
		return pval{} // optimistic on cycles: the other edges decide
	}
	T.visiting[v] = true
	T.depth++
	r := T.class(v)
	T.depth--
	delete(T.visiting, v)
	T.memo[v] = r
	return r
}

func (T *Taint) joinAll(vs []ssa.Value) pval {
	var r pval
	for _, v := range vs {
		r = joinP(r, T.Class(v))
	}
	return r
}

func (T *Taint) class(v ssa.Value) pval {
	P := T.P
	switch x := v.(type) {
	case *ssa.Const, *ssa.Global, *ssa.Builtin:
		return pval{}
	case *ssa.Convert:
		return T.Class(x.X)
	case *ssa.ChangeType:
		return T.Class(x.X)
	case *ssa.MakeInterface:
		return T.Class(x.X)
	case *ssa.ChangeInterface:
		return T.Class(x.X)
	case *ssa.TypeAssert:
		return T.Class(x.X)
	case *ssa.SliceToArrayPointer:
		return T.Class(x.X)
	case *ssa.Slice:
		return T.Class(x.X)
	case *ssa.Index:
		return T.Class(x.X)
	case *ssa.Lookup:
		return joinP(T.Class(x.X), T.classMapElems(x.X))
	case *ssa.Field:
		f, _ := fieldOf(x)
		if why, ok := T.sources[f]; ok {
			return T.tainted(f+": "+why, P.ipos(x))
		}
		// one field of a struct value: of a struct read whole from a local, only what was put into that field
		return T.classStructField(x.X, x.Field, 0)
	case *ssa.Extract:
		if c, ok := x.Tuple.(*ssa.Call); ok {
			return T.classCall(c, x.Index)
		}
		return T.Class(x.Tuple)
	case *ssa.Phi:
		var r pval
		for _, e := range x.Edges {
			r = joinP(r, T.Class(e))
		}
		return r
	case *ssa.BinOp:
		if x.Op == token.ADD && isStringType(x.Type().Underlying()) {
			l, r := T.Class(x.X), T.Class(x.Y)
			if l.c == TAINT {
				return l
			}
			if r.c == TAINT {
				return r
			}
			// left decides: SAFE+anything-clean stays SAFE, ANCH+clean stays ANCH
			if l.c == SAFE {
				if _, isConst := x.X.(*ssa.Const); isConst && r.c == ANCH {
					// "prefix"+anchored: no root in front → anchored at best
					if s, _ := constString(x.X); s == "" {
						return r
					}
				}
				return pval{}
			}
			return l
		}
		return joinP(T.Class(x.X), T.Class(x.Y))
	case *ssa.UnOp:
		if x.Op != token.MUL {
			return T.Class(x.X)
		}
		return T.classLoad(x)
	case *ssa.Call:
		return T.classCall(x, 0)
	case *ssa.Alloc:
		return T.classCell(x, nil)
	case *ssa.MakeSlice:
		return T.classBuffer(x)
	case *ssa.FieldAddr, *ssa.IndexAddr:
		return T.classAddr(v)
	case *ssa.Parameter:
		return T.classParam(x)
	case *ssa.FreeVar:
		return T.classFreeVar(x)
	case *ssa.MakeClosure:
		// a function value handed to code that calls it (slices.Collect(seq), a visitor): what comes out of that code
		// may be whatever the closure captures or hands to its callback parameters (yield)
		var r pval
		for _, b := range x.Bindings {
			if a, isA := b.(*ssa.Alloc); isA {
				r = joinP(r, T.classCell(a, nil))
			} else {
				r = joinP(r, T.Class(b))
			}
		}
		if fn, ok := x.Fn.(*ssa.Function); ok {
			r = joinP(r, T.classYields(fn))
		}
		return r
	case *ssa.Function:
		if x.Parent() != nil {
			return T.classYields(x)
		}
		return pval{}
	case *ssa.Next:
		return T.Class(x.Iter)
	case *ssa.Range:
		return joinP(T.Class(x.X), T.classMapElems(x.X))
	}
	return pval{}
}

// classMapElems: what was put into a map held in a struct field — every key and value stored by a MapUpdate on
// a map loaded from that same field anywhere in the repository (field-based).
func (T *Taint) classMapElems(m ssa.Value) pval {
	f, ok := loadedField(stripConv(m))
	if !ok {
		return pval{}
	}
	if _, isMap := m.Type().Underlying().(*types.Map); !isMap {
		return pval{}
	}
	var r pval
	for _, fn := range T.P.Funcs {
		if fn.Pkg != nil && fn.Pkg.Pkg.Path() == cmdPath {
			continue
		}
		eachInstr(fn, func(ins ssa.Instruction) {
			mu, ok := ins.(*ssa.MapUpdate)
			if !ok {
				return
			}
			if g, ok := loadedField(stripConv(mu.Map)); !ok || g != f {
				return
			}
			r = joinP(r, T.via(T.Class(mu.Value), "stored in map "+f+" at "+T.P.ipos(mu)))
			r = joinP(r, T.via(T.Class(mu.Key), "key of map "+f+" at "+T.P.ipos(mu)))
		})
	}
	return r
}

// classLoad: value stored at an address.
func (T *Taint) classLoad(u *ssa.UnOp) pval {
	return T.classAddr(u.X)
}

func (T *Taint) classAddr(addr ssa.Value) pval {
	P := T.P
	root, path := addrPath(addr)
	// sources along the chain
	for a := addr; ; {
		fa, ok := a.(*ssa.FieldAddr)
		if ok {
			f, _ := fieldOf(fa)
			if why, isSrc := T.sources[f]; isSrc {
				return T.tainted(f+": "+why, P.ipos(fa))
			}
			a = fa.X
			continue
		}
		if ia, ok := a.(*ssa.IndexAddr); ok {
			a = ia.X
			continue
		}
		break
	}
	switch r := root.(type) {
	case *ssa.Alloc:
		return T.classCell(r, path)
	case *ssa.Global:
		return pval{}
	}
	// a field of an object reached through a pointer: field-based — every store to that field in the repo
	if fa, ok := addr.(*ssa.FieldAddr); ok {
		f, _ := fieldOf(fa)
		var r pval
		for _, st := range P.fieldStores()[f] {
			if st.Parent() != nil && st.Parent().Pkg != nil && st.Parent().Pkg.Pkg.Path() == cmdPath {
				continue
			}
			r = joinP(r, T.via(T.Class(st.Val), "stored into "+f+" at "+P.ipos(st)))
		}
		return r
	}
	// element of a slice / array value: class of the container
	if ia, ok := addr.(*ssa.IndexAddr); ok {
		return T.Class(ia.X)
	}
	return T.Class(root)
}

// classCell: everything stored into a local cell (flow-insensitive), including buffers filled by calls.
func (T *Taint) classCell(a *ssa.Alloc, path []int) pval {
	P := T.P
	var r pval
	fn := a.Parent()
	if fn == nil {
		return r
	}
	F := &Flow{P: P}
	for _, f := range withAnons(rootFn(fn)) {
		eachInstr(f, func(ins ssa.Instruction) {
			switch s := ins.(type) {
			case *ssa.Store:
				root, p := addrPath(s.Addr)
				if F.sameCell(root, a) && pathPrefixCompatible(p, path) {
					if len(p) < len(path) && path[len(p)] >= 0 {
						// a struct stored whole, of which one field is asked for
						if _, isSt := s.Val.Type().Underlying().(*types.Struct); isSt {
							r = joinP(r, T.classStructField(s.Val, path[len(p)], 0))
							return
						}
					}
					r = joinP(r, T.Class(s.Val))
				}
			case *ssa.Call:
				for i, arg := range s.Call.Args {
					root, _ := addrPath(stripSlice(arg))
					if !F.sameCell(root, a) {
						continue
					}
					r = joinP(r, T.fillEffect(s, i))
				}
			}
		})
	}
	return r
}

// classBuffer: a make([]byte, n) buffer.
func (T *Taint) classBuffer(m *ssa.MakeSlice) pval {
	var r pval
	for _, ref := range *m.Referrers() {
		switch x := ref.(type) {
		case *ssa.IndexAddr:
			for _, rr := range *x.Referrers() {
				if st, ok := rr.(*ssa.Store); ok && st.Addr == ssa.Value(x) {
					r = joinP(r, T.Class(st.Val))
				}
			}
		case *ssa.Call:
			for i, a := range x.Call.Args {
				if a == ssa.Value(m) {
					r = joinP(r, T.fillEffect(x, i))
				}
			}
		}
	}
	return r
}

// fillEffect: what a call writes into the buffer passed as argument #i.
func (T *Taint) fillEffect(c *ssa.Call, i int) pval {
	n := calleeName(&c.Call)
	switch n {
	case "builtin.copy":
		if i == 0 {
			return T.Class(c.Call.Args[1])
		}
	case "io.ReadFull", "io.ReadAtLeast":
		if i == 1 {
			t, _ := concreteBelowInterface(c.Call.Args[0])
			if isStreamType(t) {
				return T.tainted("bytes read from the connection", T.P.ipos(c))
			}
			return T.Class(c.Call.Args[0])
		}
	case "encoding/binary.Read":
		if i == 2 {
			t, _ := concreteBelowInterface(c.Call.Args[0])
			if isStreamType(t) {
				return T.tainted("bytes read from the connection", T.P.ipos(c))
			}
			return T.Class(c.Call.Args[0])
		}
	}
	if putUintWidth(n) > 0 {
		return pval{}
	}
	return pval{}
}

func (T *Taint) classParam(p *ssa.Parameter) pval {
	P := T.P
	fn := p.Parent()
	idx := -1
	for i, x := range fn.Params {
		if x == p {
			idx = i
		}
	}
	var r pval
	for _, ci := range P.callers[fn] {
		if ci.Parent() != nil && rootFn(ci.Parent()).Pkg != nil && rootFn(ci.Parent()).Pkg.Pkg.Path() == cmdPath {
			continue
		}
		c := ci.Common()
		var arg ssa.Value
		if c.IsInvoke() {
			if idx == 0 {
				arg = c.Value
			} else if idx-1 < len(c.Args) {
				arg = c.Args[idx-1]
			}
		} else if idx < len(c.Args) {
			arg = c.Args[idx]
		}
		if arg != nil {
			r = joinP(r, T.via(T.Class(arg), fmt.Sprintf("passed as %s to %s at %s", p.Name(), fname(fn), P.ipos(ci))))
		}
	}
	return r
}

func (T *Taint) classFreeVar(fv *ssa.FreeVar) pval {
	fn := fv.Parent()
	idx := -1
	for i, x := range fn.FreeVars {
		if x == fv {
			idx = i
		}
	}
	var r pval
	if idx < 0 || fn.Parent() == nil {
		return r
	}
	for _, pf := range withAnons(rootFn(fn)) {
		eachInstr(pf, func(ins ssa.Instruction) {
			if mc, ok := ins.(*ssa.MakeClosure); ok && mc.Fn == fn && idx < len(mc.Bindings) {
				b := mc.Bindings[idx]
				if a, ok := b.(*ssa.Alloc); ok {
					r = joinP(r, T.classCell(a, nil))
				} else {
					r = joinP(r, T.Class(b))
				}
			}
		})
	}
	return r
}

func isConstSlash(v ssa.Value) bool {
	s, ok := constString(v)
	return ok && (s == "/" || s == string('\\'))
}

func (T *Taint) classCall(c *ssa.Call, idx int) pval {
	P := T.P
	name := calleeName(&c.Call)
	args := callArgsFlat(&c.Call)
	switch name {
	case "path/filepath.Join", "path.Join":
		if len(args) == 0 {
			return pval{}
		}
		if isConstSlash(args[0]) {
			// Clean of a rooted path: no ".." survives; client bytes inside are neutralised
			return pval{c: ANCH, why: []string{"anchored by Join(\"/\", …) at " + P.ipos(c)}}
		}
		// an un-expanded variadic slice: one argument standing for all components
		first := T.Class(args[0])
		if first.c == TAINT {
			return T.via(first, "first component of Join at "+P.ipos(c))
		}
		res := first
		for _, a := range args[1:] {
			ac := T.Class(a)
			if ac.c == TAINT {
				return T.via(ac, "joined without anchoring at "+P.ipos(c))
			}
		}
		if len(args) == 1 {
			// Join(xs...) with a spread slice, or Clean(x)
			return res
		}
		return res
	case "path/filepath.Clean", "path.Clean":
		// Clean("/" + x): same effect as Join("/", x)
		if startsRooted(args[0]) {
			return pval{c: ANCH, why: []string{"anchored by Clean(\"/\"+…) at " + P.ipos(c)}}
		}
		return T.Class(args[0])
	case "path/filepath.Dir", "path.Dir", "path/filepath.Base", "path.Base", "path/filepath.ToSlash", "path/filepath.FromSlash",
		"strings.ToLower", "strings.ToUpper", "strings.TrimSpace", "strings.TrimSuffix", "strings.TrimPrefix", "strings.ReplaceAll", "strings.Replace", "strings.Trim", "strings.TrimRight", "strings.TrimLeft",
		"bytes.Clone", "slices.Clone", "bytes.TrimSpace":
		return T.Class(args[0])
	case "path/filepath.Abs", "path/filepath.EvalSymlinks":
		return T.Class(args[0])
	case "fmt.Sprintf", "fmt.Sprint":
		var r pval
		for _, a := range args {
			r = joinP(r, T.Class(a))
		}
		if r.c == TAINT {
			return T.via(r, "formatted at "+P.ipos(c))
		}
		return r
	case "strings.Join":
		return T.Class(args[0])
	case "builtin.append":
		var r pval
		for _, a := range args {
			r = joinP(r, T.Class(a))
		}
		return r
	case "slices.Concat", "bytes.Join":
		return T.joinAll(args)
	case "strings.Split", "strings.Fields", "strings.SplitN":
		return T.Class(args[0])
	case "(*golang.org/x/text/encoding.Decoder).String", "(*golang.org/x/text/encoding.Encoder).String", "(*golang.org/x/text/encoding.Decoder).Bytes", "(*golang.org/x/text/encoding.Encoder).Bytes":
		// Macintosh charmap: ASCII is mapped to itself, no other byte decodes to '/' or '.'
		return T.Class(args[1])
	case "os.Getwd", "os.TempDir", "os.UserHomeDir":
		return pval{}
	case "os.Readlink":
		return pval{}
	}
	if c.Call.IsInvoke() {
		switch c.Call.Method.Name() {
		case "Name": // os.FileInfo.Name / DirEntry.Name: produced by the filesystem
			tn := typeName(c.Call.Value.Type())
			if strings.HasPrefix(tn, "io/fs.") || strings.HasPrefix(tn, "os.") {
				return pval{}
			}
		}
	}
	// repo callees: class of what they return
	callees := P.callees(c)
	if len(callees) > 0 {
		var r pval
		for _, cal := range callees {
			for _, ret := range returnsOf(cal) {
				if idx < len(ret.Results) {
					r = joinP(r, T.via(T.Class(retValue(ret, idx)), "returned by "+fname(cal)))
				}
			}
		}
		return r
	}
	// unknown external call: derived from its string/byte arguments
	var r pval
	for _, a := range args {
		t := a.Type().Underlying()
		if _, isSlice := t.(*types.Slice); isSlice || isStringType(t) {
			r = joinP(r, T.Class(a))
		}
		// a function value (an iterator handed to slices.Collect, a mapping function): what it captures or yields
		if _, isFunc := t.(*types.Signature); isFunc {
			r = joinP(r, T.Class(a))
		}
	}
	return r
}

// ---------------------------------------------------------------------------------------------
// sinks

// pathArgs returns the indices (into Common().Args) of the filesystem-path arguments of a call.
func pathArgs(c *ssa.CallCommon) []int {
	name := calleeName(c)
	switch name {
	case "os.Open", "os.OpenFile", "os.Create", "os.Mkdir", "os.MkdirAll", "os.Remove", "os.RemoveAll", "os.Stat", "os.Lstat",
		"os.ReadDir", "os.ReadFile", "os.WriteFile", "os.Readlink", "os.Truncate", "os.Chmod", "os.Chtimes", "os.Chown", "path/filepath.Walk", "path/filepath.WalkDir", "path/filepath.Glob":
		return []int{0}
	case "os.Rename", "os.Symlink", "os.Link":
		return []int{0, 1}
	}
	if c.IsInvoke() && strings.HasPrefix(name, "(hotline.FileStore).") {
		switch c.Method.Name() {
		case "Rename", "Symlink":
			return []int{0, 1}
		default:
			return []int{0}
		}
	}
	return nil
}

// startsRooted: v is a concatenation whose leftmost operand is a constant beginning with "/": Clean of it is a
// rooted path, in which no ".." survives.
func startsRooted(v ssa.Value) bool {
	for d := 0; d < 8; d++ {
		v = stripConv(v)
		if s, ok := constString(v); ok {
			return strings.HasPrefix(s, "/")
		}
		b, ok := v.(*ssa.BinOp)
		if !ok || b.Op != token.ADD {
			return false
		}
		v = b.X
	}
	return false
}

// classYields: what a function literal hands to its callback parameters (an iterator's yield).
func (T *Taint) classYields(fn *ssa.Function) pval {
	var r pval
	if T.yieldSeen == nil {
		T.yieldSeen = map[*ssa.Function]bool{}
	}
	if T.yieldSeen[fn] {
		return r
	}
	T.yieldSeen[fn] = true
	defer delete(T.yieldSeen, fn)
	for _, f := range withAnons(fn) {
		for _, ci := range callsIn(f) {
			c := ci.Common()
			if p, isP := c.Value.(*ssa.Parameter); isP && !c.IsInvoke() && p.Parent() == fn {
				for _, a := range c.Args {
					r = joinP(r, T.Class(a))
				}
			}
		}
	}
	return r
}

// classStructField: field f of the struct value v. A struct that is read whole from a local variable (a literal built
// field by field, a by-value parameter spilled to memory) or handed in as a parameter is followed field-wise, so that a
// parameter object carrying a sanitised path next to client data does not make the path client data.
func (T *Taint) classStructField(v ssa.Value, f int, depth int) pval {
	if depth > 4 {
		return T.Class(v)
	}
	switch x := stripConv(v).(type) {
	case *ssa.UnOp:
		if x.Op == token.MUL {
			if a, ok := x.X.(*ssa.Alloc); ok {
				return T.classCell(a, []int{f})
			}
		}
	case *ssa.Parameter:
		fn := x.Parent()
		idx := -1
		for i, q := range fn.Params {
			if q == x {
				idx = i
			}
		}
		sites := T.P.callers[fn]
		if idx < 0 || len(sites) == 0 {
			break
		}
		var r pval
		for _, ci := range sites {
			c := ci.Common()
			if c.IsInvoke() || idx >= len(c.Args) {
				return T.Class(v)
			}
			r = joinP(r, T.via(T.classStructField(c.Args[idx], f, depth+1), fmt.Sprintf("field %d of %s passed to %s at %s", f, x.Name(), fname(fn), T.P.ipos(ci))))
		}
		return r
	}
	return T.Class(v)
}
