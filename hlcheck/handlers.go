package main

// handlers.go — E-table: the registered transaction handlers, the Access* constants, and the effect
// classifier shared by C05/C06/C12/C13/C14.

import (
	"fmt"
	"go/constant"
	"go/token"
	"go/types"
	"sort"
	"strings"

	"golang.org/x/tools/go/ssa"
)

type HandlerReg struct {
	Num    int
	Global string // hotline.TranDeleteFile
	Fn     *ssa.Function
	Pos    string
}

// registeredHandlers extracts (transaction number → handler) from every call of (*Server).HandleFunc.
func (R *Run) registeredHandlers() []HandlerReg {
	var out []HandlerReg
	for _, fn := range R.P.Funcs {
		for _, ci := range callsIn(fn) {
			if calleeName(ci.Common()) != "(*hotline.Server).HandleFunc" {
				continue
			}
			args := ci.Common().Args
			if len(args) != 3 {
				continue
			}
			g, _ := globalName(args[1])
			b, ok := R.P.bytesOf(args[1])
			h, _ := stripConv(args[2]).(*ssa.Function)
			if mc, ok2 := stripConv(args[2]).(*ssa.MakeClosure); ok2 {
				h, _ = mc.Fn.(*ssa.Function)
			}
			if !ok || len(b) != 2 || h == nil {
				R.und("handler-table", "HandleFunc call at "+R.P.ipos(ci), R.P.ipos(ci), "registration whose transaction type or handler is not a constant: cannot be matched against the privilege table")
				continue
			}
			out = append(out, HandlerReg{Num: int(b[0])<<8 | int(b[1]), Global: g, Fn: h, Pos: R.P.ipos(ci)})
		}
	}
	sort.Slice(out, func(i, j int) bool { return out[i].Num < out[j].Num })
	return out
}

// accessConsts returns the untyped integer constants named Access* of package hotline.
func (P *Prog) accessConsts() map[string]int {
	out := map[string]int{}
	scope := P.Hot.Pkg.Scope()
	for _, n := range scope.Names() {
		if !strings.HasPrefix(n, "Access") {
			continue
		}
		if c, ok := scope.Lookup(n).(*types.Const); ok && c.Val().Kind() == constant.Int {
			if v, ok := constant.Int64Val(c.Val()); ok {
				out[n] = int(v)
			}
		}
	}
	return out
}

// authorizeCall: is v a call of (*ClientConn).Authorize? returns receiver and the privilege (const or -1).
func authorizeCall(v ssa.Value) (recv ssa.Value, priv int, arg ssa.Value, ok bool) {
	c, isCall := v.(*ssa.Call)
	if !isCall || calleeName(&c.Call) != "(*hotline.ClientConn).Authorize" || len(c.Call.Args) != 2 {
		return nil, 0, nil, false
	}
	p := -1
	if n, isConst := constInt(c.Call.Args[1]); isConst {
		p = int(n)
	}
	return c.Call.Args[0], p, c.Call.Args[1], true
}

// ---------------------------------------------------------------------------------------------
// effects

type Effect struct {
	Class string
	Site  ssa.Instruction
	Via   []string // call chain when lifted from a callee
}

var mutatorTable = map[string]string{
	"(*hotline.fileWrapper).Delete":            "fs.delete",
	"(hotline.FileStore).Remove":               "fs.delete",
	"(hotline.FileStore).RemoveAll":            "fs.delete",
	"os.Remove":                                "fs.delete",
	"os.RemoveAll":                             "fs.delete",
	"(*hotline.fileWrapper).Move":              "fs.move",
	"(hotline.FileStore).Rename":               "fs.move",
	"os.Rename":                                "fs.move",
	"(hotline.FileStore).Mkdir":                "fs.mkdir",
	"os.Mkdir":                                 "fs.mkdir",
	"os.MkdirAll":                              "fs.mkdir",
	"(hotline.FileStore).Symlink":              "fs.symlink",
	"os.Symlink":                               "fs.symlink",
	"os.Link":                                  "fs.symlink",
	"(*hotline.fileWrapper).InfoForkWriter":    "fs.comment",
	"(*hotline.fileWrapper).rsrcForkWriter":    "fs.comment",
	"(*hotline.fileWrapper).incFileWriter":     "fs.comment",
	"(hotline.FileStore).WriteFile":            "fs.comment",
	"(hotline.FileStore).Create":               "fs.comment",
	"(hotline.FileStore).OpenFile":             "fs.comment",
	"os.WriteFile":                             "fs.comment",
	"os.Create":                                "fs.comment",
	"os.OpenFile":                              "fs.comment",
	"os.Truncate":                              "fs.comment",
	"os.Chmod":                                 "fs.comment",
	"(*hotline.ClientConn).NewFileTransfer":    "xfer.grant",
	"(hotline.FileTransferMgr).Add":            "xfer.grant",
	"(hotline.AccountManager).Create":          "acct.create",
	"(hotline.AccountManager).Update":          "acct.update",
	"(hotline.AccountManager).Delete":          "acct.delete",
	"(hotline.ThreadedNewsMgr).PostArticle":    "news.post",
	"(hotline.ThreadedNewsMgr).DeleteArticle":  "news.delart",
	"(hotline.ThreadedNewsMgr).CreateGrouping": "news.create",
	"(hotline.ThreadedNewsMgr).DeleteNewsItem": "news.delitem",
	"(hotline.ChatManager).New":                "chat.new",
	"(hotline.BanMgr).Add":                     "ban.add",
	"(*hotline.ClientConn).Disconnect":         "disconnect",
	"(hotline.ClientManager).Add":              "registry.add",
	"(hotline.ClientManager).Delete":           "registry.delete",
	"(*hotline.Server).NewClientConn":          "registry.add",
	"(*hotline.ClientConn).SendAll":            "send.others",
	"(*hotline.ClientConn).NotifyOthers":       "send.others",
	"(*hotline.Server).SendAll":                "send.others",
	"(*hotline.Server).Shutdown":               "send.others",
}

// reader callees: an effect only when the result is disclosed in a reply/transaction.
var readerTable = map[string]string{
	"(hotline.AccountManager).Get":            "acct.disclose",
	"(hotline.AccountManager).List":           "acct.disclose",
	"(hotline.ThreadedNewsMgr).GetCategories": "news.disclose",
	"(hotline.ThreadedNewsMgr).ListArticles":  "news.disclose",
	"(hotline.ThreadedNewsMgr).GetArticle":    "news.disclose",
	"(hotline.ThreadedNewsMgr).NewsItem":      "news.disclose",
	"hotline.GetFileNameList":                 "fs.list",
	"(*hotline.ClientConn).String":            "client.disclose",
}

// manager interfaces whose unknown methods are conservatively effects
var managerIfaces = []string{"hotline.AccountManager", "hotline.ThreadedNewsMgr", "hotline.BanMgr"}

// known non-mutating methods of the manager interfaces
var managerReaders = map[string]bool{
	"(hotline.AccountManager).Get": true, "(hotline.AccountManager).List": true,
	"(hotline.ThreadedNewsMgr).GetCategories": true, "(hotline.ThreadedNewsMgr).ListArticles": true,
	"(hotline.ThreadedNewsMgr).GetArticle": true, "(hotline.ThreadedNewsMgr).NewsItem": true,
	"(hotline.BanMgr).IsBanned": true,
}

// isReplySink: user consumes operand as content of a reply / transaction.
func isReplySink(user ssa.Instruction, operand ssa.Value) bool {
	ci, ok := user.(ssa.CallInstruction)
	if !ok {
		return false
	}
	switch calleeName(ci.Common()) {
	case "hotline.NewField", "(*hotline.ClientConn).NewReply", "hotline.NewTransaction", "(*hotline.ClientConn).NewErrReply":
		return true
	}
	return false
}

// directEffects classifies one call site in fn (not lifted).
func (P *Prog) directEffects(ci ssa.CallInstruction, own ssa.Value) []string {
	c := ci.Common()
	name := calleeName(c)
	var out []string
	if cl, ok := mutatorTable[name]; ok {
		out = append(out, cl)
	}
	if cl, ok := readerTable[name]; ok {
		if call, isCall := ci.(*ssa.Call); isCall {
			if name == "(*hotline.ClientConn).String" && own != nil && len(c.Args) > 0 && c.Args[0] == own {
				// the requester's own info
			} else if hit, _ := forwardReaches(call, isReplySink); hit {
				out = append(out, cl)
			}
		}
	}
	// unknown methods of manager interfaces: conservatively effects
	if c.IsInvoke() {
		for _, mi := range managerIfaces {
			if strings.HasPrefix(name, "("+mi+").") && !managerReaders[name] {
				if _, known := mutatorTable[name]; !known {
					out = append(out, "unknown."+name)
				}
			}
		}
		// message board: Write = post; Read (via io.ReadAll) = disclose when it reaches a reply
		if c.Method.Name() == "Write" {
			if f, ok := loadedField(c.Value); ok && f == "hotline.Server.MessageBoard" {
				out = append(out, "board.post")
			}
		}
	}
	if name == "io.ReadAll" || name == "io.Copy" || name == "io.CopyN" {
		for _, a := range c.Args {
			if f, ok := loadedField(stripConv(a)); ok && f == "hotline.Server.MessageBoard" {
				if call, isCall := ci.(*ssa.Call); isCall {
					if hit, _ := forwardReaches(call, isReplySink); hit {
						out = append(out, "board.disclose")
					}
				}
			}
		}
	}
	// a transaction addressed to someone else
	if name == "hotline.NewTransaction" && len(c.Args) >= 2 {
		if !isOwnID(c.Args[1], own) {
			out = append(out, "send.others")
		}
	}
	return out
}

// loadedField: v is a load (possibly converted) of struct field F → "pkg.Type.F".
func loadedField(v ssa.Value) (string, bool) {
	v = stripConv(v)
	if u, ok := v.(*ssa.UnOp); ok && u.Op == token.MUL {
		if fa, ok := u.X.(*ssa.FieldAddr); ok {
			return fieldOf(fa)
		}
	}
	if f, ok := v.(*ssa.Field); ok {
		return fieldOf(f)
	}
	// a local copy of the field (a by-value parameter of an expanded helper), read whole or sliced whole
	var cell *ssa.Alloc
	switch x := v.(type) {
	case *ssa.Slice:
		if x.Low == nil && x.High == nil {
			cell, _ = x.X.(*ssa.Alloc)
		}
	case *ssa.UnOp:
		if x.Op == token.MUL {
			cell, _ = x.X.(*ssa.Alloc)
		}
	}
	if cell != nil {
		if src := soleStore(cell); src != nil {
			return loadedField(src)
		}
	}
	return "", false
}

// soleStore: the one value ever stored into the local cell, when the cell is otherwise only read (loaded, sliced
// whole for reading is not distinguished from writing, so slices are accepted only for arrays that are never indexed
// for a store).
func soleStore(a *ssa.Alloc) ssa.Value {
	var src ssa.Value
	for _, r := range *a.Referrers() {
		switch x := r.(type) {
		case *ssa.Store:
			if x.Addr != ssa.Value(a) || src != nil {
				return nil
			}
			src = x.Val
		case *ssa.UnOp, *ssa.DebugRef:
		case *ssa.Slice:
			for _, rr := range *x.Referrers() {
				switch y := rr.(type) {
				case *ssa.Convert, *ssa.DebugRef:
				case *ssa.Call:
					if n := calleeName(&y.Call); n != "bytes.Equal" && n != "bytes.Compare" && n != "builtin.len" {
						return nil
					}
				default:
					return nil
				}
			}
		case *ssa.IndexAddr:
			for _, rr := range *x.Referrers() {
				if u, ok := rr.(*ssa.UnOp); !ok || u.Op != token.MUL {
					if _, dbg := rr.(*ssa.DebugRef); !dbg {
						return nil
					}
				}
			}
		default:
			return nil
		}
	}
	return src
}

// isOwnID: v is a load of own.ID (the requester's own client ID).
func isOwnID(v ssa.Value, own ssa.Value) bool {
	v = stripConv(v)
	u, ok := v.(*ssa.UnOp)
	if !ok || u.Op != token.MUL {
		return false
	}
	fa, ok := u.X.(*ssa.FieldAddr)
	if !ok {
		return false
	}
	f, _ := fieldOf(fa)
	return f == "hotline.ClientConn.ID" && own != nil && fa.X == own
}

// fnEffects: effect classes (mutators only; own=nil so every foreign/own distinction is lost, which errs towards effects)
// of everything transitively called from fn.
func (P *Prog) fnEffects(fn *ssa.Function, memo map[*ssa.Function]map[string][]string, stack map[*ssa.Function]bool) map[string][]string {
	if r, ok := memo[fn]; ok {
		return r
	}
	if stack[fn] {
		return nil
	}
	stack[fn] = true
	defer delete(stack, fn)
	res := map[string][]string{}
	var own ssa.Value
	if len(fn.Params) > 0 {
		if typeName(fn.Params[0].Type()) == "*hotline.ClientConn" {
			own = fn.Params[0]
		}
	}
	for _, ci := range callsIn(fn) {
		for _, cl := range P.directEffects(ci, own) {
			if _, ok := res[cl]; !ok {
				res[cl] = []string{P.ipos(ci) + " " + fname(fn) + " calls " + calleeName(ci.Common())}
			}
		}
		if _, isMut := mutatorTable[calleeName(ci.Common())]; isMut {
			continue // classified as a whole; do not look inside
		}
		tgts := append(P.callees(ci), funcArgsPassed(ci)...)
		for _, cal := range tgts {
			for cl, via := range P.fnEffects(cal, memo, stack) {
				if _, ok := res[cl]; !ok {
					res[cl] = append([]string{P.ipos(ci) + " " + fname(fn) + " -> " + fname(cal)}, via...)
				}
			}
		}
	}
	// adoption of a client-supplied display name
	eachInstr(fn, func(ins ssa.Instruction) {
		if s, ok := ins.(*ssa.Store); ok {
			if fa, ok := s.Addr.(*ssa.FieldAddr); ok {
				if f, _ := fieldOf(fa); f == "hotline.ClientConn.UserName" && P.fromRequestField(s.Val) {
					res["name.adopt"] = []string{P.ipos(s) + " " + fname(fn) + " stores request data into ClientConn.UserName"}
				}
			}
		}
	})
	memo[fn] = res
	return res
}

// fromRequestField: v derives (inside the function) from the Data of a transaction field.
func (P *Prog) fromRequestField(v ssa.Value) bool {
	found := false
	F := &Flow{P: P, Visit: func(x ssa.Value) bool {
		if fa, ok := x.(*ssa.FieldAddr); ok {
			if f, _ := fieldOf(fa); f == "hotline.Field.Data" {
				found = true
				return false
			}
		}
		return !found
	}}
	F.Back(v)
	return found
}

// siteEffects: the effect classes of a single call site in a handler, including what its callees do.
func (P *Prog) siteEffects(ci ssa.CallInstruction, own ssa.Value, memo map[*ssa.Function]map[string][]string) map[string][]string {
	res := map[string][]string{}
	for _, cl := range P.directEffects(ci, own) {
		res[cl] = nil
	}
	if _, isMut := mutatorTable[calleeName(ci.Common())]; isMut {
		return res
	}
	tgts := append(P.callees(ci), funcArgsPassed(ci)...)
	for _, cal := range tgts {
		for cl, via := range P.fnEffects(cal, memo, map[*ssa.Function]bool{}) {
			if _, ok := res[cl]; !ok {
				res[cl] = append([]string{fmt.Sprintf("%s -> %s", P.ipos(ci), fname(cal))}, via...)
			}
		}
	}
	return res
}
