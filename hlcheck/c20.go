package main

// c20.go — C20: a crash never leaves persistent state torn (update-protocol shape).

import (
	"fmt"
	"regexp"
	"sort"
	"strings"

	"golang.org/x/tools/go/ssa"
)

type storeSpec struct {
	Name     string   `json:"name"`
	Type     string   `json:"type"`
	Mutators []string `json:"mutators"`
}

// live-path fields of the durable stores (type → field holding the path / directory)
var storeLiveField = map[string]string{
	"mobius.FlatNews":           "mobius.FlatNews.filePath",
	"mobius.ThreadedNewsYAML":   "mobius.ThreadedNewsYAML.filePath",
	"mobius.YAMLAccountManager": "mobius.YAMLAccountManager.accountDir",
	"mobius.BanFile":            "mobius.BanFile.filePath",
}

var tempSuffixRe = regexp.MustCompile(`^(.*)\+"([^"/]+)"$`)
var accountFileRe = regexp.MustCompile(`\.yaml"\)*$`)

type pathClass struct {
	kind  string // live | temp | other
	store string
	base  string // for temp: the live expression it derives from
}

// classifyPath decides whether a path expression denotes a store's live file or a temp file next to it.
func classifyPath(sym string) pathClass {
	s := stripRecv(sym)
	for store, fld := range storeLiveField {
		f := "field:" + fld
		if !strings.Contains(s, f) {
			continue
		}
		isDir := strings.HasSuffix(fld, "accountDir")
		live := func(x string) bool {
			if !isDir {
				return x == f || x == "Join("+f+")"
			}
			// a file of the accounts directory: Join(dir, <name ending in ".yaml">)
			return strings.HasPrefix(x, "Join("+f+",") && accountFileRe.MatchString(x)
		}
		if live(s) {
			return pathClass{kind: "live", store: store}
		}
		if m := tempSuffixRe.FindStringSubmatch(s); m != nil && live(m[1]) {
			return pathClass{kind: "temp", store: store, base: m[1]}
		}
		return pathClass{kind: "other", store: store}
	}
	return pathClass{kind: "none"}
}

// symCtx renders a path expression; when it is built from a parameter of fn (a shared helper such as
// replaceFile(path, data)), the parameter is replaced by the argument of the call site that yields the most
// dangerous classification, so that helpers are judged by what their callers hand them.
func (P *Prog) symCtx(fn *ssa.Function, v ssa.Value) string {
	s := P.sym(v)
	if classifyPath(s).kind != "none" {
		return s
	}
	// a constructor's parameter that becomes the store's live path field *is* that path
	for _, prm := range fn.Params {
		tok := "param:" + prm.Name()
		if !strings.Contains(s, tok) {
			continue
		}
		eachInstr(fn, func(ins ssa.Instruction) {
			st, ok := ins.(*ssa.Store)
			if !ok || stripConv(st.Val) != ssa.Value(prm) {
				return
			}
			fa, ok := st.Addr.(*ssa.FieldAddr)
			if !ok {
				return
			}
			f, _ := fieldOf(fa)
			for _, fld := range storeLiveField {
				if f == fld {
					s = strings.ReplaceAll(s, tok, "field:"+fld)
				}
			}
		})
	}
	if classifyPath(s).kind != "none" {
		return s
	}
	rank := map[string]int{"none": 0, "temp": 1, "other": 2, "live": 3}
	for i, prm := range fn.Params {
		tok := "param:" + prm.Name()
		if !strings.Contains(s, tok) {
			continue
		}
		best, bestRank := s, 0
		for _, ci := range P.callers[fn] {
			c := ci.Common()
			var arg ssa.Value
			if c.IsInvoke() {
				if i >= 1 && i-1 < len(c.Args) {
					arg = c.Args[i-1]
				}
			} else if i < len(c.Args) {
				arg = c.Args[i]
			}
			if arg == nil {
				continue
			}
			s2 := strings.ReplaceAll(s, tok, P.symCtx(ci.Parent(), arg))
			if r := rank[classifyPath(s2).kind]; r > bestRank {
				best, bestRank = s2, r
			}
		}
		return best
	}
	return s
}

func checkC20(R *Run) {
	P := R.P
	R.rule("atomic-replace", "for the four durable stores (message board, threaded news, account files, ban list): no call creates, truncates or writes a store's live path in place (os.WriteFile/Create/OpenFile/Truncate, (*os.File).Write on such a file); the live path only appears as destination of os.Rename whose source is a temp path (live path + constant suffix, hence same directory) written by os.WriteFile on the dominating success edge. Enumerated single-step exceptions: os.Remove of an account file in Delete, os.Rename account file → account file in Update")
	R.rule("persist-before-ack", "every mutator of a store reaches a success return only after the rename onto the live path (directly or through a helper that always does it)")
	R.rule("loader-skips-temp", "the constant temp suffix does not end in the extension the account loader globs for")

	type site struct {
		fn   *ssa.Function
		ci   ssa.CallInstruction
		name string
	}
	nSites := 0
	var persisting map[*ssa.Function]bool // functions that rename onto a live path on every success return
	var fnsWithRename []*ssa.Function
	for _, fn := range P.Funcs {
		if fn.Pkg == nil || fn.Pkg.Pkg.Path() == cmdPath {
			continue
		}
		hasRename := false
		symc := func(v ssa.Value) string { return P.symCtx(fn, v) }
		for _, ci := range callsIn(fn) {
			c := ci.Common()
			name := calleeName(c)
			switch name {
			case "os.WriteFile", "os.Create", "os.OpenFile", "os.Truncate", "os.Remove", "os.RemoveAll", "os.Rename", "os.Mkdir", "os.CreateTemp":
			default:
				continue
			}
			if name == "os.Rename" {
				src, dst := classifyPath(symc(c.Args[0])), classifyPath(symc(c.Args[1]))
				if src.kind == "none" && dst.kind == "none" {
					continue
				}
				nSites++
				R.analysed(fname(fn))
				construct := fmt.Sprintf("%s: os.Rename #%d", fname(fn), nCreateIn(fn, ci))
				switch {
				case dst.kind == "live" && src.kind == "temp" && stripRecv(symc(c.Args[1])) == src.base:
					// the temp must have been fully written on the dominating success edge
					srcSym := P.sym(c.Args[0])
					steps := P.writeStepsOn(fn, func(p ssa.Value) bool { return P.sym(p) == srcSym }, 0)
					if len(steps) == 0 {
						R.und("atomic-replace", construct, P.ipos(ci), "the temp file renamed onto the live path is not written in the same function (accepted idioms: os.WriteFile(temp, data) — or os.OpenFile(temp, O_WRONLY|O_CREATE|O_TRUNC) + Write + Close, inline or in a helper handed the temp path — then os.Rename(temp, live))")
						continue
					}
					good := false
					var why []string
					for _, st := range steps {
						if st.data && instrDominates(st.ins, ci.(ssa.Instruction)) {
							good = true
						}
					}
					if !good {
						why = append(why, "no write of the temp file dominates the rename")
					}
					for _, st := range steps {
						if st.err == nil {
							good = false
							why = append(why, "the error of "+st.what+" at "+P.ipos(st.ins)+" is dropped")
							continue
						}
						if st.ins.Block() == ci.Block() || nilReach(st.ins, map[ssa.Value]bool{st.err: false})[ci.Block()] {
							good = false
							why = append(why, "the rename is reachable after "+st.what+" at "+P.ipos(st.ins)+" failed")
						}
					}
					R.check(good, "atomic-replace", construct, P.ipos(ci), "rename(temp → live) after the temp file was written successfully", "the rename onto the live file is reachable although writing the temp file did not succeed (or before it was written): "+strings.Join(why, "; "))
					hasRename = hasRename || good
				case dst.kind == "live" && src.kind == "live" && fname(fn) == "(*mobius.YAMLAccountManager).Update":
					R.ok("atomic-replace", construct, P.ipos(ci), "enumerated single-step exception: renaming one account file to another login is one atomic rename")
				case dst.kind == "live":
					R.bad("atomic-replace", construct, P.ipos(ci), "the live file is replaced by renaming "+P.sym(c.Args[0])+", which is not a temp file next to it (live path + constant suffix)")
				case src.kind == "live":
					R.bad("atomic-replace", construct, P.ipos(ci), "the live file is renamed away to "+P.sym(c.Args[1]))
				default:
					R.ok("atomic-replace", construct, P.ipos(ci), "does not touch a live path")
				}
				continue
			}
			pc := classifyPath(symc(c.Args[0]))
			if pc.kind == "none" && P.reaches(c.Args[0], func(x ssa.Value) bool {
				g := callValue(x)
				return g != nil && calleeName(&g.Call) == "path/filepath.Glob" && strings.Contains(P.sym(g.Call.Args[0]), ".yaml") && fname(rootFn(fn)) == "mobius.NewYAMLAccountManager"
			}) {
				// an element of the loader's glob over the accounts directory is a live account file
				pc = pathClass{kind: "live", store: "mobius.YAMLAccountManager"}
			}
			if pc.kind == "none" {
				continue
			}
			nSites++
			R.analysed(fname(fn))
			construct := fmt.Sprintf("%s: %s #%d", fname(fn), name, nCreateIn(fn, ci))
			switch {
			case pc.kind == "temp" && (name == "os.WriteFile" || name == "os.Remove"):
				R.ok("atomic-replace", construct, P.ipos(ci), "temp file next to the live file")
			case pc.kind == "temp" && (name == "os.OpenFile" || name == "os.Create"):
				fresh := name == "os.Create"
				if flags, ok := constInt(c.Args[1]); name == "os.OpenFile" && ok {
					fresh = flags&P.osFlag("O_APPEND") == 0 && (flags&P.osFlag("O_TRUNC") != 0 || flags&(P.osFlag("O_CREATE")|P.osFlag("O_EXCL")) == P.osFlag("O_CREATE")|P.osFlag("O_EXCL"))
				}
				R.check(fresh, "atomic-replace", construct, P.ipos(ci), "temp file next to the live file, created or truncated", "the temp file is opened without O_TRUNC (or O_CREATE|O_EXCL) or with O_APPEND: bytes of an earlier, interrupted write stay in it and are renamed onto the live file")
			case pc.kind == "live" && name == "os.Remove" && fname(fn) == "(*mobius.YAMLAccountManager).Delete":
				R.ok("atomic-replace", construct, P.ipos(ci), "enumerated single-step exception: deleting an account is one atomic unlink")
			case pc.kind == "live" && name == "os.OpenFile":
				// read-only open is fine
				flags, ok := constInt(c.Args[1])
				if ok && flags&0x3 == 0 && flags&(P.osFlag("O_CREATE")|P.osFlag("O_TRUNC")|P.osFlag("O_APPEND")) == 0 {
					R.ok("atomic-replace", construct, P.ipos(ci), "read-only open")
				} else {
					R.bad("atomic-replace", construct, P.ipos(ci), "the live file is opened for writing in place (a crash between create/truncate and the end of the write leaves an empty or half-written file)")
				}
			case pc.kind == "live":
				R.bad("atomic-replace", construct, P.ipos(ci), name+" rewrites the live file in place: a crash during the call leaves a truncated or partially written file")
			default:
				R.bad("atomic-replace", construct, P.ipos(ci), name+" on "+P.sym(c.Args[0])+": neither the live path nor a temp file next to it")
			}
		}
		if hasRename {
			fnsWithRename = append(fnsWithRename, fn)
		}
	}
	R.floor("atomic-replace", 9)
	R.countSites(nSites)

	persisting = P.persistingFns()
	var spec struct {
		Stores []storeSpec `json:"stores"`
	}
	if err := readSpec("stores.json", &spec); err != nil {
		R.und("persist-before-ack", "spec/stores.json", "-", err.Error())
		return
	}
	for _, st := range spec.Stores {
		typ := strings.Replace(st.Type, "internal/mobius.", "mobius.", 1)
		for _, m := range st.Mutators {
			fn := P.fn("(*" + typ + ")." + m)
			if fn == nil {
				R.und("persist-before-ack", typ+"."+m, "-", "mutator named in spec/stores.json does not exist (stale table)")
				continue
			}
			R.analysed(fname(fn))
			R.check(persisting[fn], "persist-before-ack", fname(fn), P.pos(fn.Pos()), "every success return is preceded by the rename onto the live file", "a success return is reachable without the new state having been renamed onto the live file: an acknowledged change can be lost, or the store is updated in place")
		}
	}
	R.floor("persist-before-ack", 9)

	// loader-skips-temp: the suffixes of every account temp path handed to a filesystem call
	var suffixes []string
	sufSeen := map[string]bool{}
	for _, fn := range P.Funcs {
		for _, ci := range callsIn(fn) {
			for _, i := range pathArgs(ci.Common()) {
				s := stripRecv(P.symCtx(fn, ci.Common().Args[i]))
				if pc := classifyPath(s); pc.kind == "temp" && pc.store == "mobius.YAMLAccountManager" {
					if m := tempSuffixRe.FindStringSubmatch(s); m != nil && !sufSeen[m[2]] {
						sufSeen[m[2]] = true
						suffixes = append(suffixes, m[2])
					}
				}
			}
		}
	}
	sort.Strings(suffixes)
	okSuf := len(suffixes) > 0
	for _, s := range suffixes {
		if strings.HasSuffix(s, ".yaml") || strings.HasSuffix(s, "yaml") {
			okSuf = false
		}
	}
	R.check(okSuf, "loader-skips-temp", "account temp suffix", "internal/mobius/account_manager.go", fmt.Sprintf("temp suffixes %v are not matched by the loader's *.yaml glob", suffixes), fmt.Sprintf("account temp files (suffixes %v) would be picked up by the loader's *.yaml glob after a crash", suffixes))
}

func init() { register("C20", checkC20) }

// wstep: one fallible step of writing a whole file at a given path.
type wstep struct {
	ins  *ssa.Call
	err  ssa.Value // the step's error value; nil when it is dropped
	data bool      // the step writes the content (as opposed to opening the file)
	what string
}

// writeStepsOn lists the steps by which fn writes the file whose path satisfies match: os.WriteFile(path, …);
// os.OpenFile(path, write flags)/os.Create(path) and the Write/WriteString calls on the file it yields; a call
// to a repo helper that is handed the path and is itself a whole-file writer of that parameter.
func (P *Prog) writeStepsOn(fn *ssa.Function, match func(p ssa.Value) bool, depth int) []wstep {
	var out []wstep
	for _, ci := range callsIn(fn) {
		c, ok := ci.(*ssa.Call)
		if !ok {
			continue
		}
		name := calleeName(&c.Call)
		switch name {
		case "os.WriteFile":
			if match(c.Call.Args[0]) {
				out = append(out, wstep{c, errResult(c), true, name})
			}
			continue
		case "os.OpenFile", "os.Create":
			if !match(c.Call.Args[0]) {
				continue
			}
			if name == "os.OpenFile" {
				if flags, ok := constInt(c.Call.Args[1]); ok && flags&0x3 == 0 {
					continue // read-only
				}
			}
			out = append(out, wstep{c, errResult(c), false, name})
			for _, r := range *c.Referrers() {
				ex, ok := r.(*ssa.Extract)
				if !ok || ex.Index != 0 {
					continue
				}
				for _, rr := range *ex.Referrers() {
					w, ok := rr.(*ssa.Call)
					if !ok || len(w.Call.Args) == 0 || w.Call.Args[0] != ssa.Value(ex) {
						continue
					}
					switch calleeName(&w.Call) {
					case "(*os.File).Write", "(*os.File).WriteString":
						out = append(out, wstep{w, errResult(w), true, calleeName(&w.Call)})
					}
				}
			}
			continue
		}
		h, ok := c.Call.Value.(*ssa.Function)
		if !ok || h.Blocks == nil || !P.isRepoPkg(pkgOf(h)) || depth > 0 {
			continue
		}
		for k, a := range c.Call.Args {
			if k < len(h.Params) && match(a) && P.wholeFileWriter(h, k) {
				out = append(out, wstep{c, errResult(c), true, fname(h)})
			}
		}
	}
	return out
}

// wholeFileWriter: h writes the file named by its parameter k and returns a non-nil error whenever one of the
// write steps failed (decided by nil-sensitive reachability from each step to the returns).
func (P *Prog) wholeFileWriter(h *ssa.Function, k int) bool {
	res := h.Signature.Results()
	errIdx := -1
	for i := 0; i < res.Len(); i++ {
		if isErrorType(res.At(i).Type()) {
			errIdx = i
		}
	}
	if errIdx < 0 {
		return false
	}
	steps := P.writeStepsOn(h, func(p ssa.Value) bool { return stripConv(p) == ssa.Value(h.Params[k]) }, 1)
	hasData := false
	for _, st := range steps {
		hasData = hasData || st.data
		if st.err == nil {
			return false
		}
		leak := false
		check := func(b *ssa.BasicBlock, ns nilState) {
			if ret, ok := b.Instrs[len(b.Instrs)-1].(*ssa.Return); ok && errIdx < len(ret.Results) && ns.of(ret.Results[errIdx]) != 2 {
				leak = true
			}
		}
		// the step's own block may end in the return (`return os.WriteFile(…)`)
		check(st.ins.Block(), nilState{st.err: 2})
		nilReachVisit(st.ins, map[ssa.Value]bool{st.err: false}, check)
		if leak {
			return false
		}
	}
	return hasData
}

var persistMemo = map[*Prog]map[*ssa.Function]bool{}

// persistingFns: functions that, on every possibly-successful return, have renamed a temp file onto a live
// path / removed a live file (directly or through a helper that always does).
func (P *Prog) persistingFns() map[*ssa.Function]bool {
	if m, ok := persistMemo[P]; ok {
		return m
	}
	persisting := map[*ssa.Function]bool{}
	// persisting helpers: every success return is preceded by the rename
	isRenameLive := func(ins ssa.Instruction) bool {
		ci, ok := ins.(ssa.CallInstruction)
		if !ok {
			return false
		}
		c := ci.Common()
		n := calleeName(c)
		if n == "os.Rename" {
			return classifyPath(P.symCtx(ins.Parent(), c.Args[1])).kind == "live" && classifyPath(P.symCtx(ins.Parent(), c.Args[0])).kind == "temp"
		}
		if n == "os.Remove" {
			return classifyPath(P.symCtx(ins.Parent(), c.Args[0])).kind == "live"
		}
		for _, cal := range P.callees(ci) {
			if persisting[cal] {
				return true
			}
		}
		return false
	}
	for changed := true; changed; {
		changed = false
		for _, fn := range P.Funcs {
			if persisting[fn] {
				continue
			}
			// must actually contain a persisting instruction
			has := false
			eachInstr(fn, func(ins ssa.Instruction) {
				if !has && isRenameLive(ins) {
					has = true
				}
			})
			if !has {
				continue
			}
			if all, _, n := successMustPass(fn, isRenameLive); all && n > 0 {
				persisting[fn] = true
				changed = true
			}
		}
	}
	persistMemo[P] = persisting
	return persisting
}
