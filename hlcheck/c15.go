package main

// c15.go — C15: accounts: what can log in = what is listed = what is on disk.

import (
	"fmt"
	"go/token"
	"go/types"
	"reflect"
	"sort"
	"strings"

	"golang.org/x/tools/go/ssa"
)

// loginAt resolves a load of <cell>.Login at the program point of the load: "OLD" when no store to that
// field can precede it, the stored value's sym when a store dominates it, "AMBIGUOUS" otherwise.
func (P *Prog) loginAt(load *ssa.UnOp) string {
	fa, ok := load.X.(*ssa.FieldAddr)
	if !ok {
		return P.sym(load)
	}
	cell, ok := fa.X.(*ssa.Alloc)
	if !ok {
		return stripRecv(P.sym(load))
	}
	var stores []*ssa.Store
	eachInstr(load.Parent(), func(ins ssa.Instruction) {
		if st, ok := ins.(*ssa.Store); ok {
			if fa2, ok := st.Addr.(*ssa.FieldAddr); ok && fa2.X == ssa.Value(cell) && fa2.Field == fa.Field {
				stores = append(stores, st)
			}
		}
	})
	if len(stores) == 0 {
		return "OLD"
	}
	var dom *ssa.Store
	mayPrecede := false
	for _, st := range stores {
		if instrDominates(st, load) {
			dom = st
			continue
		}
		// can st execute before load on some path?
		if st.Block() == load.Block() {
			if instrIndex(st) < instrIndex(load) {
				mayPrecede = true
			}
			continue
		}
		if reachableFrom(st.Block(), nil)[load.Block()] {
			mayPrecede = true
		}
	}
	if dom != nil && !mayPrecede {
		return P.sym(dom.Val)
	}
	if dom == nil && !mayPrecede {
		return "OLD"
	}
	return "AMBIGUOUS"
}

// keyExpr normalises a login expression used as map key or inside a file name.
func (P *Prog) keyExpr(v ssa.Value) string {
	v = stripConv(v)
	if u, ok := v.(*ssa.UnOp); ok && u.Op == token.MUL {
		if fa, ok := u.X.(*ssa.FieldAddr); ok {
			if f, _ := fieldOf(fa); f == "hotline.Account.Login" {
				return P.loginAt(u)
			}
		}
	}
	return P.sym(v)
}

// fileLogin extracts the login expression L from a path of the form Join(accountDir, Join("/", L)+".yaml") /
// Join(accountDir, Join("/", L+".yaml")), optionally followed by a temp suffix; ok=false when not anchored so.
func (P *Prog) fileLogin(v ssa.Value) (login ssa.Value, anchored bool) {
	v = stripConv(v)
	// strip a temp suffix
	if b, ok := v.(*ssa.BinOp); ok && b.Op == token.ADD {
		if _, isC := constString(b.Y); isC {
			if inner := callValue(b.X); inner != nil && (calleeName(&inner.Call) == "path/filepath.Join") {
				v = b.X
			}
		}
	}
	if u, ok := v.(*ssa.UnOp); ok && u.Op == token.MUL {
		if a, ok := u.X.(*ssa.Alloc); ok {
			if val, ok := singleStore(a); ok {
				return P.fileLogin(val)
			}
		}
	}
	outer := callValue(v)
	if outer == nil || calleeName(&outer.Call) != "path/filepath.Join" {
		return nil, false
	}
	args := callArgsFlat(&outer.Call)
	if len(args) != 2 {
		return nil, false
	}
	if f, ok := loadedField(args[0]); !ok || f != "mobius.YAMLAccountManager.accountDir" {
		return nil, false
	}
	name := stripConv(args[1])
	// Join("/", L)+".yaml"  /  Clean("/"+L)+".yaml"
	if b, ok := name.(*ssa.BinOp); ok && b.Op == token.ADD {
		if s, isC := constString(b.Y); isC && s == ".yaml" {
			if inner, ok := rootedOperand(b.X); ok {
				return inner, true
			}
			return b.X, false
		}
	}
	// Join("/", L+".yaml")  /  Clean("/"+L+".yaml")
	if inner, ok := rootedOperand(name); ok {
		if b, ok := stripConv(inner).(*ssa.BinOp); ok && b.Op == token.ADD {
			if s, isC := constString(b.Y); isC && s == ".yaml" {
				return b.X, true
			}
		}
	}
	return nil, false
}

// rootedOperand: v is Join("/", X) or Clean("/"+X) (path or path/filepath); returns X.
func rootedOperand(v ssa.Value) (ssa.Value, bool) {
	j := callValue(v)
	if j == nil {
		return nil, false
	}
	switch calleeName(&j.Call) {
	case "path.Join", "path/filepath.Join":
		ja := callArgsFlat(&j.Call)
		if len(ja) == 2 {
			if s0, ok := constString(ja[0]); ok && s0 == "/" {
				return ja[1], true
			}
		}
	case "path.Clean", "path/filepath.Clean":
		// "/"+X, and "/"+L+".yaml" which parses as ("/"+L)+".yaml": rebuild X = L+".yaml" is not possible as an SSA
		// value, so the left-nested form is returned as a synthetic concatenation
		if b, ok := stripConv(j.Call.Args[0]).(*ssa.BinOp); ok && b.Op == token.ADD {
			if s0, ok := constString(b.X); ok && s0 == "/" {
				return b.Y, true
			}
			if bb, ok := stripConv(b.X).(*ssa.BinOp); ok && bb.Op == token.ADD {
				if s0, ok := constString(bb.X); ok && s0 == "/" {
					return &ssa.BinOp{Op: token.ADD, X: bb.Y, Y: b.Y}, true
				}
			}
		}
	}
	return nil, false
}

func checkC15(R *Run) {
	P := R.P
	R.rule("acct-key-agree", "in each YAMLAccountManager mutator the login naming the file operated on and the key of the map operation agree at their program points: create — written/renamed-to file ≡ inserted key; delete — removed file ≡ deleted key; rename — the deleted key ≡ the login the account had before the rename (the Rename's source), the inserted key ≡ the new login (the Rename's destination)")
	R.rule("map-after-disk", "the in-memory map is only mutated on the success edge of the disk operation of the same mutator")
	R.rule("pw-hash-only", "every value stored into Account.Password outside YAML decoding is the result of HashAndSalt, which returns string(bcrypt.GenerateFromPassword(its argument))")
	R.rule("pw-semantics", "in the two account-editing handlers the hash of the supplied password is only stored when the password field is not the single byte 0 ('unchanged'), and the hash of the empty password only when the field is absent")
	R.rule("acct-shape", "Get looks up exactly the requested login, List enumerates the map, the loader keys each account by the Login it read, and Account has yaml tags for Login/Name/Password/Access")

	create := R.mustFn("(*mobius.YAMLAccountManager).Create")
	update := R.mustFn("(*mobius.YAMLAccountManager).Update")
	del := R.mustFn("(*mobius.YAMLAccountManager).Delete")

	mapOps := func(fn *ssa.Function) (ins []*ssa.MapUpdate, dels []*ssa.Call) {
		eachInstr(fn, func(i ssa.Instruction) {
			switch x := i.(type) {
			case *ssa.MapUpdate:
				if f, ok := loadedField(x.Map); ok && f == "mobius.YAMLAccountManager.accounts" {
					ins = append(ins, x)
				}
			case *ssa.Call:
				if calleeName(&x.Call) == "builtin.delete" {
					if f, ok := loadedField(x.Call.Args[0]); ok && f == "mobius.YAMLAccountManager.accounts" {
						dels = append(dels, x)
					}
				}
			}
		})
		return
	}
	diskOps := func(fn *ssa.Function, names ...string) []*ssa.Call {
		var out []*ssa.Call
		for _, ci := range callsIn(fn) {
			if c, ok := ci.(*ssa.Call); ok {
				for _, n := range names {
					if calleeName(&c.Call) == n {
						out = append(out, c)
					}
				}
			}
		}
		return out
	}
	successCut := func(fn *ssa.Function, calls []*ssa.Call) map[Edge]bool {
		cut := map[Edge]bool{}
		factEdges(fn, func(e Edge, f Fact) {
			if f.Kind == "nil" && f.Holds {
				for _, c := range calls {
					if callValue(f.V) == c {
						cut[e] = true
					}
				}
			}
		})
		return cut
	}

	if create != nil {
		R.analysed(fname(create))
		ins, _ := mapOps(create)
		renames := diskOps(create, "os.Rename")
		opens := diskOps(create, "os.OpenFile", "os.WriteFile", "os.Create")
		var fileKey string
		anchoredAll := true
		for _, c := range renames {
			l, anch := P.fileLogin(c.Call.Args[1])
			if l != nil {
				fileKey = P.keyExpr(l)
			}
			anchoredAll = anchoredAll && anch
		}
		if len(renames) == 0 {
			for _, c := range opens {
				l, anch := P.fileLogin(c.Call.Args[0])
				if l != nil {
					fileKey = P.keyExpr(l)
				}
				anchoredAll = anchoredAll && anch
			}
		}
		okAll := len(ins) > 0 && fileKey != ""
		var keys []string
		for _, m := range ins {
			k := P.keyExpr(m.Key)
			keys = append(keys, k)
			if k != fileKey {
				okAll = false
			}
		}
		R.check(okAll, "acct-key-agree", "mobius.YAMLAccountManager.Create", P.pos(create.Pos()), "file <"+fileKey+">.yaml ≡ inserted key", fmt.Sprintf("Create writes the file of login %s but inserts map key(s) %v", fileKey, keys))
		disk := renames
		if len(disk) == 0 {
			disk = opens
		}
		reach := reachable(create, successCut(create, disk))
		good := len(disk) > 0
		for _, m := range ins {
			if reach[m.Block()] {
				good = false
			}
		}
		R.check(good, "map-after-disk", "mobius.YAMLAccountManager.Create", P.pos(create.Pos()), "map insert only after the file is in place", "the account is inserted into the map on a path where creating its file did not succeed")
	}
	if del != nil {
		R.analysed(fname(del))
		_, dels := mapOps(del)
		rms := diskOps(del, "os.Remove")
		var fileKey string
		for _, c := range rms {
			if l, _ := P.fileLogin(c.Call.Args[0]); l != nil {
				fileKey = P.keyExpr(l)
			}
		}
		okAll := len(dels) == 1 && len(rms) == 1 && fileKey != ""
		var k string
		if len(dels) == 1 {
			k = P.keyExpr(dels[0].Call.Args[1])
			okAll = okAll && k == fileKey
		}
		R.check(okAll, "acct-key-agree", "mobius.YAMLAccountManager.Delete", P.pos(del.Pos()), "removed file ≡ deleted key ("+k+")", fmt.Sprintf("Delete removes the file of login %s but deletes map key %s", fileKey, k))
		reach := reachable(del, successCut(del, rms))
		good := len(rms) > 0
		for _, d := range dels {
			if reach[d.Block()] {
				good = false
			}
		}
		R.check(good, "map-after-disk", "mobius.YAMLAccountManager.Delete", P.pos(del.Pos()), "map delete only after the file is removed", "the login is removed from the map on a path where removing its file did not succeed")
	}
	if update != nil {
		R.analysed(fname(update))
		ins, dels := mapOps(update)
		var ren *ssa.Call
		for _, c := range diskOps(update, "os.Rename") {
			_, a1 := P.fileLogin(c.Call.Args[0])
			l0, _ := P.fileLogin(c.Call.Args[0])
			l1, _ := P.fileLogin(c.Call.Args[1])
			_ = a1
			if l0 != nil && l1 != nil && classifyPath(P.sym(c.Call.Args[0])).kind == "live" {
				ren = c
			}
		}
		if ren == nil || len(dels) != 1 {
			R.und("acct-key-agree", "mobius.YAMLAccountManager.Update", P.pos(update.Pos()), fmt.Sprintf("rename branch not recognised (account-file rename found: %v, map deletes: %d)", ren != nil, len(dels)))
		} else {
			l0, _ := P.fileLogin(ren.Call.Args[0])
			l1, _ := P.fileLogin(ren.Call.Args[1])
			srcKey, dstKey := P.keyExpr(l0), P.keyExpr(l1)
			delKey := P.keyExpr(dels[0].Call.Args[1])
			R.check(delKey == srcKey, "acct-key-agree", "mobius.YAMLAccountManager.Update: deleted key", P.ipos(dels[0]),
				"the key deleted on rename is the old login ("+srcKey+")",
				fmt.Sprintf("on rename the file of login %s is renamed away but the map key deleted is %s: the renamed-away login stays valid (and the new one may be dropped)", srcKey, delKey))
			// some insert with the destination key, dominated by the rename's success
			hasDst := false
			for _, m := range ins {
				if P.keyExpr(m.Key) == dstKey {
					hasDst = true
				}
			}
			R.check(hasDst, "acct-key-agree", "mobius.YAMLAccountManager.Update: inserted key", P.ipos(ren), "the renamed-to login ("+dstKey+") is inserted", "no map insert under the renamed-to login "+dstKey)
			// the account stored carries the new login
			okLogin := false
			eachInstr(update, func(i ssa.Instruction) {
				if st, ok := i.(*ssa.Store); ok {
					if fa, ok := st.Addr.(*ssa.FieldAddr); ok {
						if f, _ := fieldOf(fa); f == "hotline.Account.Login" && P.sym(st.Val) == dstKey {
							okLogin = true
						}
					}
				}
			})
			R.check(okLogin, "acct-key-agree", "mobius.YAMLAccountManager.Update: account.Login", P.ipos(ren), "the stored account takes the new login", "the account saved after a rename does not take the new login")
		}
		// map-after-disk: every map mutation behind the success edge of the disk operation that precedes it
		allDisk := diskOps(update, "os.Rename", "os.WriteFile")
		for _, m := range ins {
			var before []*ssa.Call
			for _, d := range allDisk {
				if instrDominates(d, m) {
					before = append(before, d)
				}
			}
			reach := reachable(update, successCut(update, before))
			R.check(len(before) > 0 && !reach[m.Block()], "map-after-disk", fmt.Sprintf("mobius.YAMLAccountManager.Update: insert #%d", mapIdx(ins, m)), P.ipos(m), "only after the preceding disk operation(s) succeeded", "the map is updated on a path where the preceding file operation failed")
		}
	}
	R.floor("acct-key-agree", 5)
	R.floor("map-after-disk", 4)

	// disk-follows-map (shared with C20's persist-before-ack): a mutator acknowledges only after the file operation
	R.rule("disk-follows-map", "Create, Update and Delete reach a success return only after the file of the account has been renamed into place / removed (so that a restart from the files yields what the map holds)")
	for _, fn := range []*ssa.Function{create, update, del} {
		if fn == nil {
			continue
		}
		R.check(P.persistingFns()[fn], "disk-follows-map", fname(fn), P.pos(fn.Pos()), "every success return is preceded by the file operation", "a success return is reachable without the account file having been written/renamed/removed: memory and disk diverge and the change is undone by a restart")
	}

	// ---- pw-hash-only
	nPw := 0
	for _, fn := range P.Funcs {
		if fn.Pkg != nil && fn.Pkg.Pkg.Path() == cmdPath {
			continue
		}
		eachInstr(fn, func(i ssa.Instruction) {
			st, ok := i.(*ssa.Store)
			if !ok {
				return
			}
			fa, ok := st.Addr.(*ssa.FieldAddr)
			if !ok {
				return
			}
			if f, _ := fieldOf(fa); f != "hotline.Account.Password" {
				return
			}
			nPw++
			c := callValue(st.Val)
			R.check(c != nil && calleeName(&c.Call) == "hotline.HashAndSalt", "pw-hash-only", fmt.Sprintf("%s: store Account.Password #%d", fname(fn), nPw), P.ipos(st), "value = HashAndSalt(...)", "a password is stored that is not the result of HashAndSalt: "+P.sym(st.Val))
		})
	}
	R.floor("pw-hash-only", 5)
	if hs := R.mustFn("hotline.HashAndSalt"); hs != nil {
		ok := len(returnsOf(hs)) > 0
		for _, ret := range returnsOf(hs) {
			v := stripConv(ret.Results[0])
			good := false
			if ex, isEx := v.(*ssa.Extract); isEx && ex.Index == 0 {
				if c, isC := ex.Tuple.(*ssa.Call); isC && calleeName(&c.Call) == "golang.org/x/crypto/bcrypt.GenerateFromPassword" && c.Call.Args[0] == ssa.Value(hs.Params[0]) {
					good = true
				}
			}
			ok = ok && good
		}
		R.check(ok, "pw-hash-only", "hotline.HashAndSalt", P.pos(hs.Pos()), "= string(bcrypt.GenerateFromPassword(pwd))", "HashAndSalt does not return the bcrypt hash of its argument")
	}

	// ---- pw-semantics
	for _, hn := range []string{"mobius.HandleSetUser", "mobius.HandleUpdateUser"} {
		fn := R.mustFn(hn)
		if fn == nil {
			continue
		}
		R.analysed(fname(fn))
		// classify password stores
		type pst struct {
			st    *ssa.Store
			empty bool
		}
		var stores []pst
		eachInstr(fn, func(i ssa.Instruction) {
			st, ok := i.(*ssa.Store)
			if !ok {
				return
			}
			fa, ok := st.Addr.(*ssa.FieldAddr)
			if !ok {
				return
			}
			if f, _ := fieldOf(fa); f != "hotline.Account.Password" {
				return
			}
			c := callValue(st.Val)
			if c == nil || len(c.Call.Args) != 1 {
				return
			}
			arg := stripConv(c.Call.Args[0])
			s, isConst := constString(arg)
			stores = append(stores, pst{st, isConst && s == ""})
		})
		// atoms: UNCHANGED = bytes.Equal({0}, pwfield) ; ABSENT = pw field nil
		cutFor := func(req map[string]bool) map[Edge]bool {
			cut := map[Edge]bool{}
			factEdges(fn, func(e Edge, f Fact) {
				atom, val, ok := "", false, false
				switch f.Kind {
				case "truth":
					if c, isC := f.V.(*ssa.Call); isC && calleeName(&c.Call) == "bytes.Equal" {
						for _, pair := range [][2]ssa.Value{{c.Call.Args[0], c.Call.Args[1]}, {c.Call.Args[1], c.Call.Args[0]}} {
							if bs, okb := P.bytesOf(pair[0]); okb && len(bs) == 1 && bs[0] == 0 && P.requestFieldOf(pair[1]) == "FieldUserPassword" {
								atom, val, ok = "UNCHANGED", f.Holds, true
							}
						}
					}
				case "nil":
					if P.requestFieldOf(f.V) == "FieldUserPassword" {
						atom, val, ok = "ABSENT", f.Holds, true
					}
				}
				if ok {
					if want, has := req[atom]; has && want != val {
						cut[e] = true
					}
				}
			})
			return cut
		}
		// the marker test spelled out — len(pw) == 1 && pw[0] == 0 — holds in the 'unchanged' scenario: both comparisons
		// are seeded as true, so that the branch on their conjunction is followed on the true side only
		seedUnchanged := nilState{}
		eachInstr(fn, func(ins ssa.Instruction) {
			b, ok := ins.(*ssa.BinOp)
			if !ok || (b.Op != token.EQL && b.Op != token.NEQ) {
				return
			}
			val := int32(2)
			if b.Op == token.NEQ {
				val = 1
			}
			for _, pair := range [][2]ssa.Value{{b.X, b.Y}, {b.Y, b.X}} {
				k, isK := constInt(pair[1])
				if !isK {
					continue
				}
				if c, isC := stripConv(pair[0]).(*ssa.Call); isC && calleeName(&c.Call) == "builtin.len" && k == 1 && P.requestFieldOf(c.Call.Args[0]) == "FieldUserPassword" {
					seedUnchanged[b] = val
				}
				if u, isU := stripConv(pair[0]).(*ssa.UnOp); isU && u.Op == token.MUL && k == 0 {
					if ia, isIA := u.X.(*ssa.IndexAddr); isIA {
						if i0, isI := constInt(ia.Index); isI && i0 == 0 && P.requestFieldOf(ia.X) == "FieldUserPassword" {
							seedUnchanged[b] = val
						}
					}
				}
			}
		})
		unchanged := reachableCondSeed(fn, cutFor(map[string]bool{"UNCHANGED": true, "ABSENT": false}), nil, seedUnchanged)
		present := reachable(fn, cutFor(map[string]bool{"ABSENT": false}))
		nE, nV := 0, 0
		for _, s := range stores {
			if s.empty {
				nE++
				R.check(!present[s.st.Block()], "pw-semantics", fmt.Sprintf("%s: store hash(\"\") #%d", hn, nE), P.ipos(s.st), "only when the password field is absent", "the password is cleared although a password field was sent")
			} else {
				nV++
				R.check(!unchanged[s.st.Block()], "pw-semantics", fmt.Sprintf("%s: store hash(field) #%d", hn, nV), P.ipos(s.st), "not when the field is the 'unchanged' marker {0}", "the password is overwritten although the request carried the 'unchanged' marker (single byte 0)")
			}
		}
		if nE == 0 || nV == 0 {
			R.bad("pw-semantics", hn, P.pos(fn.Pos()), fmt.Sprintf("expected a store of the supplied password's hash and one of the empty password's hash, found %d and %d", nV, nE))
		}
	}
	R.floor("pw-semantics", 4)
	R.ruleBatchIndependent()
	R.rule("auth-shape", "(shared with C04) the password that logs in is the stored one: Authenticate returns true only through bcrypt.CompareHashAndPassword(hash of AccountManager.Get(login), supplied password) == nil — no second source of truth (cache of earlier successes) that a password change does not reach")
	R.ruleAuthShape()
	R.ruleManagerStoresGiven()
	R.ruleCreateNoOverwrite()

	// ---- acct-shape
	if g := R.mustFn("(*mobius.YAMLAccountManager).Get"); g != nil {
		ok := false
		eachInstr(g, func(i ssa.Instruction) {
			if l, isL := i.(*ssa.Lookup); isL {
				if f, isF := loadedField(l.X); isF && f == "mobius.YAMLAccountManager.accounts" && l.Index == ssa.Value(g.Params[1]) {
					ok = true
				}
			}
		})
		R.check(ok, "acct-shape", "mobius.YAMLAccountManager.Get", P.pos(g.Pos()), "looks up accounts[login]", "Get does not look up the requested login in the accounts map")
	}
	if l := R.mustFn("(*mobius.YAMLAccountManager).List"); l != nil {
		ok := false
		eachInstr(l, func(i ssa.Instruction) {
			if mv := enumeratedMap(i); mv != nil {
				if f, isF := loadedField(mv); isF && f == "mobius.YAMLAccountManager.accounts" {
					ok = true
				}
			}
		})
		R.check(ok, "acct-shape", "mobius.YAMLAccountManager.List", P.pos(l.Pos()), "ranges over the accounts map", "List does not enumerate the accounts map")
	}
	if n := R.mustFn("mobius.NewYAMLAccountManager"); n != nil {
		// every matched file is loaded: no path through an iteration of the file loop skips the insertion
		var ins *ssa.MapUpdate
		eachInstr(n, func(i ssa.Instruction) {
			if m, isM := i.(*ssa.MapUpdate); isM {
				if f, isF := loadedField(m.Key); isF && f == "hotline.Account.Login" {
					ins = m
				}
			}
		})
		complete := false
		if ins != nil {
			// the loop's element access (matches[i]) starts an iteration
			var iterStart ssa.Instruction
			eachInstr(n, func(i ssa.Instruction) {
				if ia, isIA := i.(*ssa.IndexAddr); isIA && iterStart == nil {
					if c := callValue(ia.X); c != nil && calleeName(&c.Call) == "path/filepath.Glob" {
						iterStart = ia
					}
				}
			})
			if iterStart != nil {
				// can the next iteration start without the insertion having happened?
				complete = !reachesWithout(iterStart.Block(), instrIndex(iterStart)+1, iterStart, ins)
				// and can the constructor return success from inside an iteration before inserting?
				for _, ret := range returnsOf(n) {
					if isSuccessReturn(ret) && reachesWithout(iterStart.Block(), instrIndex(iterStart)+1, ret, ins) && iterStart.Block().Dominates(ret.Block()) {
						if inLoop(iterStart.Block()) && reachableFrom(ret.Block(), nil)[iterStart.Block()] {
							complete = false
						}
					}
				}
			}
		}
		R.check(complete, "acct-shape", "mobius.NewYAMLAccountManager: every account file is loaded", P.pos(n.Pos()), "no iteration of the file loop skips the insertion", "the loader can skip a matched account file (a path through the loop reaches the next file without inserting the account): an account that can log in and is on disk vanishes after a restart")
		ok := false
		eachInstr(n, func(i ssa.Instruction) {
			if m, isM := i.(*ssa.MapUpdate); isM {
				if f, isF := loadedField(m.Key); isF && f == "hotline.Account.Login" {
					ok = true
				}
			}
		})
		R.check(ok, "acct-shape", "mobius.NewYAMLAccountManager", P.pos(n.Pos()), "loaded accounts are keyed by their Login", "the loader does not key accounts by the Login read from the file")
	}
	if tn, ok := P.Hot.Pkg.Scope().Lookup("Account").(*types.TypeName); ok {
		st := tn.Type().Underlying().(*types.Struct)
		want := map[string]bool{"Login": false, "Name": false, "Password": false, "Access": false}
		for i := 0; i < st.NumFields(); i++ {
			tag := strings.Split(reflect.StructTag(st.Tag(i)).Get("yaml"), ",")[0]
			if _, w := want[st.Field(i).Name()]; w && tag == st.Field(i).Name() {
				want[st.Field(i).Name()] = true
			}
		}
		all := true
		for _, v := range want {
			all = all && v
		}
		R.check(all, "acct-shape", "hotline.Account yaml tags", "hotline/account.go", "Login/Name/Password/Access are saved under their own names", fmt.Sprintf("yaml tags of Account changed: %v", want))
	}
}

func mapIdx(l []*ssa.MapUpdate, m *ssa.MapUpdate) int {
	for i, x := range l {
		if x == m {
			return i + 1
		}
	}
	return 0
}

func init() { register("C15", checkC15) }

// ruleBatchIndependent: the multi-user editor (transaction 349) applies each entry of the request on its own.  The
// per-entry state (which login to load, whether it is a rename, the decoded sub-fields) must be defined afresh in
// every iteration: a value that flows around the loop's back edge into a use of the next iteration makes the
// outcome for one account depend on the entry before it.
func (R *Run) ruleBatchIndependent() {
	P := R.P
	R.rule("batch-independent", "in the handler of the batched account editor, no value other than the range index and the accumulated replies is carried around the back edge of the loop over the request's fields into a use in the next iteration (a slice re-sliced to [:0] is a reset, not a use)")
	var fn *ssa.Function
	for _, reg := range R.registeredHandlers() {
		if reg.Num == 349 {
			fn = reg.Fn
		}
	}
	if fn == nil {
		R.und("batch-independent", "transaction 349", "-", "no handler registered")
		return
	}
	R.analysed(fname(fn))
	// the loop over t.Fields
	var header *ssa.BasicBlock
	var idxVal ssa.Value
	eachInstr(fn, func(ins ssa.Instruction) {
		ia, ok := ins.(*ssa.IndexAddr)
		if !ok || header != nil {
			return
		}
		if f, ok := loadedField(ia.X); !ok || f != "hotline.Transaction.Fields" {
			return
		}
		if _, _, ok := indexRange(ia.Index); ok {
			header = ia.Index.(ssa.Instruction).Block()
			idxVal = ia.Index
		}
	})
	if header == nil {
		R.und("batch-independent", fname(fn), P.pos(fn.Pos()), "the loop over the request's fields was not recognised")
		return
	}
	inLoopBlk := func(b *ssa.BasicBlock) bool {
		return b == header || (reachableFrom(header, nil)[b] && reachableFrom(b, nil)[header])
	}
	var carried []string
	for _, ins := range header.Instrs {
		phi, ok := ins.(*ssa.Phi)
		if !ok {
			break
		}
		if b, isB := idxVal.(*ssa.BinOp); (isB && b.X == ssa.Value(phi)) || idxVal == ssa.Value(phi) {
			continue // the range index
		}
		if typeName(phi.Type()) == "[]hotline.Transaction" {
			continue // the replies accumulate by design
		}
		back := false
		for i, e := range phi.Edges {
			if inLoopBlk(header.Preds[i]) && e != ssa.Value(phi) {
				if c, isC := e.(*ssa.Const); isC && c.Value == nil {
					continue // reset to the zero value on the way round
				}
				back = true
			}
		}
		if !back {
			continue
		}
		used := false
		for _, r := range *phi.Referrers() {
			switch x := r.(type) {
			case *ssa.DebugRef:
			case *ssa.Slice:
				if k, ok := constInt(x.High); !(ok && k == 0 && x.Low == nil) {
					used = true
				}
			case *ssa.Phi:
				// merged onwards: judge the merge by its own uses
				for _, rr := range *x.Referrers() {
					if _, dbg := rr.(*ssa.DebugRef); !dbg {
						used = true
					}
				}
			default:
				used = true
			}
		}
		if used {
			carried = append(carried, phi.Comment+" ("+typeName(phi.Type())+")")
		}
	}
	carried = append(carried, P.carriedCells(fn, header, nil)...)
	R.check(len(carried) == 0, "batch-independent", fname(fn)+": loop over the request's fields", P.pos(fn.Pos()), "no per-entry state survives into the next iteration", "per-entry state is carried from one entry of the batch into the next: "+strings.Join(carried, ", ")+" — an entry without that sub-field is applied with the value left by the entry before it (wrong account renamed / overwritten)")
}

// ruleManagerStoresGiven (C15, shared with C06 and C04): the account manager is a store, not a policy.  Create
// persists and registers the account it is given (no field of it is rewritten inside), and Get answers from the
// map only (no filesystem access keyed by the login a client typed).
func (R *Run) ruleManagerStoresGiven() {
	P := R.P
	R.rule("manager-stores-given", "YAMLAccountManager.Create does not write any field of the account it was handed before marshalling and registering it (the handlers' checks were made on exactly these values); YAMLAccountManager.Get performs no filesystem call: an account exists for login L iff the map has L")
	if fn := R.mustFn("(*mobius.YAMLAccountManager).Create"); fn != nil {
		R.analysed(fname(fn))
		bad := ""
		eachInstr(fn, func(ins ssa.Instruction) {
			st, ok := ins.(*ssa.Store)
			if !ok {
				return
			}
			root, path := addrPath(st.Addr)
			if len(path) == 0 {
				return
			}
			// the parameter lives in a cell when its address is taken: a store below that cell rewrites the account
			if a, isA := root.(*ssa.Alloc); isA {
				if val, single := singleStore(a); single && val == ssa.Value(fn.Params[1]) {
					f := "a field"
					if fa, isFA := st.Addr.(*ssa.FieldAddr); isFA {
						f, _ = fieldOf(fa)
					}
					bad = f + " at " + P.ipos(st)
				}
			}
		})
		R.check(bad == "", "manager-stores-given", fname(fn), P.pos(fn.Pos()), "stores the account as given", "Create rewrites "+bad+" of the account it was given: what is stored is not what the handler checked (e.g. an access bitmap the creator does not hold)")
	}
	if fn := R.mustFn("(*mobius.YAMLAccountManager).Get"); fn != nil {
		R.analysed(fname(fn))
		fsCall := ""
		for f := range P.reachFuncs(fn) {
			if !P.isRepoPkg(pkgOf(f)) {
				continue
			}
			for _, ci := range callsIn(f) {
				if pathArgs(ci.Common()) != nil {
					fsCall = calleeName(ci.Common()) + " at " + P.ipos(ci)
				}
			}
		}
		R.check(fsCall == "", "manager-stores-given", fname(fn), P.pos(fn.Pos()), "map lookup only", "Get touches the filesystem ("+fsCall+"): a login typed by a client selects a file, so an account can exist for a login that no administrator created")
	}
	R.floor("manager-stores-given", 2)
}

// ruleCreateNoOverwrite (C15, shared with C05): creating an account never replaces the file of an existing one. The
// file that Create publishes (the destination of its rename, or of a direct write) is, on every path, first looked
// for with Stat on that very path, and the publishing step is unreachable when the file was found. A test on the
// in-memory map instead does not do: the file name is the *cleaned* login, several logins ("./admin", "x/../admin")
// share one file, and a requester holding only the create privilege would overwrite another account.
func (R *Run) ruleCreateNoOverwrite() {
	P := R.P
	R.rule("create-no-overwrite", "YAMLAccountManager.Create publishes the account file only on paths where os.Stat of that same path reported an error (the file does not exist): distinct logins that clean to one file name cannot overwrite each other's account")
	fn := R.mustFn("(*mobius.YAMLAccountManager).Create")
	if fn == nil {
		return
	}
	R.analysed(fname(fn))
	n := 0
	for _, ci := range callsIn(fn) {
		c := ci.Common()
		name := calleeName(c)
		var dst ssa.Value
		switch name {
		case "os.Rename":
			dst = c.Args[1]
		case "os.WriteFile", "os.Create":
			dst = c.Args[0]
		default:
			continue
		}
		dsym := P.sym(dst)
		if strings.HasSuffix(dsym, `+".tmp"`) {
			continue // the scratch file
		}
		n++
		cut := map[Edge]bool{}
		nStat := 0
		factEdges(fn, func(e Edge, f Fact) {
			if f.Kind != "nil" {
				return
			}
			cv := callValue(f.V)
			if cv == nil || calleeName(&cv.Call) != "os.Stat" {
				return
			}
			if ex, ok := f.V.(*ssa.Extract); !ok || ex.Index != 1 {
				return
			}
			if P.sym(cv.Call.Args[0]) != dsym {
				return
			}
			nStat++
			if !f.Holds { // err != nil: the file does not exist → keep only the "exists" paths
				cut[e] = true
			}
		})
		R.check(nStat > 0 && !reachable(fn, cut)[ci.Block()], "create-no-overwrite", fmt.Sprintf("%s: %s #%d", fname(fn), name, nCreateIn(fn, ci)), P.ipos(ci),
			"unreachable when Stat found the account file", fmt.Sprintf("the account file %s is written although nothing established that it does not exist yet (Stat of that path: %d test(s)); a login that cleans to an existing account's file name replaces that account", dsym, nStat))
	}
	if n == 0 {
		R.und("create-no-overwrite", fname(fn), P.pos(fn.Pos()), "no publishing step (rename / write of the account file) found in Create")
	}
}

// carriedCells: state that survives from one iteration of the loop at header into the next through memory — a local
// variable declared outside the loop (a decoder object reused "to save an allocation") of which some part is written in
// one iteration (by a store, or by a call handed its address) and used in the next (read, or handed to a call again)
// without having been overwritten as a whole in between. A read that only serves to re-slice to [:0] is a reset.
func (P *Prog) carriedCells(fn *ssa.Function, header *ssa.BasicBlock, exclude func(*ssa.Alloc) bool) []string {
	fromHeader := reachableFrom(header, nil)
	inLoop := func(b *ssa.BasicBlock) bool {
		return b == header || (fromHeader[b] && reachableFrom(b, nil)[header])
	}
	type access struct {
		ins   ssa.Instruction
		a     *ssa.Alloc
		path  []int
		write bool // store or call-write
		full  bool // a store (covers exactly its path)
		use   bool // load or call-use
	}
	var accs []access
	cell := func(addr ssa.Value) (*ssa.Alloc, []int, bool) {
		root, path := addrPath(stripSlice(addr))
		a, ok := root.(*ssa.Alloc)
		if !ok || a.Parent() != fn || inLoop(a.Block()) || exclude != nil && exclude(a) {
			return nil, nil, false
		}
		return a, path, true
	}
	eachInstr(fn, func(ins ssa.Instruction) {
		if !inLoop(ins.Block()) {
			return
		}
		switch x := ins.(type) {
		case *ssa.Store:
			if a, p, ok := cell(x.Addr); ok {
				accs = append(accs, access{ins: x, a: a, path: p, write: true, full: true})
			}
		case *ssa.UnOp:
			if x.Op != token.MUL {
				return
			}
			a, p, ok := cell(x.X)
			if !ok {
				return
			}
			onlyReset := x.Referrers() != nil && len(*x.Referrers()) > 0
			for _, r := range *x.Referrers() {
				switch y := r.(type) {
				case *ssa.DebugRef:
				case *ssa.Slice:
					if hk, isK := constInt(y.High); !(isK && hk == 0 && y.Low == nil) {
						onlyReset = false
					}
				default:
					onlyReset = false
				}
			}
			if !onlyReset {
				accs = append(accs, access{ins: x, a: a, path: p, use: true})
			}
		case ssa.CallInstruction:
			for _, arg := range x.Common().Args {
				if _, isPtr := arg.Type().Underlying().(*types.Pointer); !isPtr {
					if _, isSl := arg.Type().Underlying().(*types.Slice); !isSl {
						if mi, isMI := arg.(*ssa.MakeInterface); !isMI {
							continue
						} else {
							arg = mi.X
						}
					}
				}
				if a, p, ok := cell(arg); ok {
					// handed to a call: may be read and may be written in part
					accs = append(accs, access{ins: ins, a: a, path: p, write: true, use: true})
				}
			}
		}
	})
	prefix := func(p, q []int) bool { // p is a prefix of q
		if len(p) > len(q) {
			return false
		}
		for i := range p {
			if p[i] != q[i] && p[i] != -1 && q[i] != -1 {
				return false
			}
		}
		return true
	}
	idx := func(i ssa.Instruction) int { return instrIndex(i) }
	var out []string
	seenUse := map[string]bool{}
	for _, u := range accs {
		if !u.use {
			continue
		}
		key := fmt.Sprint(u.a.Name(), u.path)
		if seenUse[key] {
			continue
		}
		// full stores that cover the use
		covers := map[*ssa.BasicBlock][]ssa.Instruction{}
		for _, w := range accs {
			if w.full && w.a == u.a && prefix(w.path, u.path) {
				covers[w.ins.Block()] = append(covers[w.ins.Block()], w.ins)
			}
		}
		carriedFrom := ssa.Instruction(nil)
		for _, w := range accs {
			if !w.write || w.a != u.a || !(prefix(w.path, u.path) || prefix(u.path, w.path)) {
				continue
			}
			// forward from just after w, looking for u after the header was crossed, without passing a covering store
			type st struct {
				b       *ssa.BasicBlock
				crossed bool
			}
			seen := map[st]bool{}
			found := false
			var walk func(b *ssa.BasicBlock, from int, crossed bool)
			walk = func(b *ssa.BasicBlock, from int, crossed bool) {
				if found || !inLoop(b) {
					return
				}
				if from == 0 {
					k := st{b, crossed}
					if seen[k] {
						return
					}
					seen[k] = true
				}
				// instructions of b after position from
				stopAt := len(b.Instrs)
				for _, c := range covers[b] {
					if i := idx(c); i >= from && i < stopAt {
						stopAt = i
					}
				}
				if b == u.ins.Block() && crossed {
					if i := idx(u.ins); i >= from && i <= stopAt {
						// (a call that both uses and covers: the use comes first)
						found = true
						return
					}
				}
				if stopAt < len(b.Instrs) {
					return
				}
				for _, sc := range b.Succs {
					walk(sc, 0, crossed || sc == header)
				}
			}
			walk(w.ins.Block(), idx(w.ins)+1, false)
			if found {
				carriedFrom = w.ins
				break
			}
		}
		if carriedFrom != nil {
			seenUse[key] = true
			out = append(out, fmt.Sprintf("variable %s: what %s left there (%s) is used by the next iteration at %s", u.a.Comment, shortIns(carriedFrom), P.ipos(carriedFrom), P.ipos(u.ins)))
		}
	}
	sort.Strings(out)
	return out
}

func shortIns(i ssa.Instruction) string {
	switch x := i.(type) {
	case *ssa.Store:
		return "a store"
	case ssa.CallInstruction:
		return "the call of " + calleeName(x.Common())
	}
	return "an instruction"
}
