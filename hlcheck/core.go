package main

// core.go — loading the resolved program (types + SSA of the repository's own packages), naming,
// mock exclusion, call resolution and small SSA helpers shared by all rules.

import (
	"fmt"
	"go/ast"
	"go/constant"
	"go/token"
	"go/types"
	"os"
	"path/filepath"
	"sort"
	"strings"

	"golang.org/x/tools/go/packages"
	"golang.org/x/tools/go/ssa"
	"golang.org/x/tools/go/ssa/ssautil"
)

const (
	hotPath = "github.com/jhalter/mobius/hotline"
	mobPath = "github.com/jhalter/mobius/internal/mobius"
	cmdPath = "github.com/jhalter/mobius/cmd/mobius-hotline-server"
)

type Prog struct {
	Repo     string
	Pkgs     []*packages.Package
	SSA      *ssa.Program
	Fset     *token.FileSet
	Hot      *ssa.Package
	Mob      *ssa.Package
	Cmd      *ssa.Package
	RepoPkgs []*ssa.Package
	Funcs    []*ssa.Function // every repo function with a body (incl. closures), mocks excluded
	byName   map[string]*ssa.Function
	mocks    map[*types.TypeName]bool
	Mocks    []string
	named    []*types.Named // all non-mock named types of the repo packages
	implMemo map[string][]*ssa.Function
	sigFuncs map[string][]*ssa.Function // address-taken functions by signature string
	callers  map[*ssa.Function][]ssa.CallInstruction
	anonOf   map[*ssa.Function][]*ssa.Function
	lowered  map[token.Pos]bool
	gconst   map[globalCell]*ssa.Const
	gdirty   map[*ssa.Global]bool
	gnonnil  map[*ssa.Global]bool // set once, by the package initialiser, to something that is not nil (a sentinel error)
	gstores  map[*ssa.Global]int
	gescape  map[*ssa.Global]bool
	norm     *normInfo // set when the program analysed is the normalised copy (helpers outside the vocabulary expanded)
}

func loadProg(repo string, goos string) (*Prog, error) {
	abs, err := filepath.Abs(repo)
	if err != nil {
		return nil, err
	}
	env := []string{}
	for _, e := range os.Environ() {
		if strings.HasPrefix(e, "GOWORK=") || strings.HasPrefix(e, "GOFLAGS=") || strings.HasPrefix(e, "GOOS=") || strings.HasPrefix(e, "GOARCH=") {
			continue
		}
		env = append(env, e)
	}
	env = append(env, "GOWORK=off", "GOFLAGS=-mod=mod -trimpath", "GOPROXY=off", "GOSUMDB=off", "GOTOOLCHAIN=local")
	if goos != "" {
		env = append(env, "GOOS="+goos, "CGO_ENABLED=0")
	}
	cfg := &packages.Config{Mode: packages.LoadSyntax, Dir: abs, Tests: false, Env: env}
	pkgs, err := packages.Load(cfg, "./...")
	if err != nil {
		return nil, fmt.Errorf("packages.Load: %w", err)
	}
	if len(pkgs) < 3 {
		return nil, fmt.Errorf("expected at least 3 packages under %s, got %d", abs, len(pkgs))
	}
	var errs []string
	for _, p := range pkgs {
		for _, e := range p.Errors {
			errs = append(errs, e.Error())
		}
	}
	if len(errs) > 0 {
		return nil, fmt.Errorf("type/load errors: %s", strings.Join(errs, "; "))
	}
	prog, spkgs := ssautil.Packages(pkgs, ssa.InstantiateGenerics)
	prog.Build()
	P := &Prog{Repo: abs, Pkgs: pkgs, SSA: prog, Fset: prog.Fset, byName: map[string]*ssa.Function{},
		mocks: map[*types.TypeName]bool{}, implMemo: map[string][]*ssa.Function{}, sigFuncs: map[string][]*ssa.Function{},
		callers: map[*ssa.Function][]ssa.CallInstruction{}, anonOf: map[*ssa.Function][]*ssa.Function{}}
	for i, sp := range spkgs {
		if sp == nil {
			return nil, fmt.Errorf("no SSA package for %s", pkgs[i].PkgPath)
		}
		switch sp.Pkg.Path() {
		case hotPath:
			P.Hot = sp
		case mobPath:
			P.Mob = sp
		case cmdPath:
			P.Cmd = sp
		}
		P.RepoPkgs = append(P.RepoPkgs, sp)
	}
	if P.Hot == nil || P.Mob == nil || P.Cmd == nil {
		return nil, fmt.Errorf("missing one of the three repo packages (hotline, internal/mobius, cmd/mobius-hotline-server)")
	}
	P.findMocks()
	P.collectFuncs()
	return P, nil
}

// findMocks marks named struct types embedding testify's mock.Mock (test doubles living in non-test files).
func (P *Prog) findMocks() {
	for _, sp := range P.RepoPkgs {
		scope := sp.Pkg.Scope()
		for _, n := range scope.Names() {
			tn, ok := scope.Lookup(n).(*types.TypeName)
			if !ok {
				continue
			}
			named, ok := tn.Type().(*types.Named)
			if !ok {
				continue
			}
			isMock := false
			if st, ok := named.Underlying().(*types.Struct); ok {
				for i := 0; i < st.NumFields(); i++ {
					f := st.Field(i)
					if f.Embedded() {
						if fn, ok := f.Type().(*types.Named); ok && fn.Obj().Pkg() != nil &&
							fn.Obj().Pkg().Path() == "github.com/stretchr/testify/mock" && fn.Obj().Name() == "Mock" {
							isMock = true
						}
					}
				}
			}
			if isMock {
				P.mocks[tn] = true
				P.Mocks = append(P.Mocks, shortName(tn.Pkg().Path()+"."+tn.Name()))
			} else {
				P.named = append(P.named, named)
			}
		}
	}
	sort.Strings(P.Mocks)
}

func (P *Prog) isMockRecv(fn *ssa.Function) bool {
	if fn == nil || fn.Signature == nil {
		return false
	}
	recv := fn.Signature.Recv()
	if recv == nil {
		return false
	}
	t := recv.Type()
	if p, ok := t.(*types.Pointer); ok {
		t = p.Elem()
	}
	if n, ok := t.(*types.Named); ok {
		return P.mocks[n.Obj()]
	}
	return false
}

func (P *Prog) isRepoPkg(p *types.Package) bool {
	if p == nil {
		return false
	}
	switch p.Path() {
	case hotPath, mobPath, cmdPath:
		return true
	}
	return false
}

func (P *Prog) collectFuncs() {
	seen := map[*ssa.Function]bool{}
	var add func(fn *ssa.Function)
	add = func(fn *ssa.Function) {
		if fn == nil || seen[fn] || fn.Blocks == nil {
			return
		}
		if fn.Pkg == nil && fn.Parent() == nil {
			return
		}
		seen[fn] = true
		if P.isMockRecv(fn) {
			return
		}
		if fn.Synthetic != "" && fn.Parent() == nil && !strings.HasPrefix(fn.Synthetic, "package init") {
			// wrappers, thunks, bound methods: not source functions
			return
		}
		P.Funcs = append(P.Funcs, fn)
		P.byName[fname(fn)] = fn
		for _, a := range fn.AnonFuncs {
			P.anonOf[fn] = append(P.anonOf[fn], a)
			add(a)
		}
	}
	for _, sp := range P.RepoPkgs {
		for _, m := range sp.Members {
			switch m := m.(type) {
			case *ssa.Function:
				add(m)
			case *ssa.Type:
				if named, ok := m.Type().(*types.Named); ok {
					for _, t := range []types.Type{named, types.NewPointer(named)} {
						ms := P.SSA.MethodSets.MethodSet(t)
						for i := 0; i < ms.Len(); i++ {
							f := P.SSA.MethodValue(ms.At(i))
							if f != nil && f.Pkg == sp {
								add(f)
							}
						}
					}
				}
			}
		}
	}
	sort.Slice(P.Funcs, func(i, j int) bool { return fname(P.Funcs[i]) < fname(P.Funcs[j]) })
	// address-taken functions (by signature) and callers
	for _, fn := range P.Funcs {
		for _, b := range fn.Blocks {
			for _, ins := range b.Instrs {
				var ops [16]*ssa.Value
				for _, op := range ins.Operands(ops[:0]) {
					if op == nil || *op == nil {
						continue
					}
					var target *ssa.Function
					switch v := (*op).(type) {
					case *ssa.Function:
						target = v
					case *ssa.MakeClosure:
						target, _ = v.Fn.(*ssa.Function)
					}
					if target == nil || target.Blocks == nil || P.isMockRecv(target) {
						continue
					}
					if ci, ok := ins.(ssa.CallInstruction); ok && ci.Common().Value == *op {
						continue // direct call, not address-taken
					}
					k := types.TypeString(target.Signature, nil)
					dup := false
					for _, f := range P.sigFuncs[k] {
						if f == target {
							dup = true
						}
					}
					if !dup {
						P.sigFuncs[k] = append(P.sigFuncs[k], target)
					}
				}
			}
		}
	}
	for _, fn := range P.Funcs {
		for _, ci := range callsIn(fn) {
			for _, cal := range P.callees(ci) {
				P.callers[cal] = append(P.callers[cal], ci)
			}
		}
	}
}

// ---------------------------------------------------------------------------------------------
// naming

func shortName(s string) string {
	s = strings.ReplaceAll(s, hotPath+".", "hotline.")
	s = strings.ReplaceAll(s, mobPath+".", "mobius.")
	s = strings.ReplaceAll(s, cmdPath+".", "main.")
	return s
}

func fname(fn *ssa.Function) string {
	if fn == nil {
		return "<nil>"
	}
	if o := fn.Origin(); o != nil {
		fn = o
	}
	return shortName(fn.RelString(nil))
}

// calleeName gives the canonical name of what a call invokes: a static function, an interface method
// ("(hotline.FileStore).Rename"), a builtin ("builtin.copy") or "" for dynamic calls.
func calleeName(c *ssa.CallCommon) string {
	if c.IsInvoke() {
		return shortName(c.Method.FullName())
	}
	switch v := c.Value.(type) {
	case *ssa.Function:
		return fname(v)
	case *ssa.Builtin:
		return "builtin." + v.Name()
	case *ssa.MakeClosure:
		if f, ok := v.Fn.(*ssa.Function); ok {
			return fname(f)
		}
	}
	return ""
}

func (P *Prog) pos(p token.Pos) string {
	if !p.IsValid() {
		return "?"
	}
	ps := P.Fset.Position(p)
	rel, err := filepath.Rel(P.Repo, ps.Filename)
	if err != nil || strings.HasPrefix(rel, "..") {
		rel = ps.Filename
	}
	line := ps.Line
	if P.norm != nil {
		if m := P.norm.lineMap[rel]; m != nil && line < len(m) {
			line = m[line] // line of the real tree
		}
	}
	return fmt.Sprintf("%s:%d", rel, line)
}

func (P *Prog) ipos(ins ssa.Instruction) string {
	if ins == nil {
		return "?"
	}
	p := ins.Pos()
	if !p.IsValid() {
		if v, ok := ins.(ssa.Value); ok {
			_ = v
		}
		// fall back to the nearest earlier instruction with a position in the same block
		b := ins.Block()
		if b != nil {
			idx := -1
			for i, x := range b.Instrs {
				if x == ins {
					idx = i
				}
			}
			for i := idx - 1; i >= 0; i-- {
				if b.Instrs[i].Pos().IsValid() {
					return P.pos(b.Instrs[i].Pos()) + "~"
				}
			}
		}
		if ins.Parent() != nil {
			return P.pos(ins.Parent().Pos()) + "~"
		}
	}
	return P.pos(p)
}

func (P *Prog) fn(name string) *ssa.Function { return P.byName[name] }

// mustFn returns the function or records a stale-anchor failure.
func (R *Run) mustFn(name string) *ssa.Function {
	f := R.P.byName[name]
	if f == nil {
		R.und("anchor", name, "?", "anchor function "+name+" does not exist any more (renamed or removed): the rule cannot vouch for the mechanism")
	}
	return f
}

// ---------------------------------------------------------------------------------------------
// iteration helpers

func callsIn(fn *ssa.Function) []ssa.CallInstruction {
	var out []ssa.CallInstruction
	for _, b := range fn.Blocks {
		for _, ins := range b.Instrs {
			if ci, ok := ins.(ssa.CallInstruction); ok {
				out = append(out, ci)
			}
		}
	}
	return out
}

func eachInstr(fn *ssa.Function, f func(ssa.Instruction)) {
	for _, b := range fn.Blocks {
		for _, ins := range b.Instrs {
			f(ins)
		}
	}
}

// withAnons returns fn and all closures nested in it.
func withAnons(fn *ssa.Function) []*ssa.Function {
	out := []*ssa.Function{fn}
	for _, a := range fn.AnonFuncs {
		out = append(out, withAnons(a)...)
	}
	return out
}

// ---------------------------------------------------------------------------------------------
// call resolution

// callees resolves a call site to repo functions with bodies: static callee, closures, interface
// methods over all non-mock repo types implementing the interface, and function values by signature.
func (P *Prog) callees(ci ssa.CallInstruction) []*ssa.Function {
	c := ci.Common()
	if c.IsInvoke() {
		return P.implementations(c.Value.Type(), c.Method)
	}
	switch v := c.Value.(type) {
	case *ssa.Function:
		if v.Blocks != nil && !P.isMockRecv(v) {
			return []*ssa.Function{v}
		}
		if v.Blocks == nil {
			return P.stdCallbacks(c)
		}
		return nil
	case *ssa.MakeClosure:
		if f, ok := v.Fn.(*ssa.Function); ok && f.Blocks != nil {
			return []*ssa.Function{f}
		}
		return nil
	case *ssa.Builtin:
		return nil
	}
	// dynamic call through a function value: all address-taken repo functions of that signature
	if sig, ok := c.Value.Type().Underlying().(*types.Signature); ok {
		return P.sigFuncs[types.TypeString(sig, nil)]
	}
	return nil
}

func (P *Prog) implementations(recv types.Type, m *types.Func) []*ssa.Function {
	iface, ok := recv.Underlying().(*types.Interface)
	if !ok {
		return nil
	}
	// Only interfaces declared in the repository are resolved to repository types: a call through io.Writer,
	// io.Reader, error ... is not taken to reach every repo type that happens to have a Write method.
	if n, ok := recv.(*types.Named); !ok || !P.isRepoPkg(n.Obj().Pkg()) {
		return nil
	}
	key := types.TypeString(recv, nil) + "#" + m.Name()
	if r, ok := P.implMemo[key]; ok {
		return r
	}
	var out []*ssa.Function
	for _, named := range P.named {
		if _, isIface := named.Underlying().(*types.Interface); isIface {
			continue
		}
		for _, t := range []types.Type{named, types.NewPointer(named)} {
			if !types.Implements(t, iface) {
				continue
			}
			sel := P.SSA.MethodSets.MethodSet(t).Lookup(m.Pkg(), m.Name())
			if sel == nil {
				continue
			}
			f := P.SSA.MethodValue(sel)
			if f == nil {
				continue
			}
			// unwrap promoted-method wrappers to the declared method when possible
			if f.Blocks != nil && f.Synthetic == "" {
				out = appendUniqueFn(out, f)
			} else if f.Synthetic != "" {
				// wrapper: find the declared method through its object
				if obj, ok := sel.Obj().(*types.Func); ok {
					if decl := P.SSA.FuncValue(obj); decl != nil && decl.Blocks != nil {
						out = appendUniqueFn(out, decl)
					}
				}
			}
			break
		}
	}
	P.implMemo[key] = out
	return out
}

func appendUniqueFn(l []*ssa.Function, f *ssa.Function) []*ssa.Function {
	for _, x := range l {
		if x == f {
			return l
		}
	}
	return append(l, f)
}

// funcArgsPassed returns repo closures/functions passed as arguments at a call site (callbacks).
func funcArgsPassed(ci ssa.CallInstruction) []*ssa.Function {
	var out []*ssa.Function
	for _, a := range ci.Common().Args {
		switch v := a.(type) {
		case *ssa.MakeClosure:
			if f, ok := v.Fn.(*ssa.Function); ok && f.Blocks != nil {
				out = append(out, f)
			}
		case *ssa.Function:
			if v.Blocks != nil {
				out = append(out, v)
			}
		}
	}
	return out
}

// reachFuncs returns every repo function transitively callable from roots (calls, go, defer and callbacks).
func (P *Prog) reachFuncs(roots ...*ssa.Function) map[*ssa.Function]bool {
	seen := map[*ssa.Function]bool{}
	var walk func(f *ssa.Function)
	walk = func(f *ssa.Function) {
		if f == nil || seen[f] || f.Blocks == nil {
			return
		}
		seen[f] = true
		for _, ci := range callsIn(f) {
			for _, c := range P.callees(ci) {
				walk(c)
			}
			for _, c := range funcArgsPassed(ci) {
				walk(c)
			}
		}
	}
	for _, r := range roots {
		walk(r)
	}
	return seen
}

// findCallPath searches a call chain from fn to a call site satisfying pred; returns the chain of positions.
func (P *Prog) findCallPath(fn *ssa.Function, pred func(ssa.CallInstruction) bool, skip func(*ssa.Function) bool) []string {
	seen := map[*ssa.Function]bool{}
	var walk func(f *ssa.Function) []string
	walk = func(f *ssa.Function) []string {
		if f == nil || seen[f] || f.Blocks == nil {
			return nil
		}
		seen[f] = true
		for _, ci := range callsIn(f) {
			if pred(ci) {
				return []string{P.ipos(ci) + " " + fname(f) + " calls " + calleeName(ci.Common())}
			}
		}
		for _, ci := range callsIn(f) {
			tgts := append(P.callees(ci), funcArgsPassed(ci)...)
			for _, c := range tgts {
				if skip != nil && skip(c) {
					continue
				}
				if p := walk(c); p != nil {
					return append([]string{P.ipos(ci) + " " + fname(f) + " -> " + fname(c)}, p...)
				}
			}
		}
		return nil
	}
	return walk(fn)
}

// ---------------------------------------------------------------------------------------------
// value helpers

func constInt(v ssa.Value) (int64, bool) {
	c, ok := v.(*ssa.Const)
	if !ok {
		c, ok = globalConst(v)
	}
	if !ok || c.Value == nil {
		return 0, false
	}
	if c.Value.Kind() != constant.Int {
		return 0, false
	}
	i, ok := constant.Int64Val(c.Value)
	return i, ok
}

func constString(v ssa.Value) (string, bool) {
	c, ok := v.(*ssa.Const)
	if !ok {
		c, ok = globalConst(v)
	}
	if !ok || c.Value == nil || c.Value.Kind() != constant.String {
		return "", false
	}
	return constant.StringVal(c.Value), true
}

func isNilConst(v ssa.Value) bool {
	c, ok := v.(*ssa.Const)
	return ok && c.Value == nil
}

// stripConv removes value-preserving wrappers.
func stripConv(v ssa.Value) ssa.Value {
	for {
		switch x := v.(type) {
		case *ssa.ChangeType:
			v = x.X
		case *ssa.Convert:
			v = x.X
		case *ssa.MakeInterface:
			v = x.X
		case *ssa.ChangeInterface:
			v = x.X
		default:
			return v
		}
	}
}

// fieldOf describes a FieldAddr/Field instruction as "pkg.Type.Field".
// refStructFields: the fields the structs of the reference tree have (spec/decls.txt), by full type name; nil when the
// declarations were not read. A struct type that is not among them is new on the tree that is analysed.
var refStructFields map[string]map[string]bool
var refTypes map[string]bool

func fullTypeName(t types.Type) string {
	if n, ok := t.(*types.Named); ok && n.Obj().Pkg() != nil {
		return n.Obj().Pkg().Path() + "." + n.Obj().Name()
	}
	return ""
}

// gathered: fields of a reference struct that were gathered in a struct type of their own (S.data → S.text.data, with
// the type of text new on this tree): the field is still the one the rules know as S.data, and its base is S's.
func gathered(x *ssa.FieldAddr) (string, ssa.Value, bool) {
	outer, isFA := x.X.(*ssa.FieldAddr)
	if !isFA || refTypes == nil {
		return "", nil, false
	}
	t := x.X.Type()
	if p, ok := t.Underlying().(*types.Pointer); ok {
		t = p.Elem()
	}
	tn := fullTypeName(t)
	if tn == "" || refTypes[tn] {
		return "", nil, false
	}
	ot := outer.X.Type()
	if p, ok := ot.Underlying().(*types.Pointer); ok {
		ot = p.Elem()
	}
	st, isSt := t.Underlying().(*types.Struct)
	if !isSt || x.Field >= st.NumFields() {
		return "", nil, false
	}
	name := st.Field(x.Field).Name()
	on := fullTypeName(ot)
	if on == "" || !refStructFields[on][name] {
		return "", nil, false
	}
	ost, ok := ot.Underlying().(*types.Struct)
	if !ok {
		return "", nil, false
	}
	for i := 0; i < ost.NumFields(); i++ {
		if ost.Field(i).Name() == name {
			return "", nil, false
		}
	}
	return shortName(on) + "." + name, outer.X, true
}

// faBase: the struct a field address belongs to (the enclosing reference struct for a gathered field).
func faBase(fa *ssa.FieldAddr) ssa.Value {
	if _, base, ok := gathered(fa); ok {
		return base
	}
	return fa.X
}

func fieldOf(v ssa.Value) (string, bool) {
	switch x := v.(type) {
	case *ssa.FieldAddr:
		t := x.X.Type()
		if p, ok := t.Underlying().(*types.Pointer); ok {
			t = p.Elem()
		}
		if name, _, ok := gathered(x); ok {
			return name, true
		}
		return structFieldName(t, x.Field), true
	case *ssa.Field:
		return structFieldName(x.X.Type(), x.Field), true
	}
	return "", false
}

func structFieldName(t types.Type, idx int) string {
	st, ok := t.Underlying().(*types.Struct)
	if !ok || idx >= st.NumFields() {
		return "?"
	}
	name := "struct"
	if n, ok := t.(*types.Named); ok {
		name = n.Obj().Name()
		if n.Obj().Pkg() != nil {
			name = shortName(n.Obj().Pkg().Path() + "." + name)
		}
	}
	return name + "." + st.Field(idx).Name()
}

// globalName returns "hotline.FieldUserName" for a load of / pointer to a package-level variable.
func globalName(v ssa.Value) (string, bool) {
	v = stripConv(v)
	if u, ok := v.(*ssa.UnOp); ok && u.Op == token.MUL {
		v = u.X
	}
	if g, ok := v.(*ssa.Global); ok && g.Pkg != nil {
		return shortName(g.Pkg.Pkg.Path() + "." + g.Name()), true
	}
	return "", false
}

// storesTo lists stores in fn whose address is addr (same SSA value).
func storesTo(fn *ssa.Function, addr ssa.Value) []*ssa.Store {
	var out []*ssa.Store
	eachInstr(fn, func(ins ssa.Instruction) {
		if s, ok := ins.(*ssa.Store); ok && s.Addr == addr {
			out = append(out, s)
		}
	})
	return out
}

func isErrorType(t types.Type) bool {
	n, ok := t.(*types.Named)
	return ok && n.Obj().Pkg() == nil && n.Obj().Name() == "error"
}

func typeName(t types.Type) string {
	return shortName(types.TypeString(t, nil))
}

func derefType(t types.Type) types.Type {
	if p, ok := t.Underlying().(*types.Pointer); ok {
		return p.Elem()
	}
	return t
}

// stdCallbacks: a call of an external function that receives a repo value converted to an interface
// (io.Copy(w, &transaction), binary.Read(r, ..), io.ReadAll(&field) ...) may call that value's methods
// of the parameter's interface type.
func (P *Prog) stdCallbacks(c *ssa.CallCommon) []*ssa.Function {
	var out []*ssa.Function
	for _, a := range c.Args {
		mi, ok := a.(*ssa.MakeInterface)
		if !ok {
			continue
		}
		iface, ok := mi.Type().Underlying().(*types.Interface)
		if !ok {
			continue
		}
		t := mi.X.Type()
		named, _ := derefType(t).(*types.Named)
		if named == nil || !P.isRepoPkg(named.Obj().Pkg()) || P.mocks[named.Obj()] {
			continue
		}
		ms := P.SSA.MethodSets.MethodSet(t)
		for i := 0; i < iface.NumMethods(); i++ {
			m := iface.Method(i)
			sel := ms.Lookup(m.Pkg(), m.Name())
			if sel == nil {
				continue
			}
			if f := P.SSA.MethodValue(sel); f != nil && f.Blocks != nil {
				if f.Synthetic != "" {
					if obj, ok := sel.Obj().(*types.Func); ok {
						if decl := P.SSA.FuncValue(obj); decl != nil && decl.Blocks != nil {
							f = decl
						}
					}
				}
				out = appendUniqueFn(out, f)
			}
		}
	}
	return out
}

// osFlag returns the value of an os.O_* constant for the operating system the program was loaded for (the flag
// bits differ between Linux, Darwin and Windows), falling back to the Linux value.
func (P *Prog) osFlag(name string) int64 {
	fallback := map[string]int64{"O_RDONLY": 0, "O_WRONLY": 1, "O_RDWR": 2, "O_APPEND": 0x400, "O_CREATE": 0x40, "O_EXCL": 0x80, "O_TRUNC": 0x200, "O_SYNC": 0x101000}
	for _, p := range P.Pkgs {
		if ip, ok := p.Imports["os"]; ok && ip.Types != nil {
			if c, ok := ip.Types.Scope().Lookup(name).(*types.Const); ok {
				if v, ok := constant.Int64Val(c.Val()); ok {
					return v
				}
			}
		}
	}
	return fallback[name]
}

// loweredDefer: the call was a deferred call of a helper the normalised view expanded away from tail position; the
// normaliser spells such a call `(f)(args)` at every exit of the expanded body. It ran on a panic too.
func (P *Prog) loweredDefer(ins ssa.Instruction) bool {
	if P.norm == nil || ins == nil {
		return false
	}
	if P.lowered == nil {
		P.lowered = map[token.Pos]bool{}
		for _, p := range P.Pkgs {
			for _, f := range p.Syntax {
				ast.Inspect(f, func(n ast.Node) bool {
					if c, ok := n.(*ast.CallExpr); ok {
						if _, par := c.Fun.(*ast.ParenExpr); par {
							P.lowered[c.Lparen] = true
						}
					}
					return true
				})
			}
		}
	}
	return P.lowered[ins.Pos()]
}

// curProg is the program the running rules look at (one at a time); it lets the value helpers resolve a read of a
// package-level variable that is only ever given a constant by its declaration.
var curProg *Prog

type globalCell struct {
	g    *ssa.Global
	path string // field indices from the variable down, "" = the variable itself
}

// globalConst: v reads a package-level variable (or a field of a package-level struct, directly or through a local
// copy of the whole struct) whose only store in the repository is the constant of its declaration.
func globalConst(v ssa.Value) (*ssa.Const, bool) {
	P := curProg
	if P == nil {
		return nil, false
	}
	if P.gconst == nil {
		P.gconst = map[globalCell]*ssa.Const{}
		P.gdirty = map[*ssa.Global]bool{}
		P.gnonnil, P.gstores, P.gescape = map[*ssa.Global]bool{}, map[*ssa.Global]int{}, map[*ssa.Global]bool{}
		var cellOf func(a ssa.Value) (globalCell, bool)
		cellOf = func(a ssa.Value) (globalCell, bool) {
			switch x := a.(type) {
			case *ssa.Global:
				return globalCell{x, ""}, true
			case *ssa.FieldAddr:
				if c, ok := cellOf(x.X); ok {
					return globalCell{c.g, c.path + fmt.Sprintf(".%d", x.Field)}, true
				}
			}
			return globalCell{}, false
		}
		fns := append([]*ssa.Function{}, P.Funcs...)
		for _, sp := range P.RepoPkgs {
			if f := sp.Func("init"); f != nil {
				fns = append(fns, f)
			}
		}
		seen := map[*ssa.Function]bool{}
		for _, fn := range fns {
			if seen[fn] {
				continue
			}
			seen[fn] = true
			isInit := fn.Name() == "init" && fn.Synthetic != ""
			eachInstr(fn, func(ins ssa.Instruction) {
				switch x := ins.(type) {
				case *ssa.Store:
					c, ok := cellOf(x.Addr)
					if !ok {
						// the address of the variable (or of a part of it) stored somewhere: it may be written through it
						if c2, ok2 := cellOf(x.Val); ok2 {
							P.gdirty[c2.g] = true
							P.gescape[c2.g] = true
						}
						return
					}
					if c.path == "" {
						P.gstores[c.g]++
						if isInit && (nilState{}).of(x.Val) == 2 {
							P.gnonnil[c.g] = true
						}
					}
					k, isC := x.Val.(*ssa.Const)
					if !isInit || !isC {
						P.gdirty[c.g] = true
						return
					}
					if _, dup := P.gconst[c]; dup {
						P.gdirty[c.g] = true
					}
					P.gconst[c] = k
				case ssa.CallInstruction:
					for _, a := range x.Common().Args {
						if c, ok := cellOf(a); ok {
							P.gdirty[c.g] = true
							P.gescape[c.g] = true
						}
					}
				}
			})
		}
	}
	var cellOfRead func(v ssa.Value, depth int) (globalCell, bool)
	cellOfRead = func(v ssa.Value, depth int) (globalCell, bool) {
		if depth > 6 {
			return globalCell{}, false
		}
		switch x := v.(type) {
		case *ssa.UnOp:
			if x.Op != token.MUL {
				return globalCell{}, false
			}
			switch a := x.X.(type) {
			case *ssa.Global:
				return globalCell{a, ""}, true
			case *ssa.FieldAddr:
				// a field of the variable itself, or of a local that holds one copy of it
				var walk func(fa ssa.Value) (globalCell, bool)
				walk = func(fa ssa.Value) (globalCell, bool) {
					switch y := fa.(type) {
					case *ssa.Global:
						return globalCell{y, ""}, true
					case *ssa.FieldAddr:
						if c, ok := walk(y.X); ok {
							return globalCell{c.g, c.path + fmt.Sprintf(".%d", y.Field)}, true
						}
					case *ssa.Alloc:
						var src ssa.Value
						n := 0
						for _, r := range *y.Referrers() {
							switch z := r.(type) {
							case *ssa.Store:
								if z.Addr == ssa.Value(y) {
									n++
									src = z.Val
								} else {
									n += 2
								}
							case *ssa.FieldAddr:
								for _, rr := range *z.Referrers() {
									if _, ld := rr.(*ssa.UnOp); !ld {
										if _, dbg := rr.(*ssa.DebugRef); !dbg {
											n += 2
										}
									}
								}
							case *ssa.DebugRef, *ssa.UnOp:
							default:
								n += 2
							}
						}
						if n == 1 && src != nil {
							return cellOfRead(src, depth+1)
						}
					}
					return globalCell{}, false
				}
				return walk(a)
			}
		case *ssa.Field:
			if c, ok := cellOfRead(x.X, depth+1); ok {
				return globalCell{c.g, c.path + fmt.Sprintf(".%d", x.Field)}, true
			}
		case *ssa.ChangeType:
			return cellOfRead(x.X, depth+1)
		}
		return globalCell{}, false
	}
	c, ok := cellOfRead(v, 0)
	if !ok || P.gdirty[c.g] {
		return nil, false
	}
	k, ok := P.gconst[c]
	return k, ok
}

// globalNeverNil: v reads a package-level variable that the package initialiser sets once to something that is not nil
// (a sentinel error made by errors.New) and that nothing else writes or takes the address of.
func globalNeverNil(v ssa.Value) bool {
	u, ok := v.(*ssa.UnOp)
	if !ok || u.Op != token.MUL || curProg == nil {
		return false
	}
	g, ok := u.X.(*ssa.Global)
	if !ok {
		return false
	}
	globalConst(v) // builds the tables
	P := curProg
	return P.gnonnil[g] && P.gstores[g] == 1 && !P.gescape[g]
}
