package main

// normalise.go — the normalised view.  The rules of this checker were written and confirmed against the
// functions of the reference tree (spec/vocabulary.txt).  A change that introduces NEW functions (extract
// function / method, a named predicate, a small type with methods …) moves code the rules look for out of the
// functions they look in.  Before the rules run on such a tree, every static call of a function that is not in
// the vocabulary is expanded in place, on a scratch copy of the source, by a source-to-source transformation:
//
//	x := helper(a, b)            var __r7_0 T
//	                             {
//	                                 p, q := a, b
//	                             __L7: switch { default:
//	                                     … body, each `return e` rewritten to { __r7_0 = e; break __L7 } …
//	                                 }
//	                             }
//	                             x := __r7_0
//
// The copy is type-checked again by the same loader and the rules analyse it; nothing is executed.  A call is only
// expanded where that keeps the meaning: it is evaluated exactly once and first in its statement (not under && / ||,
// not in a loop condition, no other call before it), callee and caller are in the same package, the callee has no
// defer / recover / type parameters and is not recursive, and no name of the body is captured by a caller's local.
// Calls that do not qualify stay calls.  A helper whose every use was expanded is blanked out.  Positions of the
// copy are mapped back to the lines of the real tree for the reports.

import (
	"bytes"
	"fmt"
	"go/ast"
	"go/token"
	"go/types"
	"os"
	"os/exec"
	"path/filepath"
	"regexp"
	"sort"
	"strings"

	"golang.org/x/tools/go/packages"
)

type normInfo struct {
	dir      string
	lineMap  map[string][]int // file (relative) → for each line of the copy (1-based index) the line of the real tree
	Inlined  []string         // "helper ← caller" per expanded call
	Left     []string         // calls of non-vocabulary functions that were not expanded (with the reason)
	Removed  []string
	NewFuncs []string
	Renamed  []string // declarations given back their reference names
	Rounds   int
}

func readVocabulary(verifDir string) (map[string]bool, error) {
	b, err := os.ReadFile(filepath.Join(verifDir, "spec", "vocabulary.txt"))
	if err != nil {
		return nil, err
	}
	v := map[string]bool{}
	for _, l := range strings.Split(string(b), "\n") {
		l = strings.TrimSpace(l)
		if l != "" && !strings.HasPrefix(l, "#") {
			v[l] = true
		}
	}
	return v, nil
}

// declName renders a FuncDecl as the ssa-style full name used everywhere else ("(*hotline.ClientConn).Authorize").
func declName(pkg *packages.Package, fd *ast.FuncDecl) string {
	obj, _ := pkg.TypesInfo.Defs[fd.Name].(*types.Func)
	if obj == nil {
		return ""
	}
	sig := obj.Type().(*types.Signature)
	pk := shortName(pkg.PkgPath)
	if sig.Recv() == nil {
		return pk + "." + fd.Name.Name
	}
	t := sig.Recv().Type()
	ptr := false
	if p, ok := t.(*types.Pointer); ok {
		t, ptr = p.Elem(), true
	}
	n := "?"
	if nt, ok := t.(*types.Named); ok {
		n = nt.Obj().Name()
	}
	if ptr {
		return "(*" + pk + "." + n + ")." + fd.Name.Name
	}
	return "(" + pk + "." + n + ")." + fd.Name.Name
}

func loadSyntax(dir string) ([]*packages.Package, error) {
	env := []string{}
	for _, e := range os.Environ() {
		if strings.HasPrefix(e, "GOWORK=") || strings.HasPrefix(e, "GOFLAGS=") || strings.HasPrefix(e, "GOOS=") || strings.HasPrefix(e, "GOARCH=") {
			continue
		}
		env = append(env, e)
	}
	env = append(env, "GOWORK=off", "GOFLAGS=-mod=mod -trimpath", "GOPROXY=off", "GOSUMDB=off", "GOTOOLCHAIN=local")
	cfg := &packages.Config{Mode: packages.LoadSyntax, Dir: dir, Tests: false, Env: env}
	pkgs, err := packages.Load(cfg, "./...")
	if err != nil {
		return nil, err
	}
	var errs []string
	for _, p := range pkgs {
		for _, e := range p.Errors {
			errs = append(errs, e.Error())
		}
	}
	if len(errs) > 0 {
		return nil, fmt.Errorf("%s", strings.Join(errs, "; "))
	}
	return pkgs, nil
}

type textEdit struct {
	off, del int
	ins      string
}

type candidate struct {
	pkg  *packages.Package
	fd   *ast.FuncDecl
	obj  *types.Func
	name string
	file *ast.File
}

// newFunctions lists the function declarations of the repository packages that are not in the vocabulary.
func newFunctions(pkgs []*packages.Package, vocab map[string]bool) []candidate {
	var out []candidate
	for _, p := range pkgs {
		if !strings.HasPrefix(p.PkgPath, "github.com/jhalter/mobius") {
			continue
		}
		for _, f := range p.Syntax {
			for _, d := range f.Decls {
				fd, ok := d.(*ast.FuncDecl)
				if !ok || fd.Body == nil {
					continue
				}
				n := declName(p, fd)
				if n == "" || vocab[n] || fd.Name.Name == "init" || fd.Name.Name == "main" {
					continue
				}
				obj, _ := p.TypesInfo.Defs[fd.Name].(*types.Func)
				out = append(out, candidate{p, fd, obj, n, f})
			}
		}
	}
	return out
}

// inlinable: why a function cannot be expanded ("" = it can).
func inlinable(c candidate) string {
	if c.fd.Type.TypeParams != nil && len(c.fd.Type.TypeParams.List) > 0 {
		return "type parameters"
	}
	if c.fd.Recv != nil {
		// methods of generic types
		if sig, ok := c.obj.Type().(*types.Signature); ok && sig.RecvTypeParams() != nil && sig.RecvTypeParams().Len() > 0 {
			return "generic receiver"
		}
	}
	return bodyReason(c.pkg, c.fd.Body, c.obj)
}

type normaliser struct {
	spelled   map[token.Position]bool
	pending   map[*types.Func]bool // functions whose own body still holds a call to expand: they are expanded a round later
	skipped   int
	pkgs      []*packages.Package
	fset      *token.FileSet
	cands     map[*types.Func]candidate
	reason    map[*types.Func]string
	seq       int
	info      *normInfo
	edits     map[string][]textEdit // absolute file → edits
	addImp    map[string]map[string]string
	litOf     map[*types.Var]*ast.FuncLit // parameters of expanded helpers that are bound to a function literal
	local     map[*types.Var]*localClosure
	resultLit map[*types.Var]*localClosure // variables holding the literal an expanded helper returned
	// the statement being looked at by the driver, the one after it in its list, and whether it ends a result-less function
	cur, next  ast.Stmt
	lastOfBody bool
}

func (N *normaliser) src(file string) []byte {
	b, _ := os.ReadFile(file)
	return b
}

func (N *normaliser) text(n ast.Node) string {
	p, e := N.fset.Position(n.Pos()), N.fset.Position(n.End())
	b := N.src(p.Filename)
	if p.Offset < 0 || e.Offset > len(b) || p.Offset > e.Offset {
		return ""
	}
	return string(b[p.Offset:e.Offset])
}

// calleeDesc describes what is expanded at a call: a declared function / method outside the vocabulary, or a
// function literal bound once to a local variable that is only ever called.
type calleeDesc struct {
	name   string
	pkg    *packages.Package // package whose TypesInfo covers the body
	ftype  *ast.FuncType
	recv   *ast.FieldList
	body   *ast.BlockStmt
	sig    *types.Signature
	reason string        // why it cannot be expanded in general ("" = it can; "defer" = only in tail position)
	local  *localClosure // for a local closure that is only ever called: expanded at each of its calls
	targs  map[*types.TypeParam]types.Type
	lit    *ast.FuncLit // for a literal: the literal (blanked once its call is expanded)
	fn     *types.Func  // for a declared function
}

// staticCallee resolves a call to a candidate function (plain function or method called on a value).
// unIndex: f[T] / f[T, U] with f a generic function → f.
func unIndex(pkg *packages.Package, e ast.Expr) ast.Expr {
	e = ast.Unparen(e)
	var x ast.Expr
	switch ix := e.(type) {
	case *ast.IndexExpr:
		x = ix.X
	case *ast.IndexListExpr:
		x = ix.X
	default:
		return e
	}
	var id *ast.Ident
	switch y := ast.Unparen(x).(type) {
	case *ast.Ident:
		id = y
	case *ast.SelectorExpr:
		id = y.Sel
	}
	if id != nil {
		if _, isF := pkg.TypesInfo.Uses[id].(*types.Func); isF {
			return ast.Unparen(x)
		}
	}
	return e
}

func (N *normaliser) staticCallee(pkg *packages.Package, call *ast.CallExpr) (*types.Func, ast.Expr) {
	switch f := unIndex(pkg, call.Fun).(type) {
	case *ast.Ident:
		if o, ok := pkg.TypesInfo.Uses[f].(*types.Func); ok {
			return o, nil
		}
	case *ast.SelectorExpr:
		if sel, ok := pkg.TypesInfo.Selections[f]; ok {
			if sel.Kind() != types.MethodVal {
				return nil, nil
			}
			if o, ok := sel.Obj().(*types.Func); ok {
				if _, isIface := sel.Recv().Underlying().(*types.Interface); isIface {
					return nil, nil
				}
				if len(sel.Index()) != 1 {
					// promoted through an embedded field: for a function to expand the field is spelled out
					// (`v.m()` → `v.Embedded.m()`), and the next round sees a plain method call
					if _, isCand := N.cands[o]; isCand && N.edits != nil {
						key := N.fset.Position(f.Sel.Pos())
						if N.spelled == nil {
							N.spelled = map[token.Position]bool{}
						}
						if !N.spelled[key] {
							t := sel.Recv()
							path := ""
							for _, ix := range sel.Index()[:len(sel.Index())-1] {
								if pt, isP := t.Underlying().(*types.Pointer); isP {
									t = pt.Elem()
								}
								st, isS := t.Underlying().(*types.Struct)
								if !isS || ix >= st.NumFields() || !st.Field(ix).Exported() && st.Field(ix).Pkg() != pkg.Types {
									return nil, nil
								}
								path += st.Field(ix).Name() + "."
								t = st.Field(ix).Type()
							}
							N.spelled[key] = true
							N.edits[key.Filename] = append(N.edits[key.Filename], textEdit{key.Offset, 0, path})
						}
					}
					return nil, nil
				}
				return o, f.X
			}
			return nil, nil
		}
		if o, ok := pkg.TypesInfo.Uses[f.Sel].(*types.Func); ok {
			return o, nil // qualified identifier pkg.F
		}
	}
	return nil, nil
}

// localClosure: `name := func(…) {…}` whose every use is a call `name(…)`.
type localClosure struct {
	v        *types.Var
	lit      *ast.FuncLit
	def      *ast.AssignStmt
	uses     int
	expanded int
}

// localClosures finds the local closures of the repository packages that are only ever called.
func localClosures(pkgs []*packages.Package) map[*types.Var]*localClosure {
	out := map[*types.Var]*localClosure{}
	for _, p := range pkgs {
		if !strings.HasPrefix(p.PkgPath, "github.com/jhalter/mobius") {
			continue
		}
		callFun := map[*ast.Ident]bool{}
		marker := map[*ast.Ident]bool{} // `_ = name` written by an earlier round to keep the variable used
		for _, f := range p.Syntax {
			ast.Inspect(f, func(n ast.Node) bool {
				switch x := n.(type) {
				case *ast.CallExpr:
					if id, ok := x.Fun.(*ast.Ident); ok {
						callFun[id] = true
					}
				case *ast.AssignStmt:
					if x.Tok == token.ASSIGN && len(x.Lhs) == 1 && len(x.Rhs) == 1 {
						if l, ok := x.Lhs[0].(*ast.Ident); ok && l.Name == "_" {
							if r, ok := x.Rhs[0].(*ast.Ident); ok {
								marker[r] = true
							}
						}
					}
					if x.Tok == token.DEFINE && len(x.Lhs) == 1 && len(x.Rhs) == 1 {
						if id, ok := x.Lhs[0].(*ast.Ident); ok && !strings.HasPrefix(id.Name, "__") {
							if fl, ok := x.Rhs[0].(*ast.FuncLit); ok {
								if v, ok := p.TypesInfo.Defs[id].(*types.Var); ok {
									out[v] = &localClosure{v: v, lit: fl, def: x}
								}
							}
						}
					}
				}
				return true
			})
		}
		for id, o := range p.TypesInfo.Uses {
			v, ok := o.(*types.Var)
			if !ok {
				continue
			}
			lc := out[v]
			if lc == nil {
				continue
			}
			if marker[id] {
				continue
			}
			if !callFun[id] || (id.Pos() >= lc.lit.Pos() && id.Pos() < lc.lit.End()) {
				delete(out, v)
				continue
			}
			lc.uses++
		}
	}
	for v, lc := range out {
		if lc.uses == 0 {
			delete(out, v)
		}
	}
	return out
}

// substituteFuncGlobals: `var g = mk(consts…, func literals…)` with mk a function outside the vocabulary whose body
// is `return func(…) {…}`, g assigned nowhere else and used only as the function of calls: each call g(args) is
// spelled mk(…)(args), which the expansion steps then reduce. Building the closure anew at each call is the same
// as building it once: mk only wraps its (constant) arguments.
func (N *normaliser) substituteFuncGlobals(pkgs []*packages.Package) {
	for _, p := range pkgs {
		if !strings.HasPrefix(p.PkgPath, "github.com/jhalter/mobius") {
			continue
		}
		type glob struct {
			init *ast.CallExpr
			file *ast.File
		}
		globals := map[*types.Var]glob{}
		for _, f := range p.Syntax {
			for _, dcl := range f.Decls {
				gd, ok := dcl.(*ast.GenDecl)
				if !ok || gd.Tok != token.VAR {
					continue
				}
				for _, sp := range gd.Specs {
					vs, ok := sp.(*ast.ValueSpec)
					if !ok || len(vs.Names) != 1 || len(vs.Values) != 1 {
						continue
					}
					call, ok := vs.Values[0].(*ast.CallExpr)
					if !ok {
						continue
					}
					o, _ := N.staticCallee(p, call)
					c, isCand := N.cands[o]
					if o == nil || !isCand || len(c.fd.Body.List) != 1 {
						continue
					}
					rs, ok := c.fd.Body.List[0].(*ast.ReturnStmt)
					if !ok || len(rs.Results) != 1 {
						continue
					}
					if _, isLit := ast.Unparen(rs.Results[0]).(*ast.FuncLit); !isLit {
						continue
					}
					pure := true
					for _, a := range call.Args {
						switch x := ast.Unparen(a).(type) {
						case *ast.BasicLit, *ast.FuncLit:
						default:
							if tv, ok := p.TypesInfo.Types[x]; !ok || tv.Value == nil {
								pure = false
							}
						}
					}
					if v, ok := p.TypesInfo.Defs[vs.Names[0]].(*types.Var); ok && pure {
						globals[v] = glob{call, f}
					}
				}
			}
		}
		if len(globals) == 0 {
			continue
		}
		// every use, in any repository package, must be the function of a call
		callFun := map[*ast.Ident]*packages.Package{}
		for _, q := range pkgs {
			for _, f := range q.Syntax {
				ast.Inspect(f, func(n ast.Node) bool {
					if c, ok := n.(*ast.CallExpr); ok {
						if id, ok := c.Fun.(*ast.Ident); ok {
							callFun[id] = q
						}
					}
					return true
				})
			}
			for id, o := range q.TypesInfo.Uses {
				if v, ok := o.(*types.Var); ok {
					if _, is := globals[v]; is && (callFun[id] == nil || q != p) {
						delete(globals, v)
					}
				}
			}
		}
		for _, f := range p.Syntax {
			ast.Inspect(f, func(n ast.Node) bool {
				c, ok := n.(*ast.CallExpr)
				if !ok {
					return true
				}
				id, ok := c.Fun.(*ast.Ident)
				if !ok {
					return true
				}
				v, _ := p.TypesInfo.Uses[id].(*types.Var)
				g, is := globals[v]
				if !is {
					return true
				}
				capture := ""
				t := N.rewriteExpr(p, f, &calleeDesc{pkg: p}, map[types.Object]string{}, g.init, c.Pos(), &capture)
				if capture != "" {
					return true
				}
				fn := N.fset.Position(id.Pos()).Filename
				N.edits[fn] = append(N.edits[fn], textEdit{N.fset.Position(id.Pos()).Offset, len(id.Name), t})
				N.info.Inlined = append(N.info.Inlined, "global "+v.Name()+" = "+types.ExprString(g.init.Fun)+"(…)")
				return true
			})
		}
	}
}

// resultClosures finds the local variables that hold the function literal an expanded helper returned: the variable
// is a result variable of an expansion (`__rN_k`), or is defined once from one (`publish, err := __rN_0, __rN_1`);
// the result variable is only ever assigned nil or one and the same literal; the variable's other uses are calls.
// A call of such a variable on a path where it is nil would panic, so the literal is what is called.
func resultClosures(pkgs []*packages.Package) map[*types.Var]*localClosure {
	out := map[*types.Var]*localClosure{}
	for _, p := range pkgs {
		if !strings.HasPrefix(p.PkgPath, "github.com/jhalter/mobius") {
			continue
		}
		lits := map[*types.Var][]*ast.FuncLit{} // result variable → literals assigned
		bad := map[*types.Var]bool{}
		alias := map[*types.Var]*types.Var{} // local → the result variable it was defined from
		aliasDef := map[*types.Var]*ast.AssignStmt{}
		nDef := map[*types.Var]int{}
		callFun := map[*ast.Ident]bool{}
		lhsUse := map[*ast.Ident]bool{}
		rrFrom := map[*types.Var][]*types.Var{} // result variable → result variables of inner expansions handed on
		for _, f := range p.Syntax {
			ast.Inspect(f, func(n ast.Node) bool {
				switch x := n.(type) {
				case *ast.CallExpr:
					if id, ok := x.Fun.(*ast.Ident); ok {
						callFun[id] = true
					}
				case *ast.AssignStmt:
					if len(x.Lhs) != len(x.Rhs) {
						for _, l := range x.Lhs {
							if id, ok := l.(*ast.Ident); ok {
								if v, ok := p.TypesInfo.ObjectOf(id).(*types.Var); ok {
									bad[v] = true
									nDef[v] += 2
								}
							}
						}
						return true
					}
					for i, l := range x.Lhs {
						id, ok := l.(*ast.Ident)
						if !ok {
							continue
						}
						v, _ := p.TypesInfo.ObjectOf(id).(*types.Var)
						if v == nil {
							continue
						}
						lhsUse[id] = true
						r := ast.Unparen(x.Rhs[i])
						if strings.HasPrefix(id.Name, "__r") {
							switch y := r.(type) {
							case *ast.FuncLit:
								lits[v] = append(lits[v], y)
							case *ast.Ident:
								if strings.HasPrefix(y.Name, "__r") {
									if rv, ok := p.TypesInfo.Uses[y].(*types.Var); ok {
										rrFrom[v] = append(rrFrom[v], rv)
										break
									}
								}
								if y.Name != "nil" {
									bad[v] = true
								}
							default:
								bad[v] = true
							}
							continue
						}
						nDef[v]++
						if rid, ok := r.(*ast.Ident); ok && strings.HasPrefix(rid.Name, "__r") && x.Tok == token.DEFINE {
							if rv, ok := p.TypesInfo.Uses[rid].(*types.Var); ok {
								alias[v] = rv
								aliasDef[v] = x
							}
						}
					}
				case *ast.UnaryExpr:
					if x.Op == token.AND {
						if id, ok := ast.Unparen(x.X).(*ast.Ident); ok {
							if v, ok := p.TypesInfo.Uses[id].(*types.Var); ok {
								bad[v] = true
							}
						}
					}
				}
				return true
			})
		}
		cand := map[*types.Var]*localClosure{}
		for rv, ls := range lits {
			if bad[rv] || len(ls) != 1 || len(rrFrom[rv]) > 0 {
				continue
			}
			cand[rv] = &localClosure{v: rv, lit: ls[0]}
		}
		// a result variable that only hands on the result variable of an inner expansion
		for changed := true; changed; {
			changed = false
			for rv, from := range rrFrom {
				if cand[rv] != nil || bad[rv] || len(lits[rv]) > 0 {
					continue
				}
				var lit *ast.FuncLit
				ok := true
				for _, fv := range from {
					lc := cand[fv]
					if lc == nil || lit != nil && lc.lit != lit {
						ok = false
						break
					}
					lit = lc.lit
				}
				if ok && lit != nil {
					cand[rv] = &localClosure{v: rv, lit: lit}
					changed = true
				}
			}
		}
		for v, rv := range alias {
			if lc := cand[rv]; lc != nil && nDef[v] == 1 && !bad[v] {
				cand[v] = &localClosure{v: v, lit: lc.lit, def: aliasDef[v]}
			}
		}
		// uses
		okVar := map[*types.Var]bool{}
		for v := range cand {
			okVar[v] = true
		}
		for id, o := range p.TypesInfo.Uses {
			v, ok := o.(*types.Var)
			if !ok || cand[v] == nil {
				continue
			}
			switch {
			case callFun[id]:
				cand[v].uses++
			case lhsUse[id]:
			default:
				// `_ = __rN_k` markers and the `v, err := __rN_0, __rN_1` hand-over are the only other uses allowed
				if !strings.HasPrefix(v.Name(), "__r") {
					okVar[v] = false
				}
			}
		}
		for v, lc := range cand {
			if okVar[v] && lc.uses > 0 {
				out[v] = lc
			}
		}
	}
	return out
}

// litCallee: call of a local variable that is defined exactly once, by a function literal, and used exactly once
// (this call) inside a function introduced by an expansion or outside the vocabulary.
func (N *normaliser) litCallee(pkg *packages.Package, call *ast.CallExpr) *calleeDesc {
	id, ok := call.Fun.(*ast.Ident)
	if !ok {
		return nil
	}
	v, ok := pkg.TypesInfo.Uses[id].(*types.Var)
	if !ok || v.IsField() || v.Parent() == nil || v.Parent() == pkg.Types.Scope() {
		return nil
	}
	lc := N.local[v]
	if lc == nil {
		lc = N.resultLit[v]
	}
	if lc != nil {
		sig, _ := pkg.TypesInfo.TypeOf(lc.lit).(*types.Signature)
		if sig == nil {
			return nil
		}
		d := &calleeDesc{name: "local closure " + v.Name(), pkg: pkg, ftype: lc.lit.Type, body: lc.lit.Body, sig: sig, lit: lc.lit, local: lc}
		d.reason = bodyReason(pkg, lc.lit.Body, nil)
		return d
	}
	if !strings.HasPrefix(v.Name(), "__p") {
		return nil // only parameters of expanded helpers (bound by the expansion itself, never reassigned by construction)
	}
	uses := 0
	for _, o := range pkg.TypesInfo.Uses {
		if o == types.Object(v) {
			uses++
		}
	}
	lit := N.litOf[v]
	if lit == nil || uses != 2 { // the call and the `_ = p` that keeps the binding used
		return nil
	}
	sig, _ := pkg.TypesInfo.TypeOf(lit).(*types.Signature)
	if sig == nil {
		return nil
	}
	d := &calleeDesc{name: "func literal bound to " + v.Name(), pkg: pkg, ftype: lit.Type, body: lit.Body, sig: sig, lit: lit}
	d.reason = bodyReason(pkg, lit.Body, nil)
	return d
}

// bodyReason: why a body cannot be expanded ("" = it can).
func bodyReason(pkg *packages.Package, body *ast.BlockStmt, self *types.Func) string {
	why := ""
	ast.Inspect(body, func(n ast.Node) bool {
		switch x := n.(type) {
		case *ast.FuncLit:
			return false
		case *ast.DeferStmt:
			if why == "" {
				why = "defer"
			}
		case *ast.CallExpr:
			if id, ok := x.Fun.(*ast.Ident); ok {
				if id.Name == "recover" {
					why = "recover"
				}
				if o := pkg.TypesInfo.Uses[id]; self != nil && o == types.Object(self) {
					why = "recursive"
				}
			}
			if se, ok := x.Fun.(*ast.SelectorExpr); ok {
				if o := pkg.TypesInfo.Uses[se.Sel]; self != nil && o == types.Object(self) {
					why = "recursive"
				}
			}
		}
		return true
	})
	return why
}

func (N *normaliser) descOf(pkg *packages.Package, call *ast.CallExpr) (*calleeDesc, ast.Expr) {
	if o, recv := N.staticCallee(pkg, call); o != nil {
		if c, isCand := N.cands[o]; isCand {
			if N.pending[o] {
				N.skipped++
				return nil, nil
			}
			sig := o.Type().(*types.Signature)
			d := &calleeDesc{name: c.name, pkg: c.pkg, ftype: c.fd.Type, recv: c.fd.Recv, body: c.fd.Body, sig: sig, reason: N.reason[o], fn: o}
			if d.reason == "type parameters" {
				// a generic function called with inferred type arguments: expanded with the arguments of this instance
				var id *ast.Ident
				switch f := unIndex(pkg, call.Fun).(type) {
				case *ast.Ident:
					id = f
				case *ast.SelectorExpr:
					id = f.Sel
				}
				inst, ok := pkg.TypesInfo.Instances[id]
				isig, _ := inst.Type.(*types.Signature)
				if id == nil || !ok || isig == nil || sig.TypeParams().Len() != inst.TypeArgs.Len() {
					return d, recv
				}
				d.sig = isig
				d.targs = map[*types.TypeParam]types.Type{}
				for i := 0; i < sig.TypeParams().Len(); i++ {
					d.targs[sig.TypeParams().At(i)] = inst.TypeArgs.At(i)
				}
				d.reason = bodyReason(c.pkg, c.fd.Body, o)
			}
			return d, recv
		}
		return nil, nil
	}
	if d := N.litCallee(pkg, call); d != nil {
		return d, nil
	}
	// a function literal called on the spot
	if fl, ok := ast.Unparen(call.Fun).(*ast.FuncLit); ok {
		if sig, _ := pkg.TypesInfo.TypeOf(fl).(*types.Signature); sig != nil {
			d := &calleeDesc{name: "function literal called in place", pkg: pkg, ftype: fl.Type, body: fl.Body, sig: sig, lit: fl}
			d.reason = bodyReason(pkg, fl.Body, nil)
			return d, nil
		}
	}
	return nil, nil
}

// firstEligibleCall finds, in statement s, the first call of a candidate that may be hoisted in front of s.
func (N *normaliser) firstEligibleCall(pkg *packages.Package, s ast.Stmt) (*ast.CallExpr, *calleeDesc, ast.Expr) {
	var roots []ast.Node
	switch x := s.(type) {
	case *ast.ExprStmt:
		roots = []ast.Node{x.X}
	case *ast.AssignStmt:
		for _, r := range x.Rhs {
			roots = append(roots, r)
		}
	case *ast.ReturnStmt:
		for _, r := range x.Results {
			roots = append(roots, r)
		}
	case *ast.DeclStmt:
		if gd, ok := x.Decl.(*ast.GenDecl); ok && gd.Tok == token.VAR {
			for _, sp := range gd.Specs {
				if vs, ok := sp.(*ast.ValueSpec); ok {
					for _, v := range vs.Values {
						roots = append(roots, v)
					}
				}
			}
		}
	case *ast.SendStmt:
		roots = []ast.Node{x.Value}
	case *ast.IfStmt:
		if x.Init != nil {
			if c, f, r := N.firstEligibleCall(pkg, x.Init); c != nil {
				return c, f, r
			}
			return nil, nil, nil // a call in Cond would be moved in front of Init
		}
		roots = []ast.Node{x.Cond}
	case *ast.SwitchStmt:
		if x.Init != nil {
			if c, f, r := N.firstEligibleCall(pkg, x.Init); c != nil {
				return c, f, r
			}
			return nil, nil, nil
		}
		if x.Tag != nil {
			roots = []ast.Node{x.Tag}
		}
	case *ast.RangeStmt:
		roots = []ast.Node{x.X}
	case *ast.ForStmt:
		if x.Init != nil {
			return N.firstEligibleCall(pkg, x.Init)
		}
		return nil, nil, nil
	case *ast.GoStmt:
		for _, a := range x.Call.Args {
			roots = append(roots, a)
		}
	case *ast.DeferStmt:
		// `defer n.lock()()`: the inner call runs at the defer statement, like the arguments
		if inner, isCall := ast.Unparen(x.Call.Fun).(*ast.CallExpr); isCall {
			roots = append(roots, inner)
		}
		for _, a := range x.Call.Args {
			roots = append(roots, a)
		}
	default:
		return nil, nil, nil
	}
	// tail position: `return f(…)` — the callee's defers run where they ran before
	isTail := func(c *ast.CallExpr) bool { return N.siteIsTail(s, c) }
	var found *ast.CallExpr
	var fdesc *calleeDesc
	var frecv ast.Expr
	blocked := false
	var walk func(n ast.Node)
	walk = func(n ast.Node) {
		if n == nil || found != nil || blocked {
			return
		}
		switch x := n.(type) {
		case *ast.FuncLit:
			return
		case *ast.BinaryExpr:
			walk(x.X)
			if x.Op == token.LAND || x.Op == token.LOR {
				// the right operand is evaluated conditionally: nothing in it may be hoisted, and it ends the search
				if found == nil {
					blocked = blocked || containsCall(pkg, x.Y)
				}
				return
			}
			walk(x.Y)
			return
		case *ast.CallExpr:
			if tv, ok := pkg.TypesInfo.Types[x.Fun]; ok && tv.IsType() {
				for _, a := range x.Args {
					walk(a)
				}
				return // conversion
			}
			if id, ok := x.Fun.(*ast.Ident); ok {
				if _, isB := pkg.TypesInfo.Uses[id].(*types.Builtin); isB {
					for _, a := range x.Args {
						walk(a)
					}
					return
				}
			}
			if d, recv := N.descOf(pkg, x); d != nil && (d.reason == "" || d.reason == "defer" && (isTail(x) || simpleDefers(d.body) != nil)) {
				found, fdesc, frecv = x, d, recv
				return
			}
			// a call that stays: its operands are evaluated before it, so a candidate among them may still be hoisted;
			// the call itself then blocks everything that is evaluated after it
			walk(x.Fun)
			for _, a := range x.Args {
				walk(a)
			}
			if found == nil {
				blocked = true
			}
			return
		case *ast.UnaryExpr:
			if x.Op == token.ARROW {
				blocked = true
				return
			}
		}
		// generic descent in source order
		ast.Inspect(n, func(m ast.Node) bool {
			if m == n {
				return true
			}
			if m == nil || found != nil || blocked {
				return false
			}
			switch m.(type) {
			case *ast.FuncLit, *ast.BinaryExpr, *ast.CallExpr, *ast.UnaryExpr:
				walk(m)
				return false
			}
			return true
		})
	}
	for _, r := range roots {
		walk(r)
		if found != nil || blocked {
			break
		}
	}
	if found == nil {
		return nil, nil, nil
	}
	return found, fdesc, frecv
}

// simpleDefers: the defer statements of a body when every one of them is a statement of the body's own list (none
// in a branch or loop) and defers a plain call — named function or method on a variable / field chain, arguments
// that are variables, fields or literals; nil otherwise, or when there is none.
func simpleDefers(body *ast.BlockStmt) []*ast.DeferStmt {
	var out []*ast.DeferStmt
	top := map[*ast.DeferStmt]bool{}
	for _, st := range body.List {
		if ds, ok := st.(*ast.DeferStmt); ok {
			top[ds] = true
			out = append(out, ds)
		}
	}
	plain := func(e ast.Expr) bool {
		for {
			switch y := e.(type) {
			case *ast.Ident, *ast.BasicLit:
				return true
			case *ast.SelectorExpr:
				e = y.X
			case *ast.ParenExpr:
				e = y.X
			default:
				return false
			}
		}
	}
	ok := true
	ast.Inspect(body, func(n ast.Node) bool {
		switch x := n.(type) {
		case *ast.FuncLit:
			return false
		case *ast.DeferStmt:
			if !top[x] || !plain(x.Call.Fun) {
				ok = false
			}
			for _, a := range x.Call.Args {
				if !plain(a) {
					ok = false
				}
			}
		}
		return ok
	})
	if !ok || len(out) == 0 {
		return nil
	}
	return out
}

// isFuncValue: a named function, or a method value whose receiver expression is a plain variable / field chain.
func isFuncValue(pkg *packages.Package, e ast.Expr) bool {
	switch x := e.(type) {
	case *ast.Ident:
		_, ok := pkg.TypesInfo.Uses[x].(*types.Func)
		return ok
	case *ast.SelectorExpr:
		if _, ok := pkg.TypesInfo.Uses[x.Sel].(*types.Func); !ok {
			return false
		}
		r := ast.Expr(x.X)
		for {
			switch y := r.(type) {
			case *ast.Ident:
				switch pkg.TypesInfo.Uses[y].(type) {
				case *types.Var, *types.PkgName:
					return true
				}
				return false
			case *ast.SelectorExpr:
				r = y.X
			case *ast.ParenExpr:
				r = y.X
			default:
				return false
			}
		}
	}
	return false
}

func containsCall(pkg *packages.Package, n ast.Node) bool {
	has := false
	ast.Inspect(n, func(m ast.Node) bool {
		if c, ok := m.(*ast.CallExpr); ok {
			if tv, ok := pkg.TypesInfo.Types[c.Fun]; ok && tv.IsType() {
				return true
			}
			has = true
		}
		return !has
	})
	return has
}

// importName returns the name under which path is imported in file, adding an import when it is missing.
func (N *normaliser) importName(pkg *packages.Package, file *ast.File, path string) string {
	for _, im := range file.Imports {
		p := strings.Trim(im.Path.Value, "\"`")
		if p != path {
			continue
		}
		if im.Name != nil {
			if im.Name.Name == "_" || im.Name.Name == "." {
				continue
			}
			return im.Name.Name
		}
		if ip, ok := pkg.Imports[path]; ok && ip.Name != "" {
			return ip.Name
		}
		return path[strings.LastIndex(path, "/")+1:]
	}
	fn := N.fset.Position(file.Pos()).Filename
	if N.addImp[fn] == nil {
		N.addImp[fn] = map[string]string{}
	}
	if a, ok := N.addImp[fn][path]; ok {
		return a
	}
	a := "__imp_" + strings.NewReplacer("/", "_", ".", "_", "-", "_").Replace(path)
	N.addImp[fn][path] = a
	return a
}

func (N *normaliser) typeText(pkg *packages.Package, file *ast.File, t types.Type) string {
	return types.TypeString(t, func(p *types.Package) string {
		if p == pkg.Types {
			return ""
		}
		return N.importName(pkg, file, p.Path())
	})
}

// splitIfInit: `if INIT; COND {…}` whose COND (not its INIT) holds a call to expand becomes `{ INIT; if COND {…} }`
// — the same scopes, and the call is now first in its statement, so that the next round expands it.
func (N *normaliser) splitIfInit(p *packages.Package, s ast.Stmt) bool {
	is, ok := s.(*ast.IfStmt)
	if !ok || is.Init == nil {
		return false
	}
	if c, _, _ := N.firstEligibleCall(p, is.Init); c != nil {
		return false
	}
	if c, _, _ := N.firstEligibleCall(p, &ast.ExprStmt{X: is.Cond}); c == nil {
		return false
	}
	fn := N.fset.Position(is.Pos()).Filename
	ifOff := N.fset.Position(is.Pos()).Offset
	io, ie := N.fset.Position(is.Init.Pos()).Offset, N.fset.Position(is.Init.End()).Offset
	co := N.fset.Position(is.Cond.Pos()).Offset
	end := N.fset.Position(is.End()).Offset
	src := N.src(fn)
	initText := string(src[io:ie])
	N.edits[fn] = append(N.edits[fn],
		textEdit{ifOff, 0, "{ " + initText + "\n"},
		textEdit{io, co - io, ""},
		textEdit{end, 0, "\n}"})
	N.info.Inlined = append(N.info.Inlined, "if-init split at "+N.fset.Position(is.Pos()).String())
	return true
}

// unrollTable: `for _, e := range TABLE { BODY }` over a literal table of structs (written in the range clause, or held
// by a local that exists only for this loop) whose elements are built from names, literals and function literals
// only, with e used in BODY solely through its fields: the loop is written out as one copy of BODY per element with
// each `e.f` replaced by the element's expression for f. Nothing in BODY may leave or restart the loop (break,
// continue, goto, labels). The copies do exactly what the iterations did, in the same order.
func (N *normaliser) unrollTable(p *packages.Package, file *ast.File, fd *ast.FuncDecl, list []ast.Stmt, i int) bool {
	rs, ok := list[i].(*ast.RangeStmt)
	if !ok || rs.Value == nil || rs.Tok != token.DEFINE {
		return false
	}
	if rs.Key != nil {
		if k, isID := rs.Key.(*ast.Ident); !isID || k.Name != "_" {
			return false
		}
	}
	vid, ok := rs.Value.(*ast.Ident)
	if !ok {
		return false
	}
	vobj := p.TypesInfo.Defs[vid]
	var lit *ast.CompositeLit
	var def *ast.AssignStmt
	bound := false
	switch x := ast.Unparen(rs.X).(type) {
	case *ast.CompositeLit:
		lit = x
	case *ast.Ident:
		// a local defined by the statement right before the loop and used nowhere else
		tv, _ := p.TypesInfo.Uses[x].(*types.Var)
		if tv == nil {
			return false
		}
		// … or the parameter of an expanded helper that is bound to a literal table (`__pN_steps := []step{…}`), used
		// by this loop only (besides its `_ = p` marker): the table is read here and emptied where it was bound
		if strings.HasPrefix(x.Name, "__p") && fd != nil {
			var bindLit *ast.CompositeLit
			nDef := 0
			ast.Inspect(fd.Body, func(n ast.Node) bool {
				as, ok := n.(*ast.AssignStmt)
				if !ok || len(as.Lhs) != len(as.Rhs) {
					return true
				}
				for k, l := range as.Lhs {
					if id := identOf(l); id != nil && p.TypesInfo.ObjectOf(id) == types.Object(tv) {
						nDef++
						if cl, isCL := ast.Unparen(as.Rhs[k]).(*ast.CompositeLit); isCL && as.Tok == token.DEFINE {
							bindLit = cl
						}
					}
				}
				return true
			})
			realUses := 0
			ast.Inspect(fd.Body, func(n ast.Node) bool {
				if as, ok := n.(*ast.AssignStmt); ok && as.Tok == token.ASSIGN {
					allBlank := true
					for _, l := range as.Lhs {
						if id := identOf(l); id == nil || id.Name != "_" {
							allBlank = false
						}
					}
					if allBlank {
						return false // marker
					}
				}
				if id, ok := n.(*ast.Ident); ok && p.TypesInfo.Uses[id] == types.Object(tv) {
					realUses++
				}
				return true
			})
			if bindLit == nil || nDef != 1 || realUses != 1 {
				return false
			}
			lit, bound = bindLit, true
			break
		}
		if i == 0 {
			return false
		}
		as, isAs := list[i-1].(*ast.AssignStmt)
		if !isAs || as.Tok != token.DEFINE || len(as.Lhs) != 1 || len(as.Rhs) != 1 {
			return false
		}
		if id, isID := as.Lhs[0].(*ast.Ident); !isID || p.TypesInfo.Defs[id] != types.Object(tv) {
			return false
		}
		uses := 0
		for _, o := range p.TypesInfo.Uses {
			if o == types.Object(tv) {
				uses++
			}
		}
		cl, isCL := as.Rhs[0].(*ast.CompositeLit)
		if uses != 1 || !isCL {
			return false
		}
		lit, def = cl, as
	default:
		return false
	}
	var elemT types.Type
	switch t := p.TypesInfo.TypeOf(lit).Underlying().(type) {
	case *types.Slice:
		elemT = t.Elem()
	case *types.Array:
		elemT = t.Elem()
	default:
		return false
	}
	stt, ok := elemT.Underlying().(*types.Struct)
	if !ok || len(lit.Elts) == 0 || len(lit.Elts) > 8 {
		return false
	}
	// only worth it when a field holds a function literal that the body calls (otherwise the rules read the table)
	hasLit := false
	// BODY: e only as e.f; nothing that leaves or restarts the loop; no labels
	okBody := true
	type use struct {
		sel *ast.SelectorExpr
		f   int
	}
	var uses []use
	ast.Inspect(rs.Body, func(n ast.Node) bool {
		switch x := n.(type) {
		case *ast.LabeledStmt:
			okBody = false
		case *ast.BranchStmt:
			if x.Tok == token.GOTO || x.Tok == token.BREAK || x.Tok == token.CONTINUE {
				// (a break to the end label of an expansion around the loop leaves the loop like a return does)
				if !(x.Tok == token.BREAK && x.Label != nil && strings.HasPrefix(x.Label.Name, "__L")) {
					okBody = false
				}
			}
		case *ast.SelectorExpr:
			if id, isID := x.X.(*ast.Ident); isID && p.TypesInfo.Uses[id] == vobj {
				k := -1
				for j := 0; j < stt.NumFields(); j++ {
					if stt.Field(j).Name() == x.Sel.Name {
						k = j
					}
				}
				if k < 0 {
					okBody = false
				}
				uses = append(uses, use{x, k})
				return false
			}
		case *ast.Ident:
			if p.TypesInfo.Uses[x] == vobj {
				okBody = false // e used whole
			}
		}
		return okBody
	})
	if !okBody || len(uses) == 0 {
		return false
	}
	// per element, the expression of every field
	pure := func(e ast.Expr) bool {
		okE := true
		ast.Inspect(e, func(n ast.Node) bool {
			switch x := n.(type) {
			case *ast.FuncLit:
				return false
			case *ast.CallExpr:
				if tv, has := p.TypesInfo.Types[x.Fun]; !has || !tv.IsType() {
					okE = false
				}
			case *ast.UnaryExpr:
				if x.Op == token.ARROW {
					okE = false
				}
			}
			return okE
		})
		return okE
	}
	fields := make([][]ast.Expr, len(lit.Elts))
	for r, el := range lit.Elts {
		cl, isCL := el.(*ast.CompositeLit)
		if !isCL {
			return false
		}
		row := make([]ast.Expr, stt.NumFields())
		for j, fe := range cl.Elts {
			if kv, isKV := fe.(*ast.KeyValueExpr); isKV {
				kid, isID := kv.Key.(*ast.Ident)
				if !isID {
					return false
				}
				for k := 0; k < stt.NumFields(); k++ {
					if stt.Field(k).Name() == kid.Name {
						row[k] = kv.Value
					}
				}
				continue
			}
			if j < len(row) {
				row[j] = fe
			}
		}
		for _, u := range uses {
			if row[u.f] == nil || !pure(row[u.f]) {
				return false
			}
			if _, isFL := ast.Unparen(row[u.f]).(*ast.FuncLit); isFL {
				hasLit = true
			}
		}
		fields[r] = row
	}
	if !hasLit {
		return false
	}
	fn := N.fset.Position(rs.Pos()).Filename
	src := N.src(fn)
	off := func(pos token.Pos) int { return N.fset.Position(pos).Offset }
	bs, be := off(rs.Body.Lbrace), off(rs.Body.Rbrace)+1
	var sb strings.Builder
	for r := range lit.Elts {
		var eds []textEdit
		for _, u := range uses {
			e := fields[r][u.f]
			eds = append(eds, textEdit{off(u.sel.Pos()), off(u.sel.End()) - off(u.sel.Pos()), "(" + string(src[off(e.Pos()):off(e.End())]) + ")"})
		}
		sb.WriteString(applyEdits(src[bs:be], eds, bs))
		sb.WriteString("\n")
	}
	start := off(rs.Pos())
	if def != nil {
		start = off(def.Pos())
	}
	N.edits[fn] = append(N.edits[fn], textEdit{start, off(rs.End()) - start, sb.String()})
	if bound {
		// the table itself is no longer read: its literals must not be analysed a second time
		N.edits[fn] = append(N.edits[fn], textEdit{off(lit.Pos()), off(lit.End()) - off(lit.Pos()), "(" + N.typeText(p, file, p.TypesInfo.TypeOf(lit)) + ")(nil)"})
	}
	N.info.Inlined = append(N.info.Inlined, "table loop written out at "+N.fset.Position(rs.Pos()).String())
	return true
}

// hasClosureTables: some function ranges over a literal table whose elements hold function literals (the one shape
// that is normalised although no function outside the vocabulary is involved).
func hasClosureTables(pkgs []*packages.Package) bool {
	found := false
	for _, p := range pkgs {
		if !strings.HasPrefix(p.PkgPath, "github.com/jhalter/mobius") {
			continue
		}
		for _, f := range p.Syntax {
			ast.Inspect(f, func(n ast.Node) bool {
				cl, ok := n.(*ast.CompositeLit)
				if !ok || found {
					return !found
				}
				t := p.TypesInfo.TypeOf(cl)
				if t == nil {
					return true
				}
				var el types.Type
				switch u := t.Underlying().(type) {
				case *types.Slice:
					el = u.Elem()
				case *types.Array:
					el = u.Elem()
				default:
					return true
				}
				if _, isStruct := el.Underlying().(*types.Struct); !isStruct {
					return true
				}
				for _, e := range cl.Elts {
					if ecl, ok := e.(*ast.CompositeLit); ok {
						for _, fe := range ecl.Elts {
							v := fe
							if kv, ok := fe.(*ast.KeyValueExpr); ok {
								v = kv.Value
							}
							if _, isFL := ast.Unparen(v).(*ast.FuncLit); isFL {
								found = true
							}
						}
					}
				}
				return true
			})
		}
	}
	return found
}

// switchToIf: a tagless switch one of whose case conditions holds a call to expand is written as the if / else-if
// chain it abbreviates (`{ INIT; if A {…} else if B {…} else {…} }`), provided nothing in it breaks out of or falls
// through the switch; the else-if steps then expose the call.
func (N *normaliser) switchToIf(p *packages.Package, s ast.Stmt) bool {
	sw, ok := s.(*ast.SwitchStmt)
	if !ok || sw.Tag != nil || len(sw.Body.List) == 0 {
		return false
	}
	has := false
	for _, cc := range sw.Body.List {
		for _, e := range cc.(*ast.CaseClause).List {
			if c, _, _ := N.firstEligibleCall(p, &ast.ExprStmt{X: e}); c != nil {
				has = true
			}
		}
	}
	if !has {
		return false
	}
	// no break / fallthrough that belongs to this switch
	safe := true
	var scan func(n ast.Node, inner bool)
	scan = func(n ast.Node, inner bool) {
		ast.Inspect(n, func(m ast.Node) bool {
			if !safe || m == nil {
				return false
			}
			switch x := m.(type) {
			case *ast.FuncLit:
				return false
			case *ast.ForStmt, *ast.RangeStmt, *ast.SwitchStmt, *ast.TypeSwitchStmt, *ast.SelectStmt:
				if m != n {
					// an unlabelled break inside belongs to that statement; a fallthrough cannot cross it
					ast.Inspect(m, func(k ast.Node) bool {
						if b, ok := k.(*ast.BranchStmt); ok && b.Label != nil {
							_ = b // labelled branches keep their meaning
						}
						return true
					})
					return false
				}
			case *ast.BranchStmt:
				if (x.Tok == token.BREAK && x.Label == nil) || x.Tok == token.FALLTHROUGH {
					safe = false
				}
			}
			return true
		})
	}
	for _, cc := range sw.Body.List {
		for _, st := range cc.(*ast.CaseClause).Body {
			scan(st, false)
		}
	}
	if !safe {
		return false
	}
	fn := N.fset.Position(sw.Pos()).Filename
	src := N.src(fn)
	off := func(pos token.Pos) int { return N.fset.Position(pos).Offset }
	var sb strings.Builder
	sb.WriteString("{ ")
	if sw.Init != nil {
		sb.Write(src[off(sw.Init.Pos()):off(sw.Init.End())])
		sb.WriteString("\n")
	}
	var def *ast.CaseClause
	first := true
	bodyOf := func(i int) string {
		cc := sw.Body.List[i].(*ast.CaseClause)
		end := off(sw.Body.Rbrace)
		if i+1 < len(sw.Body.List) {
			end = off(sw.Body.List[i+1].Pos())
		}
		return string(src[off(cc.Colon)+1 : end])
	}
	for i, c0 := range sw.Body.List {
		cc := c0.(*ast.CaseClause)
		if cc.List == nil {
			def = cc
			continue
		}
		var conds []string
		for _, e := range cc.List {
			conds = append(conds, "("+string(src[off(e.Pos()):off(e.End())])+")")
		}
		if !first {
			sb.WriteString(" else ")
		}
		first = false
		sb.WriteString("if " + strings.Join(conds, " || ") + " {" + bodyOf(i) + "}")
	}
	if def != nil {
		for i, c0 := range sw.Body.List {
			if c0 == ast.Stmt(def) {
				if first {
					sb.WriteString("{" + bodyOf(i) + "}")
				} else {
					sb.WriteString(" else {" + bodyOf(i) + "}")
				}
			}
		}
	}
	sb.WriteString("\n}")
	N.edits[fn] = append(N.edits[fn], textEdit{off(sw.Pos()), off(sw.End()) - off(sw.Pos()), sb.String()})
	N.info.Inlined = append(N.info.Inlined, "switch written as if-chain at "+N.fset.Position(sw.Pos()).String())
	return true
}

// siteIsTail: nothing of the enclosing function runs after the call but the hand-over of its results — `return f(…)`,
// or, inside an expansion that itself stood in tail position, `r = f(…); break __LT…` (the shape a `return f(…)` of
// the expanded body was given), or a result-less call that is the last statement of the function / precedes a bare
// return or such a break. A callee's defers then run where they ran before.
func (N *normaliser) siteIsTail(s ast.Stmt, c *ast.CallExpr) bool {
	tailBreak := func(n ast.Stmt) bool {
		b, ok := n.(*ast.BranchStmt)
		return ok && b.Tok == token.BREAK && b.Label != nil && strings.HasPrefix(b.Label.Name, "__LT")
	}
	switch x := s.(type) {
	case *ast.ReturnStmt:
		return len(x.Results) == 1 && x.Results[0] == ast.Expr(c)
	case *ast.AssignStmt:
		if s != N.cur || len(x.Rhs) != 1 || x.Rhs[0] != ast.Expr(c) || x.Tok != token.ASSIGN || N.next == nil || !tailBreak(N.next) {
			return false
		}
		for _, l := range x.Lhs {
			id, ok := l.(*ast.Ident)
			if !ok || !strings.HasPrefix(id.Name, "__r") {
				return false
			}
		}
		return true
	case *ast.ExprStmt:
		if s != N.cur || x.X != ast.Expr(c) {
			return false
		}
		if N.next == nil {
			return N.lastOfBody
		}
		if r, ok := N.next.(*ast.ReturnStmt); ok && len(r.Results) == 0 {
			return true
		}
		return tailBreak(N.next)
	}
	return false
}

// expand builds the edits for one call site; returns a reason when it cannot.
func (N *normaliser) expand(pkg *packages.Package, file *ast.File, encl *ast.FuncDecl, s ast.Stmt, call *ast.CallExpr, d *calleeDesc, recvExpr ast.Expr) string {
	sig := d.sig
	spread := sig.Variadic() && !call.Ellipsis.IsValid() // f(a, b, c) for f(xs ...T): xs is []T{a, b, c}
	if !spread && len(call.Args) != sig.Params().Len() || spread && len(call.Args) < sig.Params().Len()-1 {
		return "multi-value argument"
	}
	if len(call.Args) == 1 {
		if _, isTup := pkg.TypesInfo.TypeOf(call.Args[0]).(*types.Tuple); isTup {
			return "multi-value argument"
		}
	}
	N.seq++
	id := N.seq
	calleeFile := N.fset.Position(d.body.Pos()).Filename
	csrc := N.src(calleeFile)
	nres := sig.Results().Len()
	rnames := make([]string, nres)
	for i := range rnames {
		rnames[i] = fmt.Sprintf("__r%d_%d", id, i)
	}
	label := fmt.Sprintf("__L%d", id)
	if N.siteIsTail(s, call) {
		// a `break` to this label is followed by nothing but the return of the enclosing function
		label = fmt.Sprintf("__LT%d", id)
	}
	// ---- receiver, parameters and named results get names of their own (so that they cannot shadow a name the
	// caller's argument expressions or a function literal among them refer to)
	rename := map[types.Object]string{}
	uniq := func(idn *ast.Ident, k int) string {
		nn := fmt.Sprintf("__p%d_%d", id, k)
		if idn != nil && idn.Name != "_" {
			nn = fmt.Sprintf("__p%d_%s", id, idn.Name)
			if o := d.pkg.TypesInfo.Defs[idn]; o != nil {
				rename[o] = nn
			}
		}
		return nn
	}
	var lhs, rhs, use []string
	var litParams []struct {
		name string
		lit  *ast.FuncLit
	}
	if d.recv != nil && len(d.recv.List) > 0 {
		var rid *ast.Ident
		if len(d.recv.List[0].Names) > 0 {
			rid = d.recv.List[0].Names[0]
		}
		rn := uniq(rid, -1)
		if recvExpr == nil {
			return "method expression"
		}
		rt := sig.Recv().Type()
		et := pkg.TypesInfo.TypeOf(recvExpr)
		_, rptr := rt.(*types.Pointer)
		_, eptr := et.Underlying().(*types.Pointer)
		rx := N.text(recvExpr)
		switch {
		case rptr && !eptr:
			rx = "&(" + rx + ")"
		case !rptr && eptr:
			rx = "*(" + rx + ")"
		}
		lhs, rhs, use = append(lhs, rn), append(rhs, rx), append(use, rn)
	}
	k := 0
	if d.ftype.Params != nil {
		for _, f := range d.ftype.Params.List {
			names := f.Names
			if len(names) == 0 {
				names = []*ast.Ident{nil}
			}
			for _, n := range names {
				pn := uniq(n, k)
				lhs = append(lhs, pn)
				if spread && k == sig.Params().Len()-1 {
					var elems []string
					for _, a := range call.Args[k:] {
						elems = append(elems, N.text(a))
					}
					st := N.typeText(pkg, file, sig.Params().At(k).Type())
					if len(elems) == 0 {
						rhs = append(rhs, "("+st+")(nil)")
					} else {
						rhs = append(rhs, st+"{"+strings.Join(elems, ", ")+"}")
					}
					use = append(use, pn)
					k++
					continue
				}
				if N.ifaceParamOnlyCalled(pkg, d, n, sig.Params().At(k).Type(), call.Args[k]) {
					// an interface parameter that the body only calls methods on keeps the type of what is passed: the
					// methods called are then the argument type's own (AccountManager.Get, not accountLookup.Get)
					rhs = append(rhs, "("+N.text(call.Args[k])+")")
				} else {
					rhs = append(rhs, "("+N.typeText(pkg, file, sig.Params().At(k).Type())+")("+N.text(call.Args[k])+")")
				}
				use = append(use, pn)
				if fl, ok := ast.Unparen(call.Args[k]).(*ast.FuncLit); ok {
					litParams = append(litParams, struct {
						name string
						lit  *ast.FuncLit
					}{pn, fl})
				}
				k++
			}
		}
	}
	var named []string
	var namedDecl strings.Builder
	if d.ftype.Results != nil {
		i := 0
		for _, f := range d.ftype.Results.List {
			for _, n := range f.Names {
				nn := uniq(n, 100+i)
				named = append(named, nn)
				fmt.Fprintf(&namedDecl, "var %s %s; _ = %s; ", nn, N.typeText(pkg, file, sig.Results().At(i).Type()), nn)
				i++
			}
			if len(f.Names) == 0 {
				i++
			}
		}
	}
	// ---- the body text with returns, labels, package names and the renamed identifiers rewritten
	bodyStart := N.fset.Position(d.body.Lbrace).Offset + 1
	bodyEnd := N.fset.Position(d.body.Rbrace).Offset
	var bedits []textEdit
	capture := ""
	// a callee with defers away from tail position: its (simple, top-level) deferred calls are spelled out at every
	// exit that comes after them, last first. What is lost is only that they also ran when the body panicked.
	var lowered []*ast.DeferStmt
	var loweredText []string
	if d.reason == "defer" && !N.siteIsTail(s, call) {
		lowered = simpleDefers(d.body)
		if lowered == nil {
			return "defer away from tail position"
		}
		for _, ds := range lowered {
			// spelled `(f)(args)`: the parentheses are how the rules recognise a call that was deferred (loweredDefer)
			var args []string
			for _, a := range ds.Call.Args {
				args = append(args, N.rewriteExpr(pkg, file, d, rename, a, call.Pos(), &capture))
			}
			loweredText = append(loweredText, "("+N.rewriteExpr(pkg, file, d, rename, ds.Call.Fun, call.Pos(), &capture)+")("+strings.Join(args, ", ")+")")
		}
	}
	runDefers := func(at token.Pos) string {
		t := ""
		for i := len(lowered) - 1; i >= 0; i-- {
			if lowered[i].End() <= at {
				t += loweredText[i] + "; "
			}
		}
		return t
	}
	// ---- a function literal that the body returns stays callable after the expansion: the body's own variables
	// it refers to are hoisted in front of the expansion (under names of their own), so that the literal's body can
	// be expanded where it is called later on
	var hoistDecl strings.Builder
	{
		var returned []*ast.FuncLit
		ast.Inspect(d.body, func(n ast.Node) bool {
			switch x := n.(type) {
			case *ast.FuncLit:
				return false
			case *ast.ReturnStmt:
				for _, r := range x.Results {
					if fl, ok := ast.Unparen(r).(*ast.FuncLit); ok {
						returned = append(returned, fl)
					}
				}
			case *ast.AssignStmt:
				// the literal an inner expansion left in its result variable (which the body then returns)
				if len(x.Lhs) == len(x.Rhs) {
					for i, r := range x.Rhs {
						if fl, ok := ast.Unparen(r).(*ast.FuncLit); ok {
							if id := identOf(x.Lhs[i]); id != nil && strings.HasPrefix(id.Name, "__r") {
								returned = append(returned, fl)
							}
						}
					}
				}
			}
			return true
		})
		hoisted := map[*types.Var]bool{}
		for _, fl := range returned {
			ast.Inspect(fl.Body, func(n ast.Node) bool {
				idn, ok := n.(*ast.Ident)
				if !ok {
					return true
				}
				v, ok := d.pkg.TypesInfo.Uses[idn].(*types.Var)
				if !ok || v.IsField() || rename[v] != "" || hoisted[v] {
					return true
				}
				if v.Pos() >= d.body.Pos() && v.Pos() < d.body.End() && !(v.Pos() >= fl.Pos() && v.Pos() < fl.End()) {
					hoisted[v] = true
				}
				return true
			})
		}
		if len(hoisted) > 0 {
			// the statements of the body's block lists (a hoisted variable must be declared by one of them with :=)
			inList := map[ast.Stmt]bool{}
			ast.Inspect(d.body, func(n ast.Node) bool {
				switch x := n.(type) {
				case *ast.BlockStmt:
					for _, st := range x.List {
						inList[st] = true
					}
				case *ast.CaseClause:
					for _, st := range x.Body {
						inList[st] = true
					}
				case *ast.CommClause:
					for _, st := range x.Body {
						inList[st] = true
					}
				}
				return true
			})
			declared := map[*types.Var]bool{}
			why := ""
			ast.Inspect(d.body, func(n ast.Node) bool {
				as, ok := n.(*ast.AssignStmt)
				if !ok || as.Tok != token.DEFINE {
					return true
				}
				any := false
				for _, l := range as.Lhs {
					if idn, ok := l.(*ast.Ident); ok {
						if v, ok := d.pkg.TypesInfo.Defs[idn].(*types.Var); ok && hoisted[v] {
							any = true
						}
					}
				}
				if !any {
					return true
				}
				if !inList[as] {
					why = "a variable the returned function literal uses is declared in a statement header"
					return false
				}
				for _, l := range as.Lhs {
					idn, ok := l.(*ast.Ident)
					if !ok {
						continue
					}
					if idn.Name == "_" {
						continue
					}
					if v, ok := d.pkg.TypesInfo.Defs[idn].(*types.Var); ok {
						if !hoisted[v] {
							hoisted[v] = true // declared by the same statement: hoisted along
						}
						declared[v] = true
					}
				}
				tp := N.fset.Position(as.TokPos).Offset
				bedits = append(bedits, textEdit{tp, 2, "="})
				return true
			})
			if why != "" {
				return why
			}
			k := 0
			var names []*types.Var
			for v := range hoisted {
				names = append(names, v)
			}
			sort.Slice(names, func(i, j int) bool { return names[i].Pos() < names[j].Pos() })
			for _, v := range names {
				if !declared[v] {
					return "a variable the returned function literal uses is not declared with := in a statement list"
				}
				nn := fmt.Sprintf("__v%d_%s", id, v.Name())
				rename[v] = nn
				fmt.Fprintf(&hoistDecl, "var %s %s; _ = %s; ", nn, N.typeText(pkg, file, v.Type()), nn)
				k++
			}
		}
	}
	labelledReturn := map[*ast.ReturnStmt]bool{}
	var walk func(n ast.Node) bool
	walk = func(n ast.Node) bool {
		switch x := n.(type) {
		case *ast.DeferStmt:
			for _, ds := range lowered {
				if ds == x {
					p, e := N.fset.Position(x.Pos()).Offset, N.fset.Position(x.End()).Offset
					bedits = append(bedits, textEdit{p, e - p, "{}"})
					return false
				}
			}
		case *ast.FuncLit:
			// returns inside belong to the literal; identifiers inside still need the renaming / capture treatment
			ast.Inspect(x.Body, func(m ast.Node) bool {
				if idn, ok := m.(*ast.Ident); ok {
					N.identEdit(pkg, file, d, rename, idn, call.Pos(), &bedits, &capture)
				}
				return true
			})
			return false
		case *ast.ReturnStmt:
			p, e := N.fset.Position(x.Pos()).Offset, N.fset.Position(x.End()).Offset
			var t string
			switch {
			case nres == 0:
				t = "{ " + runDefers(x.Pos()) + "break " + label + " }"
			case len(x.Results) == 0:
				t = "{ " + runDefers(x.Pos()) + strings.Join(rnames, ", ") + " = " + strings.Join(named, ", ") + "; break " + label + " }"
			default:
				var parts []string
				for _, r := range x.Results {
					parts = append(parts, N.rewriteExpr(pkg, file, d, rename, r, call.Pos(), &capture))
				}
				t = "{ " + strings.Join(rnames, ", ") + " = " + strings.Join(parts, ", ") + "; " + runDefers(x.Pos()) + "break " + label + " }"
			}
			if !labelledReturn[x] {
				// (no block of its own: what an expansion inside the returned expression declares stays in scope for
				// the code after the label, which may call a function value it produced)
				t = strings.TrimSuffix(strings.TrimPrefix(t, "{ "), " }")
			}
			bedits = append(bedits, textEdit{p, e - p, t})
			return false
		case *ast.LabeledStmt:
			p := N.fset.Position(x.Label.Pos()).Offset
			bedits = append(bedits, textEdit{p + len(x.Label.Name), 0, fmt.Sprintf("_%d", id)})
		case *ast.BranchStmt:
			if x.Label != nil {
				p := N.fset.Position(x.Label.Pos()).Offset
				bedits = append(bedits, textEdit{p + len(x.Label.Name), 0, fmt.Sprintf("_%d", id)})
			}
			return false
		case *ast.Ident:
			N.identEdit(pkg, file, d, rename, x, call.Pos(), &bedits, &capture)
		}
		return true
	}
	ast.Inspect(d.body, func(n ast.Node) bool {
		if ls, ok := n.(*ast.LabeledStmt); ok {
			if r, ok := ls.Stmt.(*ast.ReturnStmt); ok {
				labelledReturn[r] = true
			}
		}
		return true
	})
	ast.Inspect(d.body, walk)
	if capture != "" {
		return "a name of the body would be captured by the caller's local " + capture
	}
	body := applyEdits(csrc[bodyStart:bodyEnd], bedits, bodyStart)
	var sb strings.Builder
	for i := 0; i < nres; i++ {
		fmt.Fprintf(&sb, "var %s %s; _ = %s; ", rnames[i], N.typeText(pkg, file, sig.Results().At(i).Type()), rnames[i])
	}
	if len(lhs) > 0 {
		fmt.Fprintf(&sb, "%s := %s; ", strings.Join(lhs, ", "), strings.Join(rhs, ", "))
		blank := make([]string, len(use))
		for i := range blank {
			blank[i] = "_"
		}
		fmt.Fprintf(&sb, "%s = %s; ", strings.Join(blank, ", "), strings.Join(use, ", "))
	}
	sb.WriteString(namedDecl.String())
	sb.WriteString(hoistDecl.String())
	// no block around it: every name introduced here is unique, and what a returned function literal refers to
	// must stay in scope for the rest of the caller's block
	fmt.Fprintf(&sb, "\n%s: switch { default:\n%s\n%sbreak %s\n}\n", label, body, runDefers(d.body.Rbrace), label)
	// ---- the call site
	fn := N.fset.Position(s.Pos()).Filename
	sOff := N.fset.Position(s.Pos()).Offset
	cOff, cEnd := N.fset.Position(call.Pos()).Offset, N.fset.Position(call.End()).Offset
	repl := strings.Join(rnames, ", ")
	if es, ok := s.(*ast.ExprStmt); ok && es.X == ast.Expr(call) {
		if nres == 0 {
			repl = "{}"
		} else {
			blank := make([]string, nres)
			for i := range blank {
				blank[i] = "_"
			}
			repl = strings.Join(blank, ", ") + " = " + repl
		}
	} else if nres == 0 {
		return "a call without results used as a value"
	} else if nres > 1 {
		// only where a multi-value is allowed to be spelled out: sole RHS of an assignment / declaration, sole result
		okMulti := false
		switch x := s.(type) {
		case *ast.AssignStmt:
			okMulti = len(x.Rhs) == 1 && x.Rhs[0] == ast.Expr(call)
		case *ast.ReturnStmt:
			okMulti = len(x.Results) == 1 && x.Results[0] == ast.Expr(call)
		case *ast.IfStmt:
			if as, ok := x.Init.(*ast.AssignStmt); ok {
				okMulti = len(as.Rhs) == 1 && as.Rhs[0] == ast.Expr(call)
			}
		case *ast.SwitchStmt:
			if as, ok := x.Init.(*ast.AssignStmt); ok {
				okMulti = len(as.Rhs) == 1 && as.Rhs[0] == ast.Expr(call)
			}
		case *ast.DeclStmt:
			okMulti = true
		}
		if !okMulti {
			return "multi-value call inside an expression"
		}
	}
	N.edits[fn] = append(N.edits[fn], textEdit{sOff, 0, sb.String()}, textEdit{cOff, cEnd - cOff, repl})
	if d.local != nil {
		d.local.expanded++
	} else if d.lit != nil {
		// the literal has been expanded at its only call: it must not stay behind as a second, dead copy
		lf := N.fset.Position(d.lit.Pos()).Filename
		lo, le := N.fset.Position(d.lit.Pos()).Offset, N.fset.Position(d.lit.End()).Offset
		N.edits[lf] = append(N.edits[lf], textEdit{lo, le - lo, "nil"})
	}
	callerName := "?"
	if encl != nil {
		callerName = declName(pkg, encl)
	}
	N.info.Inlined = append(N.info.Inlined, d.name+" ← "+callerName)
	return ""
}

// identEdit: package names in the body are spelled as the caller's file imports them; the callee's own receiver,
// parameters and named results are renamed; a body identifier that denotes a package-level / universe object, or
// (for a function literal) a variable of the enclosing function, must mean the same thing at the call site.
func (N *normaliser) identEdit(pkg *packages.Package, file *ast.File, d *calleeDesc, rename map[types.Object]string, idn *ast.Ident, at token.Pos, edits *[]textEdit, capture *string) {
	o := d.pkg.TypesInfo.Uses[idn]
	if o == nil {
		// the defining occurrence of a hoisted local
		if def := d.pkg.TypesInfo.Defs[idn]; def != nil {
			if nn, ok := rename[def]; ok {
				p := N.fset.Position(idn.Pos()).Offset
				*edits = append(*edits, textEdit{p, len(idn.Name), nn})
			}
		}
		return
	}
	if nn, ok := rename[o]; ok {
		p := N.fset.Position(idn.Pos()).Offset
		*edits = append(*edits, textEdit{p, len(idn.Name), nn})
		return
	}
	if tn, ok := o.(*types.TypeName); ok && d.targs != nil {
		if tp, ok := tn.Type().(*types.TypeParam); ok {
			if ta := d.targs[tp]; ta != nil {
				p := N.fset.Position(idn.Pos()).Offset
				tt := N.typeText(pkg, file, ta)
				if strings.HasPrefix(tt, "*") || strings.HasPrefix(tt, "func") || strings.HasPrefix(tt, "<-") || strings.HasPrefix(tt, "chan") {
					tt = "(" + tt + ")" // `P(&v)` with P = *T is `(*T)(&v)`
				}
				*edits = append(*edits, textEdit{p, len(idn.Name), tt})
				return
			}
		}
	}
	if pn, ok := o.(*types.PkgName); ok {
		want := N.importName(pkg, file, pn.Imported().Path())
		if want != idn.Name {
			p := N.fset.Position(idn.Pos()).Offset
			*edits = append(*edits, textEdit{p, len(idn.Name), want})
		}
		return
	}
	if d.pkg.Types != pkg.Types && o.Pkg() == d.pkg.Types {
		// the body is moved into another package: what it names must be nameable from there
		if o.Parent() == d.pkg.Types.Scope() {
			p := N.fset.Position(idn.Pos()).Offset
			if c, ok := o.(*types.Const); ok && !o.Exported() {
				if b, ok := c.Type().(*types.Basic); ok {
					t := "(" + c.Val().ExactString() + ")"
					if b.Info()&types.IsUntyped == 0 {
						t = b.Name() + t
					}
					*edits = append(*edits, textEdit{p, len(idn.Name), t})
					return
				}
			}
			if !o.Exported() {
				*capture = idn.Name + " (not exported)"
				return
			}
			q := N.importName(pkg, file, d.pkg.Types.Path())
			if sc := pkg.Types.Scope().Innermost(at); sc != nil {
				if _, found := sc.LookupParent(q, at); found != nil {
					if _, isPkg := found.(*types.PkgName); !isPkg {
						*capture = q
					}
				}
			}
			*edits = append(*edits, textEdit{p, 0, q + "."})
			return
		}
		if o.Parent() == nil && !o.Exported() {
			// a field or method
			*capture = idn.Name + " (not exported)"
			return
		}
	}
	outer := o.Parent() == d.pkg.Types.Scope() || o.Parent() == types.Universe
	if !outer && d.lit != nil && o.Parent() != nil && !(o.Pos() >= d.lit.Pos() && o.Pos() < d.lit.End()) {
		outer = true // a variable of the function the literal was written in
	}
	if outer {
		if sc := pkg.Types.Scope().Innermost(at); sc != nil {
			if _, found := sc.LookupParent(idn.Name, at); found != nil && found != o {
				*capture = idn.Name
			}
		}
	}
}

// rewriteExpr renders an expression of the body with package names adapted and the callee's names renamed.
func (N *normaliser) rewriteExpr(pkg *packages.Package, file *ast.File, d *calleeDesc, rename map[types.Object]string, e ast.Expr, at token.Pos, capture *string) string {
	start, end := N.fset.Position(e.Pos()).Offset, N.fset.Position(e.End()).Offset
	src := N.src(N.fset.Position(e.Pos()).Filename)
	var eds []textEdit
	ast.Inspect(e, func(m ast.Node) bool {
		if idn, ok := m.(*ast.Ident); ok {
			N.identEdit(pkg, file, d, rename, idn, at, &eds, capture)
		}
		return true
	})
	return applyEdits(src[start:end], eds, start)
}

func applyEdits(src []byte, edits []textEdit, base int) string {
	sort.SliceStable(edits, func(i, j int) bool { return edits[i].off < edits[j].off })
	var out bytes.Buffer
	cur := 0
	for _, e := range edits {
		o := e.off - base
		if o < cur || o > len(src) {
			continue // overlapping edit: keep the first
		}
		out.Write(src[cur:o])
		out.WriteString(e.ins)
		cur = o + e.del
	}
	if cur < len(src) {
		out.Write(src[cur:])
	}
	return out.String()
}

// rewriteFile applies the edits to a file and updates its line map.
func rewriteFile(path string, edits []textEdit, old []int) ([]int, error) {
	src, err := os.ReadFile(path)
	if err != nil {
		return nil, err
	}
	sort.SliceStable(edits, func(i, j int) bool { return edits[i].off < edits[j].off })
	var out bytes.Buffer
	oldLine := 1
	lookup := func(l int) int {
		if old != nil {
			if l < len(old) {
				return old[l]
			}
			if len(old) > 0 {
				return old[len(old)-1]
			}
		}
		return l
	}
	newMap := []int{0, lookup(1)} // index = line of the new text
	emitOld := func(b []byte) {
		for _, ch := range b {
			out.WriteByte(ch)
			if ch == '\n' {
				oldLine++
				newMap = append(newMap, lookup(oldLine))
			}
		}
	}
	cur := 0
	for _, e := range edits {
		if e.off < cur || e.off+e.del > len(src) {
			continue
		}
		emitOld(src[cur:e.off])
		for i := 0; i < len(e.ins); i++ {
			out.WriteByte(e.ins[i])
			if e.ins[i] == '\n' {
				newMap = append(newMap, lookup(oldLine))
			}
		}
		for _, ch := range src[e.off : e.off+e.del] {
			if ch == '\n' {
				oldLine++
			}
		}
		cur = e.off + e.del
	}
	emitOld(src[cur:])
	return newMap, os.WriteFile(path, out.Bytes(), 0644)
}

// normalise builds the normalised copy of repo; nil info when the tree has no function outside the vocabulary.
func normalise(repo string, vocab map[string]bool, decls *refDecls) (*normInfo, error) {
	pkgs, err := loadSyntax(repo)
	if err != nil {
		return nil, err
	}
	nf := newFunctions(pkgs, vocab)
	nRen := 0
	if decls != nil {
		r, _ := computeRenames(pkgs, decls)
		nRen = len(r) + len(computeConversions(pkgs, decls))
	}
	if len(nf) == 0 && len(localClosures(pkgs)) == 0 && !hasClosureTables(pkgs) && nRen == 0 {
		return nil, nil
	}
	tmp, err := os.MkdirTemp("", "hlnorm-")
	if err != nil {
		return nil, err
	}
	if out, err := exec.Command("rsync", "-a", "--exclude", ".git", "--exclude", "/docs", repo+"/", tmp+"/").CombinedOutput(); err != nil {
		os.RemoveAll(tmp)
		return nil, fmt.Errorf("copy: %v %s", err, out)
	}
	info := &normInfo{dir: tmp, lineMap: map[string][]int{}}
	for _, c := range nf {
		info.NewFuncs = append(info.NewFuncs, c.name)
	}
	sort.Strings(info.NewFuncs)
	// round 0: names of the reference tree that were changed are put back (renames.go)
	for pass := 0; nRen > 0 && pass < 3; pass++ {
		pkgs, err = loadSyntax(tmp)
		if err != nil {
			return info, fmt.Errorf("copy does not type-check after putting names back: %v", err)
		}
		ren, notes := computeRenames(pkgs, decls)
		N := &normaliser{pkgs: pkgs, info: info, edits: map[string][]textEdit{}}
		if len(pkgs) > 0 {
			N.fset = pkgs[0].Fset
		}
		if len(ren) == 0 {
			// nothing (more) was merely renamed: methods that were turned into functions get their receiver back
			for _, cv := range computeConversions(pkgs, decls) {
				if conversionEdits(N, pkgs, cv) {
					notes = append(notes, cv.note)
				}
			}
			if len(N.edits) == 0 {
				break
			}
		}
		renameEdits(N, pkgs, ren)
		for fn, eds := range N.edits {
			rel, _ := filepath.Rel(tmp, fn)
			m, err := rewriteFile(fn, eds, info.lineMap[rel])
			if err != nil {
				return info, err
			}
			info.lineMap[rel] = m
		}
		info.Renamed = append(info.Renamed, notes...)
	}
	if nRen > 0 {
		// what counts as new is decided after the names are back
		if p2, err2 := loadSyntax(tmp); err2 == nil {
			info.NewFuncs = info.NewFuncs[:0]
			for _, c := range newFunctions(p2, vocab) {
				info.NewFuncs = append(info.NewFuncs, c.name)
			}
			sort.Strings(info.NewFuncs)
		}
	}
	innermostFirst := true
	for round := 1; round <= 10; round++ {
		pkgs, err = loadSyntax(tmp)
		if err != nil && fixUnusedImports(tmp, err.Error()) {
			// (an import added for a type that the expansion then did not have to spell)
			pkgs, err = loadSyntax(tmp)
		}
		if err != nil {
			return info, fmt.Errorf("normalised copy does not type-check after round %d: %v", round-1, err)
		}
		N := &normaliser{pkgs: pkgs, cands: map[*types.Func]candidate{}, reason: map[*types.Func]string{}, info: info, edits: map[string][]textEdit{}, addImp: map[string]map[string]string{}, seq: round * 1000, litOf: map[*types.Var]*ast.FuncLit{}}
		if len(pkgs) > 0 {
			N.fset = pkgs[0].Fset
		}
		for _, c := range newFunctions(pkgs, vocab) {
			N.cands[c.obj] = c
			N.reason[c.obj] = inlinable(c)
		}
		if innermostFirst {
			// innermost first: a function whose body calls another function to expand is itself expanded once that
			// has happened, so that what the inner one declares (and a literal it returns may use) is treated as the
			// outer body's own
			N.pending = map[*types.Func]bool{}
			for o, c := range N.cands {
				ast.Inspect(c.fd.Body, func(n ast.Node) bool {
					if call, ok := n.(*ast.CallExpr); ok {
						if o2, _ := N.staticCallee(c.pkg, call); o2 != nil && o2 != o {
							if _, isC := N.cands[o2]; isC && (N.reason[o2] == "" || N.reason[o2] == "defer") {
								N.pending[o] = true
							}
						}
					}
					return true
				})
			}
		}
		// parameters of already expanded helpers that are bound to a function literal: `__pN_f := (func() T)(func() T {…})`
		bound := map[*types.Var]string{}
		boundExpr := map[*types.Var]ast.Expr{}
		boundAliasDef := map[*types.Var]*ast.AssignStmt{}
		aliasMarked := map[*types.Var]bool{}
		for _, p := range pkgs {
			if !strings.HasPrefix(p.PkgPath, "github.com/jhalter/mobius") {
				continue
			}
			// hoisted parameters (`var __vN___pM_f T; … __vN___pM_f = …`) are bound by their one assignment
			nAssign := map[*types.Var]int{}
			for _, f := range p.Syntax {
				ast.Inspect(f, func(n ast.Node) bool {
					if as, ok := n.(*ast.AssignStmt); ok && as.Tok == token.ASSIGN {
						for _, l := range as.Lhs {
							if id := identOf(l); id != nil {
								if v, ok := p.TypesInfo.Uses[id].(*types.Var); ok {
									nAssign[v]++
								}
							}
						}
					}
					return true
				})
			}
			via := map[*types.Var]*types.Var{} // bound to whatever another such variable is bound to
			viaExpr := map[*types.Var]ast.Expr{}
			for _, f := range p.Syntax {
				ast.Inspect(f, func(n ast.Node) bool {
					as, ok := n.(*ast.AssignStmt)
					if !ok || as.Tok != token.DEFINE && as.Tok != token.ASSIGN || len(as.Lhs) != len(as.Rhs) {
						return true
					}
					for i, l := range as.Lhs {
						id, ok := l.(*ast.Ident)
						if !ok {
							continue
						}
						var v *types.Var
						switch {
						case as.Tok == token.DEFINE && strings.HasPrefix(id.Name, "__p"):
							v, _ = p.TypesInfo.Defs[id].(*types.Var)
						case as.Tok == token.ASSIGN && strings.HasPrefix(id.Name, "__v") && strings.Contains(id.Name, "___p"):
							v, _ = p.TypesInfo.Uses[id].(*types.Var)
							if v != nil && nAssign[v] != 1 {
								v = nil
							}
						case as.Tok == token.ASSIGN && strings.HasPrefix(id.Name, "__r"):
							// the result variable of an expansion that is given a function value once (`return x.mu.Unlock`)
							v, _ = p.TypesInfo.Uses[id].(*types.Var)
							if v != nil && nAssign[v] != 1 {
								v = nil
							}
						case as.Tok == token.DEFINE && id.Name != "_":
							// `chat, unlock := __rN_0, __rN_1`: a local that takes over such a result and is never assigned again
							if rid := identOf(ast.Unparen(as.Rhs[i])); rid != nil && strings.HasPrefix(rid.Name, "__r") {
								v, _ = p.TypesInfo.Defs[id].(*types.Var)
								if v != nil && nAssign[v] != 0 {
									v = nil
								}
								if v != nil {
									boundAliasDef[v] = as
								}
							}
						}
						if v == nil {
							continue
						}
						r := ast.Unparen(as.Rhs[i])
						if c, ok := r.(*ast.CallExpr); ok && len(c.Args) == 1 {
							if tv, isT := p.TypesInfo.Types[c.Fun]; isT && tv.IsType() {
								r = ast.Unparen(c.Args[0])
							}
						}
						if fl, ok := r.(*ast.FuncLit); ok {
							if as.Tok == token.DEFINE {
								N.litOf[v] = fl
							}
						} else if isFuncValue(p, r) {
							bound[v] = N.text(r)
							boundExpr[v] = r
						} else if rid := identOf(r); rid != nil && (strings.HasPrefix(rid.Name, "__p") || strings.HasPrefix(rid.Name, "__v") || strings.HasPrefix(rid.Name, "__r")) {
							if w, ok := p.TypesInfo.Uses[rid].(*types.Var); ok {
								via[v] = w
								viaExpr[v] = r
							}
						}
					}
					return true
				})
			}
			for changed := true; changed; {
				changed = false
				for v, w := range via {
					if _, done := bound[v]; done {
						continue
					}
					if t, ok := bound[w]; ok {
						bound[v] = t
						boundExpr[v] = viaExpr[v]
						changed = true
					}
				}
			}
		}
		// … or to a named function / method value (`__pN_f := (func(int) bool)(cc.Authorize)`): a call of the parameter is
		// a call of that function
		for _, p := range pkgs {
			if len(bound) == 0 || !strings.HasPrefix(p.PkgPath, "github.com/jhalter/mobius") {
				continue
			}
			// a binding whose variable is only ever called (besides its `_ = v` marker) is emptied once the calls are
			// spelled with the function itself, so that the function is not kept alive by the binding alone
			callUse := map[*ast.Ident]bool{}
			markerUse := map[*ast.Ident]bool{} // `_ = v` markers and the left-hand side of the binding itself
			for _, f := range p.Syntax {
				ast.Inspect(f, func(n ast.Node) bool {
					switch x := n.(type) {
					case *ast.CallExpr:
						if id, ok := x.Fun.(*ast.Ident); ok {
							callUse[id] = true
						}
					case *ast.AssignStmt:
						allBlank := true
						for _, l := range x.Lhs {
							if id := identOf(l); id == nil || id.Name != "_" {
								allBlank = false
							}
							if id := identOf(l); id != nil {
								markerUse[id] = true
							}
						}
						if allBlank {
							for _, r := range x.Rhs {
								if id := identOf(r); id != nil {
									markerUse[id] = true
								}
							}
						}
					}
					return true
				})
			}
			other := map[*types.Var]int{}
			calls := map[*types.Var]int{}
			for id, o := range p.TypesInfo.Uses {
				if v, ok := o.(*types.Var); ok && boundExpr[v] != nil {
					if callUse[id] {
						calls[v]++
					} else if !markerUse[id] {
						other[v]++
					}
				}
			}
			for v, e := range boundExpr {
				// only once no call of the variable is left (a literal expanded in the same round may still carry one)
				if v.Pkg() == p.Types && other[v] == 0 && calls[v] == 0 && boundAliasDef[v] == nil {
					if _, isNil := e.(*ast.Ident); isNil && e.(*ast.Ident).Name == "nil" {
						continue
					}
					fn := N.fset.Position(e.Pos()).Filename
					so, eo := N.fset.Position(e.Pos()).Offset, N.fset.Position(e.End()).Offset
					N.edits[fn] = append(N.edits[fn], textEdit{so, eo - so, "nil"})
				}
			}
			for _, f := range p.Syntax {
				ast.Inspect(f, func(n ast.Node) bool {
					c, ok := n.(*ast.CallExpr)
					if !ok {
						return true
					}
					id, ok := c.Fun.(*ast.Ident)
					if !ok {
						return true
					}
					v, _ := p.TypesInfo.Uses[id].(*types.Var)
					if t, ok := bound[v]; ok && v != nil {
						fn := N.fset.Position(id.Pos()).Filename
						if def := boundAliasDef[v]; def != nil && !aliasMarked[v] {
							// the local keeps a use once its calls are spelled with the function itself
							aliasMarked[v] = true
							marker := "; _ = " + v.Name()
							eo := N.fset.Position(def.End()).Offset
							if src := N.src(fn); !bytes.HasPrefix(src[eo:], []byte(marker)) {
								N.edits[fn] = append(N.edits[fn], textEdit{eo, 0, marker})
							}
						}
						N.edits[fn] = append(N.edits[fn], textEdit{N.fset.Position(id.Pos()).Offset, len(id.Name), t})
						info.Inlined = append(info.Inlined, "bound "+t+" ← "+id.Name)
					}
					return true
				})
			}
		}
		refolded := false
		if round == 1 {
			N.refoldWrappers(pkgs)
			// (a round of its own: the calls it spells differently must not be expanded in the same pass)
			refolded = len(N.edits) > 0
		}
		if !refolded {
			N.funcGlobalsToFuncs(pkgs)
		}
		if !refolded {
			N.substituteFuncGlobals(pkgs)
		}
		N.local = localClosures(pkgs)
		N.resultLit = resultClosures(pkgs)
		// a function literal bound to a parameter of an expanded helper that calls it more than once: every call is
		// expanded, and the literal goes once none is left
		for _, p := range pkgs {
			if len(N.litOf) == 0 || !strings.HasPrefix(p.PkgPath, "github.com/jhalter/mobius") {
				continue
			}
			callFun := map[*ast.Ident]bool{}
			markerUse := map[*ast.Ident]bool{}
			for _, f := range p.Syntax {
				ast.Inspect(f, func(n ast.Node) bool {
					switch x := n.(type) {
					case *ast.CallExpr:
						if id := identOf(x.Fun); id != nil {
							callFun[id] = true
						}
					case *ast.AssignStmt:
						allBlank := true
						for _, l := range x.Lhs {
							if id := identOf(l); id == nil || id.Name != "_" {
								allBlank = false
							}
						}
						if allBlank {
							for _, r := range x.Rhs {
								if id := identOf(r); id != nil {
									markerUse[id] = true
								}
							}
						}
					}
					return true
				})
			}
			calls, others := map[*types.Var]int{}, map[*types.Var]int{}
			for id, o := range p.TypesInfo.Uses {
				if v, ok := o.(*types.Var); ok && N.litOf[v] != nil {
					switch {
					case callFun[id]:
						calls[v]++
					case markerUse[id]:
					default:
						others[v]++
					}
				}
			}
			for v, lit := range N.litOf {
				if v.Pkg() == p.Types && calls[v] >= 2 && others[v] == 0 && N.resultLit[v] == nil && N.local[v] == nil {
					N.resultLit[v] = &localClosure{v: v, lit: lit, uses: calls[v]}
				}
			}
		}
		// (a round that changed something is always followed by another look: what it wrote may be reducible further)
		if round == 1 && len(N.cands) == 0 && len(N.litOf) == 0 && len(N.edits) == 0 && len(N.local) == 0 && len(N.resultLit) == 0 && !hasClosureTables(pkgs) {
			break
		}
		left := map[string]bool{}
		for _, p := range pkgs {
			if !strings.HasPrefix(p.PkgPath, "github.com/jhalter/mobius") || refolded {
				continue
			}
			for _, f := range p.Syntax {
				for _, d := range f.Decls {
					fd, ok := d.(*ast.FuncDecl)
					if !ok || fd.Body == nil {
						continue
					}
					var walkList func(list []ast.Stmt)
					var walkStmt func(s ast.Stmt)
					walkList = func(list []ast.Stmt) {
						for i, s := range list {
							N.cur, N.next, N.lastOfBody = s, nil, false
							if i+1 < len(list) {
								N.next = list[i+1]
							} else if len(fd.Body.List) > 0 && s == fd.Body.List[len(fd.Body.List)-1] && (fd.Type.Results == nil || len(fd.Type.Results.List) == 0) {
								N.lastOfBody = true
							}
							if N.splitIfInit(p, s) || N.switchToIf(p, s) || N.unrollTable(p, f, fd, list, i) || N.unrollFuncList(p, f, fd, list, i) || N.unrollArrayRange(p, f, fd, list, i) || N.expandRangeFunc(p, f, fd, s) || N.wrapGoCall(p, f, fd, s) || N.afterFuncAsGo(p, f, fd, s) || N.wrapMethodValue(p, f, fd, s) {
								continue
							}
							if call, dd, recv := N.firstEligibleCall(p, s); call != nil {
								if why := N.expand(p, f, fd, s, call, dd, recv); why == "" {
									continue
								} else {
									left[dd.name+" in "+declName(p, fd)+": "+why] = true
								}
							} else if N.inlineExprCall(p, f, fd, s) {
								continue
							}
							walkStmt(s)
						}
					}
					lits := func(n ast.Node) {
						if n == nil {
							return
						}
						ast.Inspect(n, func(m ast.Node) bool {
							if fl, ok := m.(*ast.FuncLit); ok {
								walkList(fl.Body.List)
								return false
							}
							return true
						})
					}
					walkStmt = func(s ast.Stmt) {
						switch x := s.(type) {
						case *ast.BlockStmt:
							walkList(x.List)
						case *ast.IfStmt:
							lits(x.Init)
							lits(x.Cond)
							walkList(x.Body.List)
							if x.Else != nil {
								// `else if init; cond {…}` with a call to expand in its header: the else branch gets a
								// block of its own (`else { <expansion>; if … }`), which changes nothing
								if ei, isIf := x.Else.(*ast.IfStmt); isIf {
									N.cur, N.next, N.lastOfBody = ei, nil, false
									if N.splitIfInit(p, ei) {
										return
									}
									if call, dd, recv := N.firstEligibleCall(p, ei); call != nil {
										fn := N.fset.Position(ei.Pos()).Filename
										so, eo := N.fset.Position(ei.Pos()).Offset, N.fset.Position(ei.End()).Offset
										mark := len(N.edits[fn])
										N.edits[fn] = append(N.edits[fn], textEdit{so, 0, "{\n"})
										if why := N.expand(p, f, fd, ei, call, dd, recv); why == "" {
											N.edits[fn] = append(N.edits[fn], textEdit{eo, 0, "\n}"})
											return
										} else {
											N.edits[fn] = N.edits[fn][:mark]
											left[dd.name+" in "+declName(p, fd)+": "+why] = true
										}
									}
								}
								walkStmt(x.Else)
							}
						case *ast.ForStmt:
							walkList(x.Body.List)
						case *ast.RangeStmt:
							walkList(x.Body.List)
						case *ast.SwitchStmt:
							for _, cc := range x.Body.List {
								walkList(cc.(*ast.CaseClause).Body)
							}
						case *ast.TypeSwitchStmt:
							for _, cc := range x.Body.List {
								walkList(cc.(*ast.CaseClause).Body)
							}
						case *ast.SelectStmt:
							for _, cc := range x.Body.List {
								walkList(cc.(*ast.CommClause).Body)
							}
						case *ast.LabeledStmt:
							walkStmt(x.Stmt)
						default:
							lits(s)
						}
					}
					walkList(fd.Body.List)
				}
			}
		}
		// a returned literal whose every call was expanded is dropped (its variable then holds nil and is never called)
		doneLit := map[*ast.FuncLit]bool{}
		for _, lc := range N.resultLit {
			if lc.def != nil && lc.expanded > 0 && lc.expanded == lc.uses {
				// the variable is no longer used: keep the compiler content
				fn := N.fset.Position(lc.def.Pos()).Filename
				eo := N.fset.Position(lc.def.End()).Offset
				N.edits[fn] = append(N.edits[fn], textEdit{eo, 0, "; _ = " + lc.v.Name()})
			}
		}
		for _, lc := range N.resultLit {
			if lc.expanded > 0 && lc.expanded == lc.uses && !doneLit[lc.lit] {
				// only when no other variable still calls the same literal
				other := false
				for _, lc2 := range N.resultLit {
					if lc2 != lc && lc2.lit == lc.lit && lc2.expanded != lc2.uses {
						other = true
					}
				}
				if !other {
					doneLit[lc.lit] = true
					lf := N.fset.Position(lc.lit.Pos()).Filename
					lo, le := N.fset.Position(lc.lit.Pos()).Offset, N.fset.Position(lc.lit.End()).Offset
					N.edits[lf] = append(N.edits[lf], textEdit{lo, le - lo, "nil"})
				}
			}
		}
		for _, lc := range N.local {
			if lc.expanded == 0 {
				continue
			}
			fn := N.fset.Position(lc.def.Pos()).Filename
			so, eo := N.fset.Position(lc.def.Pos()).Offset, N.fset.Position(lc.def.End()).Offset
			if lc.expanded == lc.uses {
				// every call was expanded: the closure itself goes (with the marker an earlier round left behind it)
				marker := "; _ = " + lc.v.Name()
				if src := N.src(fn); bytes.HasPrefix(src[eo:], []byte(marker)) {
					eo += len(marker)
				}
				N.edits[fn] = append(N.edits[fn], textEdit{so, eo - so, "{}"})
			} else {
				marker := "; _ = " + lc.v.Name()
				if src := N.src(fn); !bytes.HasPrefix(src[eo:], []byte(marker)) {
					N.edits[fn] = append(N.edits[fn], textEdit{eo, 0, marker})
				}
			}
		}
		info.Left = info.Left[:0]
		for l := range left {
			info.Left = append(info.Left, l)
		}
		sort.Strings(info.Left)
		if len(N.edits) == 0 {
			if innermostFirst && N.skipped > 0 {
				// what was waited for cannot be expanded: the rest is expanded as it stands
				innermostFirst = false
				continue
			}
			break
		}
		info.Rounds = round
		for fn, imps := range N.addImp {
			// new imports go right after the package clause
			for _, p := range pkgs {
				for _, f := range p.Syntax {
					if N.fset.Position(f.Pos()).Filename != fn {
						continue
					}
					off := N.fset.Position(f.Name.End()).Offset
					var sb strings.Builder
					var paths []string
					for pth := range imps {
						paths = append(paths, pth)
					}
					sort.Strings(paths)
					for _, pth := range paths {
						fmt.Fprintf(&sb, "; import %s %q", imps[pth], pth)
					}
					N.edits[fn] = append(N.edits[fn], textEdit{off, 0, sb.String()})
				}
			}
		}
		for fn, eds := range N.edits {
			rel, _ := filepath.Rel(tmp, fn)
			m, err := rewriteFile(fn, eds, info.lineMap[rel])
			if err != nil {
				return info, err
			}
			info.lineMap[rel] = m
		}
	}
	// blank out the helpers nobody refers to any more
	pkgs, err = loadSyntax(tmp)
	if err != nil {
		return info, fmt.Errorf("normalised copy does not type-check: %v", err)
	}
	fset := pkgs[0].Fset
	used := map[types.Object]bool{}
	for _, p := range pkgs {
		for idn, o := range p.TypesInfo.Uses {
			_ = idn
			used[o] = true
		}
	}
	edits := map[string][]textEdit{}
	for _, c := range newFunctions(pkgs, vocab) {
		if used[c.obj] || ast.IsExported(c.fd.Name.Name) && c.fd.Recv != nil && implementsSomething(pkgs, c.obj) {
			continue
		}
		start := c.fd.Pos()
		if c.fd.Doc != nil {
			start = c.fd.Doc.Pos()
		}
		s, e := fset.Position(start), fset.Position(c.fd.End())
		src, _ := os.ReadFile(s.Filename)
		blank := strings.Repeat("\n", bytes.Count(src[s.Offset:e.Offset], []byte("\n")))
		edits[s.Filename] = append(edits[s.Filename], textEdit{s.Offset, e.Offset - s.Offset, blank})
		info.Removed = append(info.Removed, c.name)
	}
	for fn, eds := range edits {
		rel, _ := filepath.Rel(tmp, fn)
		m, err := rewriteFile(fn, eds, info.lineMap[rel])
		if err != nil {
			return info, err
		}
		info.lineMap[rel] = m
	}
	// removing a helper can leave an import unused: let the loader tell, and fall back to keeping everything
	if _, err := loadSyntax(tmp); err != nil {
		// put blank identifiers for the imports that became unused
		if !fixUnusedImports(tmp, err.Error()) {
			return info, fmt.Errorf("normalised copy does not type-check after removing expanded helpers: %v", err)
		}
		if _, err := loadSyntax(tmp); err != nil {
			return info, fmt.Errorf("normalised copy does not type-check after removing expanded helpers: %v", err)
		}
	}
	sort.Strings(info.Inlined)
	sort.Strings(info.Removed)
	return info, nil
}

// implementsSomething: the method may be needed to satisfy an interface (kept even when never called statically).
func implementsSomething(pkgs []*packages.Package, f *types.Func) bool {
	return true
}

// fixUnusedImports turns `"x" imported and not used` errors into blank imports in the copy.
func fixUnusedImports(dir, errText string) bool {
	fixed := false
	// `"path" imported as alias and not used`: an import an expansion added for a type it then did not spell
	for _, m := range regexp.MustCompile(`([^\s:;]+\.go):\d+:\d+: \\?"([^"\\]+)\\?" imported as (\w+) and not used`).FindAllStringSubmatch(errText, -1) {
		file, path, alias := m[1], m[2], m[3]
		if !filepath.IsAbs(file) {
			file = filepath.Join(dir, file)
		}
		src, err := os.ReadFile(file)
		if err != nil {
			continue
		}
		old := "import " + alias + " \"" + path + "\""
		if strings.Contains(string(src), old) {
			if os.WriteFile(file, []byte(strings.Replace(string(src), old, "import _ \""+path+"\"", 1)), 0644) == nil {
				fixed = true
			}
		}
	}
	for _, part := range strings.Split(errText, "; ") {
		i := strings.Index(part, " imported and not used")
		if i < 0 {
			continue
		}
		// file:line:col: "path" imported and not used
		fields := strings.SplitN(part, ": ", 2)
		if len(fields) != 2 {
			continue
		}
		loc := strings.Split(fields[0], ":")
		if len(loc) < 2 {
			continue
		}
		file := loc[0]
		var line int
		fmt.Sscanf(loc[1], "%d", &line)
		src, err := os.ReadFile(file)
		if err != nil {
			continue
		}
		lines := strings.Split(string(src), "\n")
		if line < 1 || line > len(lines) {
			continue
		}
		l := lines[line-1]
		q := strings.Index(l, "\"")
		if q < 0 {
			continue
		}
		// replace an optional alias by the blank identifier
		pre := strings.TrimRight(l[:q], " \t")
		if strings.TrimSpace(pre) == "import" {
			// `import "x"` on one line
			lines[line-1] = pre + " _ " + l[q:]
			if os.WriteFile(file, []byte(strings.Join(lines, "\n")), 0644) == nil {
				fixed = true
			}
			continue
		}
		k := strings.LastIndexAny(pre, " \t;")
		head := pre[:k+1]
		if strings.HasSuffix(strings.TrimSpace(head), "import") || strings.TrimSpace(head) == "" {
			lines[line-1] = head + "_ " + l[q:]
		} else {
			lines[line-1] = pre[:k+1] + "_ " + l[q:]
		}
		if os.WriteFile(file, []byte(strings.Join(lines, "\n")), 0644) == nil {
			fixed = true
		}
	}
	return fixed
}

// expandRangeFunc: `for k, v := range F(args) { BODY }` where F is a function outside the vocabulary whose body is
// `return func(yield func(…) bool) { ITER }` and ITER hands out its elements only as `if !yield(e…) { return }`.
// The loop is written as ITER with BODY in the place of every such statement (k, v bound to e…); a `continue` of the
// loop leaves that copy of BODY, a `break` of the loop (and the iterator's own `return`) leaves the whole thing.
// Everything ITER and F declare gets a name of its own, so that BODY's names keep their meaning.
func (N *normaliser) expandRangeFunc(p *packages.Package, file *ast.File, fd *ast.FuncDecl, s ast.Stmt) bool {
	rs, ok := s.(*ast.RangeStmt)
	if !ok {
		return false
	}
	call, ok := ast.Unparen(rs.X).(*ast.CallExpr)
	if !ok {
		return false
	}
	o, recvExpr := N.staticCallee(p, call)
	c, isCand := N.cands[o]
	if o == nil || !isCand || len(c.fd.Body.List) != 1 {
		return false
	}
	ret, ok := c.fd.Body.List[0].(*ast.ReturnStmt)
	if !ok || len(ret.Results) != 1 {
		return false
	}
	lit, ok := ast.Unparen(ret.Results[0]).(*ast.FuncLit)
	if !ok || lit.Type.Params == nil || len(lit.Type.Params.List) != 1 || len(lit.Type.Params.List[0].Names) != 1 {
		return false
	}
	yieldObj := c.pkg.TypesInfo.Defs[lit.Type.Params.List[0].Names[0]]
	sig := o.Type().(*types.Signature)
	if sig.Variadic() || len(call.Args) != sig.Params().Len() {
		return false
	}
	// the yield statements
	type ysite struct {
		st   ast.Stmt
		args []ast.Expr
		pre  ast.Expr // `if pre && !yield(…)`
	}
	var sites []ysite
	okIter := true
	ast.Inspect(lit.Body, func(n ast.Node) bool {
		switch x := n.(type) {
		case *ast.FuncLit:
			return false
		case *ast.IfStmt:
			cond, pre := x.Cond, ast.Expr(nil)
			if b, isB := cond.(*ast.BinaryExpr); isB && b.Op == token.LAND {
				cond, pre = b.Y, b.X
			}
			if u, isU := cond.(*ast.UnaryExpr); isU && u.Op == token.NOT && x.Init == nil && x.Else == nil && len(x.Body.List) == 1 {
				if yc, isC := u.X.(*ast.CallExpr); isC {
					if id, isID := yc.Fun.(*ast.Ident); isID && c.pkg.TypesInfo.Uses[id] == yieldObj {
						if r, isR := x.Body.List[0].(*ast.ReturnStmt); isR && len(r.Results) == 0 {
							usesYield := false
							if pre != nil {
								ast.Inspect(pre, func(m ast.Node) bool {
									if mid, ok := m.(*ast.Ident); ok && c.pkg.TypesInfo.Uses[mid] == yieldObj {
										usesYield = true
									}
									return true
								})
							}
							if !usesYield {
								sites = append(sites, ysite{x, yc.Args, pre})
								return false
							}
						}
					}
				}
			}
		case *ast.ExprStmt:
			if yc, isC := x.X.(*ast.CallExpr); isC {
				if id, isID := yc.Fun.(*ast.Ident); isID && c.pkg.TypesInfo.Uses[id] == yieldObj {
					sites = append(sites, ysite{x, yc.Args, nil})
					return false
				}
			}
		case *ast.Ident:
			if c.pkg.TypesInfo.Uses[x] == yieldObj {
				okIter = false // yield used in another way
			}
		case *ast.DeferStmt, *ast.GoStmt:
			okIter = false
		}
		return okIter
	})
	if !okIter || len(sites) == 0 {
		return false
	}
	// BODY: no labels, no goto; its own break / continue are redirected
	okBody := true
	var bodyEdits []textEdit
	off := func(pos token.Pos) int { return N.fset.Position(pos).Offset }
	N.seq++
	id := N.seq
	var bodyLabels []string
	var scan func(n ast.Node, inLoop, inSwitch bool)
	scan = func(n ast.Node, inLoop, inSwitch bool) {
		ast.Inspect(n, func(m ast.Node) bool {
			if m == nil || !okBody {
				return false
			}
			switch x := m.(type) {
			case *ast.FuncLit:
				return false
			case *ast.LabeledStmt:
				// (the labels of expansions inside the body get a name of their own in every copy)
				if !strings.HasPrefix(x.Label.Name, "__L") {
					okBody = false
				}
				bodyLabels = append(bodyLabels, x.Label.Name)
			case *ast.ForStmt:
				scan(x.Body, true, inSwitch)
				return false
			case *ast.RangeStmt:
				if m != n {
					scan(x.Body, true, inSwitch)
					return false
				}
			case *ast.SwitchStmt:
				scan(x.Body, inLoop, true)
				return false
			case *ast.TypeSwitchStmt:
				scan(x.Body, inLoop, true)
				return false
			case *ast.SelectStmt:
				scan(x.Body, inLoop, true)
				return false
			case *ast.BranchStmt:
				switch {
				case x.Tok == token.GOTO || x.Label != nil && x.Tok != token.BREAK && x.Tok != token.CONTINUE:
					okBody = false
				case x.Label != nil:
					// a label outside the loop keeps its meaning
				case x.Tok == token.CONTINUE && !inLoop:
					bodyEdits = append(bodyEdits, textEdit{off(x.Pos()), off(x.End()) - off(x.Pos()), fmt.Sprintf("break __LC%d", id)})
				case x.Tok == token.BREAK && !inLoop && !inSwitch:
					bodyEdits = append(bodyEdits, textEdit{off(x.Pos()), off(x.End()) - off(x.Pos()), fmt.Sprintf("break __LR%d", id)})
				}
			}
			return true
		})
	}
	scan(rs.Body, false, false)
	if !okBody {
		return false
	}
	callerFile := N.fset.Position(rs.Pos()).Filename
	csrc := N.src(callerFile)
	bodyText := applyEdits(csrc[off(rs.Body.Lbrace):off(rs.Body.Rbrace)+1], bodyEdits, off(rs.Body.Lbrace))
	// names: receiver, parameters of F and everything ITER declares
	d := &calleeDesc{name: c.name, pkg: c.pkg, ftype: c.fd.Type, recv: c.fd.Recv, body: c.fd.Body, sig: sig, fn: o}
	rename := map[types.Object]string{}
	var lhs, rhs []string
	if c.fd.Recv != nil && len(c.fd.Recv.List) > 0 && len(c.fd.Recv.List[0].Names) > 0 {
		if recvExpr == nil {
			return false
		}
		rid := c.fd.Recv.List[0].Names[0]
		nn := fmt.Sprintf("__p%d_%s", id, rid.Name)
		rename[c.pkg.TypesInfo.Defs[rid]] = nn
		rt := sig.Recv().Type()
		et := p.TypesInfo.TypeOf(recvExpr)
		_, rptr := rt.(*types.Pointer)
		_, eptr := et.Underlying().(*types.Pointer)
		rx := N.text(recvExpr)
		switch {
		case rptr && !eptr:
			rx = "&(" + rx + ")"
		case !rptr && eptr:
			rx = "*(" + rx + ")"
		}
		lhs, rhs = append(lhs, nn), append(rhs, rx)
	}
	k := 0
	if c.fd.Type.Params != nil {
		for _, f := range c.fd.Type.Params.List {
			for _, nm := range f.Names {
				nn := fmt.Sprintf("__p%d_%s", id, nm.Name)
				rename[c.pkg.TypesInfo.Defs[nm]] = nn
				lhs = append(lhs, nn)
				rhs = append(rhs, "("+N.typeText(p, file, sig.Params().At(k).Type())+")("+N.text(call.Args[k])+")")
				k++
			}
			if len(f.Names) == 0 {
				k++
			}
		}
	}
	ast.Inspect(lit.Body, func(n ast.Node) bool {
		if idn, ok := n.(*ast.Ident); ok {
			if def := c.pkg.TypesInfo.Defs[idn]; def != nil && idn.Name != "_" {
				if _, isVar := def.(*types.Var); isVar {
					rename[def] = fmt.Sprintf("__i%d_%s", id, idn.Name)
				}
			}
		}
		return true
	})
	// ITER with renames and the yield statements replaced
	capture := ""
	var iedits []textEdit
	isSite := map[ast.Stmt]int{}
	for i, ys := range sites {
		isSite[ys.st] = i
	}
	iterFile := N.fset.Position(lit.Pos()).Filename
	isrc := N.src(iterFile)
	var walk func(n ast.Node) bool
	walk = func(n ast.Node) bool {
		if st, isSt := n.(ast.Stmt); isSt {
			if i, isS := isSite[st]; isS {
				x := st
				var sb strings.Builder
				if sites[i].pre != nil {
					sb.WriteString("if " + N.rewriteExpr(p, file, d, rename, sites[i].pre, rs.Pos(), &capture) + " ")
				}
				sb.WriteString("{ ")
				var vars []ast.Expr
				if rs.Key != nil {
					vars = append(vars, rs.Key)
				}
				if rs.Value != nil {
					vars = append(vars, rs.Value)
				}
				var names, vals, marks []string
				allBlank := true
				for _, v := range vars {
					vt := string(csrc[off(v.Pos()):off(v.End())])
					names = append(names, vt)
					if vt != "_" {
						allBlank = false
						marks = append(marks, vt)
					}
				}
				ysig, _ := yieldObj.Type().Underlying().(*types.Signature)
				for j, a := range sites[i].args {
					t := N.rewriteExpr(p, file, d, rename, a, rs.Pos(), &capture)
					if ysig != nil && len(sites[i].args) == ysig.Params().Len() {
						// (typed: `yield(f, nil)` binds the error variable to a nil of its type)
						t = "(" + N.typeText(p, file, ysig.Params().At(j).Type()) + ")(" + t + ")"
					}
					vals = append(vals, t)
				}
				if len(vals) == 1 && len(names) < 2 && sig.Results().Len() == 1 {
					// one value per element, or a pair of which the loop takes the first
					if tup, isTup := c.pkg.TypesInfo.TypeOf(sites[i].args[0]).(*types.Tuple); isTup {
						for len(names) < tup.Len() {
							names = append(names, "_")
						}
					}
				}
				for len(names) < len(vals) {
					names = append(names, "_")
				}
				if len(names) > len(vals) && len(vals) != 1 {
					capture = "range variables and yield arguments do not match"
				}
				op := " := "
				if rs.Tok == token.ASSIGN || allBlank {
					op = " = "
				}
				if len(names) > 0 {
					sb.WriteString(strings.Join(names, ", ") + op + strings.Join(vals, ", ") + "; ")
				}
				if rs.Tok == token.DEFINE {
					for _, m := range marks {
						sb.WriteString("_ = " + m + "; ")
					}
				}
				bt := strings.ReplaceAll(bodyText, fmt.Sprintf("__LC%d", id), fmt.Sprintf("__LC%d_%d", id, i))
				for _, l := range bodyLabels {
					bt = regexp.MustCompile(`\b`+regexp.QuoteMeta(l)+`\b`).ReplaceAllString(bt, fmt.Sprintf("%s_y%d_%d", l, id, i))
				}
				fmt.Fprintf(&sb, "\n__LC%d_%d: switch { default: %s; break __LC%d_%d }\n}", id, i, bt, id, i)
				iedits = append(iedits, textEdit{off(x.Pos()), off(x.End()) - off(x.Pos()), sb.String()})
				return false
			}
		}
		switch x := n.(type) {
		case *ast.ReturnStmt:
			iedits = append(iedits, textEdit{off(x.Pos()), off(x.End()) - off(x.Pos()), fmt.Sprintf("break __LR%d", id)})
			return false
		case *ast.FuncLit:
			ast.Inspect(x.Body, func(m ast.Node) bool {
				if idn, ok := m.(*ast.Ident); ok {
					N.identEdit(p, file, d, rename, idn, rs.Pos(), &iedits, &capture)
				}
				return true
			})
			return false
		case *ast.LabeledStmt:
			// the labels of expansions inside the iterator get a name of their own in this copy
			if !strings.HasPrefix(x.Label.Name, "__L") {
				capture = "label in iterator"
			} else {
				iedits = append(iedits, textEdit{off(x.Label.End()), 0, fmt.Sprintf("_i%d", id)})
			}
		case *ast.BranchStmt:
			if x.Label != nil && strings.HasPrefix(x.Label.Name, "__L") {
				iedits = append(iedits, textEdit{off(x.Label.End()), 0, fmt.Sprintf("_i%d", id)})
			}
			return false
		case *ast.Ident:
			N.identEdit(p, file, d, rename, x, rs.Pos(), &iedits, &capture)
		}
		return true
	}
	ast.Inspect(lit.Body, walk)
	if capture != "" {
		return false
	}
	iterText := applyEdits(isrc[off(lit.Body.Lbrace)+1:off(lit.Body.Rbrace)], iedits, off(lit.Body.Lbrace)+1)
	var sb strings.Builder
	if len(lhs) > 0 {
		blank := make([]string, len(lhs))
		for i := range blank {
			blank[i] = "_"
		}
		fmt.Fprintf(&sb, "%s := %s; %s = %s; ", strings.Join(lhs, ", "), strings.Join(rhs, ", "), strings.Join(blank, ", "), strings.Join(lhs, ", "))
	}
	fmt.Fprintf(&sb, "\n__LR%d: switch { default:\n%s\nbreak __LR%d }\n", id, iterText, id)
	N.edits[callerFile] = append(N.edits[callerFile], textEdit{off(rs.Pos()), off(rs.End()) - off(rs.Pos()), sb.String()})
	callerName := "?"
	if fd != nil {
		callerName = declName(p, fd)
	}
	N.info.Inlined = append(N.info.Inlined, "iterator "+c.name+" ← "+callerName)
	return true
}

// simpleOperand: an expression without effects whose value does not depend on when it is evaluated within one
// statement — names, field chains, literals, addresses and conversions of those.
func simpleOperand(pkg *packages.Package, e ast.Expr) bool {
	switch x := e.(type) {
	case *ast.Ident, *ast.BasicLit:
		return true
	case *ast.ParenExpr:
		return simpleOperand(pkg, x.X)
	case *ast.SelectorExpr:
		if _, isPkg := pkg.TypesInfo.Uses[identOf(x.X)].(*types.PkgName); isPkg {
			return true
		}
		return simpleOperand(pkg, x.X)
	case *ast.UnaryExpr:
		return (x.Op == token.AND || x.Op == token.NOT || x.Op == token.SUB) && simpleOperand(pkg, x.X)
	case *ast.StarExpr:
		return simpleOperand(pkg, x.X)
	case *ast.CallExpr:
		if tv, ok := pkg.TypesInfo.Types[x.Fun]; ok && tv.IsType() && len(x.Args) == 1 {
			return simpleOperand(pkg, x.Args[0])
		}
	}
	return false
}

func identOf(e ast.Expr) *ast.Ident {
	id, _ := e.(*ast.Ident)
	return id
}

// inlineExprCall: a call of a function outside the vocabulary that sits in a conditionally evaluated operand
// (`a || f(x)`), where it cannot be hoisted in front of the statement. When the function's body is one
// `return EXPR` and the call's operands are simple, the call is replaced by EXPR with the operands in the place of
// the parameters.
func (N *normaliser) inlineExprCall(p *packages.Package, file *ast.File, fd *ast.FuncDecl, s ast.Stmt) bool {
	done := false
	var visit func(n ast.Node, cond bool)
	visit = func(n ast.Node, cond bool) {
		if n == nil || done {
			return
		}
		switch x := n.(type) {
		case *ast.FuncLit, *ast.BlockStmt:
			return
		case *ast.BinaryExpr:
			if x.Op == token.LAND || x.Op == token.LOR {
				visit(x.X, cond)
				visit(x.Y, true)
				return
			}
		case *ast.CallExpr:
			if cond && N.tryInlineExpr(p, file, fd, x) {
				done = true
				return
			}
		}
		ast.Inspect(n, func(m ast.Node) bool {
			if m == n {
				return true
			}
			if m == nil || done {
				return false
			}
			switch m.(type) {
			case *ast.FuncLit, *ast.BlockStmt, *ast.BinaryExpr, *ast.CallExpr:
				visit(m, cond)
				return false
			}
			return true
		})
	}
	switch x := s.(type) {
	case *ast.IfStmt:
		if x.Init != nil {
			return false
		}
		visit(x.Cond, false)
	case *ast.ExprStmt, *ast.AssignStmt, *ast.ReturnStmt:
		visit(s, false)
	}
	return done
}

func (N *normaliser) tryInlineExpr(p *packages.Package, file *ast.File, fd *ast.FuncDecl, call *ast.CallExpr) bool {
	o, recvExpr := N.staticCallee(p, call)
	c, isCand := N.cands[o]
	if o == nil || !isCand || len(c.fd.Body.List) != 1 {
		return false
	}
	ret, ok := c.fd.Body.List[0].(*ast.ReturnStmt)
	if !ok || len(ret.Results) != 1 {
		return false
	}
	sig := o.Type().(*types.Signature)
	if sig.Variadic() || sig.TypeParams().Len() > 0 || sig.Results().Len() != 1 || len(call.Args) != sig.Params().Len() {
		return false
	}
	hasLit := false
	ast.Inspect(ret.Results[0], func(n ast.Node) bool {
		if _, isL := n.(*ast.FuncLit); isL {
			hasLit = true
		}
		return true
	})
	if hasLit {
		return false
	}
	d := &calleeDesc{name: c.name, pkg: c.pkg, ftype: c.fd.Type, recv: c.fd.Recv, body: c.fd.Body, sig: sig, fn: o}
	rename := map[types.Object]string{}
	if c.fd.Recv != nil && len(c.fd.Recv.List) > 0 && len(c.fd.Recv.List[0].Names) > 0 {
		if recvExpr == nil || !simpleOperand(p, recvExpr) {
			return false
		}
		rt := sig.Recv().Type()
		et := p.TypesInfo.TypeOf(recvExpr)
		_, rptr := rt.(*types.Pointer)
		_, eptr := et.Underlying().(*types.Pointer)
		rx := "(" + N.text(recvExpr) + ")"
		switch {
		case rptr && !eptr:
			rx = "(&" + rx + ")"
		case !rptr && eptr:
			rx = "(*" + rx + ")"
		}
		rename[c.pkg.TypesInfo.Defs[c.fd.Recv.List[0].Names[0]]] = rx
	}
	k := 0
	if c.fd.Type.Params != nil {
		for _, f := range c.fd.Type.Params.List {
			for _, nm := range f.Names {
				if !simpleOperand(p, call.Args[k]) {
					return false
				}
				rename[c.pkg.TypesInfo.Defs[nm]] = "((" + N.typeText(p, file, sig.Params().At(k).Type()) + ")(" + N.text(call.Args[k]) + "))"
				k++
			}
			if len(f.Names) == 0 {
				if !simpleOperand(p, call.Args[k]) {
					return false
				}
				k++
			}
		}
	}
	// a parameter that the expression assigns to or takes the address of is a variable of its own
	bad := false
	ast.Inspect(ret.Results[0], func(n ast.Node) bool {
		if u, isU := n.(*ast.UnaryExpr); isU && u.Op == token.AND {
			if id := identOf(ast.Unparen(u.X)); id != nil {
				if _, isP := rename[c.pkg.TypesInfo.Uses[id]]; isP {
					bad = true
				}
			}
		}
		return true
	})
	if bad {
		return false
	}
	capture := ""
	text := N.rewriteExpr(p, file, d, rename, ret.Results[0], call.Pos(), &capture)
	if capture != "" {
		return false
	}
	fn := N.fset.Position(call.Pos()).Filename
	so, eo := N.fset.Position(call.Pos()).Offset, N.fset.Position(call.End()).Offset
	N.edits[fn] = append(N.edits[fn], textEdit{so, eo - so, "((" + N.typeText(p, file, sig.Results().At(0).Type()) + ")(" + text + "))"})
	callerName := "?"
	if fd != nil {
		callerName = declName(p, fd)
	}
	N.info.Inlined = append(N.info.Inlined, "expression "+c.name+" ← "+callerName)
	return true
}

// wrapGoCall: `go f(args)` where f is a function outside the vocabulary becomes `go func(p…) { f(p…) }(args)`; the call
// inside the literal is then expanded like any other, so that the rules see what the goroutine does.
func (N *normaliser) wrapGoCall(p *packages.Package, file *ast.File, fd *ast.FuncDecl, s ast.Stmt) bool {
	gs, ok := s.(*ast.GoStmt)
	if !ok {
		return false
	}
	o, recvExpr := N.staticCallee(p, gs.Call)
	if _, isCand := N.cands[o]; o == nil || !isCand {
		return false
	}
	sig := o.Type().(*types.Signature)
	if sig.Variadic() || sig.TypeParams().Len() > 0 || sig.RecvTypeParams().Len() > 0 || len(gs.Call.Args) != sig.Params().Len() {
		return false
	}
	N.seq++
	id := N.seq
	var params, names, args []string
	callee := N.text(gs.Call.Fun)
	if sig.Recv() != nil {
		sel, isSel := ast.Unparen(gs.Call.Fun).(*ast.SelectorExpr)
		if !isSel || recvExpr == nil {
			return false
		}
		rt := p.TypesInfo.TypeOf(recvExpr)
		if rt == nil {
			return false
		}
		rn := fmt.Sprintf("__g%d_recv", id)
		params = append(params, rn+" "+N.typeText(p, file, rt))
		args = append(args, N.text(recvExpr))
		callee = rn + "." + sel.Sel.Name
	}
	for i := 0; i < sig.Params().Len(); i++ {
		if _, isTup := p.TypesInfo.TypeOf(gs.Call.Args[i]).(*types.Tuple); isTup {
			return false
		}
		n := fmt.Sprintf("__g%d_%d", id, i)
		params = append(params, n+" "+N.typeText(p, file, sig.Params().At(i).Type()))
		names = append(names, n)
		args = append(args, N.text(gs.Call.Args[i]))
	}
	fn := N.fset.Position(gs.Pos()).Filename
	so, eo := N.fset.Position(gs.Call.Pos()).Offset, N.fset.Position(gs.Call.End()).Offset
	t := "func(" + strings.Join(params, ", ") + ") { " + callee + "(" + strings.Join(names, ", ") + ") }(" + strings.Join(args, ", ") + ")"
	N.edits[fn] = append(N.edits[fn], textEdit{so, eo - so, t})
	callerName := "?"
	if fd != nil {
		callerName = declName(p, fd)
	}
	N.info.Inlined = append(N.info.Inlined, "go "+o.Name()+" ← "+callerName)
	return true
}

// unrollFuncList: `for _, f := range []func(…) T{a.m1, a.m2, g} { BODY }` with f used in BODY only as the function of
// calls and nothing in BODY leaving or restarting the loop: one copy of BODY per element, with the element in the
// place of f. Elements are named functions, function literals, or methods with pointer receivers bound to a plain
// variable (binding such a method value early or late is the same).
func (N *normaliser) unrollFuncList(p *packages.Package, file *ast.File, fd *ast.FuncDecl, list []ast.Stmt, i int) bool {
	rs, ok := list[i].(*ast.RangeStmt)
	if !ok || rs.Value == nil || rs.Tok != token.DEFINE {
		return false
	}
	if rs.Key != nil {
		if k := identOf(rs.Key); k == nil || k.Name != "_" {
			return false
		}
	}
	vid := identOf(rs.Value)
	if vid == nil {
		return false
	}
	vobj := p.TypesInfo.Defs[vid]
	var lit *ast.CompositeLit
	var def *ast.AssignStmt
	switch x := ast.Unparen(rs.X).(type) {
	case *ast.CompositeLit:
		lit = x
	case *ast.Ident:
		tv, _ := p.TypesInfo.Uses[x].(*types.Var)
		if tv == nil || i == 0 {
			return false
		}
		as, isAs := list[i-1].(*ast.AssignStmt)
		if !isAs || as.Tok != token.DEFINE || len(as.Lhs) != 1 || len(as.Rhs) != 1 {
			return false
		}
		if id := identOf(as.Lhs[0]); id == nil || p.TypesInfo.Defs[id] != types.Object(tv) {
			return false
		}
		uses := 0
		for _, o := range p.TypesInfo.Uses {
			if o == types.Object(tv) {
				uses++
			}
		}
		cl, isCL := as.Rhs[0].(*ast.CompositeLit)
		if uses != 1 || !isCL {
			return false
		}
		lit, def = cl, as
	default:
		return false
	}
	var elemT types.Type
	switch t := p.TypesInfo.TypeOf(lit).Underlying().(type) {
	case *types.Slice:
		elemT = t.Elem()
	case *types.Array:
		elemT = t.Elem()
	default:
		return false
	}
	if _, isSig := elemT.Underlying().(*types.Signature); !isSig || len(lit.Elts) == 0 || len(lit.Elts) > 8 {
		return false
	}
	for _, el := range lit.Elts {
		switch x := ast.Unparen(el).(type) {
		case *ast.FuncLit:
		case *ast.Ident:
			if _, isF := p.TypesInfo.Uses[x].(*types.Func); !isF {
				return false
			}
		case *ast.SelectorExpr:
			sel, has := p.TypesInfo.Selections[x]
			if !has {
				if _, isF := p.TypesInfo.Uses[x.Sel].(*types.Func); !isF {
					return false
				}
				break
			}
			f, isF := sel.Obj().(*types.Func)
			if !isF || sel.Kind() != types.MethodVal || !simpleOperand(p, x.X) {
				return false
			}
			if _, isPtr := f.Type().(*types.Signature).Recv().Type().(*types.Pointer); !isPtr {
				return false
			}
		default:
			return false
		}
	}
	okBody := true
	callFun := map[*ast.Ident]bool{}
	var uses []*ast.Ident
	ast.Inspect(rs.Body, func(n ast.Node) bool {
		switch x := n.(type) {
		case *ast.LabeledStmt:
			okBody = false
		case *ast.BranchStmt:
			okBody = false
		case *ast.CallExpr:
			if id := identOf(x.Fun); id != nil {
				callFun[id] = true
			}
		case *ast.Ident:
			if p.TypesInfo.Uses[x] == vobj {
				if !callFun[x] {
					okBody = false
				}
				uses = append(uses, x)
			}
		}
		return okBody
	})
	if !okBody || len(uses) == 0 {
		return false
	}
	fn := N.fset.Position(rs.Pos()).Filename
	src := N.src(fn)
	off := func(pos token.Pos) int { return N.fset.Position(pos).Offset }
	bs, be := off(rs.Body.Lbrace), off(rs.Body.Rbrace)+1
	var sb strings.Builder
	for _, el := range lit.Elts {
		var eds []textEdit
		for _, u := range uses {
			eds = append(eds, textEdit{off(u.Pos()), len(u.Name), "(" + string(src[off(el.Pos()):off(el.End())]) + ")"})
		}
		sb.WriteString(applyEdits(src[bs:be], eds, bs))
		sb.WriteString("\n")
	}
	start := off(rs.Pos())
	if def != nil {
		start = off(def.Pos())
	}
	N.edits[fn] = append(N.edits[fn], textEdit{start, off(rs.End()) - start, sb.String()})
	N.info.Inlined = append(N.info.Inlined, "function list loop written out at "+N.fset.Position(rs.Pos()).String())
	return true
}

// ifaceParamOnlyCalled: parameter n of d has an interface type, the argument has another (named) type, and every use
// of the parameter in the body is as the receiver of a method call.
func (N *normaliser) ifaceParamOnlyCalled(pkg *packages.Package, d *calleeDesc, n *ast.Ident, pt types.Type, arg ast.Expr) bool {
	if n == nil || n.Name == "_" {
		return false
	}
	if _, isIface := pt.Underlying().(*types.Interface); !isIface {
		return false
	}
	at := pkg.TypesInfo.TypeOf(arg)
	if at == nil || types.Identical(at, pt) {
		return false
	}
	if _, isNamed := at.(*types.Named); !isNamed {
		if p, isP := at.(*types.Pointer); !isP {
			return false
		} else if _, isNamed := p.Elem().(*types.Named); !isNamed {
			return false
		}
	}
	if b, isB := at.Underlying().(*types.Basic); isB && b.Info()&types.IsUntyped != 0 {
		return false
	}
	obj := d.pkg.TypesInfo.Defs[n]
	if obj == nil {
		return false
	}
	recvUse := map[*ast.Ident]bool{}
	ast.Inspect(d.body, func(m ast.Node) bool {
		if c, ok := m.(*ast.CallExpr); ok {
			if sel, ok := ast.Unparen(c.Fun).(*ast.SelectorExpr); ok {
				if id := identOf(sel.X); id != nil {
					recvUse[id] = true
				}
			}
		}
		return true
	})
	ok, uses := true, 0
	ast.Inspect(d.body, func(m ast.Node) bool {
		if id, isID := m.(*ast.Ident); isID && d.pkg.TypesInfo.Uses[id] == obj {
			uses++
			if !recvUse[id] {
				ok = false
			}
		}
		return true
	})
	return ok && uses > 0
}

// wrapMethodValue: a method of a type outside the vocabulary used as a value (`filepath.Walk(root, dl.visit)`) with a
// plain variable as receiver is written as the function literal that calls it; the call inside is then expanded
// like any other.
func (N *normaliser) wrapMethodValue(p *packages.Package, file *ast.File, fd *ast.FuncDecl, s ast.Stmt) bool {
	isFun := map[ast.Expr]bool{}
	done := false
	ast.Inspect(s, func(n ast.Node) bool {
		if done {
			return false
		}
		switch x := n.(type) {
		case *ast.BlockStmt:
			return n == ast.Node(s)
		case *ast.FuncLit:
			return false
		case *ast.CallExpr:
			isFun[ast.Unparen(x.Fun)] = true
		case *ast.SelectorExpr:
			if isFun[x] {
				return true
			}
			sel, has := p.TypesInfo.Selections[x]
			if !has || sel.Kind() != types.MethodVal || len(sel.Index()) != 1 {
				return true
			}
			o, isF := sel.Obj().(*types.Func)
			if !isF {
				return true
			}
			if _, isCand := N.cands[o]; !isCand {
				return true
			}
			rid := identOf(x.X)
			if rid == nil {
				return true
			}
			if v, isV := p.TypesInfo.Uses[rid].(*types.Var); !isV || v.IsField() || v.Parent() == p.Types.Scope() {
				return true
			}
			sig := o.Type().(*types.Signature)
			if sig.Variadic() || sig.RecvTypeParams().Len() > 0 {
				return true
			}
			if _, isPtr := sig.Recv().Type().(*types.Pointer); !isPtr {
				return true // a value receiver is copied when the method value is made
			}
			N.seq++
			id := N.seq
			var params, names []string
			for i := 0; i < sig.Params().Len(); i++ {
				nm := fmt.Sprintf("__m%d_%d", id, i)
				params = append(params, nm+" "+N.typeText(p, file, sig.Params().At(i).Type()))
				names = append(names, nm)
			}
			res := ""
			ret := ""
			switch sig.Results().Len() {
			case 0:
			case 1:
				res = " " + N.typeText(p, file, sig.Results().At(0).Type())
				ret = "return "
			default:
				var rs []string
				for i := 0; i < sig.Results().Len(); i++ {
					rs = append(rs, N.typeText(p, file, sig.Results().At(i).Type()))
				}
				res = " (" + strings.Join(rs, ", ") + ")"
				ret = "return "
			}
			fn := N.fset.Position(x.Pos()).Filename
			so, eo := N.fset.Position(x.Pos()).Offset, N.fset.Position(x.End()).Offset
			t := "func(" + strings.Join(params, ", ") + ")" + res + " { " + ret + N.text(x) + "(" + strings.Join(names, ", ") + ") }"
			N.edits[fn] = append(N.edits[fn], textEdit{so, eo - so, t})
			N.info.Inlined = append(N.info.Inlined, "method value "+o.Name()+" written as a literal at "+N.fset.Position(x.Pos()).String())
			done = true
			return false
		}
		return true
	})
	return done
}

// unrollArrayRange: `for i, v := range A { BODY }` over a local array variable of at most eight elements that the
// statement right before the loop defines by a composite literal and that nothing assigns to or takes the address
// of: one copy of BODY per element, with i and v bound to the index and to A[index]. Nothing in BODY may leave or
// restart the loop (break, continue, goto, labels); a return stays a return.
func (N *normaliser) unrollArrayRange(p *packages.Package, file *ast.File, fd *ast.FuncDecl, list []ast.Stmt, i int) bool {
	rs, ok := list[i].(*ast.RangeStmt)
	if !ok || rs.Tok != token.DEFINE || fd == nil {
		return false
	}
	aid := identOf(ast.Unparen(rs.X))
	if aid == nil {
		return false
	}
	av, _ := p.TypesInfo.Uses[aid].(*types.Var)
	if av == nil || av.IsField() || av.Parent() == p.Types.Scope() {
		return false
	}
	arr, isArr := av.Type().Underlying().(*types.Array)
	if !isArr || arr.Len() == 0 || arr.Len() > 8 {
		return false
	}
	// defined by a composite literal in this list, before the loop
	defined := false
	for _, st := range list[:i] {
		if as, isAs := st.(*ast.AssignStmt); isAs && as.Tok == token.DEFINE && len(as.Lhs) == len(as.Rhs) {
			for k, l := range as.Lhs {
				if id := identOf(l); id != nil && p.TypesInfo.Defs[id] == types.Object(av) {
					if _, isCL := ast.Unparen(as.Rhs[k]).(*ast.CompositeLit); isCL {
						defined = true
					}
				}
			}
		}
	}
	if !defined {
		return false
	}
	// never assigned (whole or by element), never addressed, never sliced
	okVar := true
	ast.Inspect(fd.Body, func(n ast.Node) bool {
		switch x := n.(type) {
		case *ast.AssignStmt:
			if x.Tok == token.DEFINE {
				return true
			}
			for _, l := range x.Lhs {
				e := ast.Unparen(l)
				if ix, isIx := e.(*ast.IndexExpr); isIx {
					e = ast.Unparen(ix.X)
				}
				if id := identOf(e); id != nil && p.TypesInfo.Uses[id] == types.Object(av) {
					okVar = false
				}
			}
		case *ast.IncDecStmt:
			if ix, isIx := ast.Unparen(x.X).(*ast.IndexExpr); isIx {
				if id := identOf(ast.Unparen(ix.X)); id != nil && p.TypesInfo.Uses[id] == types.Object(av) {
					okVar = false
				}
			}
		case *ast.UnaryExpr:
			if x.Op == token.AND {
				e := ast.Unparen(x.X)
				if ix, isIx := e.(*ast.IndexExpr); isIx {
					e = ast.Unparen(ix.X)
				}
				if id := identOf(e); id != nil && p.TypesInfo.Uses[id] == types.Object(av) {
					okVar = false
				}
			}
		case *ast.SliceExpr:
			if id := identOf(ast.Unparen(x.X)); id != nil && p.TypesInfo.Uses[id] == types.Object(av) {
				okVar = false
			}
		}
		return okVar
	})
	if !okVar {
		return false
	}
	okBody := true
	var ownLabels []string
	ast.Inspect(rs.Body, func(n ast.Node) bool {
		switch x := n.(type) {
		case *ast.FuncLit:
			return false
		case *ast.LabeledStmt:
			// the labels of expansions get a name of their own in every copy
			if !strings.HasPrefix(x.Label.Name, "__L") {
				okBody = false
			}
			ownLabels = append(ownLabels, x.Label.Name)
		case *ast.BranchStmt:
			// (a break to a label outside the loop — the end of an expansion — leaves the loop like a return does)
			if x.Label == nil || x.Tok != token.BREAK || !strings.HasPrefix(x.Label.Name, "__L") {
				okBody = false
			}
		}
		return okBody
	})
	if !okBody {
		return false
	}
	fn := N.fset.Position(rs.Pos()).Filename
	src := N.src(fn)
	off := func(pos token.Pos) int { return N.fset.Position(pos).Offset }
	body0 := string(src[off(rs.Body.Lbrace) : off(rs.Body.Rbrace)+1])
	var sb strings.Builder
	for k := int64(0); k < arr.Len(); k++ {
		body := body0
		for _, l := range ownLabels {
			body = regexp.MustCompile(`\b`+regexp.QuoteMeta(l)+`\b`).ReplaceAllString(body, fmt.Sprintf("%s_u%d", l, k))
		}
		sb.WriteString("{ ")
		if id := identOf(rs.Key); id != nil && id.Name != "_" {
			fmt.Fprintf(&sb, "%s := %d; _ = %s; ", id.Name, k, id.Name)
		}
		if rs.Value != nil {
			if id := identOf(rs.Value); id != nil && id.Name != "_" {
				fmt.Fprintf(&sb, "%s := %s[%d]; _ = %s; ", id.Name, aid.Name, k, id.Name)
			}
		}
		sb.WriteString(body)
		sb.WriteString(" }\n")
	}
	N.edits[fn] = append(N.edits[fn], textEdit{off(rs.Pos()), off(rs.End()) - off(rs.Pos()), sb.String()})
	N.info.Inlined = append(N.info.Inlined, "array loop written out at "+N.fset.Position(rs.Pos()).String())
	return true
}

// afterFuncAsGo: `time.AfterFunc(d, f)` whose timer is not kept is a goroutine that sleeps for d and then calls f —
// the form the rules know. d and f must be simple operands (a method value of a plain variable, a function name, a
// literal): evaluating them in the goroutine instead of before it makes no difference.
func (N *normaliser) afterFuncAsGo(p *packages.Package, file *ast.File, fd *ast.FuncDecl, s ast.Stmt) bool {
	es, ok := s.(*ast.ExprStmt)
	if !ok {
		return false
	}
	call, ok := ast.Unparen(es.X).(*ast.CallExpr)
	if !ok || len(call.Args) != 2 {
		return false
	}
	sel, ok := ast.Unparen(call.Fun).(*ast.SelectorExpr)
	if !ok || sel.Sel.Name != "AfterFunc" {
		return false
	}
	fobj, _ := p.TypesInfo.Uses[sel.Sel].(*types.Func)
	if fobj == nil || fobj.Pkg() == nil || fobj.Pkg().Path() != "time" {
		return false
	}
	f := ast.Unparen(call.Args[1])
	if _, isLit := f.(*ast.FuncLit); !isLit && !simpleOperand(p, f) {
		return false
	}
	if !simpleOperand(p, call.Args[0]) {
		if tv, has := p.TypesInfo.Types[call.Args[0]]; !has || tv.Value == nil {
			return false
		}
	}
	fn := N.fset.Position(s.Pos()).Filename
	so, eo := N.fset.Position(s.Pos()).Offset, N.fset.Position(s.End()).Offset
	timePkg := N.text(sel.X)
	t := "go func() { " + timePkg + ".Sleep(" + N.text(call.Args[0]) + "); (" + N.text(call.Args[1]) + ")() }()"
	N.edits[fn] = append(N.edits[fn], textEdit{so, eo - so, t})
	N.info.Inlined = append(N.info.Inlined, "time.AfterFunc written as a sleeping goroutine at "+N.fset.Position(s.Pos()).String())
	return true
}

// funcGlobalsToFuncs: `var H = mk(consts…, function names…, literals…)` with mk a function outside the vocabulary that
// returns a function, H never assigned or addressed: written `func H(a…) R { return mk(…)(a…) }`. Handing H around
// as a value and calling it stay what they were (mk only wraps its arguments, so building the wrapper per call instead
// of once is the same), and the rules find a function named H again.
func (N *normaliser) funcGlobalsToFuncs(pkgs []*packages.Package) {
	for _, p := range pkgs {
		if !strings.HasPrefix(p.PkgPath, "github.com/jhalter/mobius") {
			continue
		}
		type glob struct {
			gd   *ast.GenDecl
			vs   *ast.ValueSpec
			file *ast.File
			sig  *types.Signature
		}
		globals := map[*types.Var]glob{}
		for _, f := range p.Syntax {
			for _, dcl := range f.Decls {
				gd, ok := dcl.(*ast.GenDecl)
				if !ok || gd.Tok != token.VAR {
					continue
				}
				for _, sp := range gd.Specs {
					vs, ok := sp.(*ast.ValueSpec)
					if !ok || len(vs.Names) != 1 || len(vs.Values) != 1 || vs.Names[0].Name == "_" {
						continue
					}
					call, ok := ast.Unparen(vs.Values[0]).(*ast.CallExpr)
					if !ok {
						continue
					}
					o, _ := N.staticCallee(p, call)
					if _, isCand := N.cands[o]; o == nil || !isCand {
						continue
					}
					v, _ := p.TypesInfo.Defs[vs.Names[0]].(*types.Var)
					if v == nil {
						continue
					}
					sig, isSig := v.Type().Underlying().(*types.Signature)
					if !isSig || sig.Variadic() {
						continue
					}
					pure := true
					for _, a := range call.Args {
						switch x := ast.Unparen(a).(type) {
						case *ast.BasicLit, *ast.FuncLit:
						case *ast.Ident:
							if _, isF := p.TypesInfo.Uses[x].(*types.Func); isF {
								break
							}
							if tv, ok := p.TypesInfo.Types[x]; !ok || tv.Value == nil {
								pure = false
							}
						default:
							if tv, ok := p.TypesInfo.Types[x]; !ok || tv.Value == nil {
								pure = false
							}
						}
					}
					if pure {
						globals[v] = glob{gd, vs, f, sig}
					}
				}
			}
		}
		if len(globals) == 0 {
			continue
		}
		for _, q := range pkgs {
			for _, f := range q.Syntax {
				ast.Inspect(f, func(n ast.Node) bool {
					switch x := n.(type) {
					case *ast.AssignStmt:
						for _, l := range x.Lhs {
							if id := identOf(ast.Unparen(l)); id != nil {
								if v, ok := q.TypesInfo.Uses[id].(*types.Var); ok {
									delete(globals, v)
								}
							} else if se, isSel := ast.Unparen(l).(*ast.SelectorExpr); isSel {
								if v, ok := q.TypesInfo.Uses[se.Sel].(*types.Var); ok {
									delete(globals, v)
								}
							}
						}
					case *ast.UnaryExpr:
						if x.Op == token.AND {
							var id *ast.Ident
							switch y := ast.Unparen(x.X).(type) {
							case *ast.Ident:
								id = y
							case *ast.SelectorExpr:
								id = y.Sel
							}
							if id != nil {
								if v, ok := q.TypesInfo.Uses[id].(*types.Var); ok {
									delete(globals, v)
								}
							}
						}
					}
					return true
				})
			}
		}
		for v, g := range globals {
			fn := N.fset.Position(g.vs.Pos()).Filename
			var params, names []string
			for i := 0; i < g.sig.Params().Len(); i++ {
				nm := fmt.Sprintf("__a%d", i)
				params = append(params, nm+" "+N.typeText(p, g.file, g.sig.Params().At(i).Type()))
				names = append(names, nm)
			}
			res, ret := "", ""
			switch g.sig.Results().Len() {
			case 0:
			case 1:
				res, ret = " "+N.typeText(p, g.file, g.sig.Results().At(0).Type()), "return "
			default:
				var rs []string
				for i := 0; i < g.sig.Results().Len(); i++ {
					rs = append(rs, N.typeText(p, g.file, g.sig.Results().At(i).Type()))
				}
				res, ret = " ("+strings.Join(rs, ", ")+")", "return "
			}
			so, eo := N.fset.Position(g.vs.Pos()).Offset, N.fset.Position(g.vs.End()).Offset
			if !g.gd.Lparen.IsValid() {
				so, eo = N.fset.Position(g.gd.Pos()).Offset, N.fset.Position(g.gd.End()).Offset
			}
			N.edits[fn] = append(N.edits[fn], textEdit{so, eo - so, ""})
			text := "\nfunc " + v.Name() + "(" + strings.Join(params, ", ") + ")" + res + " { " + ret + N.text(ast.Unparen(g.vs.Values[0])) + "(" + strings.Join(names, ", ") + ") }\n"
			N.edits[fn] = append(N.edits[fn], textEdit{N.fset.Position(g.file.End()).Offset, 0, text})
			N.info.Inlined = append(N.info.Inlined, "function-valued variable "+v.Name()+" written as a function")
		}
	}
}

// refoldWrappers: a function of the vocabulary that has become a thin wrapper — `func W(p…) R { return T{f1: p1, …}.m(q…) }`
// with m a method outside the vocabulary and every parameter of W used exactly once — while its callers now build the
// T and call m themselves (`s := T{f1: e1, …}; … s.m(a…)`): such a call is spelled W(…) again, with the field
// values and arguments in the places of W's parameters, so that the rules find W's call sites where they were. The
// field values must be simple operands (they are evaluated at the call instead of where s was built) and s must
// have no other use.
func (N *normaliser) refoldWrappers(pkgs []*packages.Package) {
	type wrapper struct {
		w        *types.Func
		fieldIdx map[string]int // field of T → parameter index of W
		argIdx   []int          // argument position of m → parameter index of W
		nParams  int
	}
	for _, p := range pkgs {
		if !strings.HasPrefix(p.PkgPath, "github.com/jhalter/mobius") {
			continue
		}
		wraps := map[*types.Func]wrapper{}
		for _, f := range p.Syntax {
			for _, dcl := range f.Decls {
				fd, ok := dcl.(*ast.FuncDecl)
				if !ok || fd.Recv != nil || fd.Body == nil || len(fd.Body.List) != 1 {
					continue
				}
				wobj, _ := p.TypesInfo.Defs[fd.Name].(*types.Func)
				if wobj == nil {
					continue
				}
				if _, isCand := N.cands[wobj]; isCand {
					continue
				}
				ret, ok := fd.Body.List[0].(*ast.ReturnStmt)
				if !ok || len(ret.Results) != 1 {
					continue
				}
				call, ok := ast.Unparen(ret.Results[0]).(*ast.CallExpr)
				if !ok {
					continue
				}
				sel, ok := ast.Unparen(call.Fun).(*ast.SelectorExpr)
				if !ok {
					continue
				}
				cl, ok := ast.Unparen(sel.X).(*ast.CompositeLit)
				if !ok {
					continue
				}
				m, _ := p.TypesInfo.Uses[sel.Sel].(*types.Func)
				if m == nil {
					continue
				}
				if _, isCand := N.cands[m]; !isCand {
					continue
				}
				// parameters of W by object
				pidx := map[types.Object]int{}
				k := 0
				for _, fl := range fd.Type.Params.List {
					for _, nm := range fl.Names {
						pidx[p.TypesInfo.Defs[nm]] = k
						k++
					}
					if len(fl.Names) == 0 {
						k = -1000
					}
				}
				if k <= 0 {
					continue
				}
				used := map[int]bool{}
				wr := wrapper{w: wobj, fieldIdx: map[string]int{}, nParams: k}
				okW := true
				for _, e := range cl.Elts {
					kv, isKV := e.(*ast.KeyValueExpr)
					if !isKV {
						okW = false
						break
					}
					fid, vid := identOf(kv.Key), identOf(ast.Unparen(kv.Value))
					if fid == nil || vid == nil {
						okW = false
						break
					}
					ix, isP := pidx[p.TypesInfo.Uses[vid]]
					if !isP || used[ix] {
						okW = false
						break
					}
					used[ix] = true
					wr.fieldIdx[fid.Name] = ix
				}
				for _, a := range call.Args {
					vid := identOf(ast.Unparen(a))
					if vid == nil {
						okW = false
						break
					}
					ix, isP := pidx[p.TypesInfo.Uses[vid]]
					if !isP || used[ix] {
						okW = false
						break
					}
					used[ix] = true
					wr.argIdx = append(wr.argIdx, ix)
				}
				if !okW || len(used) != k || call.Ellipsis.IsValid() {
					continue
				}
				wraps[m] = wr
			}
		}
		if len(wraps) == 0 {
			continue
		}
		for _, f := range p.Syntax {
			for _, dcl := range f.Decls {
				fd, ok := dcl.(*ast.FuncDecl)
				if !ok || fd.Body == nil {
					continue
				}
				if o, _ := p.TypesInfo.Defs[fd.Name].(*types.Func); o != nil {
					skip := false
					for _, wr := range wraps {
						if wr.w == o {
							skip = true
						}
					}
					if skip {
						continue
					}
				}
				ast.Inspect(fd.Body, func(n ast.Node) bool {
					call, ok := n.(*ast.CallExpr)
					if !ok || call.Ellipsis.IsValid() {
						return true
					}
					sel, ok := ast.Unparen(call.Fun).(*ast.SelectorExpr)
					if !ok {
						return true
					}
					m, _ := p.TypesInfo.Uses[sel.Sel].(*types.Func)
					wr, isW := wraps[m]
					xid := identOf(ast.Unparen(sel.X))
					if !isW || xid == nil || len(call.Args) != len(wr.argIdx) {
						return true
					}
					xv, _ := p.TypesInfo.Uses[xid].(*types.Var)
					if xv == nil || xv.IsField() || xv.Parent() == p.Types.Scope() {
						return true
					}
					// x := T{…}, defined once, used only here
					var def *ast.AssignStmt
					var lit *ast.CompositeLit
					nAssign := 0
					ast.Inspect(fd.Body, func(q ast.Node) bool {
						as, isAs := q.(*ast.AssignStmt)
						if !isAs {
							return true
						}
						for i, l := range as.Lhs {
							if id := identOf(l); id != nil && p.TypesInfo.ObjectOf(id) == types.Object(xv) {
								nAssign++
								if as.Tok == token.DEFINE && len(as.Lhs) == 1 && len(as.Rhs) == 1 && i == 0 {
									if cl, isCL := ast.Unparen(as.Rhs[0]).(*ast.CompositeLit); isCL {
										def, lit = as, cl
									}
								}
							}
						}
						return true
					})
					uses := 0
					for _, o := range p.TypesInfo.Uses {
						if o == types.Object(xv) {
							uses++
						}
					}
					if def == nil || nAssign != 1 || uses != 1 {
						return true
					}
					args := make([]string, wr.nParams)
					seen := 0
					for _, e := range lit.Elts {
						kv, isKV := e.(*ast.KeyValueExpr)
						if !isKV {
							return true
						}
						fid := identOf(kv.Key)
						if fid == nil {
							return true
						}
						ix, has := wr.fieldIdx[fid.Name]
						if !has || !simpleOperand(p, kv.Value) || args[ix] != "" {
							return true
						}
						args[ix] = N.text(kv.Value)
						seen++
					}
					if seen != len(wr.fieldIdx) {
						return true
					}
					for i, a := range call.Args {
						args[wr.argIdx[i]] = N.text(a)
					}
					for _, a := range args {
						if a == "" {
							return true
						}
					}
					fn := N.fset.Position(call.Pos()).Filename
					so, eo := N.fset.Position(call.Pos()).Offset, N.fset.Position(call.End()).Offset
					N.edits[fn] = append(N.edits[fn], textEdit{so, eo - so, wr.w.Name() + "(" + strings.Join(args, ", ") + ")"})
					ds, de := N.fset.Position(def.Pos()).Offset, N.fset.Position(def.End()).Offset
					N.edits[fn] = append(N.edits[fn], textEdit{ds, de - ds, "{}"})
					N.info.Inlined = append(N.info.Inlined, "call of "+m.Name()+" spelled as the wrapper "+wr.w.Name()+" again at "+N.fset.Position(call.Pos()).String())
					return true
				})
			}
		}
	}
}
