package main

// cursor.go — the cursor protocol of offset-tracking Read encoders (C01, C14, C18, C19).

import (
	"fmt"
	"go/token"
	"go/types"
	"sort"
	"strings"

	"golang.org/x/tools/go/ssa"
)

// cursorReaders lists every method Read([]byte) (int, error) declared on a non-mock repo type.
func (P *Prog) cursorReaders() []*ssa.Function {
	var out []*ssa.Function
	for _, fn := range P.Funcs {
		if fn.Name() != "Read" || fn.Signature.Recv() == nil || fn.Parent() != nil {
			continue
		}
		sig := fn.Signature
		if sig.Params().Len() != 1 || sig.Results().Len() != 2 {
			continue
		}
		if typeName(sig.Params().At(0).Type()) != "[]byte" || typeName(sig.Results().At(0).Type()) != "int" || !isErrorType(sig.Results().At(1).Type()) {
			continue
		}
		out = append(out, fn)
	}
	sort.Slice(out, func(i, j int) bool { return fname(out[i]) < fname(out[j]) })
	return out
}

// enumerated exceptions to "Read stores to no receiver field but the cursor"
var cursorSideStores = map[string]string{
	"hotline.User.Icon":  "4→2 byte normalisation of the icon, idempotent",
	"hotline.User.Flags": "4→2 byte normalisation of the flags, idempotent",
}

// checkCursor evaluates rules R1–R5 on one Read method; only functions accepted by `only` (nil = all).
func (R *Run) checkCursor(rule string, only func(name string) bool) int {
	P := R.P
	n := 0
	for _, fn := range P.cursorReaders() {
		name := fname(fn)
		if only != nil && !only(name) {
			continue
		}
		n++
		R.analysed(name)
		pos := P.pos(fn.Pos())
		recv := fn.Params[0]
		p := fn.Params[1]
		var problems []string
		var undecided []string

		// R1: exactly one copy(p, B[o:])
		var copies []*ssa.Call
		for _, ci := range callsIn(fn) {
			if c, ok := ci.(*ssa.Call); ok && calleeName(&c.Call) == "builtin.copy" && c.Call.Args[0] == ssa.Value(p) {
				copies = append(copies, c)
			}
		}
		if len(copies) != 1 {
			R.und(rule, name, pos, fmt.Sprintf("%d copy(p, …) calls: not the offset-tracking idiom (accepted: one copy(p, buf[cursor:]) with cursor += n)", len(copies)))
			continue
		}
		cp := copies[0]
		var cursorField string
		var buf ssa.Value
		// the source of the copy: buf[cursor:], or a value chosen between nil (nothing left) and buf[cursor:]
		cpSrc := cp.Call.Args[1]
		if phi, isPhi := cpSrc.(*ssa.Phi); isPhi {
			var only ssa.Value
			for _, e := range phi.Edges {
				if isNilConst(e) {
					continue
				}
				if only != nil && only != e {
					only = nil
					break
				}
				only = e
			}
			if only != nil {
				cpSrc = only
			}
		}
		if sl, ok := cpSrc.(*ssa.Slice); ok && sl.High == nil && sl.Max == nil && sl.Low != nil {
			buf = sl.X
			if f, ok := loadedField(stripConv(sl.Low)); ok {
				if u, ok := stripConv(sl.Low).(*ssa.UnOp); ok {
					if fa, ok := u.X.(*ssa.FieldAddr); ok && faBase(fa) == ssa.Value(recv) {
						cursorField = f
					}
				}
			}
		}
		if cursorField == "" {
			problems = append(problems, "the copy does not start at the receiver's cursor (copy(p, buf) restarts at byte 0 on every call: output repeats and never ends for buffers shorter than the record)")
			if sl, ok := cpSrc.(*ssa.Slice); ok {
				buf = sl.X
			} else {
				buf = cpSrc
			}
		}

		// R2: the only store to an int field of the receiver is cursor = cursor + n
		type fstore struct {
			field string
			st    *ssa.Store
		}
		var stores []fstore
		eachInstr(fn, func(ins ssa.Instruction) {
			if st, ok := ins.(*ssa.Store); ok {
				if fa, ok := st.Addr.(*ssa.FieldAddr); ok && faBase(fa) == ssa.Value(recv) {
					f, _ := fieldOf(fa)
					stores = append(stores, fstore{f, st})
				}
			}
		})
		advanced := false
		for _, s := range stores {
			isCursor := s.field == cursorField
			if cursorField == "" {
				// guess: int-typed field
				if b, ok := s.st.Val.Type().Underlying().(*types.Basic); ok && b.Kind() == types.Int {
					isCursor = true
					cursorField = s.field
				}
			}
			if !isCursor {
				if _, ok := cursorSideStores[s.field]; !ok {
					problems = append(problems, "Read also writes receiver field "+s.field+" at "+P.ipos(s.st)+" (a second drain would emit different bytes)")
				}
				continue
			}
			bin, ok := s.st.Val.(*ssa.BinOp)
			good := false
			if ok && bin.Op == token.ADD {
				for _, pair := range [][2]ssa.Value{{bin.X, bin.Y}, {bin.Y, bin.X}} {
					if f, ok := loadedField(stripConv(pair[0])); ok && f == cursorField && stripConv(pair[1]) == ssa.Value(cp) {
						good = true
					}
				}
			}
			if good {
				advanced = true
			} else {
				problems = append(problems, "the cursor is assigned "+P.sym(s.st.Val)+" at "+P.ipos(s.st)+" instead of cursor + n")
			}
		}
		if !advanced {
			problems = append(problems, "the cursor is never advanced by the number of bytes copied")
		}
		// R2': what the receiver's slice fields point to is shared by every copy of the object (a broadcast hands the same
		// Fields array to one sender goroutine per recipient): the encoder neither stores into an element of such a
		// slice nor hands a pointer to one to an encoder that advances a cursor in it — elements are encoded from a copy
		{
			inRecvSlice := func(addr ssa.Value) bool {
				for d := 0; d < 6; d++ {
					switch x := addr.(type) {
					case *ssa.FieldAddr:
						addr = x.X
					case *ssa.IndexAddr:
						if ld, ok := x.X.(*ssa.UnOp); ok && ld.Op == token.MUL {
							if fa, ok := ld.X.(*ssa.FieldAddr); ok && faBase(fa) == ssa.Value(recv) {
								if _, isSlice := ld.Type().Underlying().(*types.Slice); isSlice {
									return true
								}
							}
						}
						addr = x.X
					default:
						return false
					}
				}
				return false
			}
			eachInstr(fn, func(ins ssa.Instruction) {
				switch x := ins.(type) {
				case *ssa.Store:
					if inRecvSlice(x.Addr) {
						problems = append(problems, "an element of a slice field of the receiver is written at "+P.ipos(x)+": the slice's backing array is shared by the per-recipient copies of a broadcast, concurrent senders corrupt each other's encoding")
					}
				case ssa.CallInstruction:
					for _, a := range x.Common().Args {
						v := a
						if mi, ok := v.(*ssa.MakeInterface); ok {
							v = mi.X
						}
						if _, isPtr := v.Type().Underlying().(*types.Pointer); isPtr && inRecvSlice(v) {
							if _, isBuiltin := x.Common().Value.(*ssa.Builtin); !isBuiltin {
								problems = append(problems, "a pointer to an element of a slice field of the receiver is handed to "+calleeName(x.Common())+" at "+P.ipos(x)+": the element's own read cursor is advanced in memory that other goroutines encode from at the same time (elements must be encoded from a copy)")
							}
						}
					}
				}
			})
		}

		// R3: EOF guard on cursor >= len(buf) dominating the copy, returning (0, io.EOF)
		guard := false
		if cursorField != "" && buf != nil {
			factEdges(fn, func(e Edge, f Fact) {
				if f.Kind != "truth" {
					return
				}
				bin, ok := f.V.(*ssa.BinOp)
				if !ok {
					return
				}
				isCur := func(v ssa.Value) bool {
					fl, ok := loadedField(stripConv(v))
					return ok && fl == cursorField
				}
				isLen := func(v ssa.Value) bool {
					c, ok := v.(*ssa.Call)
					return ok && calleeName(&c.Call) == "builtin.len" && sameLoc(c.Call.Args[0], buf)
				}
				exhausted := false // the edge on which cursor >= len holds
				switch {
				case isCur(bin.X) && isLen(bin.Y) && (bin.Op == token.GEQ || bin.Op == token.EQL):
					exhausted = f.Holds
				case isCur(bin.X) && isLen(bin.Y) && bin.Op == token.LSS:
					exhausted = !f.Holds
				case isLen(bin.X) && isCur(bin.Y) && (bin.Op == token.LEQ || bin.Op == token.EQL):
					exhausted = f.Holds
				case isLen(bin.X) && isCur(bin.Y) && bin.Op == token.GTR:
					exhausted = !f.Holds
				default:
					return
				}
				if !exhausted {
					return
				}
				// on the exhausted edge: copy unreachable, and every return reachable from e.To is (0, io.EOF)
				reach := reachableFrom(e.To, nil)
				if reach[cp.Block()] {
					// what the exhausted edge selects (an empty remainder) may be tested once more before the copy: the
					// paths are followed with what the edge establishes
					reach = map[*ssa.BasicBlock]bool{}
					explore([]psItem{{e.To, enterBlock(e.From, e.To, nilState{})}}, nil, false, func(b *ssa.BasicBlock, _ nilState) bool {
						reach[b] = true
						return true
					})
				}
				if reach[cp.Block()] {
					return
				}
				allEOF := true
				for _, ret := range returnsOf(fn) {
					if !reach[ret.Block()] {
						continue
					}
					// (a result merged in a phi is judged by the operands that arrive from the exhausted side)
					for _, nv := range valuesVia(retValue(ret, 0), reach, e) {
						if c, ok := constInt(nv); !ok || c != 0 {
							allEOF = false
						}
					}
					for _, ev := range valuesVia(retValue(ret, 1), reach, e) {
						if g, _ := globalName(ev); g != "io.EOF" {
							allEOF = false
						}
					}
				}
				if allEOF && edgeDominatesNot(fn, e, cp.Block()) {
					guard = true
				}
			})
		}
		if !guard {
			problems = append(problems, "no guard `cursor >= len(buf)` → return 0, io.EOF in front of the copy (emission would not terminate)")
		}

		// R4: returns
		for _, ret := range returnsOf(fn) {
			if len(ret.Block().Preds) == 0 && ret.Block() != fn.Blocks[0] {
				continue // recover block
			}
			// (count, error) pairs: results merged in phis of one block are paired operand by operand
			type pair struct{ n, e ssa.Value }
			pairs := []pair{{retValue(ret, 0), retValue(ret, 1)}}
			if pn, ok := pairs[0].n.(*ssa.Phi); ok {
				if pe, ok := pairs[0].e.(*ssa.Phi); ok && pe.Block() == pn.Block() && len(pe.Edges) == len(pn.Edges) {
					pairs = pairs[:0]
					for i := range pn.Edges {
						pairs = append(pairs, pair{pn.Edges[i], pe.Edges[i]})
					}
				}
			}
			unrec := false
			for _, pr := range pairs {
				nv, ev := pr.n, pr.e
				if nv == ssa.Value(cp) {
					if !isNilConst(ev) {
						g, _ := globalName(ev)
						problems = append(problems, "data is returned together with error "+g+P.sym(ev)+" at "+P.ipos(ret)+" (io.ReadAll stops at the first chunk: longer records are truncated)")
					}
					continue
				}
				if c, ok := constInt(nv); ok && c == 0 {
					continue // (0, io.EOF) or (0, err)
				}
				unrec = true
			}
			if !unrec {
				continue
			}
			undecided = append(undecided, "return of an unrecognised byte count at "+P.ipos(ret))
		}

		// R5: the assembled buffer does not depend on the cursor
		if buf != nil && cursorField != "" {
			dep := false
			F := &Flow{P: P, Call: func(c *ssa.Call, idx int) ([]ssa.Value, bool) {
				return callArgsFlat(&c.Call), true
			}, Visit: func(x ssa.Value) bool {
				if fa, ok := x.(*ssa.FieldAddr); ok {
					if f, _ := fieldOf(fa); f == cursorField && faBase(fa) == ssa.Value(recv) {
						dep = true
					}
				}
				return !dep
			}}
			F.Back(buf)
			if dep {
				problems = append(problems, "the assembled buffer depends on the cursor")
			}
			// … nor does the cursor decide what is assembled: its value is only compared with the buffer's length,
			// used as the lower bound of the slice that is copied, and advanced by the copy's result
			eachInstr(fn, func(ins ssa.Instruction) {
				u, ok := ins.(*ssa.UnOp)
				if !ok || u.Op != token.MUL {
					return
				}
				fa, ok := u.X.(*ssa.FieldAddr)
				if !ok || faBase(fa) != ssa.Value(recv) {
					return
				}
				if f, _ := fieldOf(fa); f != cursorField {
					return
				}
				// the loaded value and its conversions (a cursor of a named integer type)
				vals := map[ssa.Value]bool{u: true}
				var refs []ssa.Instruction
				for work := []ssa.Value{u}; len(work) > 0; {
					v := work[0]
					work = work[1:]
					if v.Referrers() == nil {
						continue
					}
					for _, r := range *v.Referrers() {
						switch c := r.(type) {
						case *ssa.Convert:
							vals[c] = true
							work = append(work, c)
						case *ssa.ChangeType:
							vals[c] = true
							work = append(work, c)
						default:
							refs = append(refs, r)
						}
					}
				}
				for _, r := range refs {
					switch x := r.(type) {
					case *ssa.DebugRef:
					case *ssa.Slice:
						if !vals[x.Low] {
							problems = append(problems, "the cursor is used as something else than the lower bound of the copied slice at "+P.ipos(x))
						}
					case *ssa.BinOp:
						other := x.Y
						if vals[other] {
							other = x.X
						}
						okUse := false
						switch x.Op {
						case token.GEQ, token.LSS, token.GTR, token.LEQ:
							if c, isC := stripConv(other).(*ssa.Call); isC && calleeName(&c.Call) == "builtin.len" {
								okUse = true
							}
						case token.ADD:
							okUse = stripConv(other) == ssa.Value(cp)
						}
						if !okUse {
							problems = append(problems, "the cursor takes part in a test or computation other than `cursor >= len(buf)` / `cursor + n` at "+P.ipos(x)+": what is emitted depends on how far the record has been read, i.e. on the size of the reader's buffer")
						}
					default:
						problems = append(problems, "unrecognised use of the cursor at "+P.ipos(r))
					}
				}
			})
		}

		switch {
		case len(problems) > 0:
			R.bad(rule, name, pos, "cursor protocol broken: "+strings.Join(problems, "; "))
		case len(undecided) > 0:
			R.und(rule, name, pos, strings.Join(undecided, "; "))
		default:
			R.ok(rule, name, pos, "copy(p, buf["+shortField(cursorField)+":]); cursor += n; (0, io.EOF) once exhausted; (n, nil) otherwise; buffer independent of the cursor")
		}
	}
	return n
}

func shortField(f string) string {
	if i := strings.LastIndex(f, "."); i >= 0 {
		return f[i+1:]
	}
	return f
}

// edgeDominatesNot: with edge e's *sibling* edges kept and e removed, target stays reachable (i.e. the copy
// is reached through the other edge of the guard) and e itself does not lead to target.
func edgeDominatesNot(fn *ssa.Function, e Edge, target *ssa.BasicBlock) bool {
	// the guard block must dominate the copy block: every path to the copy evaluates the guard
	return e.From.Dominates(target) || e.From == target
}

// valuesVia: the values v can take when control arrives through the blocks in reach (entered by edge e): phi
// operands whose predecessor is not in reach are left out.
func valuesVia(v ssa.Value, reach map[*ssa.BasicBlock]bool, e Edge) []ssa.Value {
	phi, ok := v.(*ssa.Phi)
	if !ok {
		return []ssa.Value{v}
	}
	var out []ssa.Value
	for i, op := range phi.Edges {
		pred := phi.Block().Preds[i]
		if reach[pred] || (pred == e.From && phi.Block() == e.To) {
			out = append(out, valuesVia(op, reach, e)...)
		}
	}
	if len(out) == 0 {
		return []ssa.Value{v}
	}
	return out
}

// sameLoc: the same SSA value, or two loads of the same field of the same base value.
func sameLoc(a, b ssa.Value) bool {
	if a == b {
		return true
	}
	ua, ok1 := a.(*ssa.UnOp)
	ub, ok2 := b.(*ssa.UnOp)
	if !ok1 || !ok2 || ua.Op != token.MUL || ub.Op != token.MUL {
		return false
	}
	fa, ok1 := ua.X.(*ssa.FieldAddr)
	fb, ok2 := ub.X.(*ssa.FieldAddr)
	return ok1 && ok2 && faBase(fa) == faBase(fb) && fa.Field == fb.Field && func() bool { a, _ := fieldOf(fa); b, _ := fieldOf(fb); return a == b }()
}
