package main

// dom_cells.go — the traversal engine's view of small integer constants that travel through local struct variables.
//
// A privilege number (or another small constant) that a handler takes from a constant table of structs reaches its
// use through memory: `required = table.folder` (a struct copy selected by a branch), then `Authorize(required.access)`.
// The engine's state is extended by cells (local variable, field path) → constant; a block's stores and loads are
// applied in order when its successors are computed. Only whole-struct copies between locals, copies from constant
// package-level structs, constant field stores and loads of tracked cells are interpreted; any other write to a
// tracked variable forgets what was known about it. Functions without such copies are not touched at all.

import (
	"fmt"
	"go/constant"
	"go/token"
	"go/types"
	"strings"

	"golang.org/x/tools/go/ssa"
)

// cellVal stands for a memory cell in the engine's state (it is never part of the program).
type cellVal struct {
	alloc ssa.Value // the local variable (an Alloc), or a struct-typed SSA value that carries a copy of one
	path  string
	name  string
}

func (c *cellVal) Name() string          { return c.name }
func (c *cellVal) String() string        { return c.name }
func (c *cellVal) Type() types.Type      { return types.Typ[types.Int] }
func (c *cellVal) Parent() *ssa.Function { return c.alloc.Parent() }

func (c *cellVal) Referrers() *[]ssa.Instruction { return nil }
func (c *cellVal) Pos() token.Pos                { return token.NoPos }

var cellIntern = map[string]*cellVal{}

func cellFor(a ssa.Value, path string) *cellVal {
	k := fmt.Sprintf("%p|%s", a, path)
	if c, ok := cellIntern[k]; ok {
		return c
	}
	c := &cellVal{alloc: a, path: path, name: "cell:" + a.Name() + path}
	cellIntern[k] = c
	return c
}

// localCell: addr is a local variable or a field path of one.
func localCell(addr ssa.Value) (*ssa.Alloc, string, bool) {
	path := ""
	for {
		switch x := addr.(type) {
		case *ssa.Alloc:
			return x, path, true
		case *ssa.FieldAddr:
			path = fmt.Sprintf(".%d", x.Field) + path
			addr = x.X
		default:
			return nil, "", false
		}
	}
}

var cellFnMemo = map[*ssa.Function]bool{}

// tracksCells: the function copies a struct between locals / from a constant global and reads an integer field of
// a local struct — the only situation in which the cell part of the state can tell anything.
func tracksCells(fn *ssa.Function) bool {
	if v, ok := cellFnMemo[fn]; ok {
		return v
	}
	copies, reads := false, false
	for _, b := range fn.Blocks {
		for _, ins := range b.Instrs {
			switch x := ins.(type) {
			case *ssa.Store:
				if _, isStruct := x.Val.Type().Underlying().(*types.Struct); isStruct {
					if a, _, ok := localCell(x.Addr); ok && a != nil {
						if _, isConst := x.Val.(*ssa.Const); !isConst {
							copies = true
						}
					}
				}
			case *ssa.UnOp:
				if x.Op == token.MUL {
					if fa, isFA := x.X.(*ssa.FieldAddr); isFA {
						if _, _, ok := localCell(fa); ok {
							if bt, isB := x.Type().Underlying().(*types.Basic); isB && bt.Info()&(types.IsInteger|types.IsString) != 0 {
								reads = true
							}
						}
					}
				}
			}
		}
	}
	cellFnMemo[fn] = copies && reads
	return copies && reads
}

// transferCells applies the stores and loads of blk to the state (a copy is made when something changes).
func transferCells(blk *ssa.BasicBlock, st nilState) nilState {
	if blk == nil || blk.Parent() == nil || !tracksCells(blk.Parent()) {
		return st
	}
	copied := false
	mut := func() {
		if !copied {
			ns := nilState{}
			for k, v := range st {
				ns[k] = v
			}
			st, copied = ns, true
		}
	}
	forget := func(a ssa.Value, path string) {
		for k := range st {
			if c, ok := k.(*cellVal); ok && c.alloc == a && strings.HasPrefix(c.path, path) {
				mut()
				delete(st, k)
			}
		}
	}
	set := func(a ssa.Value, path string, k int64) {
		if k <= -intBias || k >= intBias {
			return
		}
		mut()
		st[cellFor(a, path)] = intBase + int32(k+intBias)
	}
	// a string constant is known as empty (1) or not empty (2), like the engine's other yes/no knowledge
	setCode := func(a ssa.Value, path string, code int32) {
		mut()
		st[cellFor(a, path)] = code
	}
	// copyFrom: what is known about (src, srcPath…) becomes known about (dst, dstPath…)
	copyFrom := func(dst ssa.Value, dstPath string, src ssa.Value, srcPath string) {
		type kv struct {
			suffix string
			n      int32
		}
		var got []kv
		for k, n := range st {
			if c, isCell := k.(*cellVal); isCell && c.alloc == src && strings.HasPrefix(c.path, srcPath) && n != 0 {
				got = append(got, kv{c.path[len(srcPath):], n})
			}
		}
		for _, e := range got {
			mut()
			st[cellFor(dst, dstPath+e.suffix)] = e.n
		}
	}
	fromGlobal := func(dst ssa.Value, dstPath string, addr ssa.Value, ld ssa.Value) bool {
		g, gpath, okG := globalCellOf(addr)
		if !okG || curProg == nil {
			return false
		}
		globalConst(ld) // makes sure the table of constant globals is built
		if curProg.gdirty[g] {
			return true
		}
		for gc, k := range curProg.gconst {
			if gc.g == g && strings.HasPrefix(gc.path, gpath) {
				if n, isInt := constIntPlain(k); isInt {
					set(dst, dstPath+gc.path[len(gpath):], n)
				} else if e, isStr := constStrEmpty(k); isStr {
					setCode(dst, dstPath+gc.path[len(gpath):], e)
				}
			}
		}
		return true
	}
	isStruct := func(v ssa.Value) bool {
		_, ok := v.Type().Underlying().(*types.Struct)
		return ok
	}
	for _, ins := range blk.Instrs {
		switch x := ins.(type) {
		case *ssa.Store:
			a, path, ok := localCell(x.Addr)
			if !ok {
				continue
			}
			forget(a, path)
			if k, isC := constIntPlain(x.Val); isC {
				set(a, path, k)
				continue
			}
			if e, isStr := constStrEmpty(x.Val); isStr {
				setCode(a, path, e)
				continue
			}
			if isStruct(x.Val) {
				// the struct value carries what was known about where it was loaded from
				copyFrom(a, path, x.Val, "")
			}
		case *ssa.UnOp:
			if x.Op != token.MUL {
				continue
			}
			if isStruct(x) {
				if a, path, ok := localCell(x.X); ok {
					copyFrom(x, "", a, path)
				} else {
					fromGlobal(x, "", x.X, x)
				}
				continue
			}
			if a, path, ok := localCell(x.X); ok {
				if n, has := st[cellFor(a, path)]; has && n != 0 {
					mut()
					st[x] = n
				}
			}
		case *ssa.Field:
			if isStruct(x) {
				copyFrom(x, "", x.X, fmt.Sprintf(".%d", x.Field))
			} else if n, has := st[cellFor(x.X, fmt.Sprintf(".%d", x.Field))]; has && n != 0 {
				mut()
				st[x] = n
			}
		case ssa.CallInstruction:
			// the address of a tracked variable handed to a call: anything may have been written through it
			for _, arg := range x.Common().Args {
				if a, path, ok := localCell(arg); ok {
					forget(a, path)
				}
			}
		}
	}
	return st
}

// constIntPlain: an integer constant of the program text (no look-through).
func constIntPlain(v ssa.Value) (int64, bool) {
	c, ok := v.(*ssa.Const)
	if !ok || c.Value == nil {
		return 0, false
	}
	return constInt(c)
}

// constStrEmpty: a string constant of the program text → 1 (empty) or 2 (not empty).
func constStrEmpty(v ssa.Value) (int32, bool) {
	c, ok := v.(*ssa.Const)
	if !ok || c.Value == nil || c.Value.Kind() != constant.String {
		return 0, false
	}
	if constant.StringVal(c.Value) == "" {
		return 1, true
	}
	return 2, true
}

// globalCellOf: addr is a package-level variable or a field path of one.
func globalCellOf(addr ssa.Value) (*ssa.Global, string, bool) {
	path := ""
	for {
		switch x := addr.(type) {
		case *ssa.Global:
			return x, path, true
		case *ssa.FieldAddr:
			path = fmt.Sprintf(".%d", x.Field) + path
			addr = x.X
		default:
			return nil, "", false
		}
	}
}

// enterCells: a struct-typed phi carries what is known about the operand of the edge taken.
func enterCells(succ *ssa.BasicBlock, idx int, st, ns nilState) {
	if succ.Parent() == nil || !tracksCells(succ.Parent()) {
		return
	}
	for _, ins := range succ.Instrs {
		phi, ok := ins.(*ssa.Phi)
		if !ok {
			break
		}
		if _, isStruct := phi.Type().Underlying().(*types.Struct); !isStruct {
			continue
		}
		for k := range ns {
			if c, isCell := k.(*cellVal); isCell && c.alloc == ssa.Value(phi) {
				delete(ns, k)
			}
		}
		if idx < 0 || idx >= len(phi.Edges) {
			continue
		}
		src := phi.Edges[idx]
		for k, n := range st {
			if c, isCell := k.(*cellVal); isCell && c.alloc == src && n != 0 {
				ns[cellFor(phi, c.path)] = n
			}
		}
	}
}
