package main

// transfers.go — structural rules on the file-transfer code, shared by C08, C09 and C10.

import (
	"fmt"
	"go/token"
	"go/types"
	"sort"
	"strings"

	"golang.org/x/tools/go/ssa"
)

// reaches: does the backward slice of v (inside its function; calls are followed through their arguments)
// contain a value satisfying pred?
func (P *Prog) reaches(v ssa.Value, pred func(ssa.Value) bool) bool {
	found := false
	F := &Flow{P: P, Call: func(c *ssa.Call, idx int) ([]ssa.Value, bool) {
		if idx == -2 {
			return nil, true
		}
		var out []ssa.Value
		if c.Call.IsInvoke() {
			out = append(out, c.Call.Value)
		}
		out = append(out, callArgsFlat(&c.Call)...)
		return out, true
	}, Visit: func(x ssa.Value) bool {
		if found {
			return false
		}
		if pred(x) {
			found = true
			return false
		}
		return true
	}}
	F.Back(v)
	return found
}

// reachesVia: reaches, continued through the parameters of the helper(s) the call sits in: a parameter reached in
// the helper is replaced by the argument at the helper's call site and the slice continues in the caller.
func (P *Prog) reachesVia(dc deepCall, v ssa.Value, pred func(ssa.Value) bool) bool {
	level := len(dc.chain)
	vals := []ssa.Value{v}
	for {
		var params []*ssa.Parameter
		for _, x := range vals {
			if P.reaches(x, func(y ssa.Value) bool {
				if pred(y) {
					return true
				}
				if p, ok := y.(*ssa.Parameter); ok {
					params = append(params, p)
				}
				return false
			}) {
				return true
			}
		}
		if level == 0 {
			return false
		}
		level--
		args := dc.chain[level].Common().Args
		vals = nil
		for _, p := range params {
			for k, q := range p.Parent().Params {
				if q == p && k < len(args) {
					vals = append(vals, args[k])
				}
			}
		}
		if len(vals) == 0 {
			return false
		}
	}
}

// reachesDeep: as reaches, but a call to a repo function is also followed into the values it returns, and a
// parameter into the arguments of the function's callers (no field-based store flow).
func (P *Prog) reachesDeep(v ssa.Value, pred func(ssa.Value) bool) bool {
	found := false
	F := &Flow{P: P, Inter: true, NoFieldStores: true, Call: func(c *ssa.Call, idx int) ([]ssa.Value, bool) {
		if idx == -2 {
			return nil, true
		}
		var out []ssa.Value
		if c.Call.IsInvoke() {
			out = append(out, c.Call.Value)
		}
		out = append(out, callArgsFlat(&c.Call)...)
		if h, ok := c.Call.Value.(*ssa.Function); ok && h.Blocks != nil && P.isRepoPkg(pkgOf(h)) {
			for _, r := range returnsOf(h) {
				if idx >= 0 && idx < len(r.Results) {
					out = append(out, r.Results[idx])
				}
			}
		}
		return out, true
	}, Visit: func(x ssa.Value) bool {
		if found {
			return false
		}
		if pred(x) {
			found = true
			return false
		}
		return true
	}}
	F.Back(v)
	return found
}

// offsetExact: v is, on every path, the 32-bit value of a ForkInfoList.DataSize (converted), or the constant 0 on a
// path on which no offset was parsed (a block not reachable from the parsing instruction); phis, helper results
// and helper parameters are followed.  at is the block in which a non-phi leaf is judged.
func (P *Prog) offsetExact(v ssa.Value, at *ssa.BasicBlock, depth int) (bool, string) {
	if depth > 6 {
		return false, "derivation too deep"
	}
	v = stripConv(resolveLocal(stripConv(v)))
	switch x := v.(type) {
	case *ssa.Const:
		k, ok := constInt(x)
		if !ok || k != 0 {
			return false, "a constant other than 0 is skipped"
		}
		fn := at.Parent()
		for _, b := range fn.Blocks {
			parses := false
			for _, ins := range b.Instrs {
				if val, ok := ins.(ssa.Value); ok && isResumeOffsetSource(val) {
					parses = true
				}
			}
			if parses && (b == at || reachableFrom(b, nil)[at]) {
				return false, "the offset is replaced by 0 after it was parsed (in " + fname(fn) + ")"
			}
		}
		return true, ""
	case *ssa.Phi:
		for i, e := range x.Edges {
			if ok, why := P.offsetExact(e, x.Block().Preds[i], depth+1); !ok {
				return false, why
			}
		}
		return true, ""
	case *ssa.Call:
		n := calleeName(&x.Call)
		if strings.HasSuffix(n, ".Uint32") && strings.Contains(n, "encoding/binary") {
			a := x.Call.Args[len(x.Call.Args)-1]
			if sl, ok := a.(*ssa.Slice); ok && sl.Low == nil && sl.High == nil && isResumeOffsetSource(sl.X) {
				// the entry the offset is taken from is the first one, as in the reply the client was given (the
				// handler that announces size − offset and the handler that skips must pick the same entry)
				if ia, isIA := sl.X.(*ssa.FieldAddr).X.(*ssa.IndexAddr); isIA {
					if k, isK := constInt(ia.Index); isK && k == 0 {
						return true, ""
					}
				}
				return false, "the offset is not taken from ForkInfoList[0], the entry the announced sizes are computed from"
			}
			return false, "the value decoded is not ForkInfoList.DataSize"
		}
		h, ok := x.Call.Value.(*ssa.Function)
		if !ok || h.Blocks == nil || !P.isRepoPkg(pkgOf(h)) {
			return false, "the amount is computed by " + n
		}
		for _, ret := range returnsOf(h) {
			if len(ret.Results) != 1 {
				return false, "helper with several results"
			}
			if ok, why := P.offsetExact(ret.Results[0], ret.Block(), depth+1); !ok {
				return false, why
			}
		}
		return true, ""
	case *ssa.Parameter:
		fn := x.Parent()
		idx := -1
		for i, q := range fn.Params {
			if q == x {
				idx = i
			}
		}
		sites := P.callers[fn]
		if len(sites) == 0 || idx < 0 {
			return false, "parameter without call sites"
		}
		for _, site := range sites {
			c := site.Common()
			if c.IsInvoke() || idx >= len(c.Args) {
				return false, "parameter passed dynamically"
			}
			if ok, why := P.offsetExact(c.Args[idx], site.Block(), depth+1); !ok {
				return false, why
			}
		}
		return true, ""
	case *ssa.UnOp:
		if x.Op == token.MUL {
			if a, ok := x.X.(*ssa.Alloc); ok {
				// a local captured by a closure: every store
				n := 0
				for _, f := range withAnons(rootFn(a.Parent())) {
					for _, b := range f.Blocks {
						for _, ins := range b.Instrs {
							if st, ok := ins.(*ssa.Store); ok && cellOfAddr(st.Addr) == ssa.Value(a) {
								n++
								if ok, why := P.offsetExact(st.Val, b, depth+1); !ok {
									return false, why
								}
							}
						}
					}
				}
				if n > 0 {
					return true, ""
				}
			}
		}
	}
	return false, "the amount is " + P.sym(v) + ", not the decoded offset"
}

// isResumeOffsetSource: a read of ForkInfoList.DataSize (the client's resume offset).
func isResumeOffsetSource(x ssa.Value) bool {
	if fa, ok := x.(*ssa.FieldAddr); ok {
		f, _ := fieldOf(fa)
		return f == "hotline.ForkInfoList.DataSize"
	}
	return false
}

const incompleteSuffixSym = `+".incomplete"`

// ruleResumeSkip: in fn, the client's resume offset must reach a skip (Seek / Discard / CopyN(io.Discard))
// on the very reader whose bytes are then copied to the client, and that skip must precede the copy.
func (R *Run) ruleResumeSkip(fnName string) {
	P := R.P
	fn := R.mustFn(fnName)
	if fn == nil {
		return
	}
	fns := withAnons(fn)
	R.analysed(fname(fn))
	n := 0
	isDataOpen := func(x ssa.Value) bool {
		c := callValue(x)
		if c == nil {
			return false
		}
		switch calleeName(&c.Call) {
		case "(*hotline.fileWrapper).dataForkReader", "(hotline.FileStore).Open", "os.Open":
			return true
		}
		return false
	}
	isRsrcOpen := func(x ssa.Value) bool {
		cv := callValue(x)
		return cv != nil && calleeName(&cv.Call) == "(*hotline.fileWrapper).rsrcForkFile"
	}
	// skipOn: a skip call (Seek / Discard / CopyN(io.Discard)) — the reader skipped and the amount
	skipOn := func(cc *ssa.CallCommon) (rd, amount ssa.Value) {
		switch calleeName(cc) {
		case "(*bufio.Reader).Discard":
			return cc.Args[0], cc.Args[1]
		case "(*os.File).Seek":
			return cc.Args[0], cc.Args[1]
		case "io.CopyN":
			if g, ok := globalName(cc.Args[0]); ok && g == "io.Discard" {
				return cc.Args[1], cc.Args[2]
			}
		default:
			if cc.IsInvoke() && cc.Method.Name() == "Seek" {
				return cc.Value, cc.Args[0]
			}
		}
		return nil, nil
	}
	for _, f := range fns {
		dcs := P.deepCalls(f, 2)
		// does f (or a helper it calls) parse a resume offset?
		usesOffset := false
		inFns := map[*ssa.Function]bool{f: true}
		for _, dc := range dcs {
			inFns[dc.fn] = true
		}
		for g := range inFns {
			eachInstr(g, func(ins ssa.Instruction) {
				if v, ok := ins.(ssa.Value); ok && isResumeOffsetSource(v) {
					usesOffset = true
				}
			})
		}
		if !usesOffset {
			continue
		}
		// data copies: io.Copy(dst, src) where src derives from an opened data file
		for _, dc := range dcs {
			ci := dc.call
			g := dc.fn
			c := ci.Common()
			if calleeName(c) != "io.Copy" && calleeName(c) != "io.CopyN" {
				continue
			}
			src := c.Args[1]
			if gl, ok := globalName(c.Args[0]); ok && gl == "io.Discard" {
				continue // a skip, not a copy to the client
			}
			if P.reachesVia(dc, src, isRsrcOpen) || !P.reachesVia(dc, src, isDataOpen) {
				continue
			}
			n++
			construct := fmt.Sprintf("%s: data fork copy #%d", fname(g), nCreateIn(g, ci))
			// a skip, by the resume offset, on a reader that the copy source derives from, before the copy
			var skip ssa.CallInstruction
			for _, cj := range callsIn(g) {
				rd, amount := skipOn(cj.Common())
				if rd == nil || !P.reachesDeep(amount, isResumeOffsetSource) {
					continue
				}
				rdRoot := stripConv(rd)
				same := P.reaches(src, func(x ssa.Value) bool { return stripConv(x) == rdRoot })
				if same && instrDominates(cj.(ssa.Instruction), ci.(ssa.Instruction)) {
					skip = cj
				}
			}
			if skip == nil && len(dc.chain) > 0 {
				// the reader is handed to the helper already positioned: the skip is at the helper's call site
				last := dc.chain[len(dc.chain)-1]
				caller := last.Parent()
				for k, prm := range g.Params {
					if k >= len(last.Common().Args) || !P.reaches(src, func(x ssa.Value) bool { return x == ssa.Value(prm) }) {
						continue
					}
					arg := stripConv(last.Common().Args[k])
					for _, cj := range callsIn(caller) {
						rd, amount := skipOn(cj.Common())
						if rd == nil || !P.reachesDeep(amount, isResumeOffsetSource) {
							continue
						}
						rdRoot := stripConv(rd)
						same := arg == rdRoot || P.reaches(arg, func(x ssa.Value) bool { return stripConv(x) == rdRoot })
						if same && instrDominates(cj.(ssa.Instruction), last.(ssa.Instruction)) {
							skip = cj
						}
					}
				}
			}
			R.check(skip != nil, "resume-skip", construct, P.ipos(ci),
				"the resume offset is skipped on the copied reader before the copy",
				"the client's resume offset (ForkInfoList.DataSize) never reaches a Seek/Discard on the reader whose bytes are copied: a resumed transfer is announced without the skipped part but sent from byte 0")
			if skip != nil {
				_, amount := skipOn(skip.Common())
				exact, why := P.offsetExact(amount, skip.Block(), 0)
				R.check(exact, "resume-skip", construct+": amount", P.ipos(skip),
					"the amount skipped is the client's offset itself on every path that parsed one (0 only where none was parsed)",
					"the amount skipped is not the client's resume offset on every path: "+why+" — the reply announces size − offset, so any other amount sends bytes the client did not ask for or drops some")
			}
		}
	}
	if n == 0 {
		R.bad("resume-skip", fnName, P.pos(fn.Pos()), "no data-fork copy found in a function that parses a resume offset (mechanism moved: the rule cannot vouch)")
	}
}

// rulePublishAfterSuccess: every rename "<x>.incomplete → <x>" is only reachable when the receiveFile call
// that wrote it returned nil.
func (R *Run) rulePublishAfterSuccess(fnNames ...string) int {
	P := R.P
	n := 0
	for _, fnName := range fnNames {
		fn := R.mustFn(fnName)
		if fn == nil {
			continue
		}
		R.analysed(fname(fn))
		for _, f := range withAnons(fn) {
			for _, ci := range callsIn(f) {
				c := ci.Common()
				name := calleeName(c)
				if name != "os.Rename" && name != "(hotline.FileStore).Rename" {
					if !P.isPublishHelperCall(ci) {
						continue
					}
				} else {
					src, dst := P.sym(c.Args[0]), P.sym(c.Args[1])
					if src != dst+incompleteSuffixSym {
						continue
					}
				}
				n++
				construct := fmt.Sprintf("%s: publish rename #%d", fname(f), nCreateIn(f, ci))
				if _, isDefer := ci.(*ssa.Defer); isDefer {
					R.bad("publish-after-success", construct, P.ipos(ci), "the rename to the final name is deferred: it runs also when receiving failed")
					continue
				}
				// receiveFile calls in f
				cut := map[Edge]bool{}
				nRecv := 0
				factEdges(f, func(e Edge, ft Fact) {
					if ft.Kind == "nil" {
						if cv := callValue(ft.V); cv != nil && calleeName(&cv.Call) == "hotline.receiveFile" {
							nRecv++
							if ft.Holds {
								cut[e] = true
							}
						}
					}
				})
				// restrict to receiveFile calls that can reach this rename at all
				reach := reachable(f, cut)
				var path []string
				if reach[ci.Block()] {
					path = P.describePath(pathTo(f, ci.Block(), cut))
				}
				R.check(nRecv > 0 && !reach[ci.Block()], "publish-after-success", construct, P.ipos(ci),
					"only reachable when receiveFile returned nil",
					"the partial file is renamed to its final name on a path where receiveFile did not succeed (a cut connection publishes a truncated file)", path...)
			}
		}
	}
	return n
}

// isPublishHelperCall: the call goes to a small repo helper whose body renames "<param>.incomplete" to "<param>".
func (P *Prog) isPublishHelperCall(ci ssa.CallInstruction) bool {
	for _, cal := range P.callees(ci) {
		if len(cal.Blocks) > 8 {
			continue
		}
		for _, cj := range callsIn(cal) {
			c := cj.Common()
			n := calleeName(c)
			if n != "os.Rename" && n != "(hotline.FileStore).Rename" {
				continue
			}
			src, dst := P.sym(c.Args[0]), P.sym(c.Args[1])
			if src == dst+incompleteSuffixSym && strings.HasPrefix(dst, "param:") {
				return true
			}
		}
	}
	return false
}

// ruleIncompleteAppend: the data-fork target of every receiveFile call was opened on "<final>.incomplete"
// with O_APPEND|O_CREATE|O_WRONLY and without O_TRUNC.
func (R *Run) ruleIncompleteAppend(minSites int, fnNames ...string) {
	P := R.P
	oWRONLY, oCREATE, oTRUNC, oAPPEND := P.osFlag("O_WRONLY"), P.osFlag("O_CREATE"), P.osFlag("O_TRUNC"), P.osFlag("O_APPEND")
	checkOpen := func(open *ssa.Call, construct string, pathOK func(string) bool) {
		flags, ok := constInt(open.Call.Args[1])
		p := P.sym(open.Call.Args[0])
		var bad []string
		if !ok {
			bad = append(bad, "flags are not constant")
		} else {
			if flags&oAPPEND == 0 {
				bad = append(bad, "O_APPEND missing (a resumed upload would overwrite the received prefix)")
			}
			if flags&oTRUNC != 0 {
				bad = append(bad, "O_TRUNC set (the received prefix is destroyed on resume)")
			}
			if flags&oCREATE == 0 || flags&oWRONLY == 0 {
				bad = append(bad, "O_CREATE|O_WRONLY missing")
			}
		}
		if !pathOK(p) {
			bad = append(bad, "opened path "+p+" is not the .incomplete name")
		}
		R.check(len(bad) == 0, "incomplete-append", construct, P.ipos(open), "partial file opened append-only, never truncated", strings.Join(bad, "; "))
	}
	n := 0
	for _, fnName := range fnNames {
		fn := R.mustFn(fnName)
		if fn == nil {
			continue
		}
		for _, ci := range callsIn(fn) {
			c := ci.Common()
			if calleeName(c) != "hotline.receiveFile" {
				continue
			}
			n++
			target := c.Args[1]
			construct := fmt.Sprintf("%s: receiveFile #%d data-fork target", fname(fn), nCreateIn(fn, ci))
			var open *ssa.Call
			viaInc := false
			F := &Flow{P: P, Call: func(cc *ssa.Call, idx int) ([]ssa.Value, bool) {
				switch calleeName(&cc.Call) {
				case "os.OpenFile", "(hotline.FileStore).OpenFile":
					open = cc
				case "(*hotline.fileWrapper).incFileWriter":
					viaInc = true
				}
				return nil, true
			}}
			F.Back(target)
			switch {
			case open != nil:
				checkOpen(open, construct, func(p string) bool { return strings.HasSuffix(p, incompleteSuffixSym) })
			case viaInc:
				inc := R.mustFn("(*hotline.fileWrapper).incFileWriter")
				var o *ssa.Call
				if inc != nil {
					for _, cj := range callsIn(inc) {
						if cc, ok := cj.(*ssa.Call); ok && (calleeName(&cc.Call) == "os.OpenFile" || calleeName(&cc.Call) == "(hotline.FileStore).OpenFile") {
							o = cc
						}
					}
				}
				if o == nil {
					R.und("incomplete-append", construct, P.ipos(ci), "incFileWriter does not open a file with OpenFile")
					break
				}
				checkOpen(o, construct, func(p string) bool { return strings.Contains(p, "field:hotline.fileWrapper.incompletePath") })
			default:
				R.und("incomplete-append", construct, P.ipos(ci), "the data-fork target is not the result of OpenFile / incFileWriter")
			}
		}
	}
	// incompletePath is <dir>/<name>.incomplete
	if nf := R.mustFn("hotline.NewFileWrapper"); nf != nil {
		ok := false
		eachInstr(nf, func(ins ssa.Instruction) {
			if st, isSt := ins.(*ssa.Store); isSt {
				if fa, isFa := st.Addr.(*ssa.FieldAddr); isFa {
					if f, _ := fieldOf(fa); f == "hotline.fileWrapper.incompletePath" {
						s := P.sym(st.Val)
						ok = strings.Contains(s, incompleteSuffixSym)
					}
				}
			}
		})
		R.check(ok, "incomplete-append", "hotline.NewFileWrapper: incompletePath", P.pos(nf.Pos()), "incompletePath = name + IncompleteFileSuffix", "fileWrapper.incompletePath is not built from the file name plus the .incomplete suffix")
	}
	if n < minSites {
		R.bad("incomplete-append", "receiveFile call sites", "-", fmt.Sprintf("%d receiveFile call sites found, %d confirmed on the reference tree", n, minSites))
	}
}

// ruleDeclaredSizeCopy: receiveFile copies exactly the data-fork size declared in the header it just read.
func (R *Run) ruleDeclaredSizeCopy() {
	P := R.P
	fn := R.mustFn("hotline.receiveFile")
	if fn == nil {
		return
	}
	R.analysed(fname(fn))
	var readFrom *ssa.Call
	for _, ci := range callsIn(fn) {
		if c, ok := ci.(*ssa.Call); ok && calleeName(&c.Call) == "(*hotline.flattenedFileObject).ReadFrom" {
			readFrom = c
		}
	}
	n := 0
	for _, ci := range callsIn(fn) {
		c := ci.Common()
		if calleeName(c) != "io.CopyN" {
			continue
		}
		if stripConv(resolveLocal(stripConv(c.Args[0]))) != ssa.Value(fn.Params[1]) {
			continue
		}
		n++
		base, isDeclared := P.declaredDataSizeOf(c.Args[2], 0)
		okSize := isDeclared && readFrom != nil && base == readFrom.Call.Args[0]
		fromStream := P.reaches(c.Args[1], func(x ssa.Value) bool { return x == ssa.Value(fn.Params[0]) })
		ordered := readFrom != nil && instrDominates(readFrom, ci.(ssa.Instruction))
		R.check(okSize && fromStream && ordered, "declared-size-copy", "hotline.receiveFile: data fork copy", P.ipos(ci),
			"io.CopyN(target, stream, size declared in the data-fork header read just before)",
			fmt.Sprintf("the data fork copy does not take exactly the declared data-fork size from the stream (size from header: %v, source is the stream: %v, header read first: %v)", okSize, fromStream, ordered))
	}
	if n == 0 {
		R.bad("declared-size-copy", "hotline.receiveFile: data fork copy", P.pos(fn.Pos()), "no io.CopyN into the data-fork target found")
	}
}

// declaredDataSizeOf: v is the 32-bit big-endian value of <base>.FlatFileDataForkHeader.DataSize (converted to an
// integer type), read in place or through a helper method that returns exactly that of its receiver; returns base.
func (P *Prog) declaredDataSizeOf(v ssa.Value, depth int) (ssa.Value, bool) {
	c := callValue(stripConv(v))
	if c == nil || depth > 2 {
		return nil, false
	}
	if strings.HasSuffix(calleeName(&c.Call), ".Uint32") && strings.Contains(calleeName(&c.Call), "encoding/binary") {
		args := c.Call.Args
		sl, ok := args[len(args)-1].(*ssa.Slice)
		if !ok || sl.Low != nil || sl.High != nil {
			return nil, false
		}
		fa, ok := sl.X.(*ssa.FieldAddr)
		if !ok {
			return nil, false
		}
		if f, _ := fieldOf(fa); f != "hotline.FlatFileForkHeader.DataSize" {
			return nil, false
		}
		inner, ok := fa.X.(*ssa.FieldAddr)
		if !ok {
			return nil, false
		}
		if g, _ := fieldOf(inner); g != "hotline.flattenedFileObject.FlatFileDataForkHeader" {
			return nil, false
		}
		return inner.X, true
	}
	h, ok := c.Call.Value.(*ssa.Function)
	if !ok || h.Blocks == nil || !P.isRepoPkg(pkgOf(h)) || len(h.Params) == 0 || len(c.Call.Args) == 0 {
		return nil, false
	}
	rets := returnsOf(h)
	if len(rets) == 0 {
		return nil, false
	}
	for _, ret := range rets {
		if len(ret.Results) != 1 {
			return nil, false
		}
		b, ok := P.declaredDataSizeOf(ret.Results[0], depth+1)
		if !ok || b != ssa.Value(h.Params[0]) {
			return nil, false
		}
	}
	return c.Call.Args[0], true
}

// ruleNoOverwrite: an upload is refused when the final name exists.
func (R *Run) ruleNoOverwrite() {
	P := R.P
	type spec struct {
		fn      string
		guarded []string // callees that must be unreachable when the final name exists
	}
	for _, sp := range []spec{
		{"hotline.UploadHandler", []string{"os.OpenFile", "hotline.receiveFile", "(hotline.FileStore).Rename", "os.Rename"}},
		{"mobius.HandleUploadFile", []string{"(*hotline.ClientConn).NewFileTransfer"}},
	} {
		fn := R.mustFn(sp.fn)
		if fn == nil {
			continue
		}
		R.analysed(fname(fn))
		// Stat calls on the final path (not the .incomplete one)
		cut := map[Edge]bool{}
		nStat := 0
		factEdges(fn, func(e Edge, f Fact) {
			if f.Kind != "nil" {
				return
			}
			cv := callValue(f.V)
			if cv == nil {
				return
			}
			n := calleeName(&cv.Call)
			if n != "os.Stat" && n != "(hotline.FileStore).Stat" {
				return
			}
			if ex, ok := f.V.(*ssa.Extract); !ok || ex.Index != 1 {
				return
			}
			if strings.HasSuffix(P.sym(cv.Call.Args[0]), incompleteSuffixSym) {
				return
			}
			nStat++
			if !f.Holds { // err != nil: the final name does not exist → cut, keep "exists" paths
				cut[e] = true
			}
		})
		reach := reachable(fn, cut)
		for _, ci := range callsIn(fn) {
			name := calleeName(ci.Common())
			if P.isPublishHelperCall(ci) {
				name = "os.Rename" // publishing through a helper counts as the rename
			}
			for _, g := range sp.guarded {
				if name != g && !(name == "os.Rename" && g == "(hotline.FileStore).Rename") {
					continue
				}
				R.check(nStat > 0 && !reach[ci.Block()], "no-overwrite", fmt.Sprintf("%s: %s #%d", sp.fn, name, nCreateIn(fn, ci)), P.ipos(ci),
					"unreachable when the final name already exists", "reachable although Stat of the final name succeeded: an upload can replace an existing file", P.describePath(pathTo(fn, ci.Block(), cut))...)
			}
		}
	}
	R.floor("no-overwrite", 4)
}

// ruleResumeOffsetReply: the offset a client is told to resume an upload from is the size of the partial file.
func (R *Run) ruleResumeOffsetReply() {
	P := R.P
	for _, fnName := range []string{"mobius.HandleUploadFile", "hotline.UploadFolderHandler"} {
		fn := R.mustFn(fnName)
		if fn == nil {
			continue
		}
		R.analysed(fname(fn))
		n := 0
		for _, ci := range callsIn(fn) {
			c := ci.Common()
			if calleeName(c) != "hotline.NewForkInfoList" {
				continue
			}
			n++
			// arg: byte slice filled with uint32(X.Size()) where X = Stat(<final>.incomplete)
			ok := false
			var statPath string
			F := &Flow{P: P, Call: func(cc *ssa.Call, idx int) ([]ssa.Value, bool) {
				name := calleeName(&cc.Call)
				if putUintWidth(name) > 0 && idx == -2 {
					a := cc.Call.Args
					return []ssa.Value{a[len(a)-1]}, true
				}
				if strings.HasSuffix(name, "AppendUint32") || strings.HasSuffix(name, "AppendUint64") {
					a := cc.Call.Args
					return []ssa.Value{a[len(a)-1]}, true
				}
				if cc.Call.IsInvoke() && cc.Call.Method.Name() == "Size" {
					return []ssa.Value{cc.Call.Value}, true
				}
				if name == "os.Stat" || name == "(hotline.FileStore).Stat" {
					statPath = P.sym(cc.Call.Args[0])
					if strings.HasSuffix(statPath, incompleteSuffixSym) || (strings.HasPrefix(statPath, "Join(") && strings.HasSuffix(statPath, incompleteSuffixSym+")")) {
						ok = true
					}
				}
				return nil, true
			}}
			F.Back(c.Args[0])
			R.check(ok, "resume-offset-reply", fmt.Sprintf("%s: resume offset #%d", fnName, n), P.ipos(ci),
				"offset = size of the .incomplete file", "the resume offset sent to the client is not the Size() of the Stat of the .incomplete file (stat path: "+statPath+")")
		}
		if n == 0 {
			R.bad("resume-offset-reply", fnName, P.pos(fn.Pos()), "no resume data is built any more")
		}
	}
}

// ruleHeaderGate (C08): header only when not a preview; header before data; data before resource fork.
func (R *Run) ruleHeaderGate() {
	P := R.P
	fn := R.mustFn("hotline.DownloadHandler")
	if fn == nil {
		return
	}
	R.analysed(fname(fn))
	w := fn.Params[0]
	// the four emissions to the client: found directly in the handler or inside a helper it hands w to
	var header, data, rsrcHdr, rsrc *deepCall
	dcs := P.deepCalls(fn, 2)
	for i := range dcs {
		dc := &dcs[i]
		c := dc.call.Common()
		name := calleeName(c)
		if name != "io.Copy" && name != "encoding/binary.Write" {
			continue
		}
		dst := dc.up(stripConv(c.Args[0]))
		if dst == nil || stripConv(dst) != ssa.Value(w) {
			continue
		}
		if name == "encoding/binary.Write" {
			rsrcHdr = dc
			continue
		}
		src := c.Args[1]
		switch {
		case P.reachesVia(*dc, src, func(x ssa.Value) bool {
			fa, ok := x.(*ssa.FieldAddr)
			if !ok {
				return false
			}
			f, _ := fieldOf(fa)
			return f == "hotline.fileWrapper.Ffo"
		}):
			header = dc
		case P.reachesVia(*dc, src, func(x ssa.Value) bool {
			cv := callValue(x)
			return cv != nil && calleeName(&cv.Call) == "(*hotline.fileWrapper).rsrcForkFile"
		}):
			rsrc = dc
		case P.reachesVia(*dc, src, func(x ssa.Value) bool {
			cv := callValue(x)
			return cv != nil && calleeName(&cv.Call) == "(*hotline.fileWrapper).dataForkReader"
		}):
			data = dc
		}
	}
	if header == nil || data == nil {
		R.bad("header-gate", "hotline.DownloadHandler", P.pos(fn.Pos()), fmt.Sprintf("header copy (found: %v) or data copy (found: %v) not found (mechanism moved)", header != nil, data != nil))
		return
	}
	hSite, dSite := header.site.(ssa.Instruction), data.site.(ssa.Instruction)
	cut := map[Edge]bool{}
	nOpt := 0
	factEdges(fn, func(e Edge, f Fact) {
		if f.Kind == "nil" {
			if fld, ok := loadedField(f.V); ok && fld == "hotline.FileTransfer.Options" {
				nOpt++
				if f.Holds { // Options == nil → normal download; cut to keep only preview paths
					cut[e] = true
				}
			}
		}
	})
	reach := reachable(fn, cut)
	R.check(nOpt > 0 && !reach[hSite.Block()], "header-gate", "hotline.DownloadHandler: flattened-file header", P.ipos(header.call), "not sent for a preview request", "the flattened-file header is also sent when transfer options are present (a preview must get the bare data only)")
	R.check(reach[dSite.Block()], "header-gate", "hotline.DownloadHandler: data fork (preview)", P.ipos(data.call), "sent for a preview request too", "the data fork is not sent for a preview request")
	// order
	var orderOK bool
	switch {
	case hSite == dSite:
		orderOK = before(*header, *data)
	case hSite.Block() == dSite.Block():
		orderOK = instrIndex(hSite) < instrIndex(dSite)
	default:
		orderOK = !reachableFrom(dSite.Block(), nil)[hSite.Block()]
	}
	if rsrcHdr != nil {
		orderOK = orderOK && before(*data, *rsrcHdr)
	}
	if rsrc != nil {
		orderOK = orderOK && before(*data, *rsrc)
		if rsrcHdr != nil {
			rSite, rhSite := rsrc.site.(ssa.Instruction), rsrcHdr.site.(ssa.Instruction)
			if rSite == rhSite {
				orderOK = orderOK && before(*rsrcHdr, *rsrc)
			} else if reachableFrom(rSite.Block(), nil)[rhSite.Block()] && rSite.Block() != rhSite.Block() {
				orderOK = false
			}
		}
	}
	R.check(orderOK && rsrc != nil, "header-gate", "hotline.DownloadHandler: order header → data → resource fork", P.ipos(data.call), "header before data before resource fork", "the parts of a download are not emitted in the order header, data fork, resource-fork header, resource fork")
	// a resource-fork header that announces N bytes must be followed by the resource fork on every success path
	if rsrcHdr != nil && rsrc != nil {
		from, to := rsrcHdr.site.(ssa.Instruction), rsrc.site.(ssa.Instruction)
		if from == to && rsrcHdr.fn == rsrc.fn {
			// both inside one helper invocation: decide inside the helper
			from, to = rsrcHdr.call.(ssa.Instruction), rsrc.call.(ssa.Instruction)
		}
		okHdr, ret := mustPassAfter(from, func(x ssa.Instruction) bool {
			if x == to {
				return true
			}
			// an error return after the header write failed is fine
			if r, isRet := x.(*ssa.Return); isRet {
				return !isSuccessReturn(r)
			}
			return false
		})
		pos := P.ipos(rsrcHdr.call)
		if ret != nil {
			pos = P.ipos(ret)
		}
		R.check(okHdr, "header-gate", "hotline.DownloadHandler: resource-fork header followed by its data", pos, "every success path after the MACR header copies the resource fork", "a success return is reachable after the resource-fork header (which announces the fork's size) without the resource fork having been sent: the client waits for bytes that never come")
	}
}

// ruleReplyConsistency (C08): the download reply's size fields.
func (R *Run) ruleReplyConsistency() {
	P := R.P
	fn := R.mustFn("mobius.HandleDownloadFile")
	if fn == nil {
		return
	}
	R.analysed(fname(fn))
	isDataForkSize := func(x ssa.Value) bool {
		fa, ok := x.(*ssa.FieldAddr)
		if !ok {
			return false
		}
		f, _ := fieldOf(fa)
		if f != "hotline.FlatFileForkHeader.DataSize" {
			return false
		}
		inner, ok := fa.X.(*ssa.FieldAddr)
		if !ok {
			return false
		}
		g, _ := fieldOf(inner)
		return g == "hotline.flattenedFileObject.FlatFileDataForkHeader"
	}
	// NewFileWrapper offset from resume data
	for _, ci := range callsIn(fn) {
		c := ci.Common()
		switch calleeName(c) {
		case "hotline.NewFileWrapper":
			R.check(P.reaches(c.Args[2], isResumeOffsetSource), "reply-consistency", "mobius.HandleDownloadFile: NewFileWrapper offset", P.ipos(ci), "offset comes from the request's resume data", "the file wrapper used for the reply's sizes is not given the request's resume offset")
		case "hotline.NewField":
			g, _ := globalName(c.Args[0])
			switch g {
			case "hotline.FieldFileSize":
				R.check(P.reaches(c.Args[1], isDataForkSize), "reply-consistency", "mobius.HandleDownloadFile: field 207 file size", P.ipos(ci), "= data fork header's DataSize (size − offset)", "field 207 is not the remaining data fork size")
			case "hotline.FieldTransferSize":
				// phi: TransferSize(0) normally, data size for preview
				hasXfer := P.reaches(c.Args[1], func(x ssa.Value) bool {
					cv := callValue(x)
					if cv == nil || calleeName(&cv.Call) != "(*hotline.flattenedFileObject).TransferSize" {
						return false
					}
					n, ok := constInt(cv.Call.Args[1])
					return ok && n == 0
				})
				hasData := P.reaches(c.Args[1], isDataForkSize)
				// the data-size alternative must be under "options present"
				gated := false
				if phi, ok := c.Args[1].(*ssa.Phi); ok {
					for i, e := range phi.Edges {
						if P.reaches(e, isDataForkSize) && !P.reaches(e, func(x ssa.Value) bool {
							cv := callValue(x)
							return cv != nil && calleeName(&cv.Call) == "(*hotline.flattenedFileObject).TransferSize"
						}) {
							pred := phi.Block().Preds[i]
							factEdges(fn, func(ed Edge, f Fact) {
								if f.Kind == "nil" && !f.Holds && P.requestFieldOf(f.V) == "FieldFileTransferOptions" {
									if (ed.To == pred && len(pred.Preds) == 1) || edgeDominates(fn, ed, pred) {
										gated = true
									}
								}
							})
						}
					}
				}
				R.check(hasXfer && hasData && gated, "reply-consistency", "mobius.HandleDownloadFile: field 108 transfer size", P.ipos(ci), "TransferSize(0), or the data size when the preview option is present", fmt.Sprintf("field 108 is not 'TransferSize(0) unless the preview option is present, then the data size' (TransferSize(0): %v, data size: %v, gated on options: %v)", hasXfer, hasData, gated))
			}
		}
	}
	R.floor("reply-consistency", 3)
	// fileWrapper: data fork size = Size() − dataOffset
	if fo := R.mustFn("(*hotline.fileWrapper).flattenedFileObject"); fo != nil {
		n, good := 0, 0
		for _, ci := range callsIn(fo) {
			c := ci.Common()
			if putUintWidth(calleeName(c)) != 4 {
				continue
			}
			a := c.Args
			v := stripConv(a[len(a)-1])
			if !P.reaches(v, func(x ssa.Value) bool {
				cv := callValue(x)
				return cv != nil && cv.Call.IsInvoke() && cv.Call.Method.Name() == "Size"
			}) {
				continue
			}
			n++
			b, ok := v.(*ssa.BinOp)
			if ok && b.Op == token.SUB {
				sz := callValue(b.X)
				if sz != nil && sz.Call.IsInvoke() && sz.Call.Method.Name() == "Size" {
					if f, ok := loadedField(b.Y); ok && f == "hotline.fileWrapper.dataOffset" {
						good++
					}
				}
			}
		}
		R.check(n > 0 && n == good, "reply-consistency", "hotline.fileWrapper.flattenedFileObject: data fork size", P.pos(fo.Pos()), "= file size − resume offset", fmt.Sprintf("%d of %d data-size computations are 'Size() − dataOffset'", good, n))
	}
	// TransferSize = data + rsrc + header − offset
	if ts := R.mustFn("(*hotline.flattenedFileObject).TransferSize"); ts != nil {
		okAll := false
		dbg := ""
		for _, ci := range callsIn(ts) {
			c := ci.Common()
			if putUintWidth(calleeName(c)) != 4 && !strings.HasSuffix(calleeName(c), "AppendUint32") {
				continue
			}
			a := c.Args
			plus, minus := map[string]int{}, map[string]int{}
			var walk func(v ssa.Value, sign int)
			walk = func(v ssa.Value, sign int) {
				v = stripConv(v)
				if b, ok := v.(*ssa.BinOp); ok && (b.Op == token.ADD || b.Op == token.SUB) {
					walk(b.X, sign)
					if b.Op == token.ADD {
						walk(b.Y, sign)
					} else {
						walk(b.Y, -sign)
					}
					return
				}
				k := "?" + P.sym(v)
				switch {
				case v == ssa.Value(ts.Params[1]):
					k = "offset"
				case func() bool {
					// the header computed instead of measured: max(F + Σ len(variable parts) − readOffset, 0) with F and the
					// parts those of the layout that Read emits
					mc, isCall := v.(*ssa.Call)
					if !isCall || calleeName(&mc.Call) != "builtin.max" || len(mc.Call.Args) != 2 {
						return false
					}
					var inner ssa.Value
					for i, a := range mc.Call.Args {
						if kk, isK := constInt(a); isK && kk == 0 {
							inner = mc.Call.Args[1-i]
						}
					}
					if inner == nil {
						return false
					}
					sub, isSub := stripConv(inner).(*ssa.BinOp)
					if !isSub || sub.Op != token.SUB {
						return false
					}
					if f, ok := loadedField(stripConv(sub.Y)); !ok || f != "hotline.flattenedFileObject.readOffset" {
						return false
					}
					var c int64
					var lens []string
					if !P.affineLen(sub.X, &c, &lens) {
						return false
					}
					segs, ok := P.encoderLayout("hotline.flattenedFileObject")
					if !ok {
						return false
					}
					fixed, vars := fixedWidth(segs)
					sort.Strings(lens)
					return int(c) == fixed && strings.Join(lens, ",") == strings.Join(vars, ",")
				}():
					k = "header"
				case func() bool {
					// the header measured as the length of the very encoding Read emits (built by the same expression),
					// instead of draining a copy of the object
					lc, isLen := v.(*ssa.Call)
					if !isLen || calleeName(&lc.Call) != "builtin.len" {
						return false
					}
					rd := P.fn("(*hotline.flattenedFileObject).Read")
					if rd == nil {
						return false
					}
					concatSym := func(from ssa.Value) string {
						out := ""
						P.reaches(from, func(x ssa.Value) bool {
							if cv := callValue(x); cv != nil && calleeName(&cv.Call) == "slices.Concat" {
								out = stripRecv(P.sym(cv))
								return true
							}
							return false
						})
						return out
					}
					mine := concatSym(lc.Call.Args[0])
					if mine == "" {
						return false
					}
					for _, cj := range callsIn(rd) {
						if cc, ok := cj.(*ssa.Call); ok && calleeName(&cc.Call) == "builtin.copy" && len(cc.Call.Args) == 2 {
							if concatSym(cc.Call.Args[1]) == mine {
								return true
							}
						}
					}
					return false
				}():
					k = "header"
				case P.reaches(v, func(x ssa.Value) bool {
					fa, ok := x.(*ssa.FieldAddr)
					if !ok {
						return false
					}
					f, _ := fieldOf(fa)
					return f == "hotline.flattenedFileObject.FlatFileDataForkHeader"
				}):
					k = "data"
				case P.reaches(v, func(x ssa.Value) bool {
					fa, ok := x.(*ssa.FieldAddr)
					if !ok {
						return false
					}
					f, _ := fieldOf(fa)
					return f == "hotline.flattenedFileObject.FlatFileResForkHeader"
				}):
					k = "rsrc"
				case P.reaches(v, func(x ssa.Value) bool {
					cv := callValue(x)
					return cv != nil && calleeName(&cv.Call) == "io.ReadAll"
				}):
					k = "header"
				}
				if sign > 0 {
					plus[k]++
				} else {
					minus[k]++
				}
			}
			walk(a[len(a)-1], 1)
			dbg = fmt.Sprint(plus, minus)
			okAll = len(plus) == 3 && plus["data"] == 1 && plus["rsrc"] == 1 && plus["header"] == 1 && len(minus) == 1 && minus["offset"] == 1
		}
		R.check(okAll, "reply-consistency", "hotline.flattenedFileObject.TransferSize", P.pos(ts.Pos()), "= data size + resource size + header length − offset", "TransferSize is not data fork size + resource fork size + length of the emitted header − offset: "+dbg)
	}
}

// ruleWalkFilterAgree (C10): the item counter and the sending walker skip the same entries.
func (R *Run) ruleWalkFilterAgree() {
	P := R.P
	cnt := R.mustFn("hotline.CalcItemCount")
	dl := R.mustFn("hotline.DownloadFolderHandler")
	if cnt == nil || dl == nil {
		return
	}
	R.analysed(fname(cnt))
	R.analysed(fname(dl))
	// the predicate: strings.HasPrefix(info.Name(), ".")
	type pred struct {
		fn   *ssa.Function
		call *ssa.Call
		sym  string
	}
	find := func(root *ssa.Function) []pred {
		var out []pred
		for _, f := range withAnons(root) {
			for _, ci := range callsIn(f) {
				if c, ok := ci.(*ssa.Call); ok && calleeName(&c.Call) == "strings.HasPrefix" {
					nm := callValue(c.Call.Args[0])
					if nm != nil && nm.Call.IsInvoke() && nm.Call.Method.Name() == "Name" {
						s, _ := constString(c.Call.Args[1])
						out = append(out, pred{f, c, "HasPrefix(Name(), " + fmt.Sprintf("%q", s) + ")"})
					}
				}
			}
		}
		return out
	}
	pc, pd := find(cnt), find(dl)
	if len(pc) != 1 || len(pd) != 1 {
		R.und("walk-filter-agree", "skip predicates", P.pos(dl.Pos()), fmt.Sprintf("expected exactly one name-prefix skip predicate in the counter and in the walker, found %d and %d", len(pc), len(pd)))
		return
	}
	R.check(pc[0].sym == pd[0].sym, "walk-filter-agree", "skip predicate", P.ipos(pd[0].call), "counter and walker use "+pc[0].sym, "the item counter skips by "+pc[0].sym+" but the walker by "+pd[0].sym+": the announced item count differs from the headers sent")
	// counter: increment unreachable when the predicate holds
	{
		f := pc[0].fn
		cut := map[Edge]bool{}
		factEdges(f, func(e Edge, ft Fact) {
			if ft.V == ssa.Value(pc[0].call) && !ft.Holds {
				cut[e] = true
			}
		})
		reach := reachable(f, cut)
		incReach := false
		nInc := 0
		eachInstr(f, func(ins ssa.Instruction) {
			if st, ok := ins.(*ssa.Store); ok {
				if b, ok := st.Val.(*ssa.BinOp); ok && b.Op == token.ADD {
					if c, ok := constInt(b.Y); ok && c == 1 {
						nInc++
						if reach[st.Block()] {
							incReach = true
						}
					} else if phi, isPhi := b.Y.(*ssa.Phi); isPhi {
						// `count += w` with w chosen between 0 and 1 beforehand: the 1 must not be chosen for a skipped entry
						ones, other := 0, false
						for i, e := range phi.Edges {
							k, isK := constInt(e)
							switch {
							case isK && k == 1:
								ones++
								if reach[phi.Block().Preds[i]] {
									incReach = true
								}
							case isK && k == 0:
							default:
								other = true
							}
						}
						if ones > 0 && !other {
							nInc++
						} else if other {
							nInc += 2
						}
					}
				}
			}
		})
		R.check(nInc == 1 && !incReach, "walk-filter-agree", "hotline.CalcItemCount: count only visible entries", P.pos(cnt.Pos()), "the counter is only incremented for entries the predicate does not skip", "the item counter is incremented for entries whose name starts with the skip prefix (or not incremented exactly once)")
		// result is count − 1 (the root itself)
		minus1 := false
		for _, pv := range findPutValues(cnt) {
			if b, ok := stripConv(pv).(*ssa.BinOp); ok && b.Op == token.SUB {
				if k, ok := constInt(b.Y); ok && k == 1 {
					minus1 = true
				}
			}
		}
		R.check(minus1, "walk-filter-agree", "hotline.CalcItemCount: root excluded", P.pos(cnt.Pos()), "count − 1", "the announced item count does not exclude the root folder itself (count − 1)")
	}
	// walker: header send unreachable when the predicate holds, and the first entry (root) sends nothing
	{
		f := pd[0].fn
		cut := map[Edge]bool{}
		factEdges(f, func(e Edge, ft Fact) {
			if ft.V == ssa.Value(pd[0].call) && !ft.Holds {
				cut[e] = true
			}
		})
		reach := reachable(f, cut)
		var hdr ssa.CallInstruction
		for _, ci := range callsIn(f) {
			c := ci.Common()
			if calleeName(c) == "io.Copy" {
				if t, _ := concreteBelowInterface(c.Args[1]); typeName(t) == "*hotline.FileHeader" {
					hdr = ci
				}
			}
		}
		if hdr == nil {
			R.bad("walk-filter-agree", "hotline.DownloadFolderHandler: item header", P.pos(dl.Pos()), "no item header is sent any more")
		} else {
			R.check(!reach[hdr.Block()], "walk-filter-agree", "hotline.DownloadFolderHandler: no header for skipped entries", P.ipos(hdr), "item headers are only sent for entries the predicate does not skip", "an item header is sent for an entry the counter does not count")
			// root exclusion: a test i == 1 whose true edge avoids the header
			rootCut := map[Edge]bool{}
			factEdges(f, func(e Edge, ft Fact) {
				if ft.Kind == "eq" && !ft.Holds {
					if k, ok := constInt(ft.C); ok && k == 1 {
						rootCut[e] = true
					}
				}
			})
			R.check(len(rootCut) > 0 && !reachable(f, rootCut)[hdr.Block()], "walk-filter-agree", "hotline.DownloadFolderHandler: root excluded", P.ipos(hdr), "the first visited entry (the folder itself) sends no header", "the requested folder itself is sent as an item although the count excludes it")
		}
		// neither prunes sub-trees
		for _, g := range []*ssa.Function{pc[0].fn, pd[0].fn} {
			prunes := false
			for _, ret := range returnsOf(g) {
				if gn, ok := globalName(ret.Results[len(ret.Results)-1]); ok && (gn == "io/fs.SkipDir" || gn == "path/filepath.SkipDir" || gn == "io/fs.SkipAll") {
					prunes = true
				}
			}
			R.check(!prunes, "walk-filter-agree", fname(g)+": no pruning", P.pos(g.Pos()), "does not return SkipDir", "returns SkipDir/SkipAll: counter and walker would descend into different sub-trees")
		}
	}
}

// ruleSkipSendsOnce (C10): in the folder upload's item loop the action word written to the client carries the
// variable next action; on the edge where that action equals DlFldrActionNextFile no further action word may
// be written before the next item is read.
func (R *Run) ruleSkipSendsOnce() {
	P := R.P
	fn := R.mustFn("hotline.UploadFolderHandler")
	if fn == nil {
		return
	}
	R.analysed(fname(fn))
	next := int64(3)
	if c := P.Hot.Const("DlFldrActionNextFile"); c != nil {
		if v, ok := constInt(c.Value); ok {
			next = v
		}
	}
	rwc := fn.Params[0]
	// writes of a 2-byte action word {0, x}
	type aw struct {
		call ssa.CallInstruction
		val  ssa.Value // the second byte (nil = constant)
		k    int64
	}
	var words []aw
	for _, ci := range callsIn(fn) {
		c := ci.Common()
		if !(c.IsInvoke() && c.Method.Name() == "Write" && stripConv(c.Value) == ssa.Value(rwc)) {
			continue
		}
		sl, ok := c.Args[0].(*ssa.Slice)
		if !ok {
			continue
		}
		a, ok := sl.X.(*ssa.Alloc)
		if !ok {
			continue
		}
		arr, ok := derefType(a.Type()).Underlying().(*types.Array)
		if !ok || arr.Len() != 2 {
			continue
		}
		w := aw{call: ci, k: -1}
		for _, r := range *a.Referrers() {
			if ia, ok := r.(*ssa.IndexAddr); ok {
				if idx, ok := constInt(ia.Index); ok && idx == 1 {
					for _, rr := range *ia.Referrers() {
						if st, ok := rr.(*ssa.Store); ok {
							if k, isC := constInt(st.Val); isC {
								w.k = k
							} else {
								w.val = stripConv(st.Val)
							}
						}
					}
				}
			}
		}
		words = append(words, w)
	}
	var variable *aw
	for i := range words {
		if words[i].val != nil {
			variable = &words[i]
		}
	}
	if variable == nil || len(words) < 3 {
		R.und("skip-sends-once", fname(fn), P.pos(fn.Pos()), fmt.Sprintf("the item loop's action words were not recognised (%d found, one of them variable expected)", len(words)))
		return
	}
	// edges on which the variable action equals "next file"
	bad := ""
	n := 0
	factEdges(fn, func(e Edge, f Fact) {
		if f.Kind != "eq" || !f.Holds {
			return
		}
		k, ok := constInt(f.C)
		if !ok || k != next || stripConv(f.V) != variable.val {
			return
		}
		n++
		// from the edge target, is another action-word write reachable before the item header is read again?
		// the reads that make up the item header: whole reads of the connection inside the loop that come before any
		// action word of the iteration (not dominated by an action-word write that is itself in the loop)
		stop := map[ssa.Instruction]bool{firstItemRead(fn, rwc): true}
		for _, b := range fn.Blocks {
			if !inLoop(b) {
				continue
			}
			for _, ins := range b.Instrs {
				ci, ok := ins.(ssa.CallInstruction)
				if !ok {
					continue
				}
				if n := calleeName(ci.Common()); (n != "io.ReadFull" && n != "io.ReadAtLeast") || stripConv(ci.Common().Args[0]) != ssa.Value(rwc) {
					continue
				}
				header := true
				for _, w := range words {
					wi := w.call.(ssa.Instruction)
					if inLoop(wi.Block()) && instrDominates(wi, ins) {
						header = false
					}
				}
				if header {
					stop[ins] = true
				}
			}
		}
		for _, w := range words {
			if reachesWithoutAny(e.To, 0, w.call.(ssa.Instruction), stop) {
				bad = P.ipos(w.call)
			}
		}
	})
	R.check(n > 0 && bad == "", "skip-sends-once", fname(fn)+": skipped item", P.pos(fn.Pos()), "after answering 'next file' nothing more is written for that item",
		"for an item the server answers with 'next file' (already complete) a second action word is written at "+bad+" before the next item header is read: the client takes it as the answer to the following item and every later answer is shifted by one")
}

// firstItemRead: the io.ReadFull that starts an item (first read of the connection inside the loop).
func firstItemRead(fn *ssa.Function, rwc ssa.Value) ssa.Instruction {
	isWholeRead := func(c *ssa.CallCommon, stream ssa.Value) bool {
		n := calleeName(c)
		return (n == "io.ReadFull" || n == "io.ReadAtLeast") && stripConv(c.Args[0]) == stream
	}
	for _, b := range fn.Blocks {
		// a loop block: lies on a cycle
		if !inLoop(b) {
			continue
		}
		for _, ins := range b.Instrs {
			ci, ok := ins.(ssa.CallInstruction)
			if !ok {
				continue
			}
			if isWholeRead(ci.Common(), rwc) {
				return ins
			}
			// the header read extracted into a helper that is handed the stream
			if h, ok := ci.Common().Value.(*ssa.Function); ok && h.Blocks != nil && h.Pkg == fn.Pkg {
				for k, a := range ci.Common().Args {
					if stripConv(a) != rwc || k >= len(h.Params) {
						continue
					}
					for _, cj := range callsIn(h) {
						if isWholeRead(cj.Common(), h.Params[k]) {
							return ins
						}
					}
				}
			}
		}
	}
	return nil
}

// rulePartialPreserved (C09/C10): the bytes already received for an interrupted upload live in "<name>.incomplete"
// and are what a resumed upload continues from.  Outside the user-requested Delete / Move of the whole file (which
// go through the fileWrapper's path fields) no server code may remove, truncate, recreate or overwrite a path built
// with the partial-file suffix: the only operations on such a path are Stat, open for appending, open for reading,
// and the rename onto the final name.
func (R *Run) rulePartialPreserved() {
	P := R.P
	R.rule("partial-preserved", "every filesystem call whose path is built with IncompleteFileSuffix is Stat/Lstat, Open, OpenFile with O_APPEND and without O_TRUNC, or Rename with the partial file as source: nothing removes, truncates, recreates or renames something onto a partial upload")
	n := 0
	for _, fn := range P.Funcs {
		if fn.Pkg == nil || fn.Pkg.Pkg.Path() == cmdPath || isClientLibrary(fn) {
			continue
		}
		for _, ci := range callsIn(fn) {
			c := ci.Common()
			idxs := pathArgs(c)
			for k, i := range idxs {
				s := P.sym(c.Args[i])
				if !strings.Contains(s, incompleteSuffixSym) {
					continue
				}
				n++
				name := calleeName(c)
				op := name
				if c.IsInvoke() {
					op = c.Method.Name()
				} else if j := strings.LastIndex(name, "."); j >= 0 {
					op = name[j+1:]
				}
				construct := fmt.Sprintf("%s: %s #%d arg %d", fname(fn), sed(name), nCreateIn(fn, ci), i)
				R.analysed(fname(fn))
				switch op {
				case "Stat", "Lstat", "Open":
					R.ok("partial-preserved", construct, P.ipos(ci), "read-only use of the partial file")
				case "OpenFile":
					flags, ok := constInt(c.Args[i+1])
					good := ok && (flags&0x3 == 0 || (flags&P.osFlag("O_APPEND") != 0 && flags&P.osFlag("O_TRUNC") == 0))
					R.check(good, "partial-preserved", construct, P.ipos(ci), "opened read-only or for appending", "the partial file is opened for writing without O_APPEND or with O_TRUNC: the bytes received before the interruption are overwritten or discarded")
				case "Rename":
					good := k == 0
					if !good && len(idxs) == 2 {
						// the partial file itself moved (fileWrapper.Move): source is the wrapper's partial path
						if f, ok := loadedField(resolveLocal(stripConv(c.Args[idxs[0]]))); ok && f == "hotline.fileWrapper.incompletePath" {
							good = true
						}
					}
					R.check(good, "partial-preserved", construct, P.ipos(ci), "partial file renamed away (published) or moved whole", "something is renamed onto a partial upload, replacing the bytes received so far")
				default:
					R.bad("partial-preserved", construct, P.ipos(ci), op+" on a partial upload: the bytes received before an interruption are lost, while the server goes on telling the client to resume from them (or the client resumes and only its tail is kept)")
				}
			}
		}
	}
	R.floor("partial-preserved", 6)
}

// ruleReceiveErrors (C09/C10): publishing an upload hinges on "receiveFile returned nil ⇒ every byte the client
// declared was read and written".  Decided per fallible step of the two functions on that path: with the step's
// error assumed non-nil, nil-sensitive reachability must find a provably non-nil error at every return it reaches.
func (R *Run) ruleReceiveErrors() {
	P := R.P
	R.rule("receive-errors-propagate", "in receiveFile and flattenedFileObject.ReadFrom no fallible step (binary.Read, io.ReadFull, io.Copy, io.CopyN, ReadFrom) has its error dropped, and with that step's error assumed non-nil every return reachable from it carries a provably non-nil error (in particular a stream that ends early — io.EOF / io.ErrUnexpectedEOF — is never turned into success)")
	for _, name := range []string{"hotline.receiveFile", "(*hotline.flattenedFileObject).ReadFrom"} {
		fn := R.mustFn(name)
		if fn == nil {
			continue
		}
		R.analysed(fname(fn))
		res := fn.Signature.Results()
		errIdx := -1
		for i := 0; i < res.Len(); i++ {
			if isErrorType(res.At(i).Type()) {
				errIdx = i
			}
		}
		if errIdx < 0 {
			R.bad("receive-errors-propagate", fname(fn), P.pos(fn.Pos()), "the function no longer returns an error")
			continue
		}
		// every byte of the upload is taken with a whole-read primitive: a single Read may return fewer bytes than
		// asked for, the rest of the header would then be parsed as the next fork
		for _, ci := range callsIn(fn) {
			cc := ci.Common()
			if cc.IsInvoke() && cc.Method.Name() == "Read" && cc.Signature().Params().Len() == 1 {
				R.bad("receive-errors-propagate", fmt.Sprintf("%s: %s.Read #%d", fname(fn), typeName(cc.Value.Type()), nCreateIn(fn, ci)), P.ipos(ci),
					"a part of the upload is taken with one Read of the stream: when the transport delivers fewer bytes than the part is long, the remainder is parsed as what follows and a file that is not what the client sent is published without an error")
			}
		}
		for _, ci := range callsIn(fn) {
			c, ok := ci.(*ssa.Call)
			if !ok {
				continue
			}
			sig := c.Call.Signature()
			hasErr := false
			for i := 0; i < sig.Results().Len(); i++ {
				if isErrorType(sig.Results().At(i).Type()) {
					hasErr = true
				}
			}
			n := calleeName(&c.Call)
			if !hasErr || n == "fmt.Errorf" || n == "errors.New" {
				continue
			}
			construct := fmt.Sprintf("%s: %s #%d", fname(fn), sed(n), nCreateIn(fn, ci))
			ev := errResult(c)
			if ev == nil {
				R.bad("receive-errors-propagate", construct, P.ipos(ci), "the error of this step is dropped: a stream that ends here is taken for a complete upload")
				continue
			}
			leak, rewritten := "", false
			check := func(b *ssa.BasicBlock, ns nilState) {
				ret, ok := b.Instrs[len(b.Instrs)-1].(*ssa.Return)
				if !ok || errIdx >= len(ret.Results) {
					return
				}
				rv := ret.Results[errIdx]
				if ns.of(rv) == 2 {
					return
				}
				if u, ok := rv.(*ssa.UnOp); ok && u.Op == token.MUL {
					if _, isCell := u.X.(*ssa.Alloc); isCell {
						// a named result held in memory (captured by deferred code): its last store in this block
						if sv := retValue(ret, errIdx); sv != rv && ns.of(sv) == 2 && !deferWritesResult(fn, u.X.(*ssa.Alloc)) {
							return
						}
						rewritten = true
					}
				}
				leak = P.ipos(ret)
			}
			check(c.Block(), nilState{ev: 2})
			nilReachVisit(c, map[ssa.Value]bool{ev: false}, check)
			switch {
			case leak != "" && rewritten:
				R.bad("receive-errors-propagate", construct, P.ipos(ci), "the error result is a named result that deferred code rewrites; after this step fails the return at "+leak+" is not provably an error (an early end of stream can come back as success)")
			case leak != "":
				R.bad("receive-errors-propagate", construct, P.ipos(ci), "after this step fails, the return at "+leak+" can still report success")
			default:
				R.ok("receive-errors-propagate", construct, P.ipos(ci), "failure reaches only returns with a non-nil error")
			}
		}
	}
	R.floor("receive-errors-propagate", 8)
}

// deferWritesResult: some closure of fn stores into the captured result cell.
func deferWritesResult(fn *ssa.Function, cell *ssa.Alloc) bool {
	for _, f := range withAnons(fn) {
		if f == fn {
			continue
		}
		found := false
		eachInstr(f, func(ins ssa.Instruction) {
			if st, ok := ins.(*ssa.Store); ok && cellOfAddr(st.Addr) == ssa.Value(cell) {
				// (deferred code that stores something that is not nil — an error wrapped with context — cannot turn a
				// failure into a success)
				if (nilState{}).of(st.Val) != 2 {
					found = true
				}
			}
		})
		if found {
			return true
		}
	}
	return false
}

// ruleAnnouncedForksSent (C10): the flattened file object sent for an item announces its fork count; when it says
// three forks and the client did not ask to resume, the resource fork header is written on every path that
// finishes the item — no further condition may drop the announced fork.
func (R *Run) ruleAnnouncedForksSent() {
	P := R.P
	R.rule("announced-forks-sent", "in the folder download, on the paths where the item's header announced three forks (ForkCount[1] == 3) and the client's action is not 'resume', the resource-fork header is written before the item is finished: what was announced is what is sent")
	root := R.mustFn("hotline.DownloadFolderHandler")
	if root == nil {
		return
	}
	n := 0
	for _, fn := range withAnons(root) {
		var hdr ssa.Instruction
		for _, ci := range callsIn(fn) {
			c := ci.Common()
			if calleeName(c) == "encoding/binary.Write" && len(c.Args) == 3 {
				if cv := callValue(c.Args[2]); cv != nil && calleeName(&cv.Call) == "(*hotline.fileWrapper).rsrcForkHeader" {
					hdr = ci.(ssa.Instruction)
				}
				if u, ok := stripConv(c.Args[2]).(*ssa.UnOp); ok && hdr == nil {
					if a, ok := u.X.(*ssa.Alloc); ok {
						if val, single := singleStore(a); single {
							if cv := callValue(val); cv != nil && calleeName(&cv.Call) == "(*hotline.fileWrapper).rsrcForkHeader" {
								hdr = ci.(ssa.Instruction)
							}
						}
					}
				}
			}
		}
		if hdr == nil {
			continue
		}
		n++
		R.analysed(fname(fn))
		// cut the edges that contradict "three forks announced" or "not a resume"
		cut := map[Edge]bool{}
		var starts []*ssa.BasicBlock
		factEdges(fn, func(e Edge, f Fact) {
			if f.Kind != "eq" {
				return
			}
			k, ok := constInt(f.C)
			if !ok {
				return
			}
			s := P.sym(f.V)
			switch {
			case strings.Contains(s, "hotline.FlatFileHeader.ForkCount") && k == 3:
				if !f.Holds {
					cut[e] = true
				} else {
					starts = append(starts, e.From)
				}
			case strings.Contains(s, "nextAction") && k == 2:
				if f.Holds {
					cut[e] = true
				}
			}
		})
		if len(starts) == 0 {
			R.und("announced-forks-sent", fname(fn), P.pos(fn.Pos()), "no test of the announced fork count (ForkCount[1] == 3) found in front of the resource-fork header")
			continue
		}
		ok := true
		var witness ssa.Instruction
		var items []psItem
		for _, b := range starts {
			items = append(items, psItem{b, nilState{}})
		}
		explore(items, cut, false, func(b *ssa.BasicBlock, _ nilState) bool {
			for _, ins := range b.Instrs {
				if ins == hdr {
					return false
				}
				if r, isRet := ins.(*ssa.Return); isRet {
					// an error return (something failed before) does not finish the item
					if len(r.Results) > 0 && !isNilConst(r.Results[len(r.Results)-1]) {
						return false
					}
					ok = false
					witness = r
					return false
				}
			}
			return true
		})
		pos := P.ipos(hdr)
		if witness != nil {
			pos = P.ipos(witness)
		}
		R.check(ok, "announced-forks-sent", fname(fn)+": resource-fork header", pos, "written whenever three forks were announced and the item is not resumed", "the item's header announces three forks, yet a path finishes the item without the resource-fork header (a further condition drops the announced fork): the client waits for it and the rest of the tree is never delivered")
	}
	if n == 0 {
		R.bad("announced-forks-sent", "hotline.DownloadFolderHandler", P.pos(root.Pos()), "no resource-fork header write found")
	}
}
