package main

// dom.go — E-dom: branch facts, edge-cut reachability, instruction dominance, must-pass-through.

import (
	"go/token"
	"go/types"

	"golang.org/x/tools/go/ssa"
)

// Fact is what is known on a CFG edge leaving an If: V is true / V is nil / V == C.
type Fact struct {
	V     ssa.Value
	Kind  string // "truth" | "nil" | "eq"
	C     *ssa.Const
	Holds bool
}

// ifFacts decomposes the condition of an If into the fact holding on the true edge (Succs[0]);
// the false edge (Succs[1]) carries the same fact with Holds flipped.
func ifFacts(i *ssa.If) Fact {
	v := i.Cond
	holds := true
	for {
		switch x := v.(type) {
		case *ssa.UnOp:
			if x.Op == token.NOT {
				v = x.X
				holds = !holds
				continue
			}
		case *ssa.BinOp:
			if x.Op == token.EQL || x.Op == token.NEQ {
				eq := x.Op == token.EQL
				l, r := x.X, x.Y
				if _, ok := l.(*ssa.Const); ok {
					l, r = r, l
				}
				if c, ok := r.(*ssa.Const); ok {
					if c.Value == nil && !isBasic(c.Type()) {
						return Fact{V: l, Kind: "nil", Holds: holds == eq}
					}
					if b, ok := c.Type().Underlying().(*types.Basic); ok && b.Info()&types.IsBoolean != 0 && c.Value != nil {
						bv := c.Value.String() == "true"
						v = l
						if eq != bv {
							holds = !holds
						}
						continue
					}
					return Fact{V: l, Kind: "eq", C: c, Holds: holds == eq}
				}
			}
		}
		break
	}
	return Fact{V: v, Kind: "truth", Holds: holds}
}

func isBasic(t types.Type) bool {
	_, ok := t.Underlying().(*types.Basic)
	return ok
}

type Edge struct{ From, To *ssa.BasicBlock }

// factEdges enumerates, for every If in fn, both out-edges with the fact that holds on them.
func factEdges(fn *ssa.Function, f func(e Edge, fact Fact)) {
	for _, b := range fn.Blocks {
		if len(b.Instrs) == 0 {
			continue
		}
		i, ok := b.Instrs[len(b.Instrs)-1].(*ssa.If)
		if !ok {
			continue
		}
		ft := ifFacts(i)
		f(Edge{b, b.Succs[0]}, ft)
		nf := ft
		nf.Holds = !ft.Holds
		f(Edge{b, b.Succs[1]}, nf)
	}
}

// reachable computes the blocks reachable from the entry when the edges for which cut returns true are removed.
// When an If has both successors equal (degenerate) cutting is per edge index, so callers use cutEdges sets keyed by (from,to,idx).
func reachable(fn *ssa.Function, cut map[Edge]bool) map[*ssa.BasicBlock]bool {
	seen := map[*ssa.BasicBlock]bool{}
	if len(fn.Blocks) == 0 {
		return seen
	}
	work := []*ssa.BasicBlock{fn.Blocks[0]}
	seen[fn.Blocks[0]] = true
	for len(work) > 0 {
		b := work[len(work)-1]
		work = work[:len(work)-1]
		for _, s := range b.Succs {
			if cut[Edge{b, s}] || seen[s] {
				continue
			}
			seen[s] = true
			work = append(work, s)
		}
	}
	return seen
}

// reachableFrom computes blocks reachable from start (inclusive) with edges cut.
func reachableFrom(start *ssa.BasicBlock, cut map[Edge]bool) map[*ssa.BasicBlock]bool {
	seen := map[*ssa.BasicBlock]bool{start: true}
	work := []*ssa.BasicBlock{start}
	for len(work) > 0 {
		b := work[len(work)-1]
		work = work[:len(work)-1]
		for _, s := range b.Succs {
			if cut[Edge{b, s}] || seen[s] {
				continue
			}
			seen[s] = true
			work = append(work, s)
		}
	}
	return seen
}

// pathTo returns one CFG path (as block list) from entry to target avoiding cut edges, or nil.
func pathTo(fn *ssa.Function, target *ssa.BasicBlock, cut map[Edge]bool) []*ssa.BasicBlock {
	if len(fn.Blocks) == 0 {
		return nil
	}
	prev := map[*ssa.BasicBlock]*ssa.BasicBlock{}
	entry := fn.Blocks[0]
	seen := map[*ssa.BasicBlock]bool{entry: true}
	work := []*ssa.BasicBlock{entry}
	for len(work) > 0 {
		b := work[0]
		work = work[1:]
		if b == target {
			var p []*ssa.BasicBlock
			for x := b; x != nil; x = prev[x] {
				p = append([]*ssa.BasicBlock{x}, p...)
				if x == entry {
					break
				}
			}
			return p
		}
		for _, s := range b.Succs {
			if cut[Edge{b, s}] || seen[s] {
				continue
			}
			seen[s] = true
			prev[s] = b
			work = append(work, s)
		}
	}
	return nil
}

func (P *Prog) describePath(p []*ssa.BasicBlock) []string {
	var out []string
	for _, b := range p {
		// first instruction with a position
		where := ""
		for _, ins := range b.Instrs {
			if ins.Pos().IsValid() {
				where = P.pos(ins.Pos())
				break
			}
		}
		if where == "" {
			continue
		}
		if len(out) > 0 && out[len(out)-1] == where {
			continue
		}
		out = append(out, where)
	}
	if len(out) > 14 {
		out = append(append([]string{}, out[:6]...), append([]string{"..."}, out[len(out)-7:]...)...)
	}
	return out
}

func instrIndex(ins ssa.Instruction) int {
	for i, x := range ins.Block().Instrs {
		if x == ins {
			return i
		}
	}
	return -1
}

// instrDominates: a is executed before b on every path reaching b (same function).
func instrDominates(a, b ssa.Instruction) bool {
	if a.Block() == b.Block() {
		return instrIndex(a) < instrIndex(b)
	}
	return a.Block().Dominates(b.Block())
}

// edgeDominates: every path from entry to block t uses edge e.
func edgeDominates(fn *ssa.Function, e Edge, t *ssa.BasicBlock) bool {
	r := reachable(fn, map[Edge]bool{e: true})
	return !r[t]
}

// mustPassAfter: every path from just after `from` to a normal Return executes an instruction matching through.
// Returns a witness return position when it fails.
func mustPassAfter(from ssa.Instruction, through func(ssa.Instruction) bool) (bool, ssa.Instruction) {
	type st struct {
		b   *ssa.BasicBlock
		idx int
	}
	seen := map[*ssa.BasicBlock]bool{}
	work := []st{{from.Block(), instrIndex(from) + 1}}
	for len(work) > 0 {
		s := work[len(work)-1]
		work = work[:len(work)-1]
		stopped := false
		for i := s.idx; i < len(s.b.Instrs); i++ {
			ins := s.b.Instrs[i]
			if through(ins) {
				stopped = true
				break
			}
			if r, ok := ins.(*ssa.Return); ok {
				return false, r
			}
		}
		if stopped {
			continue
		}
		for _, n := range s.b.Succs {
			if !seen[n] {
				seen[n] = true
				work = append(work, st{n, 0})
			}
		}
	}
	return true, nil
}

// mustPassBefore: every path from entry to `to` executes an instruction matching through before reaching `to`.
func mustPassBefore(fn *ssa.Function, to ssa.Instruction, through func(ssa.Instruction) bool) bool {
	type st struct {
		b   *ssa.BasicBlock
		idx int
	}
	if len(fn.Blocks) == 0 {
		return true
	}
	seen := map[*ssa.BasicBlock]bool{fn.Blocks[0]: true}
	work := []*ssa.BasicBlock{fn.Blocks[0]}
	for len(work) > 0 {
		b := work[len(work)-1]
		work = work[:len(work)-1]
		stopped := false
		for _, ins := range b.Instrs {
			if ins == to {
				return false
			}
			if through(ins) {
				stopped = true
				break
			}
		}
		if stopped {
			continue
		}
		for _, n := range b.Succs {
			if !seen[n] {
				seen[n] = true
				work = append(work, n)
			}
		}
	}
	return true
}

// returnsOf lists the Return instructions of fn.
func returnsOf(fn *ssa.Function) []*ssa.Return {
	var out []*ssa.Return
	for _, b := range fn.Blocks {
		if len(b.Instrs) > 0 {
			if r, ok := b.Instrs[len(b.Instrs)-1].(*ssa.Return); ok {
				out = append(out, r)
			}
		}
	}
	return out
}

// isCallTo reports whether ins is a call (call/go/defer) whose resolved name is one of names.
func isCallTo(ins ssa.Instruction, names ...string) bool {
	ci, ok := ins.(ssa.CallInstruction)
	if !ok {
		return false
	}
	n := calleeName(ci.Common())
	for _, x := range names {
		if n == x {
			return true
		}
	}
	return false
}

// callValue returns the *ssa.Call that v is (through conversions / extract of a tuple), if any.
func callValue(v ssa.Value) *ssa.Call {
	v = stripConv(v)
	if e, ok := v.(*ssa.Extract); ok {
		v = e.Tuple
	}
	c, _ := v.(*ssa.Call)
	return c
}

// mustPassFromBlock: every path from the start of block b to a normal Return executes an instruction matching through.
func mustPassFromBlock(b *ssa.BasicBlock, through func(ssa.Instruction) bool) (bool, ssa.Instruction) {
	seen := map[*ssa.BasicBlock]bool{b: true}
	work := []*ssa.BasicBlock{b}
	for len(work) > 0 {
		cur := work[len(work)-1]
		work = work[:len(work)-1]
		stopped := false
		for _, ins := range cur.Instrs {
			if through(ins) {
				stopped = true
				break
			}
			if r, ok := ins.(*ssa.Return); ok {
				return false, r
			}
		}
		if stopped {
			continue
		}
		for _, n := range cur.Succs {
			if !seen[n] {
				seen[n] = true
				work = append(work, n)
			}
		}
	}
	return true, nil
}
