package main

// c05.go — C05: every privileged effect requires the governing privilege.

import (
	"fmt"
	"go/token"
	"go/types"
	"sort"
	"strings"

	"golang.org/x/tools/go/ssa"
)

type privRule struct {
	Ctx     string   `json:"ctx"`
	Priv    *int     `json:"priv"`
	Effects []string `json:"effects"`
}
type privTran struct {
	Num   int        `json:"num"`
	Name  string     `json:"name"`
	Rules []privRule `json:"rules"`
}
type privSpec struct {
	Transactions []privTran `json:"transactions"`
}

// ---------------------------------------------------------------------------------------------
// context atoms

// atomOf maps the fact on an If edge to a context atom and its truth value on that edge.
func (P *Prog) atomOf(f Fact) (atom string, val bool, ok bool) {
	switch f.Kind {
	case "truth":
		if c, isCall := f.V.(*ssa.Call); isCall {
			switch calleeName(&c.Call) {
			case "(io/fs.FileMode).IsDir", "(io/fs.FileInfo).IsDir", "(io/fs.DirEntry).IsDir":
				return "ISDIR", f.Holds, true
			case "(io/fs.FileMode).IsRegular":
				return "ISREG", f.Holds, true
			case "(*hotline.FilePath).IsDropbox":
				return "DROPBOX", f.Holds, true
			case "(*hotline.FilePath).IsUploadDir":
				return "UPLOADDIR", f.Holds, true
			}
		}
		if b, isBin := f.V.(*ssa.BinOp); isBin && (b.Op == token.EQL || b.Op == token.NEQ) {
			for _, pair := range [][2]ssa.Value{{b.X, b.Y}, {b.Y, b.X}} {
				if fld, ok := loadedField(pair[0]); ok && fld == "hotline.NewsCategoryListData15.Type" {
					if bs, ok := P.bytesOf(pair[1]); ok && len(bs) == 2 && bs[0] == 0 && bs[1] == 3 {
						return "ISCAT", f.Holds == (b.Op == token.EQL), true
					}
					if bs, ok := P.bytesOf(pair[1]); ok && len(bs) == 2 && bs[0] == 0 && bs[1] == 2 {
						return "ISCAT", f.Holds != (b.Op == token.EQL), true
					}
				}
			}
		}
	case "nil":
		if fld := P.requestFieldOf(f.V); fld != "" {
			return "PRESENT:" + fld, !f.Holds, true
		}
		if c := callValue(f.V); c != nil && calleeName(&c.Call) == "(hotline.AccountManager).Get" {
			return "ACCT_EXISTS", !f.Holds, true
		}
	case "eq":
		if c, isCall := f.V.(*ssa.Call); isCall && calleeName(&c.Call) == "builtin.len" {
			if n, ok := constInt(f.C); ok && n == 1 {
				return "ONE_SUBFIELD", f.Holds, true
			}
		}
	}
	return "", false, false
}

// requestFieldOf: v is the Data of t.GetField(FieldX) (or hotline.GetField(FieldX, ..)) → "FieldX".
func (P *Prog) requestFieldOf(v ssa.Value) string {
	v = stripConv(resolveLocal(stripConv(v)))
	u, ok := v.(*ssa.UnOp)
	if !ok || u.Op != token.MUL {
		// hotline.GetField(...) != nil tests the *Field itself
		if c := callValue(v); c != nil && calleeName(&c.Call) == "hotline.GetField" && len(c.Call.Args) > 0 {
			if g, ok := globalName(c.Call.Args[0]); ok {
				return strings.TrimPrefix(g, "hotline.")
			}
		}
		return ""
	}
	fa, ok := u.X.(*ssa.FieldAddr)
	if !ok {
		return ""
	}
	if f, _ := fieldOf(fa); f != "hotline.Field.Data" {
		return ""
	}
	c := callValue(fa.X)
	if c == nil {
		return ""
	}
	// the request's GetField reached through a function value that a local parameter object carries
	// (`creation{field: t.GetField}` … `c.field(FieldUserAccess)`): a bound method value of the transaction
	if !c.Call.IsInvoke() && c.Call.StaticCallee() == nil {
		if mc, isMC := stripConv(resolveLocal(stripConv(c.Call.Value))).(*ssa.MakeClosure); isMC {
			if bf, isF := mc.Fn.(*ssa.Function); isF && strings.HasSuffix(bf.Name(), "$bound") && len(mc.Bindings) == 1 && len(c.Call.Args) == 1 {
				if m, isM := bf.Object().(*types.Func); isM && m.Name() == "GetField" && typeName(mc.Bindings[0].Type()) == "*hotline.Transaction" {
					if g, ok := globalName(c.Call.Args[0]); ok {
						return strings.TrimPrefix(g, "hotline.")
					}
				}
			}
		}
	}
	switch calleeName(&c.Call) {
	case "(*hotline.Transaction).GetField":
		if len(c.Call.Args) == 2 {
			if g, ok := globalName(c.Call.Args[1]); ok {
				return strings.TrimPrefix(g, "hotline.")
			}
		}
	case "hotline.GetField":
		if len(c.Call.Args) >= 1 {
			if g, ok := globalName(c.Call.Args[0]); ok {
				return strings.TrimPrefix(g, "hotline.")
			}
		}
	}
	return ""
}

var ctxDefs = map[string]map[string]bool{
	"ALWAYS":          {},
	"DIR":             {"ISDIR": true, "ISREG": false},
	"FILE":            {"ISDIR": false, "ISREG": true},
	"OTHERKIND":       {"ISDIR": false, "ISREG": false},
	"COMMENT":         {"PRESENT:FieldFileComment": true},
	"RENAME":          {"PRESENT:FieldFileNewName": true},
	"CATEGORY":        {"ISCAT": true},
	"BUNDLE":          {"ISCAT": false},
	"DELETE":          {"ONE_SUBFIELD": true},
	"MODIFY":          {"ONE_SUBFIELD": false, "ACCT_EXISTS": true},
	"CREATE":          {"ONE_SUBFIELD": false, "ACCT_EXISTS": false},
	"DROPBOX":         {"DROPBOX": true},
	"OUTSIDE_UPLOADS": {"DROPBOX": false, "UPLOADDIR": false},
	"NAME_SUPPLIED":   {"PRESENT:FieldUserName": true},
}

func ctxRequirements(ctx string) (map[string]bool, error) {
	req := map[string]bool{}
	for _, part := range strings.Split(ctx, "&") {
		d, ok := ctxDefs[part]
		if !ok {
			return nil, fmt.Errorf("unknown context %q", part)
		}
		for k, v := range d {
			req[k] = v
		}
	}
	return req, nil
}

// guardCuts: edges to delete for (context, lacking privilege priv of requester own).
// phiConsts: the integer constants a value can be (a phi of constants, through conversions); nil when some operand
// is not a constant.
func phiConsts(v ssa.Value, depth int) []int64 {
	v = stripConv(v)
	if k, ok := constInt(v); ok {
		return []int64{k}
	}
	phi, ok := v.(*ssa.Phi)
	if !ok || depth > 3 {
		return nil
	}
	var out []int64
	for _, e := range phi.Edges {
		if e == ssa.Value(phi) {
			continue
		}
		ks := phiConsts(e, depth+1)
		if ks == nil {
			return nil
		}
		out = append(out, ks...)
	}
	return out
}

func (P *Prog) guardCuts(fn *ssa.Function, own ssa.Value, req map[string]bool, priv int, atomsSeen map[string]bool) map[Edge]bool {
	cut, _ := P.guardCutsCond(fn, own, req, priv, atomsSeen)
	return cut
}

// guardCutsCond also returns the state-dependent cut for tests of the form Authorize(v) with v a variable that was
// given its privilege number on the way (`required := A; if … { required = B }; if !cc.Authorize(required)`): the
// true edge is cut on exactly the paths on which v carries the row's privilege.
func (P *Prog) guardCutsCond(fn *ssa.Function, own ssa.Value, req map[string]bool, priv int, atomsSeen map[string]bool) (map[Edge]bool, func(e Edge, st nilState) bool) {
	cut := map[Edge]bool{}
	dyn := map[Edge][]ssa.Value{}
	factEdges(fn, func(e Edge, f Fact) {
		if priv >= 0 {
			for _, pf := range P.expandFact(f, isAuthorizePrim, 0) {
				if pf.kind == "truth" && pf.holds && len(pf.args) == 2 && pf.args[0] == own {
					if k, ok := constInt(pf.args[1]); ok && int(k) == priv {
						cut[e] = true
					} else if !ok && pf.args[1] != nil {
						dyn[e] = append(dyn[e], stripConv(pf.args[1]))
					}
				}
			}
		}
		if atom, val, ok := P.atomOf(f); ok {
			if atomsSeen != nil {
				atomsSeen[atom] = true
			}
			if want, has := req[atom]; has && want != val {
				cut[e] = true
			}
		}
	})
	var cond func(e Edge, st nilState) bool
	if len(dyn) > 0 {
		cond = func(e Edge, st nilState) bool {
			for _, v := range dyn[e] {
				if k, ok := st.intOf(v); ok && int(k) == priv {
					return true
				}
			}
			return false
		}
	}
	return cut, cond
}

type effSite struct {
	ins     ssa.Instruction
	classes map[string][]string
	desc    string
}

// effectSites enumerates the effect sites of a handler body (call sites with their lifted effects, and
// stores of request data into ClientConn.UserName).
func (P *Prog) effectSites(fn *ssa.Function, own ssa.Value, memo map[*ssa.Function]map[string][]string) []effSite {
	var out []effSite
	for _, ci := range callsIn(fn) {
		cl := P.siteEffects(ci, own, memo)
		if len(cl) > 0 {
			out = append(out, effSite{ins: ci, classes: cl, desc: calleeName(ci.Common())})
		}
	}
	eachInstr(fn, func(ins ssa.Instruction) {
		if s, ok := ins.(*ssa.Store); ok {
			if fa, ok := s.Addr.(*ssa.FieldAddr); ok {
				if f, _ := fieldOf(fa); f == "hotline.ClientConn.UserName" && P.fromRequestField(s.Val) {
					out = append(out, effSite{ins: s, classes: map[string][]string{"name.adopt": nil}, desc: "store ClientConn.UserName"})
				}
			}
		}
	})
	return out
}

func effClassMatches(siteClass string, want []string) bool {
	for _, w := range want {
		if w == siteClass {
			return true
		}
		if (w == "fs.rename" && siteClass == "fs.move") || (w == "fs.move" && siteClass == "fs.rename") {
			return true
		}
	}
	return false
}

func checkC05(R *Run) {
	P := R.P
	R.rule("handler-table", "the set of transaction numbers registered through (*Server).HandleFunc equals the set of rows of spec/privileges.json (written from the protocol document), one handler per number")
	R.rule("priv-guard", "for every spec row (context K, privilege X, effect classes E) of a registered handler: after deleting the CFG edges on which requester.Authorize(X) is true and the edges that contradict K, no effect site of a class in E is reachable from the handler's entry (effects of callees, closures and goroutines are lifted to the call site)")
	R.rule("priv-exact", "the set of privilege constants the handler tests on the requester equals the set in its spec rows (no unrelated privilege is demanded, none is missing)")
	R.rule("ctx-recognised", "every context the spec distinguishes for a handler is actually decided by a recognised test in that handler (IsDir/IsRegular, field presence, item type, sub-field count, account existence, drop box / upload folder)")
	R.rule("effects-covered", "every class of state-changing or outward effect a handler performs (filesystem, account, news, board, ban, disconnect, transfer grant, transactions to others) is one that the protocol's row(s) for that transaction guard, or one listed as needing no privilege for it")
	R.rule("authorize-sound", "(*ClientConn).Authorize(i) returns false for a nil account and otherwise exactly Account.Access.IsSet(i)")
	R.rule("login-name-guard", "in the login sequence a client-supplied display name is stored only on the true edge of Authorize(26 any-name) of that same connection")

	R.ruleKindTargetAgree()
	R.ruleSpecialFolder()
	R.rulePathCountAgree()

	var spec privSpec
	if err := readSpec("privileges.json", &spec); err != nil {
		R.und("handler-table", "spec/privileges.json", "-", "cannot read spec: "+err.Error())
		return
	}
	regs := R.registeredHandlers()
	byNum := map[int][]HandlerReg{}
	for _, r := range regs {
		byNum[r.Num] = append(byNum[r.Num], r)
	}
	specByNum := map[int]privTran{}
	for _, t := range spec.Transactions {
		specByNum[t.Num] = t
	}
	for num, rs := range byNum {
		_, inSpec := specByNum[num]
		R.check(inSpec && len(rs) == 1, "handler-table", fmt.Sprintf("transaction %d", num), rs[0].Pos,
			"registered once and present in the privilege table",
			fmt.Sprintf("transaction %d (%s → %s) is registered %d time(s) and spec row present=%v: no privilege oracle for it", num, rs[0].Global, fname(rs[0].Fn), len(rs), inSpec))
	}
	for _, t := range spec.Transactions {
		if _, ok := byNum[t.Num]; !ok {
			R.bad("handler-table", fmt.Sprintf("transaction %d", t.Num), "-", fmt.Sprintf("the privilege table has a row for transaction %d (%s) but no handler is registered for it", t.Num, t.Name))
		}
	}
	R.floor("handler-table", 43)

	memo := map[*ssa.Function]map[string][]string{}
	nGuardSites := 0
	for _, reg := range regs {
		t, ok := specByNum[reg.Num]
		if !ok {
			continue
		}
		fn := reg.Fn
		R.analysed(fname(fn))
		if len(fn.Params) < 2 {
			R.und("priv-guard", fname(fn), reg.Pos, "handler without (cc, t) parameters")
			continue
		}
		own := ssa.Value(fn.Params[0])
		sites := P.effectSites(fn, own, memo)
		R.countSites(len(callsIn(fn)))

		// priv-exact
		used := map[int]string{}
		for _, f2 := range withAnons(fn) {
			for _, pf := range P.primCallsVia(f2, isAuthorizePrim) {
				if len(pf.args) == 2 && pf.args[0] != nil && isOwn(pf.args[0], own) {
					if k, ok := constInt(pf.args[1]); ok {
						used[int(k)] = P.ipos(pf.call)
						nGuardSites++
					} else if pf.args[1] != nil {
						// a variable that holds one of several privilege numbers: all of them are tested
						ks := phiConsts(pf.args[1], 0)
						if ks == nil {
							// a number that reaches the test through local struct variables (taken from a constant table)
							ks = possibleInts(f2, pf.args[1])
						}
						for _, k := range ks {
							used[int(k)] = P.ipos(pf.call)
						}
						nGuardSites++
					}
				}
			}
		}
		want := map[int]bool{}
		for _, r := range t.Rules {
			if r.Priv != nil {
				want[*r.Priv] = true
			}
		}
		var extra, missing []string
		for p, pos := range used {
			if !want[p] {
				extra = append(extra, fmt.Sprintf("%d at %s", p, pos))
			}
		}
		for p := range want {
			if _, ok := used[p]; !ok {
				missing = append(missing, fmt.Sprint(p))
			}
		}
		sort.Strings(extra)
		sort.Strings(missing)
		o := R.check(len(extra) == 0 && len(missing) == 0, "priv-exact", fmt.Sprintf("%d %s", reg.Num, fname(fn)), P.pos(fn.Pos()),
			fmt.Sprintf("tests exactly the privileges %v of the protocol", keysInt(want)),
			fmt.Sprintf("handler of transaction %d (%s) tests privileges not in the protocol's row: [%s]; privileges of the row never tested: [%s]", reg.Num, t.Name, strings.Join(extra, ", "), strings.Join(missing, ", ")))
		_ = o

		// priv-guard per row
		atomsSeen := map[string]bool{}
		for _, r := range t.Rules {
			req, err := ctxRequirements(r.Ctx)
			if err != nil {
				R.und("priv-guard", fmt.Sprintf("%d %s [%s]", reg.Num, fname(fn), r.Ctx), reg.Pos, err.Error())
				continue
			}
			priv := -1
			if r.Priv != nil {
				priv = *r.Priv
			}
			cut, cond := P.guardCutsCond(fn, own, req, priv, atomsSeen)
			// the scenario fixes what these calls return: Authorize(X) on the requester is false, the context tests
			// answer as the context says (this reaches a test whose outcome was combined in a bool expression first)
			seed := nilState{}
			for _, ci := range callsIn(fn) {
				c, isCall := ci.(*ssa.Call)
				if !isCall {
					continue
				}
				if priv >= 0 && calleeName(&c.Call) == "(*hotline.ClientConn).Authorize" && len(c.Call.Args) == 2 && c.Call.Args[0] == own {
					if k, ok := constInt(c.Call.Args[1]); ok && int(k) == priv {
						seed[c] = 1
					}
				}
				if atom, val, ok := P.atomOf(Fact{V: c, Kind: "truth", Holds: true}); ok && val {
					// a context test whose outcome is combined in a bool expression before it is branched on
					if refs := c.Referrers(); refs != nil {
						for _, r := range *refs {
							switch r.(type) {
							case *ssa.Phi, *ssa.If, *ssa.UnOp, *ssa.BinOp:
								atomsSeen[atom] = true
							}
						}
					}
					if want, has := req[atom]; has {
						if want {
							seed[c] = 2
						} else {
							seed[c] = 1
						}
					}
				}
			}
			reach := reachableCondSeed(fn, cut, cond, seed)
			construct := fmt.Sprintf("%d %s [%s priv=%s → %s]", reg.Num, fname(fn), r.Ctx, privStr(r.Priv), strings.Join(r.Effects, ","))
			var bad []string
			var path []string
			matchedSites := 0
			for _, s := range sites {
				for cl, via := range s.classes {
					if !effClassMatches(cl, r.Effects) && !strings.HasPrefix(cl, "unknown.") {
						continue
					}
					matchedSites++
					if reach[s.ins.Block()] {
						bad = append(bad, fmt.Sprintf("%s (%s) at %s", cl, s.desc, P.ipos(s.ins)))
						if path == nil {
							path = append(P.describePath(pathTo(fn, s.ins.Block(), cut)), via...)
						}
					}
				}
			}
			if len(bad) > 0 {
				sort.Strings(bad)
				R.bad("priv-guard", construct, P.pos(fn.Pos()),
					fmt.Sprintf("in context %s a requester WITHOUT privilege %s still reaches: %s", r.Ctx, privStr(r.Priv), strings.Join(bad, "; ")), path...)
			} else if matchedSites == 0 {
				R.bad("priv-guard", construct, P.pos(fn.Pos()),
					fmt.Sprintf("the handler performs no effect of class %v at all: the protocol's effect for transaction %d is missing or no longer recognised", r.Effects, reg.Num))
			} else {
				R.ok("priv-guard", construct, P.pos(fn.Pos()), fmt.Sprintf("%d effect site(s) unreachable without the privilege", matchedSites))
			}
		}
		// effects-covered: every kind of state-changing / outward effect the handler performs is one the protocol
		// assigns to this transaction (in some spec row) or one that needs no privilege for it
		{
			allowed := map[string]bool{}
			for _, r := range t.Rules {
				for _, e := range r.Effects {
					allowed[e] = true
				}
			}
			for _, e := range freeEffects[reg.Num] {
				allowed[e] = true
			}
			var extra []string
			for _, st := range sites {
				for cl := range st.classes {
					if _, isReader := readerEffectClasses[cl]; isReader {
						continue
					}
					if !allowed[cl] && !effClassMatches(cl, keysOf(allowed)) {
						extra = append(extra, cl+" ("+st.desc+" at "+P.ipos(st.ins)+")")
					}
				}
			}
			sort.Strings(extra)
			R.check(len(extra) == 0, "effects-covered", fmt.Sprintf("%d %s", reg.Num, fname(fn)), P.pos(fn.Pos()),
				"performs only effect classes the protocol assigns to this transaction",
				fmt.Sprintf("the handler of transaction %d (%s) performs effects that the protocol neither guards by one of its privileges nor lists as free for this request: %s", reg.Num, t.Name, strings.Join(extra, "; ")))
		}
		// ctx-recognised
		needed := map[string]bool{}
		for _, r := range t.Rules {
			req, _ := ctxRequirements(r.Ctx)
			for a := range req {
				needed[a] = true
			}
		}
		for a := range needed {
			R.check(atomsSeen[a], "ctx-recognised", fmt.Sprintf("%d %s %s", reg.Num, fname(fn), a), P.pos(fn.Pos()),
				"context test present", fmt.Sprintf("the protocol distinguishes context %s for transaction %d but the handler has no recognised test for it", a, reg.Num))
		}
	}
	R.floor("priv-guard", 49)
	R.floor("priv-exact", 43)
	R.note(fmt.Sprintf("%d registered handlers, %d Authorize call sites on the requester.", len(regs), nGuardSites))

	R.ruleAuthorizeSound()
	R.ruleExistenceTargetAgree()
	R.ruleCreateNoOverwrite()

	// login-name-guard: in handleNewConnection
	if fn := R.mustFn("(*hotline.Server).handleNewConnection"); fn != nil {
		R.analysed(fname(fn))
		n := 0
		eachInstr(fn, func(ins ssa.Instruction) {
			s, ok := ins.(*ssa.Store)
			if !ok {
				return
			}
			fa, ok := s.Addr.(*ssa.FieldAddr)
			if !ok {
				return
			}
			if f, _ := fieldOf(fa); f != "hotline.ClientConn.UserName" || !P.fromRequestField(s.Val) {
				return
			}
			n++
			cut := P.guardCuts(fn, fa.X, map[string]bool{}, 26, nil)
			reach := reachable(fn, cut)
			R.check(!reach[s.Block()], "login-name-guard", fname(fn)+": store UserName", P.ipos(s),
				"only reachable with privilege 26",
				"the login sequence adopts the client-supplied name without Authorize(26) being true for that connection", P.describePath(pathTo(fn, s.Block(), cut))...)
		})
		if n == 0 {
			R.bad("login-name-guard", fname(fn)+": store UserName", P.pos(fn.Pos()), "no store of the client-supplied name found in the login sequence (mechanism moved: rule cannot vouch)")
		}
	}
}

// effects a transaction may have without any privilege (protocol: notifications of one's own state, chat
// membership traffic, the banner transfer)
var freeEffects = map[int][]string{
	108: {"send.others"},
	114: {"send.others"}, 115: {"send.others"}, 116: {"send.others"}, 120: {"send.others"},
	121: {"send.others"},
	212: {"xfer.grant"},
	304: {"send.others"},
}

var readerEffectClasses = map[string]bool{"acct.disclose": true, "news.disclose": true, "fs.list": true, "client.disclose": true, "board.disclose": true}

func keysOf(m map[string]bool) []string {
	var out []string
	for k := range m {
		out = append(out, k)
	}
	return out
}

func isOwn(recv, own ssa.Value) bool {
	if recv == own {
		return true
	}
	// closure capturing cc
	if fv, ok := recv.(*ssa.FreeVar); ok {
		_ = fv
		return false
	}
	return false
}

func keysInt(m map[int]bool) []int {
	var out []int
	for k := range m {
		out = append(out, k)
	}
	sort.Ints(out)
	return out
}

func privStr(p *int) string {
	if p == nil {
		return "none"
	}
	return fmt.Sprint(*p)
}

func init() { register("C05", checkC05) }

// ruleAuthorizeSound (C05, shared with C16: the bit consulted at authorization time is the bit in the account's
// bitmap now, not a decoded copy of it).
func (R *Run) ruleAuthorizeSound() {
	P := R.P
	_ = P
	if fn := R.mustFn("(*hotline.ClientConn).Authorize"); fn != nil {
		R.analysed(fname(fn))
		okAll := true
		why := ""
		// the values returned: a result written as `a != nil && b` is a phi of (false, b)
		var retVals []struct {
			v   ssa.Value
			ret *ssa.Return
		}
		for _, ret := range returnsOf(fn) {
			if len(ret.Results) != 1 {
				okAll = false
				continue
			}
			vals := []ssa.Value{ret.Results[0]}
			if phi, ok := ret.Results[0].(*ssa.Phi); ok {
				vals = phi.Edges
			}
			for _, v := range vals {
				retVals = append(retVals, struct {
					v   ssa.Value
					ret *ssa.Return
				}{v, ret})
			}
		}
		for _, rv := range retVals {
			v, ret := rv.v, rv.ret
			if c, ok := v.(*ssa.Const); ok && c.Value != nil && c.Value.String() == "false" {
				// must be on the nil-account edge
				continue
			}
			call, ok := v.(*ssa.Call)
			if !ok || calleeName(&call.Call) != "(*hotline.AccessBitmap).IsSet" || len(call.Call.Args) != 2 || call.Call.Args[1] != ssa.Value(fn.Params[1]) {
				okAll = false
				why = "a return is neither the constant false nor Access.IsSet(access) at " + P.ipos(ret)
				continue
			}
			// receiver must be &cc.Account.Access
			fa, ok := call.Call.Args[0].(*ssa.FieldAddr)
			if !ok {
				okAll = false
				why = "IsSet receiver is not the Access field"
				continue
			}
			if f, _ := fieldOf(fa); f != "hotline.Account.Access" {
				okAll = false
				why = "IsSet receiver is " + f
				continue
			}
			if acc, ok := loadedField(fa.X); !ok || acc != "hotline.ClientConn.Account" {
				okAll = false
				why = "Access is not the one of cc.Account"
			}
		}
		// the nil test must exist
		nilTest := false
		factEdges(fn, func(e Edge, f Fact) {
			if f.Kind == "nil" {
				if fld, ok := loadedField(f.V); ok && fld == "hotline.ClientConn.Account" {
					nilTest = true
				}
			}
		})
		if !nilTest {
			okAll = false
			why += " no nil-account test"
		}
		R.check(okAll, "authorize-sound", fname(fn), P.pos(fn.Pos()), "returns false for nil account, else Account.Access.IsSet(access)", "Authorize no longer has the shape 'nil account → false, else Account.Access.IsSet(access)': "+why)
	}

}

// possibleInts: the constants the engine finds v to be on the paths that reach its block; nil when some path reaches
// it with v unknown.
func possibleInts(fn *ssa.Function, v ssa.Value) []int64 {
	ins, ok := stripConv(v).(ssa.Instruction)
	if !ok || ins.Block() == nil || len(fn.Blocks) == 0 || ins.Parent() != fn {
		return nil
	}
	seen := map[int64]bool{}
	unknown := false
	explore([]psItem{{fn.Blocks[0], nilState{}}}, nil, false, func(b *ssa.BasicBlock, st nilState) bool {
		if b == ins.Block() {
			if k, ok := transferCells(b, st).intOf(v); ok {
				seen[k] = true
			} else {
				unknown = true
			}
		}
		return true
	})
	if unknown || len(seen) == 0 {
		return nil
	}
	var out []int64
	for k := range seen {
		out = append(out, k)
	}
	sort.Slice(out, func(i, j int) bool { return out[i] < out[j] })
	return out
}

// ruleExistenceTargetAgree (C05): in the batch account editor the choice between "modify an existing account" and
// "create a new one" — and with it the privilege demanded — is made on the account that is then acted upon. Every
// AccountManager.Get whose result is tested against nil in the handler looks up the same login (symbolically) as the
// Get whose account is handed to AccountManager.Update; otherwise a rename item (old login in one field, new login
// in another) is classified by one login and carried out on the other.
func (R *Run) ruleExistenceTargetAgree() {
	P := R.P
	R.rule("existence-target-agree", "in HandleUpdateUser every account lookup whose nil-ness is branched on uses the same login as the lookup whose account is passed to AccountManager.Update (the account whose existence selects the privilege is the account that is modified)")
	var fn *ssa.Function
	for _, reg := range R.registeredHandlers() {
		if reg.Num == 349 {
			fn = reg.Fn
		}
	}
	if fn == nil {
		R.bad("existence-target-agree", "transaction 349", "-", "no handler registered for Update User")
		return
	}
	R.analysed(fname(fn))
	// the lookup that yields the account that is updated
	var target *ssa.Call
	for _, ci := range callsIn(fn) {
		c := ci.Common()
		if calleeName(c) != "(hotline.AccountManager).Update" || len(c.Args) == 0 {
			continue
		}
		F := &Flow{P: P, Visit: func(x ssa.Value) bool {
			if g, ok := x.(*ssa.Call); ok && calleeName(&g.Call) == "(hotline.AccountManager).Get" {
				target = g
				return false
			}
			return true
		}, Call: func(g *ssa.Call, idx int) ([]ssa.Value, bool) { return nil, true }}
		F.Back(c.Args[0])
	}
	if target == nil {
		R.und("existence-target-agree", fname(fn), P.pos(fn.Pos()), "no AccountManager.Update of an account obtained from AccountManager.Get found")
		return
	}
	want := stripRecv(P.sym(target.Call.Args[0]))
	n := 0
	seen := map[*ssa.Call]bool{}
	factEdgesImplied(fn, func(e Edge, f Fact) {
		if f.Kind != "nil" {
			return
		}
		g := callValue(f.V)
		if g == nil || calleeName(&g.Call) != "(hotline.AccountManager).Get" || seen[g] {
			return
		}
		seen[g] = true
		n++
		got := stripRecv(P.sym(g.Call.Args[0]))
		R.check(got == want, "existence-target-agree", fmt.Sprintf("%s: existence test #%d", fname(fn), n), P.ipos(g),
			"tests the login whose account is updated", fmt.Sprintf("the handler decides 'existing account or new one' by looking up %s, but the account it modifies is the one looked up by %s: for an item that renames an account the privilege is chosen for one login and the change made to another", got, want))
	})
	if n == 0 {
		R.und("existence-target-agree", fname(fn), P.pos(fn.Pos()), "no branch on the result of AccountManager.Get found")
	}
}
