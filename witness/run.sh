#!/bin/bash
# Triage helper, NOT a registered check: runs the witness tests against a scratch copy of /repo's
# current working tree and prints the WITNESS lines.  The scratch copy lives outside /repo and /verif
# and is removed on exit.  Usage: witness/run.sh [-race] [go test -run pattern]
set -u
export GOFLAGS=-mod=mod GOPROXY=off GOSUMDB=off GOTOOLCHAIN=local
unset GOWORK
RACE=""
if [ "${1:-}" = "-race" ]; then RACE="-race"; shift; fi
PAT="${1:-TestWitness}"
HERE="$(cd "$(dirname "$0")" && pwd)"
SCRATCH="$(mktemp -d "${TMPDIR:-/tmp}/mobius-witness-XXXXXX")"
trap 'rm -rf "$SCRATCH"' EXIT
rsync -a --exclude .git /repo/ "$SCRATCH/"
cp "$HERE/hotline/zz_witness_test.go" "$SCRATCH/hotline/"
cp "$HERE/mobius/zz_witness_test.go" "$SCRATCH/internal/mobius/"
cd "$SCRATCH" || exit 2
go test $RACE -vet=off -count=1 -run "$PAT" -v ./hotline ./internal/mobius 2>&1 |
  grep -E "WITNESS|DATA RACE|fatal error|^(ok|FAIL|panic)|^--- FAIL" | sed -E 's/^ +zz_witness_test.go:[0-9]+: //'
