#!/bin/bash
# usage: check.sh <property id> [quick|thorough]
# Decides one property on /repo's current working tree by static analysis (see DESIGN.md).
# exit 0 = held on everything analysed; 1 = VIOLATION line printed; 2 = the checker could not do its job.
# thorough = the same rules, additionally under GOOS=windows/darwin load configurations, followed by the
# validation of the checker on the variant corpus and on the independently seeded changes (analysed only).
export GOFLAGS=-mod=mod GOPROXY=off GOSUMDB=off GOTOOLCHAIN=local GOWORK=off
HERE="$(cd "$(dirname "$0")" && pwd)"
ID="$1"; TIER="${2:-${VERIF_TIER:-quick}}"
if [ ! -x "$HERE/bin/hlcheck" ] || [ -n "$(find "$HERE/hlcheck" -name '*.go' -newer "$HERE/bin/hlcheck" 2>/dev/null | head -1)" ]; then
  (cd "$HERE/hlcheck" && mkdir -p "$HERE/bin" && go build -o "$HERE/bin/hlcheck" .) || { echo "CHECKER-ERROR build failed"; exit 2; }
fi
"$HERE/bin/hlcheck" -prop "$ID" -tier "$TIER" -repo "${VERIF_REPO:-/repo}" -verif "$HERE"
RC=$?
if [ "$TIER" = "thorough" ] && [ $RC -ne 2 ]; then
  python3 "$HERE/tools/thorough.py" "$ID" || echo "variant validation could not run"
fi
# controls: every rule must still fire on one seeded variant of the current tree (skipped when the verdict is already a violation)
if [ $RC -eq 0 ] && [ -z "$VERIF_NO_CONTROLS" ]; then
  python3 "$HERE/tools/thorough.py" "$ID" --controls
  CRC=$?
  if [ $CRC -eq 3 ]; then exit 2; fi
fi
exit $RC
