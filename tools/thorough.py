#!/usr/bin/env python3
"""Thorough tier, second half: validates the checker of one property on code variants and merges the
outcome into the evidence file that hlcheck just wrote.

 - the variant corpus (variants/corpus.py): seeded variants must be reported, equivalent ones must stay silent
 - the independently seeded changes kept under /verif/seeded/<name>/ (patch.diff + meta.json)
 - the independently written behaviour-preserving refactorings under /verif/equivalents/<name>/: the property's
   check must stay silent on every one of them

Variants are applied to scratch copies outside /repo and /verif, ANALYSED (never built into a binary, never run)
and removed.  The verdict on the property stays the one hlcheck gave for the unchanged tree; weaknesses of the
checker are reported in the evidence (undetected_variants / false_alarm_variants) and on stdout.
usage: thorough.py <property id>
"""
import sys, os, json, glob, subprocess, tempfile, shutil, time, concurrent.futures, signal
signal.signal(signal.SIGPIPE, signal.SIG_DFL)
HERE = os.path.dirname(os.path.abspath(__file__)); VERIF = os.path.dirname(HERE)
sys.path.insert(0, HERE)
import variants as V

def run_seeded(meta_path, prop):
    d = os.path.dirname(meta_path)
    meta = json.load(open(meta_path))
    name = os.path.basename(d)
    res = dict(name=name, kind="independent-seeded", props=meta.get("properties", []))
    scratch = tempfile.mkdtemp(prefix="hls-", dir=os.environ.get("TMPDIR", "/tmp"))
    out = tempfile.mkdtemp(prefix="hls-ev-", dir=os.environ.get("TMPDIR", "/tmp"))
    try:
        subprocess.run(["rsync", "-a", "--exclude", ".git", V.REPO + "/", scratch + "/"], check=True)
        a = subprocess.run(["patch", "-p1", "-s", "-i", os.path.join(d, "patch.diff")], cwd=scratch, capture_output=True, text=True)
        if a.returncode != 0:
            res["status"] = "stale"; res["detail"] = (a.stdout + a.stderr)[-200:]
            return res
        r = subprocess.run([os.path.join(VERIF, "bin", "hlcheck"), "-prop", prop, "-repo", scratch, "-verif", VERIF, "-out", out], env=V.ENV, capture_output=True, text=True)
        lines = [l.strip() for l in r.stdout.splitlines() if l.strip().startswith(("VIOLATED", "UNDECIDED"))]
        res["reports"] = [l[:240] for l in lines][:4]
        res["status"] = "killed" if r.returncode == 1 else ("checker-error" if r.returncode == 2 else "MISSED")
        res["expected"] = meta.get("detected_by", {}).get(prop, None)
        return res
    finally:
        shutil.rmtree(scratch, ignore_errors=True); shutil.rmtree(out, ignore_errors=True)

def run_equiv(d, prop):
    name = os.path.basename(d)
    res = dict(name=name, kind="independent-equivalent")
    scratch = tempfile.mkdtemp(prefix="hle-", dir=os.environ.get("TMPDIR", "/tmp"))
    out = tempfile.mkdtemp(prefix="hle-ev-", dir=os.environ.get("TMPDIR", "/tmp"))
    try:
        subprocess.run(["rsync", "-a", "--exclude", ".git", "--exclude", "/docs", V.REPO + "/", scratch + "/"], check=True)
        a = subprocess.run(["patch", "-p1", "-s", "-i", os.path.join(d, "patch.diff")], cwd=scratch, capture_output=True, text=True)
        if a.returncode != 0:
            res["status"] = "stale"; return res
        r = subprocess.run([os.path.join(VERIF, "bin", "hlcheck"), "-prop", prop, "-repo", scratch, "-verif", VERIF, "-out", out], env=V.ENV, capture_output=True, text=True)
        lines = [l.strip() for l in r.stdout.splitlines() if l.strip().startswith(("VIOLATED", "UNDECIDED"))]
        res["reports"] = [l[:240] for l in lines][:3]
        res["status"] = "silent" if r.returncode == 0 else ("checker-error" if r.returncode == 2 else "FALSE-ALARM")
        return res
    finally:
        shutil.rmtree(scratch, ignore_errors=True); shutil.rmtree(out, ignore_errors=True)

def controls(prop):
    """Quick tier: one seeded variant per rule must still be reported (a rule that no longer fires on its
    control has gone blind); stale controls (anchor text edited away) are skipped."""
    t0 = time.time()
    picked = {}
    for v in V.load_corpus():
        if v["prop"] == prop and v["kind"] == "seeded" and v.get("rule") and v["rule"] not in picked:
            picked[v["rule"]] = v
    with concurrent.futures.ThreadPoolExecutor(max_workers=8) as ex:
        results = list(ex.map(lambda v: V.run_variant(v, False, False), picked.values()))
    fired = [r["rule"] for r in results if r["status"] == "killed"]
    blind = [r["rule"] + ":" + r["name"] for r in results if r["status"] == "MISSED"]
    skipped = [r["rule"] + ":" + r["name"] for r in results if r["status"] not in ("killed", "MISSED")]
    evp = os.path.join(VERIF, "evidence", prop + ".json")
    try:
        ev = json.load(open(evp))
        ev["coverage"]["controls"] = dict(rules_with_control=len(picked), fired=sorted(fired), blind=blind, skipped=skipped, wall_s=round(time.time() - t0, 1),
            note="per rule one seeded variant of the current tree is analysed in a scratch copy and must be reported")
        json.dump(ev, open(evp, "w"), indent=1)
    except Exception as e:
        print("controls: cannot update evidence:", e)
    print(f"controls {prop}: {len(fired)}/{len(picked)} rule controls fired, {len(skipped)} skipped, {round(time.time()-t0,1)}s")
    for b in blind:
        print(f"CHECKER-ERROR control variant not reported: {prop}/{b}")
    return 3 if blind else 0

def main():
    prop = sys.argv[1]
    if len(sys.argv) > 2 and sys.argv[2] == "--controls":
        sys.exit(controls(prop))
    t0 = time.time()
    # the scratch analyses compile the changed packages; they get a build cache of their own that is removed at the
    # end, so that validating hundreds of variants does not fill the disk (dependencies are compiled once, ~15 s)
    gocache = tempfile.mkdtemp(prefix="hl-gocache-", dir=os.environ.get("TMPDIR", "/tmp"))
    V.ENV["GOCACHE"] = gocache
    import atexit
    atexit.register(lambda: shutil.rmtree(gocache, ignore_errors=True))
    vs = [v for v in V.load_corpus() if v["prop"] == prop]
    results = []
    if vs:
        results = [V.run_variant(vs[0], False, False)]  # fills the cache before the parallel runs start
        vs = vs[1:]
    with concurrent.futures.ThreadPoolExecutor(max_workers=8) as ex:
        results += list(ex.map(lambda v: V.run_variant(v, False, False), vs))
    seeded = []
    metas = [m for m in sorted(glob.glob(os.path.join(VERIF, "seeded", "*", "meta.json"))) if prop in json.load(open(m)).get("properties", [])]
    with concurrent.futures.ThreadPoolExecutor(max_workers=8) as ex:
        seeded = list(ex.map(lambda m: run_seeded(m, prop), metas))
    # the refactorings written for this property's code, and every one that ever made this property's check alarm
    eq_dirs = []
    for m in sorted(glob.glob(os.path.join(VERIF, "equivalents", "*", "patch.diff"))):
        d = os.path.dirname(m)
        try:
            meta = json.load(open(os.path.join(d, "meta.json")))
        except Exception:
            meta = {}
        fa = meta.get("first_alarms") or ""
        if isinstance(fa, dict): fa = " ".join(fa.keys())
        if prop in os.path.basename(d) or prop in fa:
            eq_dirs.append(d)
    with concurrent.futures.ThreadPoolExecutor(max_workers=8) as ex:
        equivs = list(ex.map(lambda d: run_equiv(d, prop), eq_dirs))
    e_silent = [r["name"] for r in equivs if r["status"] == "silent"]
    e_alarm = [r["name"] for r in equivs if r["status"] == "FALSE-ALARM"]
    killed = [r["name"] for r in results if r["status"] == "killed"]
    missed = [r["name"] for r in results if r["status"] == "MISSED"]
    silent = [r["name"] for r in results if r["status"] == "silent"]
    alarms = [r["name"] for r in results if r["status"] == "FALSE-ALARM"]
    stale = [r["name"] for r in results + seeded + equivs if r["status"] == "stale"]
    errors = [r["name"] for r in results + seeded + equivs if r["status"] in ("checker-error", "nobuild")]
    s_killed = [r["name"] for r in seeded if r["status"] == "killed"]
    s_missed = [r["name"] for r in seeded if r["status"] == "MISSED"]
    s_missed_unexpected = [r["name"] for r in seeded if r["status"] == "MISSED" and r.get("expected") not in (None, "not-detected")]
    vv = dict(
        corpus_seeded_total=len(killed) + len(missed), corpus_seeded_killed=len(killed), undetected_variants=missed,
        corpus_equivalent_total=len(silent) + len(alarms), corpus_equivalent_silent=len(silent), false_alarm_variants=alarms,
        independent_seeded_total=len(s_killed) + len(s_missed), independent_seeded_killed=s_killed, independent_seeded_missed=s_missed,
        independent_refactorings_total=len(e_silent) + len(e_alarm), independent_refactorings_silent=len(e_silent), independent_refactorings_alarming=e_alarm,
        stale=stale, errors=errors, wall_s=round(time.time() - t0, 1),
        note="variants are analysed in scratch copies, never executed; the verdict on the property is the one for the unchanged tree")
    evp = os.path.join(VERIF, "evidence", prop + ".json")
    ev = json.load(open(evp))
    ev["coverage"]["variant_validation"] = vv
    ev["wall_s"] = round(ev.get("wall_s", 0) + vv["wall_s"], 2)
    json.dump(ev, open(evp, "w"), indent=1)
    print(f"variants {prop}: corpus seeded {len(killed)}/{len(killed)+len(missed)} reported, equivalent {len(silent)}/{len(silent)+len(alarms)} silent; independently seeded {len(s_killed)}/{len(s_killed)+len(s_missed)} reported; independent refactorings {len(e_silent)}/{len(e_silent)+len(e_alarm)} silent; stale {len(stale)}; {vv['wall_s']}s")
    for n in missed: print(f"WEAKNESS undetected corpus variant {prop}/{n}")
    for n in alarms: print(f"WEAKNESS false alarm on equivalent variant {prop}/{n}")
    for n in e_alarm: print(f"WEAKNESS false alarm on independently written refactoring {prop}/{n}")
    for n in s_missed_unexpected: print(f"WEAKNESS independently seeded change no longer detected {prop}/{n}")
    for n in errors: print(f"WEAKNESS checker error on variant {prop}/{n}")

if __name__ == "__main__":
    main()
