#!/usr/bin/env python3
"""Generates MANIFEST.json from the table below (kept in one place so the manifest is always valid)."""
import json, subprocess, sys

FIX_COMMITS = subprocess.run(["git","-C","/repo","log","--format=%h %s","5dec6d4..HEAD"],capture_output=True,text=True).stdout.strip().splitlines()

# id -> (technique, level text, level note, design ref)
CHECKS = {
 "C07": ("interprocedural field-based path-taint classification (SAFE / ANCHORED / TAINTED) of every filesystem path argument, with taint sources derived from the wire decoders and stream reads (go/ssa + call graph)",
         "Structural necessary conditions decided for every one of the ~80 path arguments of os.*, filepath.Walk and FileStore.* in the server packages: no def-use chain from client-controlled bytes (fields filled by the decoders or read from a connection, through conversions, concatenation, Join, Sprintf, charmap decode, struct fields, closures, parameters and returns) reaches a path argument without having passed Join(\"/\", ...) - whose Clean removes every '..' - before being placed behind a trusted root; ReadPath analysed with tainted path/name parameters returns a SAFE path; a classifier control (tainted source, anchoring) must be observed in the tree on every run.",
         "Trusted: filepath.Clean semantics, the Macintosh charmap maps ASCII to itself (no other byte decodes to '/' or '.'), unknown leaves (configuration, file-system names) are trusted. Not decided: symlinks inside the root that point outside (operator-made), case-insensitive or normalising filesystems, the per-account FileRoot chosen by the operator. The abstraction is field-based (one cell per struct field): it can only add alarms, not lose flows through fields.",
         "4/C07"),
 "C11": ("sibling completeness between the path fields a fileWrapper uses and what Move/Delete handle, symbolic name comparison, edge-cut reachability for ignore patterns and mkdir (go/ssa)",
         "Narrow structural part: every path field a fileWrapper hands to the filesystem is renamed by Move to Join(newPath, the matching name method) and removed by Delete, the name methods build the names NewFileWrapper looks for, and only 'does not exist' is tolerated for side files; listing encoder and path decoder are NewEncoder/NewDecoder of one charmap in both packages; the ignore predicate with the configured list guards both the entries and the folder counts; list and get-info take size/type from the same source; Mkdir only on the 'does not exist' edge.",
         "Not decided: everything history- or content-dependent (the bulk of the statement): results of sequences of file operations, sizes/types agreeing with the bytes on disk, alias/set-comment effects.",
         "4/C11"),
 "C03": ("must-hold lockset dataflow over every shared map access, lock release / lock order, recover-guard shape, goroutine panic-site search over the call graph, defer pairing, registration gate (go/ssa + call graph)",
         "Structural necessary conditions for containment: the two per-connection entry functions defer a directly-recovering dontPanic first and all handlers/transfer handlers are only called below them; no explicit panic or unchecked type assertion is reachable from a goroutine that is not recover-guarded; every lookup/store/delete/range on a map held in a struct field runs with a mutex of the owning struct held on the same object (a concurrent map write is an unrecoverable process abort); every Lock is released on all paths and the lock-order graph is acyclic; gauges, the transfer registration and the client registration are paired with deferred releases; a connection is registered only when authenticated and with a non-nil account.",
         "Trusted: 'concurrent map access is fatal' and recover semantics of the Go runtime. Not decided: absence of every panic or deadlock, timeliness of replies to other clients, memory/descriptor exhaustion, the rate limiter's effectiveness, the client library (excluded, reported).",
         "4/C03"),
 "C14": ("lockset at every write to a registered client's connection, bound check shape of NewField, who-may-construct replies, max-count dataflow of reply constructors per handler path, plus C01's rules for Transaction/Field (go/ssa)",
         "Structural necessary conditions: every write to ClientConn.Connection holds a mutex stored in that same ClientConn and the login sequence never writes to the raw connection after registration (so the bytes of two transactions cannot interleave); NewField's 16-bit prefix is len of the very bytes it stores and that value is bounded by 65535 on every path; replies are only built by NewReply/NewErrReply from the handler's own (cc, t), copying request ID and client ID; at most one reply constructor executes on any path of each of the 43 handlers; Transaction/Field obey the cursor protocol and layout.",
         "Not decided: actual interleavings and liveness under load ('a request answered alone is answered under load'), delivery order through the outbox.",
         "4/C14"),
 "C18": ("C01's cursor/layout rules on the three news encoders, must-pass-through of writeFile, lockset on the news maps, shape checks of the list builder and the ID allocation (go/ssa)",
         "Narrow structural part: the news list encoders obey the cursor protocol and the protocol layouts; the four mutators reach a success return only through writeFile under the store mutex and Load reads the file writeFile renames onto; every access to the category/article maps holds the store mutex; the article list is sorted by numeric ID before encoding, announces the number of encoded entries and fills each entry from one article; PostArticle stores under max+1 (1 if empty) and records the requested parent.",
         "Not decided: ID freshness over histories, thread links beyond the recorded parent, 'removes exactly that item', reload equality - properties of map contents over histories.",
         "4/C18"),
 "C19": ("lockset on the shared read cursor, critical-section check of Seek+Read call sites, ordering/argument-order checks of the post path (go/ssa)",
         "Structural necessary conditions: every access to the read cursor of the two stores shared by all connections must hold the store mutex and every Seek+Read sequence on them must sit in one critical section - both FAIL on this tree at four sites, which are one design-level defect recorded in known_findings.json (the check prints KNOWN-FINDING lines and fails on any further site); FlatNews.Write prepends the post to the old text under the mutex and persists it before success; the post handler announces and acknowledges only on Write's success edge; both Read methods obey the cursor protocol.",
         "Not decided: completeness of the text a reader gets once the shared-cursor defect is repaired; post formatting.",
         "4/C19"),
 "C08": ("value-flow of the resume offset to a skip on the copied reader, edge-cut reachability for the preview gate, emission order by dominance, arithmetic shape of the size fields, plus C01's layout/prefix rules (go/ssa)",
         "Structural part only: the client's resume offset reaches a Seek/Discard on the very reader that is copied, dominating the copy; the flattened-file header is unreachable for a preview and data is sent in both cases; header, data fork, resource-fork header and resource fork are emitted in that order; the reply takes its offset from the request, field 207 is the data-fork header's size = file size - offset, field 108 is TransferSize(0) or the data size under the preview option, TransferSize = data + resource + emitted header length - offset; the header's own size fields follow from the extracted layout.",
         "Not decided: that the bytes on the wire equal the bytes of the file on disk, size arithmetic at run time for every file size (e.g. 32-bit truncation above 4 GiB), resource-fork presence logic, the trailing zero-length MACR header.",
         "4/C08"),
 "C09": ("edge-cut reachability of the publish rename behind receiveFile's success edge, constant folding of open flags, symbolic path comparison, value-flow of declared size and resume offset (go/ssa)",
         "Structural part only: every rename '<x>.incomplete -> <x>' is unreachable once the receiveFile-returned-nil edges are removed and is never deferred; the partial file is opened on the .incomplete name with O_APPEND|O_CREATE|O_WRONLY and never O_TRUNC; opening/receiving in UploadHandler and granting in HandleUploadFile are unreachable when Stat of the final name succeeded; receiveFile copies exactly the data-fork size declared in the header it read from the same stream; the resume offset reported is the size of the .incomplete file.",
         "Not decided: behaviour under real connection cuts (what the kernel has flushed), byte equality, 'what was uploaded is what a later download returns', no-overwrite inside the folder-upload loop (value-dependent).",
         "4/C09"),
 "C10": ("the C08/C09 rules applied to the folder handlers plus sibling agreement between the item counter and the sending walker (go/ssa)",
         "Structural part only: in the folder download the per-item resume offset is skipped on the file that is copied; in the folder upload both receive branches publish only after receiveFile succeeded, partial files are append-only and the reported resume offset is the partial file's size; CalcItemCount and the walker use the same name-prefix skip predicate, the counter counts only non-skipped entries minus the root, the walker sends no header for skipped entries nor the root, neither prunes sub-trees.",
         "Not decided: that a tree is reproduced, depth-first order, per-item sizes, the per-item action protocol beyond the three structural rules.",
         "4/C10"),
 "C12": ("recipient-source classification of every constructed transaction against an audience table, all-paths value-flow of the truncation, ordering by dominance (go/ssa)",
         "Structural part only: for the seven chat-family transactions the set of (transaction type, recipient source) pairs equals the protocol's audience table (members of the chat named by the request, the registry filtered by the element's own read-chat privilege, the request's user ID), each built inside the loop over its list; every chat text reaches NewField through [:min(len, LimitChatMsg)] on all value paths and LimitChatMsg = 8192; emote only under options {0,1}; Leave(chat, own ID) precedes the member enumeration, join notices use the enumeration taken before Join, declining never joins; the chat manager's Members/Leave/Join touch exactly the addressed chat and client.",
         "Not decided: exactly-once delivery under schedules (delivery goes through the outbox), membership evolution over histories, message formatting beyond the emote selection.",
         "4/C12"),
 "C13": ("edge-cut reachability on the ID allocator, must-pass-through of a user-change notice after every roster-visible store, field provenance of notices (go/ssa)",
         "Structural part only: a registry insertion is unreachable on the edge where the ID is already present or zero and the ID is not rewritten between test and insertion; the private message is delivered only on the not-refusing edge, the refusal notice only on the refusing edge, the auto reply only for a non-empty text, the target is ClientMgr.Get(request user ID); outside the login sequence every store to UserName/Icon and every Flags.Set is followed on all paths by a user-change notice; each notice carries ID, name, icon and flags of one and the same connection; user list entries are built from one registry element.",
         "Not decided: convergence as a property of histories, ordering of notifications through the outbox, the login sequence's own notification rules (1.2.3 vs 1.5+ clients).",
         "4/C13"),
 "C15": ("flow-sensitive key-expression comparison between disk and map operations of each account mutator, success-edge dominance, who-may-write on Account.Password, edge-cut reachability for the password-field semantics (go/ssa)",
         "Structural part only: create - file key = inserted key; delete - removed file = deleted key; rename - the deleted key is the login the account had before (the Rename's source), the inserted key and the stored account's login are the new login; map mutations only on the success edge of the preceding disk operation; every stored password is HashAndSalt(...) = string(bcrypt.GenerateFromPassword(arg)); the supplied password's hash is not stored under the 'unchanged' marker and the empty password's hash only when the field is absent; Get/List/loader shapes and yaml tags.",
         "Not decided: set equality of logins / list / disk after arbitrary histories, YAML library behaviour for odd strings, restart equality beyond 'keyed by the Login read'.",
         "4/C15"),
 "C01": ("cursor-protocol shape check of all 14 Read encoders + symbolic wire-layout extraction compared with a protocol layout table + prefix arithmetic + decoder/encoder offset agreement (go/ssa)",
         "Structural necessary conditions decided per encoder: R1-R5 of the cursor protocol (one copy(p, buf[cursor:]), cursor += n, EOF guard, (n, nil) returns, buffer independent of the cursor) give, by induction on the cursor, the same bytes and termination for EVERY sequence of read-buffer sizes >= 1; the extracted segment list of each encoder (widths, order, constants, which slot measures which field) equals spec/layouts.json written from the protocol document; size helpers are arithmetic consequences of those layouts; stored length prefixes are only written from the length of the data stored next to them; decoder byte ranges equal encoder offsets.",
         "Trusted: spec/layouts.json as the Hotline format, slices.Concat/append semantics. Not decided: decode(encode(x)) = x as values, over-long strings outside the prefixes' range, encoders without a Read method other than those listed (EncodeFilePath, NewTime, BinaryMarshal are not layout-checked).",
         "4/C01"),
 "C02": ("type-resolved who-feeds-whom check on positional frame decoders, bare-Read detection over the server-side call tree, guard dominance in split functions (go/ssa + call graph)",
         "Structural necessary conditions: no construct in the server's connection handling can observe a segment boundary - positional decoders are only fed whole buffers, the 12/16-byte frames are accumulated with io.ReadFull into exactly-sized buffers, no direct Read of a stream exists in the functions reachable from the two connection entry points (every consumption site is listed in the evidence), and the transaction split function only emits a token whose end was compared with len(data) on a dominating edge.",
         "Trusted: contracts of io.ReadFull / binary.Read / io.CopyN / bufio.Scanner. Not decided: equality of replies/state across segmentations as such; the 64 KiB scanner token limit; the client library (GetListing/serverScanner is reported out of scope).",
         "4/C02"),
 "C20": ("who-may-write rule on the live paths of the four durable stores with symbolic path classification, success-edge dominance of the rename, must-pass-through before success returns (go/ssa)",
         "Structural necessary conditions for crash atomicity: every create/truncate/write/rename/remove whose path derives from a store's live-path field is classified (live / temp next to it / other); the live file is only replaced by os.Rename of a temp file written successfully on the dominating edge (exceptions: unlink on account delete, live-to-live rename on account rename, each one atomic system call); every store mutator reaches a success return only after that rename; the temp suffix is not matched by the account loader's glob. With rename(2) atomic within a directory this leaves old-or-new content at every crash point of each single update step.",
         "Trusted: rename(2) atomicity, os.WriteFile semantics. Not decided: the two-step account rename (rename then rewrite), loader tolerance of every intermediate state, power-loss durability (no fsync is demanded: the property is about process kill).",
         "4/C20"),
 "C04": ("edge-cut reachability / dominance over the login sequence's CFG plus shape rules on Authenticate and handshake.Valid (go/ssa)",
         "Structural necessary conditions decided on every CFG path of the login sequence: with the Authenticate-true edges deleted no dispatch, outbox send, registration, store mutator or notification (also as deferred call) is reachable and the only connection writes are handshake reply, ban notice and one error reply; Authenticate can only yield true through the bcrypt comparison of the looked-up account's hash with the supplied password; the login/password arguments and the bound account come from the login transaction (guest only for the empty login); the handler table is only dispatched from the post-login loop.",
         "Trusted: bcrypt, go/ssa. Not decided: byte-exact content of the error reply, timing of the ban notice, anything about accounts/files being 'untouched' beyond absence of reachable mutator calls.",
         "4/C04"),
 "C06": ("loop-induction recognition + edge-cut reachability + cell identity on the two account-creation handlers and the disconnect handler (go/ssa)",
         "For both protocol paths that create accounts: Create is only reachable through the exit of a counting loop over bits 0..63 in which an iteration with requested.IsSet(i) and not requester.Authorize(i) (same i) can neither complete nor reach Create, and the tested bitmap cell is the one stored; for disconnect: every ban and the Disconnect are unreachable when the same target connection's Authorize(23) is true. This decides the property for all 2^64 x 2^64 bitmap pairs by a per-bit argument on the loop shape.",
         "Trusted: go/ssa loop shapes (for-loop and range-over-int are recognised; any other formulation is reported undecided = fails). Not decided: HandleSetUser/modify raising privileges (not part of the statement).",
         "4/C06"),
 "C16": ("constant folding of Set/IsSet for all 64 bit numbers + closed-world table extraction from the AST compared with a protocol table",
         "Exhaustive over finite tables: Set/IsSet index and mask folded for i=0..63 equal i/8 and 0x80>>(i%8); the YAML load table, save table and struct tags are extracted closed-world and shown to be the same bijection between 40 names and the protocol's privilege numbers (spec/access.json); the legacy list form is a byte copy; access bytes reach the wire unmodified. Because each key touches exactly one bit and each bit one key, save-then-load is the identity on defined bits for all 2^40 combinations by independence (argument in DESIGN.md, not machine-checked, hence level other rather than proof).",
         "Trusted: yaml.v3's map/struct behaviour, spec/access.json. Accepted idioms are enumerated; a table-driven rewrite is reported undecided.",
         "4/C16"),
 "C17": ("edge-cut reachability with ban-state atoms, symbolic key comparison, must-pass-through on BanFile.Add and Disconnect (go/ssa)",
         "Structural necessary conditions: IsBanned sits after the handshake and dominates every login-processing step; those steps are unreachable on the permanent and not-yet-expired edges and reachable on the not-banned and expired edges; lookup key and ban key are the same function of the same remote address of the disconnected connection; BanDuration folds to 30 min and the two ban options store now+BanDuration / nil; Add persists before every success return onto the file Load reads; the disconnect handler starts Disconnect on every permitted path and Disconnect unregisters, notifies and closes.",
         "Trusted: time package, os.Rename. Not decided: wall-clock behaviour, a real restart (only: writes what it later reads).",
         "4/C17"),
 "C05": ("edge-cut reachability over handler CFGs against a protocol privilege table (go/ssa, resolved callees)",
         "Structural necessary conditions decided exhaustively on the source: for all 43 registered transaction handlers and every (context, privilege, effect) row of the protocol table, no effect site is reachable once the Authorize(privilege)-true edges are deleted; the handler tests exactly the protocol's privileges; Authorize has the nil-account/IsSet shape. This replaces the quantifier over 2^64 bitmaps and field contents by one over CFG paths, which is finite and fully enumerated.",
         "Trusted: Go type checker, go/ssa, spec/privileges.json (written from the protocol document), the effect classifier table (listed in evidence). Not decided: effects the classifier does not know, content-dependent behaviour inside an allowed effect, the name matching of upload/drop-box folders.",
         "4/C05"),
}

NOT_YET = {}

# rules added after the two rounds of independently seeded changes (DESIGN.md C.6), appended to the level text
EXTRA = {
 "C01": "Every alternative an encoder can emit (one per combination of phi operands that can reach the emission) must equal the protocol layout; scanner tokens are not decoded in place (decoder-alias); per-item decoders are fresh values.",
 "C02": "One buffering reader per connection entry point; io.ReadAtLeast(r, b, len(b)) counts as a whole-read primitive; positional decoders are recognised through the repo function they hand their bytes to.",
 "C03": "Explicit lock sections are panic-free; gauge increments (also table-driven) are paired with an immediately deferred decrement; locksets flow into closures that a repo helper calls.",
 "C04": "Registration implies authentication; the login arguments reach Authenticate unmodified.",
 "C05": "kind-target-agree: the news item whose kind selects the privilege is the item deleted (NewsItem and DeleteNewsItem resolve a path to the same (container, key) signature and receive the same value); special-folder-last-item: IsUploadDir / IsDropbox decide on the last path item only; a privilege number held in a variable is followed through phis.",
 "C06": "The subset loop may live in a bool predicate helper handed the requester and the bitmap; the protected target is identified through single-assignment cells.",
 "C07": "requester-root: every ReadPath / NewFileTransfer in request-handling code is rooted at FileRoot() of the function's own connection, the transfer stores that root, FileRoot() prefers the account's root; Clean(\"/\"+x) counts as anchoring.",
 "C08": "The amount skipped is the decoded resume offset itself on every path that parsed one (0 only where none was parsed); a resource-fork header is followed by its data on every success path; emissions are found through helpers handed the client writer.",
 "C09": "partial-preserved: nothing removes, truncates, recreates or renames onto a path built with IncompleteFileSuffix (flag bits of the target OS); receive-errors-propagate: in receiveFile / flattenedFileObject.ReadFrom no step's error is dropped and a failed step reaches only returns with a provably non-nil error (nil-sensitive reachability).",
 "C10": "On 'next file' no further action word is written before the next item header is read (skip-sends-once); the C09 rules partial-preserved and receive-errors-propagate cover the folder upload as well (reported under C09).",
 "C11": "wrapper-stale (typestate): no method of a fileWrapper is reachable after Move / Delete on it; every client component of the path ReadPath returns has passed txtDecoder; an alias's listed size comes from Stat of its target.",
 "C12": "Join / leave / subject notices are must-pass on every path that answers the request normally; the chat line is built with the protocol's two formats from (sender's name, request text).",
 "C13": "The change notice must reach every registered client including the changed one (NotifyOthers only in the login tail); Disconnect notifies on all paths.",
 "C14": "no-write-deadline: no deadline can interrupt a write on a client connection; the write mutex is held per transaction; a reply constructor may delegate to the other; one-reply is counted on feasible paths.",
 "C15": "batch-independent: no per-entry state is carried around the loop of the batched account editor; the loader inserts every matched file; disk follows map on the failure edges.",
 "C16": "wire-in-raw: bytes are copied into an AccessBitmap from offset 0 to offset 0; in UnmarshalYAML every Set is decided by a lookup in the named-flag map and the legacy list is copied element i to byte i for i < len(list).",
 "C17": "Once the option selects a ban, BanMgr.Add is on every path to the reply (also for a table-driven option map evaluated from the package initialiser); BanFile.Add never deletes an entry; Disconnect does not acquire a mutex held around connection writes before Close.",
 "C18": "single-copy: every result of the threaded news store derives from the ThreadedNews tree only (no separately invalidated memo / cache).",
 "C19": "Reload reads the file and replaces the text on every successful return, inside one critical section; what is written to the board is the LF-to-CR conversion of the whole formatted post.",
 "C20": "The temp file may be written by os.WriteFile or by OpenFile(O_TRUNC)+Write+Close inline or in a helper handed the temp path: every fallible step's failure must make the rename unreachable (nil-sensitive reachability).",
}
ROBUST = " Robustness: functions that are not in the reference vocabulary (spec/vocabulary.txt) are expanded in place on a type-checked scratch copy before the rules run (normalised view), and all reachability / must-pass queries prune infeasible 'error recorded, success branch taken' paths (path-sensitive traversal over nil / bool / empty-string / small-integer facts about phi values); validated on 120 independently written behaviour-preserving refactorings (all silent) and 80 independently seeded changes (all reported), see DESIGN.md C.5-C.8. A formulation of the mechanism that the rules do not recognise is reported as undecided (exit 1), never passed."

props=[json.loads(l) for l in open("/verif/properties.jsonl")]
checks=[]
na=[]
for p in props:
    pid=p["id"]
    if pid in CHECKS:
        tech,text,note,ref=CHECKS[pid]
        checks.append({
            "property_id":pid,
            "quick_cmd":f"./check.sh {pid} quick",
            "thorough_cmd":f"./check.sh {pid} thorough",
            "evidence_file":f"/verif/evidence/{pid}.json",
            "replay_cmd_template":"./bin/hlcheck -explain {path}",
            "engine":"hlcheck",
            "level_claimed":{"category":"other","text":text+(" Also decided: "+EXTRA[pid] if pid in EXTRA else ""),"design_ref":"DESIGN.md section "+ref+" and appendix C.6"},
            "level_note":note+ROBUST,
            "technique":tech,
        })
    else:
        na.append({"property_id":pid,"reason":NOT_YET.get(pid,"static rules for this property are designed (DESIGN.md section 4) but not built yet in this revision; no claim is made")})
m={
 "version":1,
 "setup_cmd":"./setup.sh",
 "hooks":{"guard":"verif","enable":"no hooks: the analyser reads /repo's source; nothing in /repo is built or run by a check","baseline_off_cmd":"cd /repo && go test -mod=mod -vet=off -count=1 ./...","source_commits":[],"add_only":True},
 "engines":[{"name":"hlcheck","path":"/verif/hlcheck","serves_properties":sorted(CHECKS),"kind_free_text":"repository-specific static analyser (go/packages + go/ssa, x/tools v0.29.0): edge-cut reachability, dominance, def-use provenance, locksets, table extraction; never executes mobius code"}],
 "checks":checks,
 "not_applicable":na,
 "notes":"All verdicts come from static analysis of /repo's current working tree. Genuine defects found by the rules were repaired in /repo by separate 'fix:' commits (listed in known_findings.json as fixed); the remaining one is a known finding. Fix commits: "+"; ".join(FIX_COMMITS),
}
json.dump(m,open("/verif/MANIFEST.json","w"),indent=1)
print("checks:",len(checks),"not_applicable:",len(na))
