package main

// dom.go — E-dom: branch facts, edge-cut reachability, instruction dominance, must-pass-through.

import (
	"fmt"
	"go/token"
	"go/types"
	"sort"
	"strings"

	"golang.org/x/tools/go/ssa"
)

// Fact is what is known on a CFG edge leaving an If: V is true / V is nil / V == C.
type Fact struct {
	V     ssa.Value
	Kind  string // "truth" | "nil" | "eq"
	C     *ssa.Const
	Holds bool
}

// ifFacts decomposes the condition of an If into the fact holding on the true edge (Succs[0]);
// the false edge (Succs[1]) carries the same fact with Holds flipped.
func ifFacts(i *ssa.If) Fact {
	v := i.Cond
	holds := true
	for {
		switch x := v.(type) {
		case *ssa.UnOp:
			if x.Op == token.NOT {
				v = x.X
				holds = !holds
				continue
			}
		case *ssa.BinOp:
			if x.Op == token.EQL || x.Op == token.NEQ {
				eq := x.Op == token.EQL
				l, r := x.X, x.Y
				if _, ok := l.(*ssa.Const); ok {
					l, r = r, l
				}
				if c, ok := r.(*ssa.Const); ok {
					if c.Value == nil && !isBasic(c.Type()) {
						return Fact{V: l, Kind: "nil", Holds: holds == eq}
					}
					if b, ok := c.Type().Underlying().(*types.Basic); ok && b.Info()&types.IsBoolean != 0 && c.Value != nil {
						bv := c.Value.String() == "true"
						v = l
						if eq != bv {
							holds = !holds
						}
						continue
					}
					return Fact{V: l, Kind: "eq", C: c, Holds: holds == eq}
				}
			}
		}
		break
	}
	return Fact{V: v, Kind: "truth", Holds: holds}
}

func isBasic(t types.Type) bool {
	_, ok := t.Underlying().(*types.Basic)
	return ok
}

type Edge struct{ From, To *ssa.BasicBlock }

// factEdges enumerates, for every If in fn, both out-edges with the fact that holds on them.
func factEdges(fn *ssa.Function, f func(e Edge, fact Fact)) {
	for _, b := range fn.Blocks {
		if len(b.Instrs) == 0 {
			continue
		}
		i, ok := b.Instrs[len(b.Instrs)-1].(*ssa.If)
		if !ok {
			continue
		}
		ft := ifFacts(i)
		f(Edge{b, b.Succs[0]}, ft)
		nf := ft
		nf.Holds = !ft.Holds
		f(Edge{b, b.Succs[1]}, nf)
	}
}

// reachable computes the blocks reachable from the entry when the edges for which cut returns true are removed.
// When an If has both successors equal (degenerate) cutting is per edge index, so callers use cutEdges sets keyed by (from,to,idx).
func reachable(fn *ssa.Function, cut map[Edge]bool) map[*ssa.BasicBlock]bool {
	seen := map[*ssa.BasicBlock]bool{}
	if len(fn.Blocks) == 0 {
		return seen
	}
	work := []*ssa.BasicBlock{fn.Blocks[0]}
	seen[fn.Blocks[0]] = true
	for len(work) > 0 {
		b := work[len(work)-1]
		work = work[:len(work)-1]
		for _, s := range b.Succs {
			if cut[Edge{b, s}] || seen[s] {
				continue
			}
			seen[s] = true
			work = append(work, s)
		}
	}
	return seen
}

// reachableFrom computes blocks reachable from start (inclusive) with edges cut.
func reachableFrom(start *ssa.BasicBlock, cut map[Edge]bool) map[*ssa.BasicBlock]bool {
	seen := map[*ssa.BasicBlock]bool{start: true}
	work := []*ssa.BasicBlock{start}
	for len(work) > 0 {
		b := work[len(work)-1]
		work = work[:len(work)-1]
		for _, s := range b.Succs {
			if cut[Edge{b, s}] || seen[s] {
				continue
			}
			seen[s] = true
			work = append(work, s)
		}
	}
	return seen
}

// pathTo returns one CFG path (as block list) from entry to target avoiding cut edges, or nil.
func pathTo(fn *ssa.Function, target *ssa.BasicBlock, cut map[Edge]bool) []*ssa.BasicBlock {
	if len(fn.Blocks) == 0 {
		return nil
	}
	prev := map[*ssa.BasicBlock]*ssa.BasicBlock{}
	entry := fn.Blocks[0]
	seen := map[*ssa.BasicBlock]bool{entry: true}
	work := []*ssa.BasicBlock{entry}
	for len(work) > 0 {
		b := work[0]
		work = work[1:]
		if b == target {
			var p []*ssa.BasicBlock
			for x := b; x != nil; x = prev[x] {
				p = append([]*ssa.BasicBlock{x}, p...)
				if x == entry {
					break
				}
			}
			return p
		}
		for _, s := range b.Succs {
			if cut[Edge{b, s}] || seen[s] {
				continue
			}
			seen[s] = true
			prev[s] = b
			work = append(work, s)
		}
	}
	return nil
}

func (P *Prog) describePath(p []*ssa.BasicBlock) []string {
	var out []string
	for _, b := range p {
		// first instruction with a position
		where := ""
		for _, ins := range b.Instrs {
			if ins.Pos().IsValid() {
				where = P.pos(ins.Pos())
				break
			}
		}
		if where == "" {
			continue
		}
		if len(out) > 0 && out[len(out)-1] == where {
			continue
		}
		out = append(out, where)
	}
	if len(out) > 14 {
		out = append(append([]string{}, out[:6]...), append([]string{"..."}, out[len(out)-7:]...)...)
	}
	return out
}

func instrIndex(ins ssa.Instruction) int {
	for i, x := range ins.Block().Instrs {
		if x == ins {
			return i
		}
	}
	return -1
}

// instrDominates: a is executed before b on every path reaching b (same function).
func instrDominates(a, b ssa.Instruction) bool {
	if a.Block() == b.Block() {
		return instrIndex(a) < instrIndex(b)
	}
	return a.Block().Dominates(b.Block())
}

// edgeDominates: every path from entry to block t uses edge e.
func edgeDominates(fn *ssa.Function, e Edge, t *ssa.BasicBlock) bool {
	r := reachable(fn, map[Edge]bool{e: true})
	return !r[t]
}

// mustPassAfter: every path from just after `from` to a normal Return executes an instruction matching through.
// Returns a witness return position when it fails.
func mustPassAfter(from ssa.Instruction, through func(ssa.Instruction) bool) (bool, ssa.Instruction) {
	type st struct {
		b   *ssa.BasicBlock
		idx int
	}
	seen := map[*ssa.BasicBlock]bool{}
	work := []st{{from.Block(), instrIndex(from) + 1}}
	for len(work) > 0 {
		s := work[len(work)-1]
		work = work[:len(work)-1]
		stopped := false
		for i := s.idx; i < len(s.b.Instrs); i++ {
			ins := s.b.Instrs[i]
			if through(ins) {
				stopped = true
				break
			}
			if r, ok := ins.(*ssa.Return); ok {
				return false, r
			}
		}
		if stopped {
			continue
		}
		for _, n := range s.b.Succs {
			if !seen[n] {
				seen[n] = true
				work = append(work, st{n, 0})
			}
		}
	}
	return true, nil
}

// mustPassBefore: every path from entry to `to` executes an instruction matching through before reaching `to`.
func mustPassBefore(fn *ssa.Function, to ssa.Instruction, through func(ssa.Instruction) bool) bool {
	type st struct {
		b   *ssa.BasicBlock
		idx int
	}
	if len(fn.Blocks) == 0 {
		return true
	}
	seen := map[*ssa.BasicBlock]bool{fn.Blocks[0]: true}
	work := []*ssa.BasicBlock{fn.Blocks[0]}
	for len(work) > 0 {
		b := work[len(work)-1]
		work = work[:len(work)-1]
		stopped := false
		for _, ins := range b.Instrs {
			if ins == to {
				return false
			}
			if through(ins) {
				stopped = true
				break
			}
		}
		if stopped {
			continue
		}
		for _, n := range b.Succs {
			if !seen[n] {
				seen[n] = true
				work = append(work, n)
			}
		}
	}
	return true
}

// returnsOf lists the Return instructions of fn.
func returnsOf(fn *ssa.Function) []*ssa.Return {
	var out []*ssa.Return
	for _, b := range fn.Blocks {
		if len(b.Instrs) > 0 {
			if r, ok := b.Instrs[len(b.Instrs)-1].(*ssa.Return); ok {
				out = append(out, r)
			}
		}
	}
	return out
}

// isCallTo reports whether ins is a call (call/go/defer) whose resolved name is one of names.
func isCallTo(ins ssa.Instruction, names ...string) bool {
	ci, ok := ins.(ssa.CallInstruction)
	if !ok {
		return false
	}
	n := calleeName(ci.Common())
	for _, x := range names {
		if n == x {
			return true
		}
	}
	return false
}

// callValue returns the *ssa.Call that v is (through conversions / extract of a tuple), if any.
func callValue(v ssa.Value) *ssa.Call {
	v = stripConv(v)
	if e, ok := v.(*ssa.Extract); ok {
		v = e.Tuple
	}
	c, _ := v.(*ssa.Call)
	return c
}

// mustPassFromBlock: every path from the start of block b to a normal Return executes an instruction matching through.
func mustPassFromBlock(b *ssa.BasicBlock, through func(ssa.Instruction) bool) (bool, ssa.Instruction) {
	seen := map[*ssa.BasicBlock]bool{b: true}
	work := []*ssa.BasicBlock{b}
	for len(work) > 0 {
		cur := work[len(work)-1]
		work = work[:len(work)-1]
		stopped := false
		for _, ins := range cur.Instrs {
			if through(ins) {
				stopped = true
				break
			}
			if r, ok := ins.(*ssa.Return); ok {
				return false, r
			}
		}
		if stopped {
			continue
		}
		for _, n := range cur.Succs {
			if !seen[n] {
				seen[n] = true
				work = append(work, n)
			}
		}
	}
	return true, nil
}

// ---------------------------------------------------------------------------------------------
// nil-sensitive reachability: which blocks can be entered after instruction `start` when the values in `assume`
// are nil (true) / non-nil (false).  Nil-ness is propagated through phis along the edge taken, branches on
// `x == nil` / `x != nil` with known x are followed only on the feasible side, unknown ones fork and record what
// the branch establishes about x.  A path-sensitive dataflow over the three-point lattice {nil, non-nil, unknown}
// per error value; nothing is executed.

type nilState map[ssa.Value]int8 // 1 nil, 2 non-nil

func (s nilState) key() string {
	var ks []string
	for v, n := range s {
		ks = append(ks, fmt.Sprintf("%s=%d", v.Name(), n))
	}
	sort.Strings(ks)
	return strings.Join(ks, ",")
}

func (s nilState) of(v ssa.Value) int8 {
	for {
		if isNilConst(v) {
			return 1
		}
		if n, ok := s[v]; ok {
			return n
		}
		switch x := v.(type) {
		case *ssa.ChangeInterface:
			v = x.X
			continue
		case *ssa.MakeInterface, *ssa.Alloc, *ssa.MakeSlice, *ssa.MakeMap, *ssa.MakeClosure:
			return 2
		case *ssa.Call:
			switch calleeName(&x.Call) {
			case "fmt.Errorf", "errors.New":
				return 2
			}
		}
		return 0
	}
}

func nilReach(start ssa.Instruction, assume map[ssa.Value]bool) map[*ssa.BasicBlock]bool {
	return nilReachVisit(start, assume, nil)
}

// nilReachVisit: as nilReach; visit is called for every (block, state) pair explored.
func nilReachVisit(start ssa.Instruction, assume map[ssa.Value]bool, visit func(b *ssa.BasicBlock, st nilState)) map[*ssa.BasicBlock]bool {
	reached := map[*ssa.BasicBlock]bool{}
	init := nilState{}
	for v, isNil := range assume {
		if isNil {
			init[v] = 1
		} else {
			init[v] = 2
		}
	}
	type item struct {
		blk *ssa.BasicBlock
		st  nilState
	}
	seen := map[string]bool{}
	var work []item
	enter := func(succ, pred *ssa.BasicBlock, st nilState) {
		ns := nilState{}
		for k, v := range st {
			ns[k] = v
		}
		idx := -1
		for i, p := range succ.Preds {
			if p == pred {
				idx = i
				break
			}
		}
		for _, ins := range succ.Instrs {
			phi, ok := ins.(*ssa.Phi)
			if !ok {
				break
			}
			delete(ns, phi)
			if idx >= 0 && idx < len(phi.Edges) {
				if n := st.of(phi.Edges[idx]); n != 0 {
					ns[phi] = n
				}
			}
		}
		reached[succ] = true
		k := fmt.Sprintf("%d|%s", succ.Index, ns.key())
		if seen[k] || len(seen) > 20000 {
			if len(seen) > 20000 {
				// give up precisely: everything reachable in the plain CFG counts as reachable
				for b := range reachableFrom(succ, nil) {
					reached[b] = true
				}
			}
			return
		}
		seen[k] = true
		if visit != nil {
			visit(succ, ns)
		}
		work = append(work, item{succ, ns})
	}
	step := func(blk *ssa.BasicBlock, st nilState) {
		if len(blk.Instrs) == 0 {
			return
		}
		iff, ok := blk.Instrs[len(blk.Instrs)-1].(*ssa.If)
		if !ok {
			for _, s := range blk.Succs {
				enter(s, blk, st)
			}
			return
		}
		cond := iff.Cond
		neg := false
		for {
			if u, ok := cond.(*ssa.UnOp); ok && u.Op == token.NOT {
				cond, neg = u.X, !neg
				continue
			}
			break
		}
		if c, ok := cond.(*ssa.Const); ok && c.Value != nil {
			t := (c.Value.String() == "true") != neg
			if t {
				enter(blk.Succs[0], blk, st)
			} else {
				enter(blk.Succs[1], blk, st)
			}
			return
		}
		if b, ok := cond.(*ssa.BinOp); ok && (b.Op == token.EQL || b.Op == token.NEQ) {
			var x ssa.Value
			if isNilConst(b.Y) {
				x = b.X
			} else if isNilConst(b.X) {
				x = b.Y
			}
			if x != nil {
				eq := (b.Op == token.EQL) != neg // true branch means "x is nil"?
				switch st.of(x) {
				case 1:
					if eq {
						enter(blk.Succs[0], blk, st)
					} else {
						enter(blk.Succs[1], blk, st)
					}
					return
				case 2:
					if eq {
						enter(blk.Succs[1], blk, st)
					} else {
						enter(blk.Succs[0], blk, st)
					}
					return
				}
				with := func(n int8) nilState {
					ns := nilState{}
					for k, v := range st {
						ns[k] = v
					}
					ns[x] = n
					return ns
				}
				if eq {
					enter(blk.Succs[0], blk, with(1))
					enter(blk.Succs[1], blk, with(2))
				} else {
					enter(blk.Succs[0], blk, with(2))
					enter(blk.Succs[1], blk, with(1))
				}
				return
			}
		}
		for _, s := range blk.Succs {
			enter(s, blk, st)
		}
	}
	step(start.Block(), init)
	for len(work) > 0 {
		it := work[len(work)-1]
		work = work[:len(work)-1]
		step(it.blk, it.st)
	}
	return reached
}

// errResult: the value holding the error result of call c (the call itself, or the Extract of the error component
// of its tuple); nil when the error is dropped.
func errResult(c *ssa.Call) ssa.Value {
	res := c.Call.Signature().Results()
	if res.Len() == 1 {
		if isErrorType(res.At(0).Type()) && c.Referrers() != nil && len(*c.Referrers()) > 0 {
			return c
		}
		return nil
	}
	for i := 0; i < res.Len(); i++ {
		if !isErrorType(res.At(i).Type()) {
			continue
		}
		for _, r := range *c.Referrers() {
			if ex, ok := r.(*ssa.Extract); ok && ex.Index == i {
				return ex
			}
		}
	}
	return nil
}
