package main

// c04.go — C04: nothing is served before a successful login.

import (
	"fmt"
	"go/token"
	"sort"
	"strings"

	"golang.org/x/tools/go/ssa"
)

// domComparisons: the conditions (as descriptions) that are known true when block b executes.
func domFacts(fn *ssa.Function, b *ssa.BasicBlock, describe func(Fact) string) map[string]bool {
	out := map[string]bool{}
	factEdges(fn, func(e Edge, f Fact) {
		d := describe(f)
		if d == "" {
			return
		}
		if e.To == b && len(b.Preds) == 1 || edgeDominates(fn, e, b) {
			out[d] = true
		}
	})
	return out
}

// mustHoldWhenTrue: descriptions of comparisons guaranteed to hold whenever boolean value v is true.
func mustHoldWhenTrue(fn *ssa.Function, v ssa.Value, describe func(Fact) string, depth int) map[string]bool {
	out := map[string]bool{}
	if depth > 8 {
		return out
	}
	switch x := v.(type) {
	case *ssa.Const:
		return out
	case *ssa.Phi:
		first := true
		for i, e := range x.Edges {
			if c, ok := e.(*ssa.Const); ok && c.Value != nil && c.Value.String() == "false" {
				continue
			}
			m := mustHoldWhenTrue(fn, e, describe, depth+1)
			pred := x.Block().Preds[i]
			// facts on the edge pred→block and dominating pred
			for d := range domFacts(fn, pred, describe) {
				m[d] = true
			}
			if len(pred.Instrs) > 0 {
				if iff, ok := pred.Instrs[len(pred.Instrs)-1].(*ssa.If); ok {
					ft := ifFacts(iff)
					if pred.Succs[0] == x.Block() && pred.Succs[1] != x.Block() {
						if d := describe(ft); d != "" {
							m[d] = true
						}
					}
					if pred.Succs[1] == x.Block() && pred.Succs[0] != x.Block() {
						ft.Holds = !ft.Holds
						if d := describe(ft); d != "" {
							m[d] = true
						}
					}
				}
			}
			if first {
				out = m
				first = false
			} else {
				for d := range out {
					if !m[d] {
						delete(out, d)
					}
				}
			}
		}
		return out
	default:
		// v itself as a condition
		f := Fact{V: v, Kind: "truth", Holds: true}
		if b, ok := v.(*ssa.BinOp); ok && (b.Op == token.EQL || b.Op == token.NEQ) {
			f = ifFacts(&ssa.If{Cond: v})
		}
		if u, ok := v.(*ssa.UnOp); ok && u.Op == token.NOT {
			f = ifFacts(&ssa.If{Cond: v})
		}
		if d := describe(f); d != "" {
			out[d] = true
		}
		return out
	}
}

func checkC04(R *Run) {
	P := R.P
	R.rule("handshake-valid", "handshake.Valid() can only be true when Protocol == \"TRTP\" and SubProtocol == \"HOTL\"; performHandshake writes its reply only on the Valid()-true edge; handleNewConnection does nothing else before performHandshake returned nil")
	R.rule("login-gate", "in the connection's login sequence, with the Authenticate-true edges deleted, no transaction dispatch, no send on the server outbox, no registration, no store mutator / notification (also as a deferred call) is reachable; the only writes to the connection are the handshake reply, the ban notice and one io.Copy of a NewErrReply")
	R.rule("auth-shape", "ClientConn.Authenticate returns true only as the result of bcrypt.CompareHashAndPassword(hash of AccountManager.Get(login parameter), password parameter) == nil")
	R.rule("login-args", "the login passed to Authenticate is the de-obfuscated login field or the constant guest account under login == \"\"; the password is the password field; the account bound to the connection is AccountManager.Get of that same login and is assigned nowhere else")
	R.rule("dispatch-only", "the handler table is read only by handleTransaction and written only by HandleFunc/NewServer; handleTransaction is called only from the post-login loop")

	// ---- handshake-valid
	var describeHS func(f Fact) string
	// withoutID: the blocks of fn that can be reached (and, for returns, the value returned there can be true) when
	// the given identifier test fails — the edges on which it holds are cut and the rest is followed with what the
	// branches establish (a verdict collected in an error or bool variable is followed)
	hsIDs := []string{"hotline.handshake.Protocol==TRTP", "hotline.handshake.SubProtocol==HOTL"}
	reachWithoutID := func(fn *ssa.Function, id string) (map[*ssa.BasicBlock][]nilState, int) {
		cut := map[Edge]bool{}
		n := 0
		factEdges(fn, func(e Edge, f Fact) {
			if describeHS(f) == id {
				cut[e] = true
				n++
			}
			// the same test spelled with != : it holds on the other edge
			nf := f
			nf.Holds = !f.Holds
			_ = nf
		})
		out := map[*ssa.BasicBlock][]nilState{}
		if len(fn.Blocks) > 0 {
			explore([]psItem{{fn.Blocks[0], nilState{}}}, cut, true, func(b *ssa.BasicBlock, st nilState) bool {
				out[b] = append(out[b], st)
				return true
			})
		}
		return out, n
	}
	canBeTrue := func(st nilState, v ssa.Value) bool {
		switch st.of(v) {
		case 1:
			return false
		case 2:
			return true
		}
		if b, ok := v.(*ssa.BinOp); ok && (b.Op == token.EQL || b.Op == token.NEQ) {
			var x ssa.Value
			if isZeroLike(b.Y) {
				x = b.X
			} else if isZeroLike(b.X) {
				x = b.Y
			}
			if x != nil {
				switch st.of(x) {
				case 1:
					return b.Op == token.EQL
				case 2:
					return b.Op == token.NEQ
				}
			}
		}
		return true
	}
	if fn := R.mustFn("(*hotline.handshake).Valid"); fn != nil {
		R.analysed(fname(fn))
		describe := func(f Fact) string {
			if f.Kind == "eq" && f.Holds && f.C != nil {
				// string(field[:]) == "TRTP"
				if fld, ok := loadedField(f.V); ok {
					if str, ok := constString(f.C); ok {
						return fld + "==" + str
					}
				}
				return ""
			}
			b, ok := f.V.(*ssa.BinOp)
			if !ok || (b.Op != token.EQL && b.Op != token.NEQ) {
				return ""
			}
			holdsEq := f.Holds == (b.Op == token.EQL)
			if !holdsEq {
				return ""
			}
			for _, pair := range [][2]ssa.Value{{b.X, b.Y}, {b.Y, b.X}} {
				if fld, ok := loadedField(pair[0]); ok {
					if bs, ok := P.bytesOf(pair[1]); ok {
						return fld + "==" + string(bs)
					}
				}
			}
			return ""
		}
		describeHS = describe
		okAll := len(returnsOf(fn)) > 0
		for _, ret := range returnsOf(fn) {
			m := mustHoldWhenTrue(fn, ret.Results[0], describe, 0)
			for d := range domFacts(fn, ret.Block(), describe) {
				m[d] = true
			}
			if c, ok := ret.Results[0].(*ssa.Const); ok && c.Value != nil && c.Value.String() == "false" {
				continue
			}
			if !m["hotline.handshake.Protocol==TRTP"] || !m["hotline.handshake.SubProtocol==HOTL"] {
				okAll = false
			}
		}
		if !okAll {
			// the verdict may be collected first (an error that is nil exactly when both identifiers match): with either
			// identifier wrong, no return can yield true
			okAll = len(returnsOf(fn)) > 0
			for _, id := range hsIDs {
				reach, n := reachWithoutID(fn, id)
				if n == 0 {
					okAll = false
				}
				for _, ret := range returnsOf(fn) {
					for _, st := range reach[ret.Block()] {
						if canBeTrue(st, ret.Results[0]) {
							okAll = false
						}
					}
				}
			}
		}
		R.check(okAll, "handshake-valid", fname(fn), P.pos(fn.Pos()), "true implies Protocol==TRTP ∧ SubProtocol==HOTL", "Valid() can return true without both Protocol == \"TRTP\" and SubProtocol == \"HOTL\"")
	}
	if fn := R.mustFn("hotline.performHandshake"); fn != nil {
		R.analysed(fname(fn))
		cut := map[Edge]bool{}
		nValid := 0
		factEdges(fn, func(e Edge, f Fact) {
			if f.Kind == "truth" {
				if c, ok := f.V.(*ssa.Call); ok && calleeName(&c.Call) == "(*hotline.handshake).Valid" {
					nValid++
					if f.Holds {
						cut[e] = true
					}
				}
			}
		})
		reach := reachable(fn, cut)
		if nValid == 0 && describeHS != nil {
			// the test Valid consists of, written out (or reached through an error-returning twin of Valid): what can
			// be reached with either identifier wrong
			reach = map[*ssa.BasicBlock]bool{}
			for _, id := range hsIDs {
				r, n := reachWithoutID(fn, id)
				if n > 0 {
					nValid++
				} else {
					nValid = -100
				}
				for b := range r {
					reach[b] = true
				}
			}
		}
		nWrites := 0
		for _, ci := range callsIn(fn) {
			c := ci.Common()
			isWrite := (c.IsInvoke() && c.Method.Name() == "Write" && stripConv(c.Value) == ssa.Value(fn.Params[0])) ||
				((calleeName(c) == "io.Copy" || calleeName(c) == "encoding/binary.Write") && len(c.Args) > 0 && stripConv(c.Args[0]) == ssa.Value(fn.Params[0]))
			if !isWrite {
				continue
			}
			nWrites++
			R.check(nValid > 0 && !reach[ci.Block()], "handshake-valid", "hotline.performHandshake: write of the reply", P.ipos(ci), "only on the Valid()-true edge", "the handshake reply is written on a path where Valid() is not known to be true")
		}
		if nWrites == 0 {
			R.bad("handshake-valid", "hotline.performHandshake: write of the reply", P.pos(fn.Pos()), "no write of the handshake reply found (mechanism moved)")
		}
		// success return only after the write and Valid
		for _, ret := range returnsOf(fn) {
			if isNilConst(ret.Results[0]) {
				R.check(!reach[ret.Block()], "handshake-valid", "hotline.performHandshake: nil return", P.ipos(ret), "success only when Valid()", "performHandshake can return success without Valid() being true")
			}
		}
	}

	fn := R.mustFn("(*hotline.Server).handleNewConnection")
	if fn == nil {
		return
	}
	R.analysed(fname(fn))
	rwc := ssa.Value(nil)
	for _, p := range fn.Params {
		if strings.HasPrefix(typeName(p.Type()), "io.ReadWrite") {
			rwc = p
		}
	}
	// everything is behind performHandshake == nil
	{
		cut := map[Edge]bool{}
		n := 0
		factEdges(fn, func(e Edge, f Fact) {
			if f.Kind == "nil" {
				if c := callValue(f.V); c != nil && calleeName(&c.Call) == "hotline.performHandshake" {
					n++
					if f.Holds {
						cut[e] = true
					}
				}
			}
		})
		reach := reachable(fn, cut)
		var leaked []string
		for _, ci := range callsIn(fn) {
			if !reach[ci.Block()] {
				continue
			}
			name := calleeName(ci.Common())
			switch {
			case name == "hotline.performHandshake", name == "hotline.dontPanic", name == "fmt.Errorf", strings.HasPrefix(name, "(*log/slog.Logger)."):
			default:
				leaked = append(leaked, name+" at "+P.ipos(ci))
			}
		}
		R.check(n > 0 && len(leaked) == 0, "handshake-valid", fname(fn)+": handshake gate", P.pos(fn.Pos()), "nothing but the handshake runs before it succeeded", "calls reachable although performHandshake did not return nil: "+strings.Join(leaked, ", "))
	}

	// ---- login-gate
	var authCall *ssa.Call
	cut := map[Edge]bool{}
	isAuthenticate := func(c *ssa.Call) bool { return calleeName(&c.Call) == "(*hotline.ClientConn).Authenticate" }
	factEdges(fn, func(e Edge, f Fact) {
		for _, pf := range P.expandFact(f, isAuthenticate, 0) {
			if pf.kind == "truth" {
				authCall = pf.call
				if pf.call.Parent() != fn {
					authCall = nil // inside a helper: argument checks below need the call in the login sequence itself
					if c, ok := pf.site.(*ssa.Call); ok {
						_ = c
					}
				}
				if pf.holds {
					cut[e] = true
				}
			}
		}
	})
	if authCall == nil && len(cut) > 0 {
		// gate recognised through a helper; find the Authenticate call for the argument rules
		for f2 := range P.reachFuncs(fn) {
			for _, ci := range callsIn(f2) {
				if c, ok := ci.(*ssa.Call); ok && isAuthenticate(c) && f2 == fn {
					authCall = c
				}
			}
		}
	}
	// the gate spelled out in the login sequence itself: the comparison that Authenticate consists of (auth-shape)
	var inlCmp, inlGet *ssa.Call
	if authCall == nil && len(cut) == 0 {
		factEdgesImplied(fn, func(e Edge, f Fact) {
			if cmp, get, ok := P.inlineAuthFact(f); ok {
				inlCmp, inlGet = cmp, get
				if f.Holds {
					cut[e] = true
				}
			}
		})
		if inlCmp != nil {
			authCall = inlCmp
		}
	}
	if authCall == nil {
		R.bad("login-gate", fname(fn)+": Authenticate", P.pos(fn.Pos()), "the login sequence no longer branches on ClientConn.Authenticate: the login gate is gone or moved")
		return
	}
	reach := reachable(fn, cut)
	memo := map[*ssa.Function]map[string][]string{}
	nErrWrites := 0
	type finding struct{ construct, pos, why string }
	var findings []finding
	nSites := 0
	for _, b := range fn.Blocks {
		if !reach[b] {
			continue
		}
		for _, ins := range b.Instrs {
			switch x := ins.(type) {
			case *ssa.Send:
				if f, ok := loadedField(x.Chan); ok && f == "hotline.Server.outbox" {
					findings = append(findings, finding{"send on Server.outbox", P.ipos(x), "a transaction is queued for delivery before the login succeeded"})
				}
			case ssa.CallInstruction:
				nSites++
				c := x.Common()
				name := calleeName(c)
				if name == "(*hotline.ClientConn).handleTransaction" {
					findings = append(findings, finding{"call handleTransaction", P.ipos(x), "requests are dispatched before the login succeeded"})
					continue
				}
				var own ssa.Value
				eff := P.siteEffects(x, own, memo)
				if name == "hotline.sendBanMessage" || name == "(*hotline.ClientConn).NewErrReply" {
					eff = nil
				}
				var cls []string
				for cl := range eff {
					if cl == "acct.disclose" {
						continue
					}
					cls = append(cls, cl)
				}
				sort.Strings(cls)
				if len(cls) > 0 {
					kind := "call"
					if _, ok := x.(*ssa.Defer); ok {
						kind = "deferred call (runs when the failed login returns)"
					}
					via := ""
					for _, cl := range cls {
						if len(eff[cl]) > 0 {
							via = " via " + strings.Join(eff[cl], " → ")
							break
						}
					}
					findings = append(findings, finding{kind + " " + name, P.ipos(x), "reachable without a successful login and has effects [" + strings.Join(cls, ",") + "]" + via})
				}
				// a helper that is handed the connection and writes exactly one error reply to it
				if rwc != nil && name != "hotline.performHandshake" && name != "hotline.sendBanMessage" {
					for i, a := range c.Args {
						if stripConv(a) != rwc {
							continue
						}
						for _, cal := range P.callees(x) {
							errW, otherW := helperWrites(P, cal, i)
							nErrWrites += errW
							if otherW > 0 {
								findings = append(findings, finding{"write to the connection via " + fname(cal), P.ipos(x), "something other than the single error reply is written to an unauthenticated connection"})
							}
						}
					}
				}
				// writes to the connection
				if rwc != nil {
					isWrite := (c.IsInvoke() && c.Method.Name() == "Write" && stripConv(c.Value) == rwc) ||
						((name == "io.Copy" || name == "io.CopyN" || name == "encoding/binary.Write") && len(c.Args) > 0 && stripConv(c.Args[0]) == rwc)
					if isWrite {
						fromErr := false
						if len(c.Args) > 1 {
							F := &Flow{P: P, Call: func(cc *ssa.Call, idx int) ([]ssa.Value, bool) {
								if calleeName(&cc.Call) == "(*hotline.ClientConn).NewErrReply" {
									fromErr = true
								}
								return nil, true
							}}
							F.Back(c.Args[1])
						}
						if fromErr {
							nErrWrites++
						} else {
							findings = append(findings, finding{"write to the connection", P.ipos(x), "something other than the single error reply is written to an unauthenticated connection"})
						}
					}
				}
			}
		}
	}
	R.countSites(nSites)
	if len(findings) == 0 {
		R.ok("login-gate", fname(fn)+": pre-authentication region", P.pos(fn.Pos()), fmt.Sprintf("%d call sites reachable without authentication, none with effects; %d error-reply write", nSites, nErrWrites))
	}
	for _, f := range findings {
		R.bad("login-gate", fname(fn)+": "+f.construct, f.pos, f.why)
	}
	R.check(nErrWrites == 1, "login-gate", fname(fn)+": error reply on failure", P.pos(fn.Pos()), "exactly one write of a NewErrReply on the failure path", fmt.Sprintf("%d writes of an error reply on the failed-login path (expected exactly one)", nErrWrites))
	// deny path returns
	for _, ci := range callsIn(fn) {
		if calleeName(ci.Common()) == "(*hotline.ClientConn).handleTransaction" || calleeName(ci.Common()) == "(hotline.ClientManager).Add" {
			R.check(!reach[ci.Block()], "login-gate", fname(fn)+": "+calleeName(ci.Common()), P.ipos(ci), "only after Authenticate returned true", "reachable without Authenticate being true")
		}
	}
	R.floor("login-gate", 4)

	R.ruleAuthShape()
	R.ruleManagerStoresGiven()
	// login-once: one login attempt per connection
	R.rule("login-once", "the Authenticate call of the login sequence is not inside a loop: a connection whose first transaction carried wrong credentials gets its error reply and is closed, it cannot try again (or pipeline further transactions) on the same connection")
	if fn := R.mustFn("(*hotline.Server).handleNewConnection"); fn != nil {
		nAuth := 0
		for _, ci := range callsIn(fn) {
			if calleeName(ci.Common()) == "(*hotline.ClientConn).Authenticate" {
				nAuth++
				R.check(!inLoop(ci.Block()), "login-once", fmt.Sprintf("%s: Authenticate #%d", fname(fn), nAuth), P.ipos(ci), "outside any loop", "the credentials check sits in a loop: after a refused login the same connection is read again and a later transaction can log it in")
			}
		}
		if nAuth == 0 && inlCmp != nil && inlCmp.Parent() == fn {
			nAuth++
			R.check(!inLoop(inlCmp.Block()), "login-once", fmt.Sprintf("%s: Authenticate #%d", fname(fn), nAuth), P.ipos(inlCmp), "outside any loop", "the credentials check sits in a loop: after a refused login the same connection is read again and a later transaction can log it in")
		}
		if nAuth == 0 {
			R.und("login-once", fname(fn), P.pos(fn.Pos()), "no Authenticate call found in the login sequence")
		}
	}

	// ---- login-args
	{
		var loginArg, pwArg ssa.Value
		if inlCmp != nil {
			loginArg, pwArg = inlGet.Call.Args[0], inlCmp.Call.Args[1]
		} else {
			loginArg, pwArg = authCall.Call.Args[1], authCall.Call.Args[2]
		}
		okPw := P.requestFieldOf(resolveLocal(pwArg)) == "FieldUserPassword"
		R.check(okPw, "login-args", fname(fn)+": password argument", P.ipos(authCall), "password field of the login transaction", "the password checked is not the login transaction's password field")
		var leaves []string
		okLogin := true
		guestOr := false
		_ = guestOr
		F := &Flow{P: P, Call: func(c *ssa.Call, idx int) ([]ssa.Value, bool) {
			n := calleeName(&c.Call)
			if n == "(*hotline.Field).DecodeObfuscatedString" {
				g := callValue(c.Call.Args[0])
				if g != nil && calleeName(&g.Call) == "(*hotline.Transaction).GetField" {
					if gn, ok := globalName(g.Call.Args[1]); ok && gn == "hotline.FieldUserLogin" {
						leaves = append(leaves, "login-field")
						return nil, true
					}
				}
			}
			if strings.HasPrefix(n, "cmp.Or") && len(c.Call.Args) == 1 {
				// cmp.Or(login, GuestAccount): the first operand unless it is the empty string
				if first := varargElem(c.Call.Args[0], 0); first != nil {
					if _, isConst := first.(*ssa.Const); !isConst {
						guestOr = true
						return []ssa.Value{c.Call.Args[0]}, true
					}
				}
			}
			okLogin = false
			leaves = append(leaves, "call "+n)
			return nil, true
		}, Visit: func(x ssa.Value) bool {
			switch y := x.(type) {
			case *ssa.Const:
				if s, ok := constString(y); ok {
					leaves = append(leaves, "const "+s)
					if s != "guest" {
						okLogin = false
					}
					// the constant edge must be under login == ""
					return false
				}
			case *ssa.Parameter, *ssa.FieldAddr, *ssa.Global:
				okLogin = false
				leaves = append(leaves, "other "+x.String())
			}
			return true
		}}
		F.Back(loginArg)
		// guest fallback only for the empty login
		if phi, ok := loginArg.(*ssa.Phi); ok {
			for i, e := range phi.Edges {
				if s, ok := constString(e); ok && s == "guest" {
					pred := phi.Block().Preds[i]
					under := false
					factEdges(fn, func(ed Edge, f Fact) {
						if f.Kind == "eq" && f.Holds {
							if s2, ok := constString(f.C); ok && s2 == "" && (ed.To == pred && len(pred.Preds) == 1 || edgeDominates(fn, ed, pred)) {
								under = true
							}
						}
					})
					if !under {
						okLogin = false
						leaves = append(leaves, "guest fallback not under login == \"\"")
					}
				}
			}
		}
		sort.Strings(leaves)
		R.check(okLogin && len(leaves) > 0, "login-args", fname(fn)+": login argument", P.ipos(authCall), "login field, or guest for the empty login", "the login that is authenticated does not come (only) from the login field / the guest default for an empty login: "+strings.Join(leaves, ", "))
		// account binding
		nAcc := 0
		for _, f2 := range P.Funcs {
			if f2.Pkg != nil && f2.Pkg.Pkg.Path() == cmdPath {
				continue
			}
			eachInstr(f2, func(ins ssa.Instruction) {
				st, ok := ins.(*ssa.Store)
				if !ok {
					return
				}
				fa, ok := st.Addr.(*ssa.FieldAddr)
				if !ok {
					return
				}
				if f, _ := fieldOf(fa); f != "hotline.ClientConn.Account" {
					return
				}
				nAcc++
				good := f2 == fn
				if good {
					g := callValue(st.Val)
					good = g != nil && calleeName(&g.Call) == "(hotline.AccountManager).Get" && (g.Call.Args[0] == loginArg || resolveLocal(g.Call.Args[0]) == resolveLocal(loginArg) || sameLocalValue(g.Call.Args[0], loginArg)) && !reach[st.Block()]
				}
				R.check(good, "login-args", fname(f2)+": store ClientConn.Account", P.ipos(st), "account = Get(authenticated login), after authentication", "a connection's account is assigned outside the login sequence, before authentication, or from another login than the authenticated one")
			})
		}
		if nAcc == 0 {
			R.bad("login-args", "store ClientConn.Account", "-", "no assignment of ClientConn.Account found (mechanism moved)")
		}
	}

	R.ruleBanDoorKey()

	// ---- dispatch-only
	{
		for _, f2 := range P.Funcs {
			eachInstr(f2, func(ins ssa.Instruction) {
				fa, ok := ins.(*ssa.FieldAddr)
				if !ok {
					return
				}
				if f, _ := fieldOf(fa); f != "hotline.Server.handlers" {
					return
				}
				n := fname(f2)
				R.check(n == "(*hotline.ClientConn).handleTransaction" || n == "(*hotline.Server).HandleFunc" || n == "hotline.NewServer",
					"dispatch-only", n+": access to Server.handlers", P.ipos(fa), "allowed accessor", "the handler table is accessed outside handleTransaction/HandleFunc/NewServer")
			})
		}
		if ht := R.mustFn("(*hotline.ClientConn).handleTransaction"); ht != nil {
			for _, ci := range P.callers[ht] {
				R.check(ci.Parent() == fn, "dispatch-only", fname(ci.Parent())+": call handleTransaction", P.ipos(ci), "called from the login sequence's loop", "handleTransaction is called from outside the post-login loop")
			}
			if len(P.callers[ht]) == 0 {
				R.bad("dispatch-only", "handleTransaction callers", "-", "handleTransaction has no caller")
			}
		}
		R.floor("dispatch-only", 3)
	}
}

// ruleBanDoorKey (C04, shared with C17): the address looked up in the ban list at the door is computed the way the
// ban writer computes it (strings.Split(remote address, ":")[0]); otherwise a banned peer walks through the gate.
func (R *Run) ruleBanDoorKey() {
	P := R.P
	R.rule("ban-key-agree", "(shared with C17) the key handleNewConnection looks up in the ban list is strings.Split(remoteAddr, \":\")[0] — the form under which the disconnect handler stores bans")
	fn := R.mustFn("(*hotline.Server).handleNewConnection")
	if fn == nil {
		return
	}
	n := 0
	for _, ci := range callsIn(fn) {
		c := ci.Common()
		if !(c.IsInvoke() && c.Method.Name() == "IsBanned") || len(c.Args) == 0 {
			continue
		}
		n++
		key := P.sym(c.Args[0])
		norm := key
		for _, p := range fn.Params {
			norm = strings.ReplaceAll(norm, "param:"+p.Name(), "ADDR")
		}
		norm = hostPartNorm(norm)
		R.check(norm == `strings.Split(ADDR,":")[0]`, "ban-key-agree", fname(fn)+": IsBanned key", P.ipos(ci), "key = Split(remote address, \":\")[0]", "the looked-up ban key is "+key+", not strings.Split(remoteAddr, \":\")[0]: an address banned by the disconnect handler is not found at the door and is served")
	}
	if n == 0 {
		R.bad("ban-key-agree", fname(fn)+": IsBanned", P.pos(fn.Pos()), "the ban list is not consulted in the login sequence")
	}
}

func init() { register("C04", checkC04) }

// helperWrites counts, in a small helper, the writes to its parameter #idx: error replies vs anything else.
func helperWrites(P *Prog, fn *ssa.Function, idx int) (errReplies, others int) {
	if fn == nil || idx >= len(fn.Params) {
		return 0, 0
	}
	w := ssa.Value(fn.Params[idx])
	for _, ci := range callsIn(fn) {
		c := ci.Common()
		n := calleeName(c)
		isWrite := (c.IsInvoke() && c.Method.Name() == "Write" && stripConv(c.Value) == w) ||
			((n == "io.Copy" || n == "io.CopyN" || n == "encoding/binary.Write") && len(c.Args) > 0 && stripConv(c.Args[0]) == w)
		if !isWrite {
			continue
		}
		fromErr := false
		if len(c.Args) > 1 {
			F := &Flow{P: P, Call: func(cc *ssa.Call, i int) ([]ssa.Value, bool) {
				if calleeName(&cc.Call) == "(*hotline.ClientConn).NewErrReply" {
					fromErr = true
				}
				return nil, true
			}}
			F.Back(c.Args[1])
		}
		if fromErr {
			errReplies++
		} else {
			others++
		}
	}
	return
}

// ruleAuthShape (C04, shared with C15: "the password that logs in is the stored one").
func (R *Run) ruleAuthShape() {
	P := R.P
	_ = P
	if af := R.mustFn("(*hotline.ClientConn).Authenticate"); af != nil {
		R.analysed(fname(af))
		describe := func(f Fact) string {
			if f.Kind != "nil" || !f.Holds {
				return ""
			}
			c := callValue(f.V)
			if c == nil || calleeName(&c.Call) != "golang.org/x/crypto/bcrypt.CompareHashAndPassword" || len(c.Call.Args) != 2 {
				return ""
			}
			// arg1 = password parameter, arg0 = []byte(Get(login).Password)
			if stripConv(resolveLocal(stripConv(c.Call.Args[1]))) != ssa.Value(af.Params[2]) {
				return "compare-with-other-password"
			}
			fld, ok := loadedField(stripConv(c.Call.Args[0]))
			if !ok || fld != "hotline.Account.Password" {
				return "compare-with-other-hash"
			}
			u := stripConv(c.Call.Args[0]).(*ssa.UnOp)
			acc := u.X.(*ssa.FieldAddr).X
			get := callValue(acc)
			if get == nil || calleeName(&get.Call) != "(hotline.AccountManager).Get" || len(get.Call.Args) != 1 || stripConv(resolveLocal(get.Call.Args[0])) != ssa.Value(af.Params[1]) {
				return "hash-of-other-account"
			}
			return "bcrypt-ok"
		}
		okAll := len(returnsOf(af)) > 0
		why := ""
		for _, ret := range returnsOf(af) {
			v := ret.Results[0]
			if c, ok := v.(*ssa.Const); ok && c.Value != nil && c.Value.String() == "false" {
				continue
			}
			m := mustHoldWhenTrue(af, v, describe, 0)
			for d := range domFacts(af, ret.Block(), describe) {
				m[d] = true
			}
			if !m["bcrypt-ok"] {
				okAll = false
				var ks []string
				for k := range m {
					ks = append(ks, k)
				}
				why = fmt.Sprintf("return at %s can yield true without the bcrypt comparison of the looked-up account's hash with the supplied password %v", P.ipos(ret), ks)
			}
		}
		R.check(okAll, "auth-shape", fname(af), P.pos(af.Pos()), "true only through bcrypt.CompareHashAndPassword(Get(login).Password, password) == nil", why)
	}

}

// varargElem: element k of the slice a variadic call was given (`new [n]T (varargs)` filled by constant-index stores).
func varargElem(sl ssa.Value, k int64) ssa.Value {
	s, ok := sl.(*ssa.Slice)
	if !ok {
		return nil
	}
	a, ok := s.X.(*ssa.Alloc)
	if !ok {
		return nil
	}
	for _, r := range *a.Referrers() {
		ia, ok := r.(*ssa.IndexAddr)
		if !ok {
			continue
		}
		if idx, ok := constInt(ia.Index); !ok || idx != k {
			continue
		}
		for _, rr := range *ia.Referrers() {
			if st, ok := rr.(*ssa.Store); ok {
				return st.Val
			}
		}
	}
	return nil
}

// sameLocalValue: a and b read the same value — the same local variable, or the same field of the same local struct
// (also via a variable that is a plain copy of that field), every write to which comes before both reads.
func sameLocalValue(a, b ssa.Value) bool {
	cellOfRead := func(v ssa.Value) (*ssa.Alloc, int, *ssa.UnOp) {
		for d := 0; d < 4; d++ {
			ld, ok := v.(*ssa.UnOp)
			if !ok || ld.Op != token.MUL {
				return nil, 0, nil
			}
			switch x := ld.X.(type) {
			case *ssa.FieldAddr:
				if al, ok := x.X.(*ssa.Alloc); ok {
					return al, x.Field, ld
				}
				return nil, 0, nil
			case *ssa.Alloc:
				// a scalar local that holds one copy of something
				if src := soleStore(x); src != nil {
					v = src
					continue
				}
				return x, -1, ld
			default:
				return nil, 0, nil
			}
		}
		return nil, 0, nil
	}
	a1, f1, l1 := cellOfRead(a)
	a2, f2, l2 := cellOfRead(b)
	// a struct variable that is a copy of another one (a by-value parameter of an expanded helper) and whose field is
	// not written afterwards: reading its field is reading the original's field where the copy was made
	viaCopy := func(al *ssa.Alloc, f int, ld *ssa.UnOp) (*ssa.Alloc, *ssa.UnOp) {
		for d := 0; d < 4 && al != nil && f >= 0; d++ {
			var whole *ssa.UnOp
			n, ok := 0, true
			for _, r := range *al.Referrers() {
				switch x := r.(type) {
				case *ssa.Store:
					if x.Addr != ssa.Value(al) {
						ok = false
						break
					}
					n++
					if u, isU := x.Val.(*ssa.UnOp); isU && u.Op == token.MUL {
						if _, isA := u.X.(*ssa.Alloc); isA {
							whole = u
						}
					}
				case *ssa.FieldAddr:
					if x.Field != f {
						continue
					}
					for _, rr := range *x.Referrers() {
						switch rr.(type) {
						case *ssa.UnOp, *ssa.DebugRef:
						default:
							ok = false
						}
					}
				case *ssa.UnOp, *ssa.DebugRef:
				default:
					ok = false
				}
			}
			if !ok || n != 1 || whole == nil {
				break
			}
			al, ld = whole.X.(*ssa.Alloc), whole
		}
		return al, ld
	}
	if a1 != nil && a2 != nil && a1 != a2 && f1 == f2 {
		a1, l1 = viaCopy(a1, f1, l1)
		a2, l2 = viaCopy(a2, f2, l2)
	}
	if a1 == nil || a1 != a2 || f1 != f2 {
		return false
	}
	// no write to the variable (whole, or to that field) can happen between the two reads: either it dominates both,
	// or it cannot follow the first read and precede the second
	if instrDominates(l2, l1) {
		l1, l2 = l2, l1
	}
	if l1 != l2 && !instrDominates(l1, l2) {
		return false
	}
	mayFollow := func(x, y ssa.Instruction) bool { // y can be executed after x
		if x.Block() == y.Block() && instrIndex(x) < instrIndex(y) {
			return true
		}
		for _, sc := range x.Block().Succs {
			if reachableFrom(sc, nil)[y.Block()] {
				return true
			}
		}
		return false
	}
	instrDominates := func(st, rd ssa.Instruction) bool {
		if instrDominates(st, rd) {
			return true
		}
		return !(mayFollow(l1, st) && mayFollow(st, l2))
	}
	ok := true
	for _, r := range *a1.Referrers() {
		switch x := r.(type) {
		case *ssa.Store:
			if x.Addr == ssa.Value(a1) && (!instrDominates(x, l1) || !instrDominates(x, l2)) {
				ok = false
			}
		case *ssa.FieldAddr:
			if f1 >= 0 && x.Field != f1 {
				continue
			}
			for _, rr := range *x.Referrers() {
				switch y := rr.(type) {
				case *ssa.Store:
					if y.Addr == ssa.Value(x) && (!instrDominates(y, l1) || !instrDominates(y, l2)) {
						ok = false
					}
				case *ssa.UnOp, *ssa.DebugRef:
				default:
					ok = false
				}
			}
		case *ssa.UnOp, *ssa.DebugRef:
		default:
			ok = false
		}
	}
	return ok
}

// inlineAuthFact: the fact is `bcrypt.CompareHashAndPassword(hash, pw) == nil` with hash the Password of the account
// that AccountManager.Get returned — what Authenticate consists of (auth-shape), written out where it is used.
func (P *Prog) inlineAuthFact(f Fact) (cmp, get *ssa.Call, ok bool) {
	if f.Kind != "nil" {
		return nil, nil, false
	}
	c, isCall := stripConv(f.V).(*ssa.Call)
	if !isCall || calleeName(&c.Call) != "golang.org/x/crypto/bcrypt.CompareHashAndPassword" || len(c.Call.Args) != 2 {
		return nil, nil, false
	}
	P.reaches(c.Call.Args[0], func(x ssa.Value) bool {
		fa, isFA := x.(*ssa.FieldAddr)
		if !isFA {
			return false
		}
		if fl, _ := fieldOf(fa); fl != "hotline.Account.Password" {
			return false
		}
		if g := callValue(stripConv(resolveLocal(stripConv(fa.X)))); g != nil && calleeName(&g.Call) == "(hotline.AccountManager).Get" {
			get = g
		}
		return true
	})
	if get == nil {
		return nil, nil, false
	}
	return c, get, true
}
