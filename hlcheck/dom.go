package main

// dom.go — E-dom: branch facts, edge-cut reachability, instruction dominance, must-pass-through.

import (
	"fmt"
	"go/constant"
	"go/token"
	"go/types"
	"sort"
	"strings"

	"golang.org/x/tools/go/ssa"
)

// Fact is what is known on a CFG edge leaving an If: V is true / V is nil / V == C.
type Fact struct {
	V     ssa.Value
	Kind  string // "truth" | "nil" | "eq"
	C     *ssa.Const
	Holds bool
}

// ifFacts decomposes the condition of an If into the fact holding on the true edge (Succs[0]);
// the false edge (Succs[1]) carries the same fact with Holds flipped.
func ifFacts(i *ssa.If) Fact {
	v := i.Cond
	holds := true
	for {
		switch x := v.(type) {
		case *ssa.UnOp:
			if x.Op == token.NOT {
				v = x.X
				holds = !holds
				continue
			}
		case *ssa.BinOp:
			if x.Op == token.EQL || x.Op == token.NEQ {
				eq := x.Op == token.EQL
				l, r := x.X, x.Y
				if _, ok := l.(*ssa.Const); ok {
					l, r = r, l
				}
				if c, ok := r.(*ssa.Const); ok {
					if c.Value == nil && !isBasic(c.Type()) {
						// (a named result that a deferred function also reads lives in memory: `if err = f(); err != nil`
						// stores and reloads it — the test is about what was just stored)
						return Fact{V: blockLocalValue(l), Kind: "nil", Holds: holds == eq}
					}
					if b, ok := c.Type().Underlying().(*types.Basic); ok && b.Info()&types.IsBoolean != 0 && c.Value != nil {
						bv := c.Value.String() == "true"
						v = l
						if eq != bv {
							holds = !holds
						}
						continue
					}
					return Fact{V: l, Kind: "eq", C: c, Holds: holds == eq}
				}
			}
		}
		break
	}
	return Fact{V: v, Kind: "truth", Holds: holds}
}

func isBasic(t types.Type) bool {
	_, ok := t.Underlying().(*types.Basic)
	return ok
}

type Edge struct{ From, To *ssa.BasicBlock }

// factEdges enumerates, for every If in fn, both out-edges with the fact that holds on them.
func factEdges(fn *ssa.Function, f func(e Edge, fact Fact)) {
	for _, b := range fn.Blocks {
		if len(b.Instrs) == 0 {
			continue
		}
		i, ok := b.Instrs[len(b.Instrs)-1].(*ssa.If)
		if !ok {
			continue
		}
		ft := ifFacts(i)
		f(Edge{b, b.Succs[0]}, ft)
		nf := ft
		nf.Holds = !ft.Holds
		f(Edge{b, b.Succs[1]}, nf)
	}
}

// ---------------------------------------------------------------------------------------------
// The traversal engine shared by every reachability / must-pass query.  It walks (block, state) pairs, the state
// being what is known about the nil-ness / truth of phi values along the edges taken so far (a phi whose incoming
// operand on the edge is nil, a constant bool, or a freshly built non-nil value), plus what a branch on `x == nil`
// establishes about a value that feeds some phi.  A branch whose condition is decided by the state is followed on
// the feasible side only.  This is jump threading, not execution: it removes exactly the paths of the form
// "r = <error>; break; … if r != nil" → false edge, which appear when a function with several returns is expanded
// in place (normalise.go) or when code collects its outcome in a variable and tests it once.

type psItem struct {
	blk *ssa.BasicBlock
	st  nilState
}

// phiFeeders: the values that occur as phi operands in fn (only for these is branch knowledge worth recording).
var phiFeederMemo = map[*ssa.Function]map[ssa.Value]bool{}

func phiFeeders(fn *ssa.Function) map[ssa.Value]bool {
	if m, ok := phiFeederMemo[fn]; ok {
		return m
	}
	m := map[ssa.Value]bool{}
	for _, b := range fn.Blocks {
		for _, ins := range b.Instrs {
			phi, ok := ins.(*ssa.Phi)
			if !ok {
				break
			}
			m[phi] = true
			for _, e := range phi.Edges {
				for {
					m[e] = true
					switch x := e.(type) {
					case *ssa.ChangeInterface:
						e = x.X
						continue
					case *ssa.MakeInterface:
						e = x.X
						continue
					}
					break
				}
			}
		}
	}
	phiFeederMemo[fn] = m
	return m
}

// enterBlock evaluates the phis of succ for the edge pred→succ.
func enterBlock(pred, succ *ssa.BasicBlock, st nilState) nilState {
	ns := nilState{}
	for k, v := range st {
		ns[k] = v
	}
	idx := -1
	for i, p := range succ.Preds {
		if p == pred {
			idx = i
			break
		}
	}
	for _, ins := range succ.Instrs {
		phi, ok := ins.(*ssa.Phi)
		if !ok {
			break
		}
		delete(ns, phi)
		if idx >= 0 && idx < len(phi.Edges) {
			if n := st.of(phi.Edges[idx]); n != 0 {
				ns[phi] = int32(n)
			} else if n := st.of(blockLocalValue(phi.Edges[idx])); n != 0 {
				// (a variable reloaded right after it was stored: what was stored)
				ns[phi] = int32(n)
			} else if k, ok := st.intOf(phi.Edges[idx]); ok {
				ns[phi] = intBase + int32(k+intBias)
			}
		}
	}
	enterCells(succ, idx, st, ns)
	return ns
}

// feasibleSuccs lists the successors of blk that the state allows, with the state refined by the branch taken.
// refineAll: record branch knowledge about every tested value (otherwise only about values that feed a phi).
func feasibleSuccs(blk *ssa.BasicBlock, st nilState, refineAll bool) []psItem {
	st = transferCells(blk, st)
	all := func() []psItem {
		out := make([]psItem, 0, len(blk.Succs))
		for _, s := range blk.Succs {
			out = append(out, psItem{s, st})
		}
		return out
	}
	if len(blk.Instrs) == 0 {
		return nil
	}
	iff, ok := blk.Instrs[len(blk.Instrs)-1].(*ssa.If)
	if !ok || len(blk.Succs) != 2 {
		return all()
	}
	cond := iff.Cond
	neg := false
	for {
		if u, ok := cond.(*ssa.UnOp); ok && u.Op == token.NOT {
			cond, neg = u.X, !neg
			continue
		}
		break
	}
	pick := func(t bool) []psItem {
		if t != neg {
			return []psItem{{blk.Succs[0], st}}
		}
		return []psItem{{blk.Succs[1], st}}
	}
	// the condition itself is a known boolean (constant, or a phi of constants)
	if n := st.of(cond); n != 0 {
		if _, isBool := cond.Type().Underlying().(*types.Basic); isBool {
			return pick(n == 2)
		}
	}
	with := func(x ssa.Value, n int8) nilState {
		ns := nilState{}
		for k, v := range st {
			ns[k] = v
		}
		ns[x] = int32(n)
		return ns
	}
	worth := func(x ssa.Value) bool {
		return refineAll || phiFeeders(blk.Parent())[x]
	}
	if b, ok := cond.(*ssa.BinOp); ok && (b.Op == token.EQL || b.Op == token.NEQ) {
		var x ssa.Value
		if isZeroLike(b.Y) {
			x = b.X
		} else if isZeroLike(b.X) {
			x = b.Y
		}
		if x != nil {
			// (a variable reloaded right after it was stored — a named result that a deferred function shares —
			// is what was stored)
			x = blockLocalValue(x)
			isNilOnTrue := (b.Op == token.EQL) != neg
			switch st.of(x) {
			case 1:
				if isNilOnTrue {
					return []psItem{{blk.Succs[0], st}}
				}
				return []psItem{{blk.Succs[1], st}}
			case 2:
				if isNilOnTrue {
					return []psItem{{blk.Succs[1], st}}
				}
				return []psItem{{blk.Succs[0], st}}
			}
			if !worth(x) {
				return all()
			}
			if isNilOnTrue {
				return []psItem{{blk.Succs[0], with(x, 1)}, {blk.Succs[1], with(x, 2)}}
			}
			return []psItem{{blk.Succs[0], with(x, 2)}, {blk.Succs[1], with(x, 1)}}
		}
	}
	// an ordering test between integers the state knows (loop counters over literals of fixed length)
	if b, ok := cond.(*ssa.BinOp); ok {
		x, okx := st.intOf(b.X)
		y, oky := st.intOf(b.Y)
		if okx && oky {
			switch b.Op {
			case token.LSS:
				return pick(x < y)
			case token.LEQ:
				return pick(x <= y)
			case token.GTR:
				return pick(x > y)
			case token.GEQ:
				return pick(x >= y)
			case token.EQL:
				return pick(x == y)
			case token.NEQ:
				return pick(x != y)
			}
		}
	}
	// a bool value that feeds a phi (flag variables): record what the branch says about it
	if _, isBool := cond.Type().Underlying().(*types.Basic); isBool && worth(cond) {
		if _, isConst := cond.(*ssa.Const); !isConst {
			t, f := int8(2), int8(1)
			if neg {
				t, f = f, t
			}
			return []psItem{{blk.Succs[0], with(cond, t)}, {blk.Succs[1], with(cond, f)}}
		}
	}
	return all()
}

// explore walks the (block, state) pairs reachable from the given items without using cut edges.  visit is called
// once per pair before its successors are considered and returns false to stop below that pair.
func explore(start []psItem, cut map[Edge]bool, refineAll bool, visit func(b *ssa.BasicBlock, st nilState) bool) {
	exploreCond(start, cut, nil, refineAll, visit)
}

// exploreCond: as explore, with cuts that depend on the state in which the edge is taken (an edge guarded by a test
// whose operand is a phi of constants is cut only on the paths that selected a particular constant).
func exploreCond(start []psItem, cut map[Edge]bool, condCut func(e Edge, st nilState) bool, refineAll bool, visit func(b *ssa.BasicBlock, st nilState) bool) {
	seen := map[string]bool{}
	work := append([]psItem(nil), start...)
	plain := false
	for len(work) > 0 {
		it := work[len(work)-1]
		work = work[:len(work)-1]
		var k string
		if plain {
			k = fmt.Sprint(it.blk.Index)
			it.st = nilState{}
		} else {
			k = fmt.Sprintf("%d|%s", it.blk.Index, it.st.key())
		}
		if seen[k] {
			continue
		}
		seen[k] = true
		if len(seen) > 20000 && !plain {
			plain = true // give up path sensitivity: plain CFG traversal from here on (over-approximation)
		}
		if !visit(it.blk, it.st) {
			continue
		}
		var next []psItem
		if plain {
			for _, s := range it.blk.Succs {
				next = append(next, psItem{s, nilState{}})
			}
		} else {
			next = feasibleSuccs(it.blk, it.st, refineAll)
		}
		for _, n := range next {
			if cut[Edge{it.blk, n.blk}] {
				continue
			}
			if condCut != nil && !plain && condCut(Edge{it.blk, n.blk}, n.st) {
				continue
			}
			st := n.st
			if !plain {
				st = enterBlock(it.blk, n.blk, n.st)
			}
			work = append(work, psItem{n.blk, st})
		}
	}
}

// reachable computes the blocks reachable from the entry when the cut edges are removed.
func reachable(fn *ssa.Function, cut map[Edge]bool) map[*ssa.BasicBlock]bool {
	if len(fn.Blocks) == 0 {
		return map[*ssa.BasicBlock]bool{}
	}
	return reachableFrom(fn.Blocks[0], cut)
}

// reachableCond: reachable with state-dependent cuts.
func reachableCond(fn *ssa.Function, cut map[Edge]bool, condCut func(e Edge, st nilState) bool) map[*ssa.BasicBlock]bool {
	return reachableCondSeed(fn, cut, condCut, nil)
}

// reachableCondSeed: the traversal starts out knowing the truth of the values in seed (the results of calls whose
// outcome the scenario under examination fixes), so that a test of such a value that has travelled through a phi or
// a negation is followed on the feasible side only.
func reachableCondSeed(fn *ssa.Function, cut map[Edge]bool, condCut func(e Edge, st nilState) bool, seed nilState) map[*ssa.BasicBlock]bool {
	seen := map[*ssa.BasicBlock]bool{}
	if len(fn.Blocks) == 0 {
		return seen
	}
	st := nilState{}
	for k, v := range seed {
		st[k] = v
	}
	exploreCond([]psItem{{fn.Blocks[0], st}}, cut, condCut, false, func(b *ssa.BasicBlock, _ nilState) bool {
		seen[b] = true
		return true
	})
	return seen
}

// reachableFrom computes blocks reachable from start (inclusive) with edges cut.
func reachableFrom(start *ssa.BasicBlock, cut map[Edge]bool) map[*ssa.BasicBlock]bool {
	seen := map[*ssa.BasicBlock]bool{}
	explore([]psItem{{start, nilState{}}}, cut, false, func(b *ssa.BasicBlock, _ nilState) bool {
		seen[b] = true
		return true
	})
	return seen
}

// pathTo returns one CFG path (as block list) from entry to target avoiding cut edges, or nil.
func pathTo(fn *ssa.Function, target *ssa.BasicBlock, cut map[Edge]bool) []*ssa.BasicBlock {
	if len(fn.Blocks) == 0 {
		return nil
	}
	type node struct {
		it   psItem
		prev *node
	}
	entry := fn.Blocks[0]
	seen := map[string]bool{}
	work := []*node{{psItem{entry, nilState{}}, nil}}
	for len(work) > 0 {
		n := work[0]
		work = work[1:]
		k := fmt.Sprintf("%d|%s", n.it.blk.Index, n.it.st.key())
		if seen[k] || len(seen) > 20000 {
			continue
		}
		seen[k] = true
		if n.it.blk == target {
			var p []*ssa.BasicBlock
			for x := n; x != nil; x = x.prev {
				p = append([]*ssa.BasicBlock{x.it.blk}, p...)
			}
			return p
		}
		for _, s := range feasibleSuccs(n.it.blk, n.it.st, false) {
			if cut[Edge{n.it.blk, s.blk}] {
				continue
			}
			work = append(work, &node{psItem{s.blk, enterBlock(n.it.blk, s.blk, s.st)}, n})
		}
	}
	return nil
}

func (P *Prog) describePath(p []*ssa.BasicBlock) []string {
	var out []string
	for _, b := range p {
		// first instruction with a position
		where := ""
		for _, ins := range b.Instrs {
			if ins.Pos().IsValid() {
				where = P.pos(ins.Pos())
				break
			}
		}
		if where == "" {
			continue
		}
		if len(out) > 0 && out[len(out)-1] == where {
			continue
		}
		out = append(out, where)
	}
	if len(out) > 14 {
		out = append(append([]string{}, out[:6]...), append([]string{"..."}, out[len(out)-7:]...)...)
	}
	return out
}

func instrIndex(ins ssa.Instruction) int {
	for i, x := range ins.Block().Instrs {
		if x == ins {
			return i
		}
	}
	return -1
}

// instrDominates: a is executed before b on every path reaching b (same function).
func instrDominates(a, b ssa.Instruction) bool {
	if a.Block() == b.Block() {
		return instrIndex(a) < instrIndex(b)
	}
	if a.Block().Dominates(b.Block()) {
		return true
	}
	// not a dominator of the plain CFG, but every feasible path may still pass it: the paths around it are of the
	// form "error recorded; break; … if err != nil { return }", whose false edge the traversal engine prunes
	if a.Parent() != b.Parent() || a.Parent() == nil {
		return false
	}
	return mustPassBefore(a.Parent(), b, func(x ssa.Instruction) bool { return x == a })
}

// reachesViaEdge: target can be reached on a feasible path that enters blk from pred.
func reachesViaEdge(pred, blk, target *ssa.BasicBlock) bool {
	hit := false
	explore([]psItem{{blk, enterBlock(pred, blk, nilState{})}}, nil, false, func(b *ssa.BasicBlock, _ nilState) bool {
		if b == target {
			hit = true
		}
		return !hit
	})
	return hit
}

// edgeDominates: every path from entry to block t uses edge e.
func edgeDominates(fn *ssa.Function, e Edge, t *ssa.BasicBlock) bool {
	r := reachable(fn, map[Edge]bool{e: true})
	return !r[t]
}

// mustPassAfter: every path from just after `from` to a normal Return executes an instruction matching through.
// Returns a witness return position when it fails.
func mustPassAfter(from ssa.Instruction, through func(ssa.Instruction) bool) (bool, ssa.Instruction) {
	fb := from.Block()
	for i := instrIndex(from) + 1; i < len(fb.Instrs); i++ {
		ins := fb.Instrs[i]
		if through(ins) {
			return true, nil
		}
		if r, ok := ins.(*ssa.Return); ok {
			return false, r
		}
	}
	var start []psItem
	for _, s := range feasibleSuccs(fb, nilState{}, false) {
		start = append(start, psItem{s.blk, enterBlock(fb, s.blk, s.st)})
	}
	return mustPassItems(start, through)
}

func mustPassItems(start []psItem, through func(ssa.Instruction) bool) (bool, ssa.Instruction) {
	var witness ssa.Instruction
	explore(start, nil, false, func(b *ssa.BasicBlock, _ nilState) bool {
		if witness != nil {
			return false
		}
		for _, ins := range b.Instrs {
			if through(ins) {
				return false
			}
			if r, ok := ins.(*ssa.Return); ok {
				witness = r
				return false
			}
		}
		return true
	})
	return witness == nil, witness
}

// mustPassBefore: every path from entry to `to` executes an instruction matching through before reaching `to`.
func mustPassBefore(fn *ssa.Function, to ssa.Instruction, through func(ssa.Instruction) bool) bool {
	if len(fn.Blocks) == 0 {
		return true
	}
	ok := true
	explore([]psItem{{fn.Blocks[0], nilState{}}}, nil, false, func(b *ssa.BasicBlock, _ nilState) bool {
		if !ok {
			return false
		}
		for _, ins := range b.Instrs {
			if ins == to {
				ok = false
				return false
			}
			if through(ins) {
				return false
			}
		}
		return true
	})
	return ok
}

// returnsOf lists the Return instructions of fn.
func returnsOf(fn *ssa.Function) []*ssa.Return {
	var out []*ssa.Return
	for _, b := range fn.Blocks {
		if len(b.Instrs) > 0 {
			if r, ok := b.Instrs[len(b.Instrs)-1].(*ssa.Return); ok {
				out = append(out, r)
			}
		}
	}
	return out
}

// isCallTo reports whether ins is a call (call/go/defer) whose resolved name is one of names.
func isCallTo(ins ssa.Instruction, names ...string) bool {
	ci, ok := ins.(ssa.CallInstruction)
	if !ok {
		return false
	}
	n := calleeName(ci.Common())
	for _, x := range names {
		if n == x {
			return true
		}
	}
	return false
}

// callValue returns the *ssa.Call that v is (through conversions / extract of a tuple), if any.
func callValue(v ssa.Value) *ssa.Call {
	v = stripConv(v)
	if e, ok := v.(*ssa.Extract); ok {
		v = e.Tuple
	}
	c, _ := v.(*ssa.Call)
	return c
}

// mustPassFromBlock: every path from the start of block b to a normal Return executes an instruction matching through.
func mustPassFromBlock(b *ssa.BasicBlock, through func(ssa.Instruction) bool) (bool, ssa.Instruction) {
	return mustPassItems([]psItem{{b, nilState{}}}, through)
}

// ---------------------------------------------------------------------------------------------
// nil-sensitive reachability: which blocks can be entered after instruction `start` when the values in `assume`
// are nil (true) / non-nil (false).  Nil-ness is propagated through phis along the edge taken, branches on
// `x == nil` / `x != nil` with known x are followed only on the feasible side, unknown ones fork and record what
// the branch establishes about x.  A path-sensitive dataflow over the three-point lattice {nil, non-nil, unknown}
// per error value; nothing is executed.

type nilState map[ssa.Value]int32 // 1 nil / false, 2 non-nil / true, intBase+k: the small integer constant k

const (
	intBase = 1 << 20
	intBias = 1 << 18 // known integers lie in (-intBias, intBias)
)

func (s nilState) key() string {
	var ks []string
	for v, n := range s {
		ks = append(ks, fmt.Sprintf("%s=%d", v.Name(), n))
	}
	sort.Strings(ks)
	return strings.Join(ks, ",")
}

// intOf: the integer constant v is known to be (a constant itself, or a phi that received one on the edge taken).
func (s nilState) intOf(v ssa.Value) (int64, bool) {
	v = stripConv(v)
	if c, ok := v.(*ssa.Const); ok && c.Value != nil && c.Value.Kind() == constant.Int {
		if k, ok := constant.Int64Val(c.Value); ok && k > -intBias && k < intBias {
			return k, true
		}
		return 0, false
	}
	if n, ok := s[v]; ok && n >= intBase {
		return int64(n-intBase) - intBias, true
	}
	// the length of something known to be nil (or the empty string) is 0
	if c, ok := v.(*ssa.Call); ok && len(c.Call.Args) == 1 {
		if b, isB := c.Call.Value.(*ssa.Builtin); isB && b.Name() == "len" && s.of(c.Call.Args[0]) == 1 {
			return 0, true
		}
	}
	return 0, false
}

func (s nilState) of(v ssa.Value) int8 {
	for {
		if isNilConst(v) {
			return 1
		}
		if u, ok := v.(*ssa.UnOp); ok && u.Op == token.NOT {
			switch s.of(u.X) {
			case 1:
				return 2
			case 2:
				return 1
			}
			return 0
		}
		if n, ok := s[v]; ok {
			if n >= intBase {
				return 0
			}
			return int8(n)
		}
		if c, ok := v.(*ssa.Const); ok && c.Value != nil && c.Value.Kind() == constant.Bool {
			if constant.BoolVal(c.Value) {
				return 2
			}
			return 1
		}
		// strings: empty / not empty (a message variable that is tested against "" once)
		if c, ok := v.(*ssa.Const); ok && c.Value != nil && c.Value.Kind() == constant.String {
			if constant.StringVal(c.Value) == "" {
				return 1
			}
			return 2
		}
		if b, ok := v.(*ssa.BinOp); ok && b.Op == token.ADD {
			if bt, ok := b.Type().Underlying().(*types.Basic); ok && bt.Info()&types.IsString != 0 {
				if s.of(b.X) == 2 || s.of(b.Y) == 2 {
					return 2
				}
			}
		}
		if globalNeverNil(v) {
			return 2
		}
		switch x := v.(type) {
		case *ssa.ChangeInterface:
			v = x.X
			continue
		case *ssa.MakeInterface, *ssa.Alloc, *ssa.MakeSlice, *ssa.MakeMap, *ssa.MakeClosure:
			return 2
		case *ssa.Call:
			switch calleeName(&x.Call) {
			case "fmt.Errorf", "errors.New", "(*hotline.ClientConn).NewErrReply", "builtin.append":
				return 2
			}
		case *ssa.Slice:
			if _, isArr := x.X.Type().Underlying().(*types.Pointer); isArr {
				return 2 // slice of an addressable array
			}
		}
		return 0
	}
}

func nilReach(start ssa.Instruction, assume map[ssa.Value]bool) map[*ssa.BasicBlock]bool {
	return nilReachVisit(start, assume, nil)
}

// nilReachVisit: as nilReach; visit is called for every (block, state) pair explored.
func nilReachVisit(start ssa.Instruction, assume map[ssa.Value]bool, visit func(b *ssa.BasicBlock, st nilState)) map[*ssa.BasicBlock]bool {
	reached := map[*ssa.BasicBlock]bool{}
	init := nilState{}
	for v, isNil := range assume {
		if isNil {
			init[v] = 1
		} else {
			init[v] = 2
		}
	}
	sb := start.Block()
	var first []psItem
	for _, s := range feasibleSuccs(sb, init, true) {
		first = append(first, psItem{s.blk, enterBlock(sb, s.blk, s.st)})
	}
	explore(first, nil, true, func(b *ssa.BasicBlock, st nilState) bool {
		reached[b] = true
		if visit != nil {
			visit(b, st)
		}
		return true
	})
	return reached
}

// errResult: the value holding the error result of call c (the call itself, or the Extract of the error component
// of its tuple); nil when the error is dropped.
func errResult(c *ssa.Call) ssa.Value {
	res := c.Call.Signature().Results()
	if res.Len() == 1 {
		if isErrorType(res.At(0).Type()) && c.Referrers() != nil && len(*c.Referrers()) > 0 {
			return c
		}
		return nil
	}
	for i := 0; i < res.Len(); i++ {
		if !isErrorType(res.At(i).Type()) {
			continue
		}
		for _, r := range *c.Referrers() {
			if ex, ok := r.(*ssa.Extract); ok && ex.Index == i {
				return ex
			}
		}
	}
	return nil
}

// inLoop: the block lies on a CFG cycle.
func inLoop(b *ssa.BasicBlock) bool {
	for _, s := range b.Succs {
		if s == b || reachableFrom(s, nil)[b] {
			return true
		}
	}
	return false
}

// successMustPass: on every path from the entry to a return that may report success (error result nil or not known
// to be non-nil along that path) an instruction matching through is executed first.  nSuccess counts the returns
// that can report success on some path.  The recover block is not an entry.
func successMustPass(fn *ssa.Function, through func(ssa.Instruction) bool) (ok bool, witness *ssa.Return, nSuccess int) {
	ok = true
	if len(fn.Blocks) == 0 {
		return
	}
	succ := map[*ssa.Return]bool{}
	judge := func(ret *ssa.Return, st nilState) bool { // may this return report success in state st?
		n := len(ret.Results)
		if n == 0 || !isErrorType(ret.Results[n-1].Type()) {
			return true
		}
		if st.of(ret.Results[n-1]) == 2 {
			return false
		}
		if rv := retValue(ret, n-1); rv != ret.Results[n-1] && st.of(rv) == 2 {
			return false
		}
		return true
	}
	// first pass: which returns can report success at all
	explore([]psItem{{fn.Blocks[0], nilState{}}}, nil, true, func(b *ssa.BasicBlock, st nilState) bool {
		if ret, isRet := b.Instrs[len(b.Instrs)-1].(*ssa.Return); isRet && judge(ret, st) {
			succ[ret] = true
		}
		return true
	})
	nSuccess = len(succ)
	explore([]psItem{{fn.Blocks[0], nilState{}}}, nil, true, func(b *ssa.BasicBlock, st nilState) bool {
		for _, ins := range b.Instrs {
			if through(ins) {
				return false
			}
			if ret, isRet := ins.(*ssa.Return); isRet {
				if judge(ret, st) {
					ok = false
					if witness == nil {
						witness = ret
					}
				}
				return false
			}
		}
		return true
	})
	return
}

// isZeroLike: the nil constant or the empty string constant.
func isZeroLike(v ssa.Value) bool {
	if isNilConst(v) {
		return true
	}
	c, ok := v.(*ssa.Const)
	return ok && c.Value != nil && c.Value.Kind() == constant.String && constant.StringVal(c.Value) == ""
}
