#!/usr/bin/env python3
"""Generates MANIFEST.json from the table below (kept in one place so the manifest is always valid)."""
import json, subprocess, sys

FIX_COMMITS = subprocess.run(["git","-C","/repo","log","--format=%h %s","5dec6d4..HEAD"],capture_output=True,text=True).stdout.strip().splitlines()

# id -> (technique, level text, level note, design ref)
CHECKS = {
 "C05": ("edge-cut reachability over handler CFGs against a protocol privilege table (go/ssa, resolved callees)",
         "Structural necessary conditions decided exhaustively on the source: for all 43 registered transaction handlers and every (context, privilege, effect) row of the protocol table, no effect site is reachable once the Authorize(privilege)-true edges are deleted; the handler tests exactly the protocol's privileges; Authorize has the nil-account/IsSet shape. This replaces the quantifier over 2^64 bitmaps and field contents by one over CFG paths, which is finite and fully enumerated.",
         "Trusted: Go type checker, go/ssa, spec/privileges.json (written from the protocol document), the effect classifier table (listed in evidence). Not decided: effects the classifier does not know, content-dependent behaviour inside an allowed effect, the name matching of upload/drop-box folders.",
         "4/C05"),
}

NOT_YET = {}

props=[json.loads(l) for l in open("/verif/properties.jsonl")]
checks=[]
na=[]
for p in props:
    pid=p["id"]
    if pid in CHECKS:
        tech,text,note,ref=CHECKS[pid]
        checks.append({
            "property_id":pid,
            "quick_cmd":f"./check.sh {pid} quick",
            "thorough_cmd":f"./check.sh {pid} thorough",
            "evidence_file":f"/verif/evidence/{pid}.json",
            "replay_cmd_template":"./bin/hlcheck -explain {path}",
            "engine":"hlcheck",
            "level_claimed":{"category":"other","text":text,"design_ref":"DESIGN.md section "+ref},
            "level_note":note,
            "technique":tech,
        })
    else:
        na.append({"property_id":pid,"reason":NOT_YET.get(pid,"static rules for this property are designed (DESIGN.md section 4) but not built yet in this revision; no claim is made")})
m={
 "version":1,
 "setup_cmd":"./setup.sh",
 "hooks":{"guard":"verif","enable":"no hooks: the analyser reads /repo's source; nothing in /repo is built or run by a check","baseline_off_cmd":"cd /repo && go test -mod=mod -vet=off -count=1 ./...","source_commits":[],"add_only":True},
 "engines":[{"name":"hlcheck","path":"/verif/hlcheck","serves_properties":sorted(CHECKS),"kind_free_text":"repository-specific static analyser (go/packages + go/ssa, x/tools v0.29.0): edge-cut reachability, dominance, def-use provenance, locksets, table extraction; never executes mobius code"}],
 "checks":checks,
 "not_applicable":na,
 "notes":"All verdicts come from static analysis of /repo's current working tree. Genuine defects found by the rules were repaired in /repo by separate 'fix:' commits (listed in known_findings.json as fixed); the remaining one is a known finding. Fix commits: "+"; ".join(FIX_COMMITS),
}
json.dump(m,open("/verif/MANIFEST.json","w"),indent=1)
print("checks:",len(checks),"not_applicable:",len(na))
