package hotline

// Triage witnesses for findings reported by the static rules (see /verif/DESIGN.md section 5).
// They are NOT registered checks.  /verif/witness/run.sh copies /repo to a scratch directory,
// drops these files in, runs them there and removes the copy.  Each test only logs what it
// observes (prefix WITNESS); it never fails, so the same file can be run before and after a fix.

import (
	"bytes"
	"context"
	"encoding/binary"
	"io"
	"net"
	"os"
	"path/filepath"
	"sync"
	"syscall"
	"testing"
	"testing/iotest"
	"time"
)

type wrw struct {
	io.Reader
	io.Writer
}

type wrwc struct {
	io.Reader
	io.Writer
}

func (wrwc) Close() error { return nil }

// #1/#2 C02
func TestWitnessSegmentedHandshakeAndPreamble(t *testing.T) {
	hs := []byte{0x54, 0x52, 0x54, 0x50, 0x48, 0x4F, 0x54, 0x4C, 0, 1, 0, 2}
	var out bytes.Buffer
	errWhole := performHandshake(wrw{bytes.NewReader(hs), &out})
	errSplit := performHandshake(wrw{iotest.OneByteReader(bytes.NewReader(hs)), &out})
	t.Logf("WITNESS C02 handshake whole: err=%v; same 12 bytes one at a time: err=%v", errWhole, errSplit)

	s := &Server{FileTransferMgr: NewMemFileTransferMgr(), Logger: NewTestLogger()}
	pre := []byte{0x48, 0x54, 0x58, 0x46, 0, 0, 0, 5, 0, 0, 1, 0, 0, 0, 0, 0}
	ctx := context.WithValue(context.Background(), contextKeyReq, requestCtx{})
	e1 := s.handleFileTransfer(ctx, wrw{bytes.NewReader(pre), io.Discard})
	e2 := s.handleFileTransfer(ctx, wrw{iotest.HalfReader(bytes.NewReader(pre)), io.Discard})
	t.Logf("WITNESS C02 transfer preamble whole: err=%v; in two halves: err=%v (both should be the 'invalid transaction ID' of an unknown reference)", e1, e2)
}

func drain(r io.Reader, chunk int, maxCalls int) ([]byte, bool) {
	var got []byte
	buf := make([]byte, chunk)
	for i := 0; i < maxCalls; i++ {
		n, err := r.Read(buf)
		got = append(got, buf[:n]...)
		if err != nil {
			return got, true
		}
	}
	return got, false
}

// #3/#4/#5 C01, C18
func TestWitnessReadCursor(t *testing.T) {
	mkU := func() *User { return &User{ID: [2]byte{0, 1}, Icon: []byte{0, 2}, Flags: []byte{0, 3}, Name: "abcdefghij"} }
	want, _ := io.ReadAll(mkU())
	got, ended := drain(mkU(), 4, 50)
	t.Logf("WITNESS C01 User.Read 4-byte buffer: terminated=%v equal=%v (want %d bytes, got %d)", ended, bytes.Equal(want, got), len(want), len(got))

	mkC := func() *NewsCategoryListData15 { return &NewsCategoryListData15{Type: NewsBundle, Name: "a bundle name"} }
	want, _ = io.ReadAll(mkC())
	got, ended = drain(mkC(), 4, 50)
	t.Logf("WITNESS C01 NewsCategoryListData15.Read 4-byte buffer: terminated=%v equal=%v", ended, bytes.Equal(want, got))

	nal := NewsArtList{Title: bytes.Repeat([]byte("T"), 255), Poster: bytes.Repeat([]byte("P"), 255)}
	b, err := io.ReadAll(&nal)
	t.Logf("WITNESS C01/C18 NewsArtList via io.ReadAll: got %d bytes err=%v, record is %d bytes", len(b), err, 4+8+4+4+2+1+255+1+255+1+10+2)
}

// #16 C14
func TestWitnessNewFieldOverflow(t *testing.T) {
	f := NewField(FieldData, make([]byte, 70000))
	b, _ := io.ReadAll(&f)
	t.Logf("WITNESS C14 NewField(70000 bytes): length prefix=%d, bytes emitted after the 4-byte header=%d", binary.BigEndian.Uint16(f.FieldSize[:]), len(b)-4)
}

// #14 C13
func TestWitnessIDWrap(t *testing.T) {
	m := NewMemClientMgr()
	first := &ClientConn{}
	m.Add(first)
	var last *ClientConn
	for i := 0; i < 65536; i++ {
		c := &ClientConn{}
		m.Add(c)
		last = c
		if i < 65535 {
			m.Delete(c.ID)
		}
	}
	t.Logf("WITNESS C13 after 65536 more connections: first.ID=%v last.ID=%v; registry still maps that ID to the first user: %v; live connections=2, registry size=%d", first.ID, last.ID, m.Get(first.ID) == first, len(m.List()))
}

// #9 C07/C10 and #12 C09/C10
func TestWitnessFolderUpload(t *testing.T) {
	sandbox := t.TempDir()
	root := filepath.Join(sandbox, "root")
	up := filepath.Join(root, "Uploads")
	_ = os.MkdirAll(up, 0755)

	item := func(isFolder byte, names ...string) []byte {
		var p []byte
		for _, n := range names {
			p = append(p, 0, 0, byte(len(n)))
			p = append(p, n...)
		}
		hdr := make([]byte, 6)
		binary.BigEndian.PutUint16(hdr[0:], uint16(len(p)+4))
		hdr[3] = isFolder
		binary.BigEndian.PutUint16(hdr[4:], uint16(len(names)))
		return append(hdr, p...)
	}

	// traversal: one folder item "../../evil"
	ft := &FileTransfer{FolderItemCount: []byte{0, 1}, bytesSentCounter: &WriteCounter{}}
	err := UploadFolderHandler(wrw{bytes.NewReader(item(1, "..", "..", "evil")), io.Discard}, up, ft, &OSFileStore{}, NewTestLogger(), false)
	_, statErr := os.Stat(filepath.Join(sandbox, "evil"))
	t.Logf("WITNESS C07 folder-upload item ../../evil: err=%v; directory created outside the file root: %v", err, statErr == nil)

	// resume branch: partial file exists, stream is cut right after the size prefix
	_ = os.WriteFile(filepath.Join(up, "f.incomplete"), []byte("partial"), 0644)
	stream := append(item(0, "f"), 0, 0, 0, 99, 'F', 'I', 'L') // size prefix + 3 bytes of header, then EOF
	ft = &FileTransfer{FolderItemCount: []byte{0, 1}, bytesSentCounter: &WriteCounter{}}
	err = UploadFolderHandler(wrw{bytes.NewReader(stream), io.Discard}, up, ft, &OSFileStore{}, NewTestLogger(), false)
	final, e1 := os.ReadFile(filepath.Join(up, "f"))
	_, e2 := os.Stat(filepath.Join(up, "f.incomplete"))
	t.Logf("WITNESS C09 resumed folder upload cut inside the header: err=%v; final name exists=%v content=%q; .incomplete still there=%v", err, e1 == nil, final, e2 == nil)
}

// #13 C10
func TestWitnessFolderDownloadResume(t *testing.T) {
	root := t.TempDir()
	dl := filepath.Join(root, "dl")
	_ = os.MkdirAll(dl, 0755)
	_ = os.WriteFile(filepath.Join(dl, "a.bin"), bytes.Repeat([]byte{'x'}, 100), 0644)

	rd := make([]byte, 58)
	copy(rd, "RFLT")
	rd[5] = 1
	rd[41] = 1
	copy(rd[42:], "DATA")
	binary.BigEndian.PutUint32(rd[46:], 40) // resume from offset 40
	in := []byte{0, 3}                      // initial next-action
	in = append(in, 0, DlFldrActionResumeFile, 0, byte(len(rd)))
	in = append(in, rd...)
	var out bytes.Buffer
	ft := &FileTransfer{bytesSentCounter: &WriteCounter{}}
	err := DownloadFolderHandler(wrw{bytes.NewReader(in), &out}, dl, ft, &OSFileStore{}, NewTestLogger(), false)
	b := out.Bytes()
	hdrLen := 2 + int(binary.BigEndian.Uint16(b[0:2]))
	announced := binary.BigEndian.Uint32(b[hdrLen : hdrLen+4])
	actual := len(b) - hdrLen - 4
	t.Logf("WITNESS C10 folder download, resume at 40 of a 100-byte file: err=%v; announced item size=%d, bytes actually sent for the item=%d, data bytes sent=%d (should be 60)", err, announced, actual, bytes.Count(b[hdrLen+4:], []byte{'x'}))
}

type slowRecorder struct {
	mu    sync.Mutex
	calls []byte // payload letter of each Write call
}

func (r *slowRecorder) Read([]byte) (int, error) { return 0, io.EOF }
func (r *slowRecorder) Close() error             { return nil }
func (r *slowRecorder) Write(p []byte) (int, error) {
	r.mu.Lock()
	r.calls = append(r.calls, p[len(p)-1])
	r.mu.Unlock()
	time.Sleep(20 * time.Millisecond) // a TCP write that takes a while
	return len(p), nil
}

// #15 C14
func TestWitnessInterleavedWrites(t *testing.T) {
	s, _ := NewServer(WithLogger(NewTestLogger()))
	rec := &slowRecorder{}
	cc := s.NewClientConn(rec, "1.1.1.1:1")
	go s.processOutbox()
	s.outbox <- NewTransaction(TranServerMsg, cc.ID, NewField(FieldData, bytes.Repeat([]byte{'A'}, 40000)))
	s.outbox <- NewTransaction(TranServerMsg, cc.ID, NewField(FieldData, bytes.Repeat([]byte{'B'}, 40000)))
	time.Sleep(300 * time.Millisecond)
	rec.mu.Lock()
	defer rec.mu.Unlock()
	t.Logf("WITNESS C14 two 40 kB transactions to one client: order of Write calls by payload = %q (anything but AABB/BBAA = one frame interrupted by the other on the wire)", string(rec.calls))
}

type noAccounts struct{ gate chan struct{} }

func (n noAccounts) Create(Account) error         { return nil }
func (n noAccounts) Update(Account, string) error { return nil }
func (n noAccounts) Get(string) *Account {
	if n.gate != nil {
		<-n.gate
	}
	return nil
}
func (n noAccounts) List() []Account     { return nil }
func (n noAccounts) Delete(string) error { return nil }

type noBans struct{}

func (noBans) Add(string, *time.Time) error        { return nil }
func (noBans) IsBanned(string) (bool, *time.Time) { return false, nil }

// #7 C03/C04
func TestWitnessFailedLoginIsVisibleToOthers(t *testing.T) {
	gate := make(chan struct{})
	s, _ := NewServer(WithLogger(NewTestLogger()))
	s.AccountManager = noAccounts{gate: gate}
	s.BanList = noBans{}
	victim := s.NewClientConn(wrwc{bytes.NewReader(nil), io.Discard}, "9.9.9.9:9")
	victim.Account = &Account{Login: "victim"}

	var mu sync.Mutex
	var seen []Transaction
	go func() {
		for tr := range s.outbox {
			mu.Lock()
			seen = append(seen, tr)
			mu.Unlock()
		}
	}()

	login := NewTransaction(TranLogin, [2]byte{}, NewField(FieldUserLogin, EncodeString([]byte("nouser"))), NewField(FieldUserPassword, EncodeString([]byte("x"))))
	lb, _ := io.ReadAll(&login)
	in := append([]byte{0x54, 0x52, 0x54, 0x50, 0x48, 0x4F, 0x54, 0x4C, 0, 1, 0, 2}, lb...)
	var out bytes.Buffer
	done := make(chan error, 1)
	go func() {
		done <- s.handleNewConnection(context.Background(), wrwc{bytes.NewReader(in), &out}, "6.6.6.6:6")
	}()
	time.Sleep(100 * time.Millisecond) // attacker is now inside Authenticate (account lookup blocked)
	nilAccounts := 0
	for _, c := range s.ClientMgr.List() {
		if c.Account == nil {
			nilAccounts++
		}
	}
	t.Logf("WITNESS C03 while a login is being checked the registry holds %d connection(s) with a nil Account (handlers dereference c.Account.Login on every registry entry)", nilAccounts)
	close(gate)
	err := <-done
	time.Sleep(50 * time.Millisecond)
	mu.Lock()
	defer mu.Unlock()
	for _, tr := range seen {
		t.Logf("WITNESS C04 after the failed login (err=%v) client %v was sent transaction type %v", err, tr.ClientID, tr.Type)
	}
	t.Logf("WITNESS C04 transactions delivered to other users because of a failed login: %d", len(seen))
}

type fakeConn struct {
	net.Conn
	addr net.Addr
}

func (f fakeConn) Read([]byte) (int, error)    { return 0, io.EOF }
func (f fakeConn) Write(p []byte) (int, error) { return len(p), nil }
func (f fakeConn) Close() error                { return nil }
func (f fakeConn) RemoteAddr() net.Addr        { return f.addr }

type fakeListener struct {
	n    int
	max  int
	hold chan struct{}
}

func (l *fakeListener) Accept() (net.Conn, error) {
	if l.n >= l.max {
		<-l.hold
	}
	l.n++
	return fakeConn{addr: &net.TCPAddr{IP: net.IPv4(10, 0, byte(l.n>>8), byte(l.n)), Port: 1000}}, nil
}
func (l *fakeListener) Close() error   { return nil }
func (l *fakeListener) Addr() net.Addr { return &net.TCPAddr{} }

// #6 C03: run with -race; the race detector (and, unluckily timed, the runtime itself with
// "fatal error: concurrent map writes") reports the unsynchronised rateLimiters map.
func TestWitnessRateLimiterMapRace(t *testing.T) {
	s, _ := NewServer(WithLogger(NewTestLogger()))
	ctx, cancel := context.WithCancel(context.Background())
	defer cancel()
	go func() { _ = s.Serve(ctx, &fakeListener{max: 2000, hold: make(chan struct{})}) }()
	time.Sleep(500 * time.Millisecond)
	t.Logf("WITNESS C03 2000 connections from distinct addresses accepted; see race detector output above/below")
}

// transientListener fails its first Accept the way accept(2) does when the process is out of file descriptors
// (EMFILE: a temporary condition caused by many open connections), then blocks.
type transientListener struct {
	calls int
	hold  chan struct{}
}

func (l *transientListener) Accept() (net.Conn, error) {
	l.calls++
	if l.calls == 1 {
		return nil, &net.OpError{Op: "accept", Net: "tcp", Err: os.NewSyscallError("accept4", syscall.EMFILE)}
	}
	<-l.hold
	return nil, net.ErrClosed
}
func (l *transientListener) Close() error   { return nil }
func (l *transientListener) Addr() net.Addr { return &net.TCPAddr{} }

// #23 C03: a transient Accept error on the transfer port (file descriptors exhausted by a connection flood) must not
// end ServeFileTransfers — ListenAndServe wraps it in log.Fatal, so returning terminates the whole server process.
func TestWitnessTransferAcceptErrorEndsServer(t *testing.T) {
	s, _ := NewServer(WithLogger(NewTestLogger()))
	ln := &transientListener{hold: make(chan struct{})}
	done := make(chan error, 1)
	go func() { done <- s.ServeFileTransfers(context.Background(), ln) }()
	select {
	case err := <-done:
		t.Errorf("WITNESS C03 ServeFileTransfers returned %v after a transient accept error: log.Fatal in ListenAndServe would now terminate the process and every session", err)
	case <-time.After(500 * time.Millisecond):
		t.Logf("WITNESS C03 ServeFileTransfers keeps accepting after a transient accept error")
	}
	close(ln.hold)
}
