package main

// c12.go — C12: chat reaches exactly its audience (structural part).

import (
	"fmt"
	"go/constant"
	"go/token"
	"go/types"
	"sort"
	"strings"

	"golang.org/x/tools/go/ssa"
)

// elemOfCall: v is an element (`for _, c := range call(...)`) of the slice returned by a call.
func elemOfCall(v ssa.Value) (*ssa.Call, *ssa.IndexAddr) {
	v = stripConv(v)
	u, ok := v.(*ssa.UnOp)
	if !ok || u.Op != token.MUL {
		return nil, nil
	}
	ia, ok := u.X.(*ssa.IndexAddr)
	if !ok {
		return nil, nil
	}
	c, _ := ia.X.(*ssa.Call)
	return c, ia
}

type recipient struct {
	kind string    // SELF | MEMBERS(FieldX) | REGISTRY | TARGET(FieldX) | CLIENT(...) | ZERO | OTHER
	elem ssa.Value // the *ClientConn element when drawn from a list
	loop *ssa.IndexAddr
}

// recipientOf classifies the client-ID argument of a NewTransaction.
func (P *Prog) recipientOf(id ssa.Value, own ssa.Value) recipient {
	return P.recipientOfCtx(id, func(v ssa.Value) bool { return v == own }, P.requestOrigin)
}

func (P *Prog) recipientOfCtx(id ssa.Value, isOwnV func(ssa.Value) bool, origin func(ssa.Value) string) recipient {
	id = stripConv(id)
	if bs, ok := P.bytesOf(id); ok {
		allZero := true
		for _, b := range bs {
			allZero = allZero && b == 0
		}
		if allZero {
			return recipient{kind: "ZERO"}
		}
	}
	if u, ok := id.(*ssa.UnOp); ok && u.Op == token.MUL {
		switch a := u.X.(type) {
		case *ssa.FieldAddr:
			if f, _ := fieldOf(a); f == "hotline.ClientConn.ID" {
				if isOwnV(a.X) {
					return recipient{kind: "SELF"}
				}
				if c, ia := elemOfCall(a.X); c != nil {
					switch calleeName(&c.Call) {
					case "(hotline.ChatManager).Members":
						return recipient{kind: "MEMBERS(" + origin(c.Call.Args[0]) + ")", elem: a.X, loop: ia}
					case "(hotline.ClientManager).List":
						return recipient{kind: "REGISTRY", elem: a.X, loop: ia}
					}
				}
				if c := callValue(a.X); c != nil && calleeName(&c.Call) == "(hotline.ClientManager).Get" {
					return recipient{kind: "CLIENT(" + origin(c.Call.Args[0]) + ")", elem: a.X}
				}
				return recipient{kind: "OTHER:" + P.sym(a.X)}
			}
		case *ssa.SliceToArrayPointer:
			if rf := P.requestFieldOf(a.X); rf != "" {
				return recipient{kind: "TARGET(" + rf + ")"}
			}
			if rf := origin(a.X); rf != "?" && rf != "" {
				return recipient{kind: "TARGET(" + rf + ")"}
			}
		}
	}
	return recipient{kind: "OTHER:" + P.sym(id)}
}

// requestOrigin: the request field a value is (a conversion of).
func (P *Prog) requestOrigin(v ssa.Value) string {
	out := ""
	F := &Flow{P: P, Visit: func(x ssa.Value) bool {
		if u, ok := x.(*ssa.UnOp); ok && u.Op == token.MUL {
			if rf := P.requestFieldOf(u); rf != "" {
				out = rf
				return false
			}
		}
		return out == ""
	}}
	F.Back(v)
	if out == "" {
		return "?"
	}
	return out
}

var audienceSpec = map[int][]string{
	105: {"TranChatMsg→MEMBERS(FieldChatID)", "TranChatMsg→REGISTRY+READCHAT"},
	112: {"TranInviteToChat→TARGET(FieldUserID)"},
	113: {"TranInviteToChat→TARGET(FieldUserID)"},
	114: {"TranChatMsg→MEMBERS(FieldChatID)"},
	115: {"TranNotifyChatChangeUser→MEMBERS(FieldChatID)"},
	116: {"TranNotifyChatDeleteUser→MEMBERS(FieldChatID)"},
	120: {"TranNotifyChatSubject→MEMBERS(FieldChatID)"},
}

// transactions whose notification to the others is unconditional once the request is accepted
var unconditionalAudience = map[int]bool{115: true, 116: true, 120: true}

func checkC12(R *Run) {
	P := R.P
	R.rule("audience", "for the seven chat-family transactions, the set of (transaction type, recipient source) pairs of every transaction a handler addresses to someone else equals the protocol's audience table: members of the chat named by the request's chat-ID field, the registry filtered by the element's own Authorize(9 read chat), or the request's user-ID field; each constructed inside the loop over that list, once per element")
	R.rule("chat-truncate", "the text of a chat message reaches NewField through a slice [:min(len, LimitChatMsg)] and LimitChatMsg folds to 8192; the emote form is only selected under chat options == {0,1}")
	R.rule("leave-before-notify", "leave: ChatMgr.Leave(chat, requester's ID) precedes the enumeration of the members that are notified; join: the members to notify are enumerated before Join; a declined invitation never calls Join")
	R.rule("chat-mgr-shape", "MemChatManager.Members returns exactly the connections stored for that chat; Leave deletes exactly the given client from that chat; Join adds the given connection under its own ID")

	regs := R.registeredHandlers()
	byNum := map[int]*ssa.Function{}
	for _, r := range regs {
		byNum[r.Num] = r.Fn
	}
	var nums []int
	for n := range audienceSpec {
		nums = append(nums, n)
	}
	sort.Ints(nums)
	for _, num := range nums {
		fn := byNum[num]
		if fn == nil {
			R.bad("audience", fmt.Sprintf("transaction %d", num), "-", "no handler registered")
			continue
		}
		R.analysed(fname(fn))
		own := ssa.Value(fn.Params[0])
		got := map[string]bool{}
		var problems []string
		type sendSite struct {
			fn  *ssa.Function
			ci  ssa.CallInstruction
			ctx map[ssa.Value]ssa.Value // helper parameter → argument in the handler
		}
		var sends []sendSite
		for _, ci := range callsIn(fn) {
			c := ci.Common()
			if calleeName(c) == "hotline.NewTransaction" {
				sends = append(sends, sendSite{fn, ci, nil})
				continue
			}
			// one level of helper: a repo function (not one of the classified broadcast primitives) that builds transactions
			if _, classified := mutatorTable[calleeName(c)]; classified {
				continue
			}
			if h, ok := c.Value.(*ssa.Function); ok && h.Blocks != nil && P.isRepoPkg(pkgOf(h)) && !handlerFn(regs, h) {
				ctx := map[ssa.Value]ssa.Value{}
				for i, p := range h.Params {
					if i < len(c.Args) {
						ctx[p] = c.Args[i]
					}
				}
				for _, cj := range callsIn(h) {
					if calleeName(cj.Common()) == "hotline.NewTransaction" {
						sends = append(sends, sendSite{h, cj, ctx})
					}
				}
			}
		}
		for _, snd := range sends {
			ci := snd.ci
			c := ci.Common()
			inFn := snd.fn
			isOwnV := func(v ssa.Value) bool {
				if snd.ctx == nil {
					return v == own
				}
				return snd.ctx[v] == own
			}
			origin := func(v ssa.Value) string {
				if o := P.requestOrigin(v); o != "?" || snd.ctx == nil {
					return o
				}
				// through a helper parameter: the origin of the argument in the handler
				out := "?"
				F := &Flow{P: P, Visit: func(x ssa.Value) bool {
					if a, ok := snd.ctx[x]; ok && out == "?" {
						if rf := P.requestFieldOf(a); rf != "" {
							out = rf
						} else {
							out = P.requestOrigin(a)
						}
						return false
					}
					return out == "?"
				}}
				F.Back(v)
				return out
			}
			rc := P.recipientOfCtx(c.Args[1], isOwnV, origin)
			if rc.kind == "SELF" {
				continue
			}
			tt, okT := globalName(c.Args[0])
			if !okT && snd.ctx != nil {
				if a, ok := snd.ctx[stripConv(c.Args[0])]; ok {
					tt, _ = globalName(a)
				}
			}
			tt = strings.TrimPrefix(tt, "hotline.")
			src := rc.kind
			fn := inFn
			if rc.kind == "REGISTRY" {
				// must be on the true edge of elem.Authorize(AccessReadChat)
				cut := map[Edge]bool{}
				n := 0
				factEdges(fn, func(e Edge, f Fact) {
					for _, pf := range P.expandFact(f, isAuthorizePrim, 0) {
						if pf.kind != "truth" || len(pf.args) != 2 || pf.args[0] == nil {
							continue
						}
						if k, ok := constInt(pf.args[1]); ok && k == 9 && sameElem(pf.args[0], rc.elem) {
							n++
							if pf.holds {
								cut[e] = true
							}
						}
					}
				})
				if n > 0 && !reachable(fn, cut)[ci.Block()] {
					src = "REGISTRY+READCHAT"
				}
			}
			if rc.kind == "CLIENT(FieldUserID)" {
				src = "TARGET(FieldUserID)"
			}
			// refusal notices to the requester's own ID are SELF; a notice to the target built from the looked-up client is the target
			got[tt+"→"+src] = true
			if rc.loop != nil {
				if !rc.loop.Block().Dominates(ci.Block()) {
					problems = append(problems, "the construction at "+P.ipos(ci)+" is outside the loop over the recipients")
				}
				// join / leave / subject: the others are told on every path that answers the request normally — the
				// notification does not depend on any further condition (such as a comparison of two snapshots)
				if unconditionalAudience[num] && snd.ctx == nil {
					lb := rc.loop.Block()
					if ii, ok := rc.loop.Index.(ssa.Instruction); ok {
						lb = ii.Block() // the loop header (where the range index is advanced and tested)
					}
					for _, ret := range returnsOf(fn) {
						if len(ret.Block().Preds) == 0 && ret.Block() != fn.Blocks[0] {
							continue
						}
						rv := retValue(ret, 0)
						if isNilConst(rv) || P.reaches(rv, func(x ssa.Value) bool {
							cx, ok := x.(*ssa.Call)
							return ok && calleeName(&cx.Call) == "(*hotline.ClientConn).NewErrReply"
						}) && !P.reaches(rv, func(x ssa.Value) bool {
							cx, ok := x.(*ssa.Call)
							return ok && calleeName(&cx.Call) == "(*hotline.ClientConn).NewReply"
						}) {
							continue // refused request
						}
						if !mustPassBefore(fn, ret, func(ins ssa.Instruction) bool { return ins.Block() == lb }) {
							problems = append(problems, "the notification of "+src+" at "+P.ipos(ci)+" is skipped on some path that still answers the request (return at "+P.ipos(ret)+"): members miss a join / leave / subject change")
						}
					}
				}
			}
		}
		want := map[string]bool{}
		for _, w := range audienceSpec[num] {
			want[w] = true
		}
		var extra, missing []string
		for g := range got {
			if !want[g] {
				extra = append(extra, g)
			}
		}
		for w := range want {
			if !got[w] {
				missing = append(missing, w)
			}
		}
		sort.Strings(extra)
		sort.Strings(missing)
		if len(extra) > 0 {
			problems = append(problems, "transactions to recipients the protocol does not name: "+strings.Join(extra, ", "))
		}
		if len(missing) > 0 {
			problems = append(problems, "recipients of the protocol not served: "+strings.Join(missing, ", "))
		}
		R.check(len(problems) == 0, "audience", fmt.Sprintf("%d %s", num, fname(fn)), P.pos(fn.Pos()), "recipients = "+strings.Join(audienceSpec[num], ", "), strings.Join(problems, "; "))
	}
	R.floor("audience", 7)

	// ---- chat-truncate
	limit := int64(-1)
	if c, ok := P.Hot.Pkg.Scope().Lookup("LimitChatMsg").(*types.Const); ok {
		if v, ok := constant.Int64Val(c.Val()); ok {
			limit = v
		}
	}
	R.check(limit == 8192, "chat-truncate", "hotline.LimitChatMsg", "hotline", "= 8192", fmt.Sprintf("LimitChatMsg is %d, the protocol's chat limit is 8192", limit))
	if fn := byNum[105]; fn != nil {
		n := 0
		// the chat text fields, built in the handler or in a helper it calls (private / public send split off)
		for _, dc := range P.deepCalls(fn, 1) {
			ci := dc.call
			c := ci.Common()
			if calleeName(c) != "hotline.NewField" {
				continue
			}
			if g, _ := globalName(c.Args[0]); g != "hotline.FieldData" {
				continue
			}
			n++
			truncated := P.derivesAll(c.Args[1], func(x ssa.Value) bool {
				sl, ok := x.(*ssa.Slice)
				if !ok || sl.High == nil {
					return false
				}
				m, ok := sl.High.(*ssa.Call)
				if !ok || calleeName(&m.Call) != "builtin.min" {
					return false
				}
				for _, a := range m.Call.Args {
					if k, ok := constInt(a); ok && k == limit {
						return true
					}
				}
				return false
			})
			R.check(truncated, "chat-truncate", fmt.Sprintf("%s: chat text #%d", fname(fn), n), P.ipos(ci), "text passes through [:min(len, LimitChatMsg)]", "a chat message field is built from text that was not cut to LimitChatMsg")
		}
		if n < 2 {
			R.bad("chat-truncate", fname(fn), P.pos(fn.Pos()), "fewer than two chat text fields found (private and public)")
		}
		// emote form under options == {0,1}
		for _, ci := range callsIn(fn) {
			c := ci.Common()
			if calleeName(c) != "fmt.Sprintf" {
				continue
			}
			f, _ := constString(c.Args[0])
			// … or one Sprintf whose format was selected beforehand (a phi of the two constants): what must only be
			// reachable under the option is then the block the emote constant comes from
			var emotePreds []*ssa.BasicBlock
			var emoteEdges []Edge
			if phi, isPhi := stripConv(c.Args[0]).(*ssa.Phi); isPhi && f == "" {
				for i, e := range phi.Edges {
					if s, ok := constString(stripConv(e)); ok && strings.Contains(s, "***") {
						f = s
						emotePreds = append(emotePreds, phi.Block().Preds[i])
						emoteEdges = append(emoteEdges, Edge{phi.Block().Preds[i], phi.Block()})
					}
				}
			}
			if !strings.Contains(f, "***") {
				continue
			}
			cut := map[Edge]bool{}
			nOpt := 0
			factEdgesImplied(fn, func(e Edge, ft Fact) {
				if ft.Kind == "truth" {
					if eq, ok := ft.V.(*ssa.Call); ok && calleeName(&eq.Call) == "bytes.Equal" {
						for _, pair := range [][2]ssa.Value{{eq.Call.Args[0], eq.Call.Args[1]}, {eq.Call.Args[1], eq.Call.Args[0]}} {
							if bs, ok := P.bytesOf(pair[1]); ok && len(bs) == 2 && bs[0] == 0 && bs[1] == 1 && P.requestFieldOf(pair[0]) == "FieldChatOptions" {
								nOpt++
								if ft.Holds {
									cut[e] = true
								}
							}
						}
					}
				}
			})
			emoteReach := reachable(fn, cut)[ci.Block()]
			if emotePreds != nil {
				emoteReach = false
				rc := reachable(fn, cut)
				for i, pb := range emotePreds {
					if rc[pb] && !cut[emoteEdges[i]] {
						emoteReach = true
					}
				}
			}
			R.check(nOpt > 0 && !emoteReach, "chat-truncate", fname(fn)+": emote form", P.ipos(ci), "only under chat options == {0,1}", "the emote form is used without the request's chat options being {0,1}")
		}
	}

	// ---- chat-format: the two format strings and their arguments
	if fn := byNum[105]; fn != nil {
		want := map[string]bool{"\r%13.13s:  %s": false, "\r*** %s %s": false}
		for _, ci := range callsIn(fn) {
			c := ci.Common()
			if calleeName(c) != "fmt.Sprintf" {
				continue
			}
			f, _ := constString(c.Args[0])
			var fs []string
			if phi, isPhi := stripConv(c.Args[0]).(*ssa.Phi); isPhi && f == "" {
				for _, e := range phi.Edges {
					if s, ok := constString(stripConv(e)); ok {
						fs = append(fs, s)
					} else {
						fs = nil
						break
					}
				}
			} else {
				fs = []string{f}
			}
			wanted := len(fs) > 0
			for _, x := range fs {
				if _, isWanted := want[x]; !isWanted {
					wanted = false
				}
			}
			if !wanted {
				continue
			}
			args := callArgsFlat(c)[1:]
			okArgs := len(args) == 2
			if okArgs {
				n0, _ := loadedField(stripConv(args[0]))
				okArgs = n0 == "hotline.ClientConn.UserName" && P.requestOrigin(args[1]) == "FieldData"
				if u, isU := stripConv(args[0]).(*ssa.UnOp); isU {
					if fa, isFa := u.X.(*ssa.FieldAddr); isFa && fa.X != ssa.Value(fn.Params[0]) {
						okArgs = false
					}
				}
			}
			if okArgs {
				for _, x := range fs {
					want[x] = true
				}
			}
		}
		R.check(want["\r%13.13s:  %s"] && want["\r*** %s %s"], "chat-truncate", fname(fn)+": line format", P.pos(fn.Pos()), "\\r%13.13s:  %s and \\r*** %s %s with (sender's name, request text)", fmt.Sprintf("the chat line is not built with the protocol's two formats from (sender's UserName, request's text): %v", want))
	}

	// ---- leave-before-notify
	if fn := byNum[116]; fn != nil {
		var leave, members ssa.CallInstruction
		for _, ci := range callsIn(fn) {
			switch calleeName(ci.Common()) {
			case "(hotline.ChatManager).Leave":
				leave = ci
			case "(hotline.ChatManager).Members":
				members = ci
			}
		}
		ok := leave != nil && members != nil && instrDominates(leave.(ssa.Instruction), members.(ssa.Instruction))
		if ok {
			a := leave.Common().Args
			ok = isOwnID(stripConvArr(a[1]), fn.Params[0]) && P.requestOrigin(a[0]) == "FieldChatID" && P.requestOrigin(members.Common().Args[0]) == "FieldChatID"
		}
		R.check(ok, "leave-before-notify", fname(fn), P.pos(fn.Pos()), "Leave(chat, own ID) dominates Members(chat)", "the leaving user is not removed (Leave(request chat, own ID)) before the members to notify are enumerated")
	}
	if fn := byNum[115]; fn != nil {
		var join ssa.CallInstruction
		var firstMembers ssa.CallInstruction
		nJoin := 0
		for _, ci := range callsIn(fn) {
			switch calleeName(ci.Common()) {
			case "(hotline.ChatManager).Join":
				join = ci
				nJoin++
			case "(hotline.ChatManager).Members":
				if firstMembers == nil {
					firstMembers = ci
				}
			}
		}
		ok := nJoin == 1 && firstMembers != nil && instrDominates(firstMembers.(ssa.Instruction), join.(ssa.Instruction))
		if ok {
			ok = join.Common().Args[1] == ssa.Value(fn.Params[0]) && P.requestOrigin(join.Common().Args[0]) == "FieldChatID"
		}
		// the notification loop uses the first enumeration
		if ok {
			for _, ci := range callsIn(fn) {
				if calleeName(ci.Common()) == "hotline.NewTransaction" {
					rc := P.recipientOf(ci.Common().Args[1], fn.Params[0])
					if rc.loop != nil {
						if src, _ := rc.loop.X.(*ssa.Call); src != firstMembers.(*ssa.Call) {
							ok = false
						}
					}
				}
			}
		}
		R.check(ok, "leave-before-notify", fname(fn), P.pos(fn.Pos()), "members enumerated for the notice before Join(chat, requester)", "join notices are not sent to the members present before the requester joined (or another connection is joined)")
	}
	if fn := byNum[114]; fn != nil {
		joins := false
		for f := range P.reachFuncs(fn) {
			for _, ci := range callsIn(f) {
				if calleeName(ci.Common()) == "(hotline.ChatManager).Join" {
					joins = true
				}
			}
		}
		R.check(!joins, "leave-before-notify", fname(fn), P.pos(fn.Pos()), "never calls Join", "declining an invitation joins the chat")
	}
	R.floor("leave-before-notify", 3)

	// ---- chat-mgr-shape
	if m := R.mustFn("(*hotline.MemChatManager).Members"); m != nil {
		ok := false
		for _, mf := range withAnons(m) {
			eachInstr(mf, func(i ssa.Instruction) {
				mv := enumeratedMap(i)
				if mv == nil {
					return
				}
				// (enumerated inside a function literal — an iterator over the members — the map is what the literal captured)
				mv = stripConv(canon(stripConv(mv)))
				if f, isF := loadedField(mv); isF && f == "hotline.PrivateChat.ClientConn" {
					// the chat is chats[id]
					u, isU := mv.(*ssa.UnOp)
					if !isU {
						return
					}
					if fa, isFA := u.X.(*ssa.FieldAddr); isFA {
						base := stripConv(resolveLocal(stripConv(fa.X)))
						if ex, isEx := base.(*ssa.Extract); isEx && ex.Index == 0 {
							base = ex.Tuple
						}
						if lk, isL := base.(*ssa.Lookup); isL && stripConv(resolveLocal(stripConv(lk.Index))) == ssa.Value(m.Params[1]) {
							ok = true
						}
					}
				}
			})
		}
		R.check(ok, "chat-mgr-shape", fname(m), P.pos(m.Pos()), "ranges over chats[id].ClientConn", "Members does not enumerate the connections stored for the requested chat")
	}
	if l := R.mustFn("(*hotline.MemChatManager).Leave"); l != nil {
		ok := false
		for _, ci := range callsIn(l) {
			c := ci.Common()
			if calleeName(c) == "builtin.delete" && stripConv(resolveLocal(stripConv(c.Args[1]))) == ssa.Value(l.Params[2]) {
				if f, isF := loadedField(c.Args[0]); isF && f == "hotline.PrivateChat.ClientConn" {
					ok = true
				}
			}
		}
		R.check(ok, "chat-mgr-shape", fname(l), P.pos(l.Pos()), "deletes clientID from chats[id].ClientConn", "Leave does not delete exactly the given client from the chat")
	}
	if j := R.mustFn("(*hotline.MemChatManager).Join"); j != nil {
		ok := false
		eachInstr(j, func(i ssa.Instruction) {
			if mu, isM := i.(*ssa.MapUpdate); isM && mu.Value == ssa.Value(j.Params[2]) {
				if f, isF := loadedField(mu.Key); isF && f == "hotline.ClientConn.ID" {
					ok = true
				}
			}
		})
		R.check(ok, "chat-mgr-shape", fname(j), P.pos(j.Pos()), "ClientConn[cc.ID] = cc", "Join does not store the connection under its own ID")
		// … on every path: a Join that returns without recording the member is confirmed to the client all the same
		// (the handler has no way to know), and the member then receives nothing
		if ok {
			every := true
			for _, ret := range returnsOf(j) {
				if len(ret.Block().Preds) == 0 && ret.Block() != j.Blocks[0] {
					continue
				}
				passed := mustPassBefore(j, ret, func(i ssa.Instruction) bool {
					mu, isM := i.(*ssa.MapUpdate)
					return isM && mu.Value == ssa.Value(j.Params[2])
				})
				if !passed {
					every = false
				}
			}
			R.check(every, "chat-mgr-shape", fname(j)+": every path", P.pos(j.Pos()), "no return before the member is recorded", "Join can return without having recorded the member (an early return for a chat it does not find): the join is confirmed to the client, who is a member for everybody but the manager and receives nothing")
		}
	}
	// a chat outlives its members: invitations refer to it by ID, and an invitee may join after everybody else has left
	{
		nDel := 0
		for _, fn := range P.Funcs {
			if fn.Signature.Recv() == nil || typeName(derefType(fn.Signature.Recv().Type())) != "hotline.MemChatManager" {
				continue
			}
			for _, f := range withAnons(fn) {
				for _, ci := range callsIn(f) {
					c := ci.Common()
					if calleeName(c) != "builtin.delete" || len(c.Args) == 0 {
						continue
					}
					if fl, isF := loadedField(stripConv(canon(stripConv(c.Args[0])))); isF && fl == "hotline.MemChatManager.chats" {
						nDel++
						R.bad("chat-mgr-shape", fmt.Sprintf("%s: delete from the chat registry #%d", fname(fn), nDel), P.ipos(ci), "a private chat is removed from the manager's registry: an invitation that is still outstanding then refers to nothing, and the invitee's join (which the handler confirms) is lost")
					}
				}
			}
		}
		if nDel == 0 {
			R.ok("chat-mgr-shape", "chat registry", "-", "no method of the chat manager removes a chat")
		}
	}
	R.floor("chat-mgr-shape", 3)
	R.rule("id-unique", "(shared with C13) chat members are addressed by client ID: no ID is handed to a second connection while registered, and the zero ID never")
	R.ruleIDUnique()
}

func stripConvArr(v ssa.Value) ssa.Value { return stripConv(v) }

// sameElem: two loads of the same loop element.
func sameElem(a, b ssa.Value) bool {
	if a == b {
		return true
	}
	ua, ok1 := stripConv(a).(*ssa.UnOp)
	ub, ok2 := stripConv(b).(*ssa.UnOp)
	return ok1 && ok2 && ua.X == ub.X
}

func init() { register("C12", checkC12) }

// derivesAll: on every value path (phi edges, conversions, slicing) v passes through a value satisfying pred.
func derivesAll(v ssa.Value, pred func(ssa.Value) bool) bool {
	return (*Prog)(nil).derivesAll(v, pred)
}

// (with a program: a parameter is followed to the argument of every call site of its function)
func (P *Prog) derivesAll(v ssa.Value, pred func(ssa.Value) bool) bool {
	seen := map[ssa.Value]bool{}
	var walk func(x ssa.Value) bool
	walk = func(x ssa.Value) bool {
		if seen[x] {
			return true
		}
		seen[x] = true
		if pred(x) {
			return true
		}
		switch y := x.(type) {
		case *ssa.Phi:
			for _, e := range y.Edges {
				if !walk(e) {
					return false
				}
			}
			return len(y.Edges) > 0
		case *ssa.Convert:
			return walk(y.X)
		case *ssa.ChangeType:
			return walk(y.X)
		case *ssa.MakeInterface:
			return walk(y.X)
		case *ssa.Slice:
			return walk(y.X)
		case *ssa.Call:
			// the result of a repo helper: every value it may return
			if P == nil {
				return false
			}
			h, ok := y.Call.Value.(*ssa.Function)
			if !ok || h.Blocks == nil || !P.isRepoPkg(pkgOf(h)) || h.Signature.Results().Len() != 1 {
				return false
			}
			rets := returnsOf(h)
			for _, r := range rets {
				if !walk(r.Results[0]) {
					return false
				}
			}
			return len(rets) > 0
		case *ssa.UnOp, *ssa.Field:
			// a local (struct) variable that only carries the value
			if r := resolveLocal(x); r != x {
				return walk(r)
			}
			return false
		case *ssa.Parameter:
			if P == nil || y.Parent() == nil {
				return false
			}
			idx := -1
			for i, q := range y.Parent().Params {
				if q == y {
					idx = i
				}
			}
			sites := P.callers[y.Parent()]
			for _, site := range sites {
				c := site.Common()
				if c.IsInvoke() || idx < 0 || idx >= len(c.Args) || !walk(c.Args[idx]) {
					return false
				}
			}
			return len(sites) > 0
		}
		return false
	}
	return walk(v)
}

func handlerFn(regs []HandlerReg, f *ssa.Function) bool {
	for _, r := range regs {
		if r.Fn == f {
			return true
		}
	}
	return false
}

// enumeratedMap: the map whose every element the instruction enumerates — a range over it, or maps.Values /
// maps.Keys / maps.All of it (iterator form, collected by slices.Collect / slices.Sorted…).
func enumeratedMap(i ssa.Instruction) ssa.Value {
	switch x := i.(type) {
	case *ssa.Range:
		if _, ok := x.X.Type().Underlying().(*types.Map); ok {
			return x.X
		}
	case *ssa.Call:
		switch calleeName(&x.Call) {
		case "maps.Values", "maps.Keys", "maps.All":
			if len(x.Call.Args) == 1 {
				return stripConv(x.Call.Args[0])
			}
		}
	}
	return nil
}
