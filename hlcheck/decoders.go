package main

// decoders.go — rules about how decoders may be used: no aliasing of reused scanner buffers (C01),
// accumulating decoders only on fresh values (C10/C01), one buffering reader per connection (C02).

import (
	"fmt"
	"go/token"
	"go/types"
	"strings"

	"golang.org/x/tools/go/ssa"
)

// aliasingDecoders: decoder methods (Write / UnmarshalBinary with a []byte parameter) that keep a sub-slice of
// their input in a receiver field instead of copying it.
func (P *Prog) aliasingDecoders() map[*ssa.Function]string {
	out := map[*ssa.Function]string{}
	for _, fn := range P.Funcs {
		n := fn.Name()
		if (n != "Write" && n != "UnmarshalBinary") || fn.Signature.Recv() == nil || len(fn.Params) != 2 || typeName(fn.Params[1].Type()) != "[]byte" {
			continue
		}
		p := fn.Params[1]
		eachInstr(fn, func(ins ssa.Instruction) {
			st, ok := ins.(*ssa.Store)
			if !ok {
				return
			}
			fa, ok := st.Addr.(*ssa.FieldAddr)
			if !ok {
				return
			}
			if _, isSlice := st.Val.Type().Underlying().(*types.Slice); !isSlice {
				return
			}
			// value is p or a re-slicing of p (shares p's backing array)
			v := st.Val
			for {
				if sl, ok := v.(*ssa.Slice); ok {
					v = sl.X
					continue
				}
				break
			}
			if v == ssa.Value(p) {
				f, _ := fieldOf(fa)
				out[fn] = f
			}
		})
	}
	return out
}

// appendingDecoders: decoder methods that append to a receiver field (their result depends on what the
// receiver already holds).
func (P *Prog) appendingDecoders() map[*ssa.Function]string {
	out := map[*ssa.Function]string{}
	for _, fn := range P.Funcs {
		n := fn.Name()
		if (n != "Write" && n != "UnmarshalBinary" && n != "ReadFrom") || fn.Signature.Recv() == nil || len(fn.Params) < 2 {
			continue
		}
		recv := fn.Params[0]
		eachInstr(fn, func(ins ssa.Instruction) {
			st, ok := ins.(*ssa.Store)
			if !ok {
				return
			}
			fa, ok := st.Addr.(*ssa.FieldAddr)
			if !ok || fa.X != ssa.Value(recv) {
				return
			}
			c, ok := st.Val.(*ssa.Call)
			if !ok || calleeName(&c.Call) != "builtin.append" {
				return
			}
			// append(<load of the same field>, …)
			if f, ok := loadedField(c.Call.Args[0]); ok {
				if g, _ := fieldOf(fa); g == f {
					out[fn] = f
				}
			}
		})
	}
	return out
}

func (R *Run) ruleDecoderAlias() {
	P := R.P
	alias := P.aliasingDecoders()
	n := 0
	for _, fn := range P.Funcs {
		if isClientLibrary(fn) {
			continue
		}
		for _, ci := range callsIn(fn) {
			c := ci.Common()
			cal, ok := c.Value.(*ssa.Function)
			if !ok || len(c.Args) != 2 {
				continue
			}
			name := cal.Name()
			if (name != "Write" && name != "UnmarshalBinary") || cal.Signature.Recv() == nil || typeName(c.Args[1].Type()) != "[]byte" {
				continue
			}
			tok := callValue(c.Args[1])
			if tok == nil || calleeName(&tok.Call) != "(*bufio.Scanner).Bytes" {
				continue
			}
			n++
			R.analysed(fname(fn))
			field, aliases := alias[cal]
			R.check(!aliases, "decoder-alias", fmt.Sprintf("%s: %s(scanner.Bytes()) #%d", fname(fn), fname(cal), nCreateIn(fn, ci)), P.ipos(ci),
				"the decoder copies what it keeps",
				fmt.Sprintf("%s is handed the scanner's internal buffer (scanner.Bytes(), overwritten by the next Scan / buffer refill) and keeps a sub-slice of it in %s without copying: fields decoded earlier are overwritten when the scanner's buffer is compacted (payloads over 4 KiB)", fname(cal), field))
		}
	}
	if n < 2 {
		R.bad("decoder-alias", "scanner-token decode sites", "-", fmt.Sprintf("%d sites decode a scanner token directly, 2 were confirmed on the reference tree", n))
	}
}

func (R *Run) ruleFreshDecoder(only func(fn *ssa.Function) bool) {
	P := R.P
	app := P.appendingDecoders()
	n := 0
	for _, fn := range P.Funcs {
		if isClientLibrary(fn) || (only != nil && !only(fn)) {
			continue
		}
		for _, ci := range callsIn(fn) {
			c := ci.Common()
			cal, ok := c.Value.(*ssa.Function)
			if !ok {
				continue
			}
			field, isApp := app[cal]
			if !isApp {
				continue
			}
			n++
			R.analysed(fname(fn))
			recv := c.Args[0]
			root, _ := addrPath(recv)
			construct := fmt.Sprintf("%s: %s #%d", fname(fn), fname(cal), nCreateIn(fn, ci))
			a, isAlloc := root.(*ssa.Alloc)
			switch {
			case !isAlloc:
				R.bad("fresh-decoder", construct, P.ipos(ci), fmt.Sprintf("%s appends to %s, so it must decode into a fresh value; here it decodes into %s, which outlives this decode (a captured or shared variable): the second decode keeps the first one's entries in front", fname(cal), field, P.sym(root)))
			case a.Parent() != fn:
				R.bad("fresh-decoder", construct, P.ipos(ci), fmt.Sprintf("%s appends to %s but decodes into a variable of the enclosing function, reused by every invocation", fname(cal), field))
			default:
				// inside a loop the variable must be re-created on every iteration
				again := reachesWithout(ci.Block(), instrIndex(ci.(ssa.Instruction))+1, ci.(ssa.Instruction), a)
				R.check(!again, "fresh-decoder", construct, P.ipos(ci), "decodes into a value created for this decode", fmt.Sprintf("%s appends to %s but the variable it decodes into is created outside the loop that repeats the decode", fname(cal), field))
			}
		}
	}
	if n == 0 {
		R.bad("fresh-decoder", "call sites of appending decoders", "-", "none found")
	}
}

// ruleSingleBufferedReader (C02): per connection entry point, at most one buffering reader (bufio.Scanner /
// bufio.Reader) may wrap the connection, and nothing reads the raw connection once it exists.
func (R *Run) ruleSingleBufferedReader() {
	P := R.P
	for _, entry := range []string{"(*hotline.Server).handleNewConnection", "(*hotline.Server).handleFileTransfer"} {
		fn := R.mustFn(entry)
		if fn == nil {
			continue
		}
		var conn ssa.Value
		for _, p := range fn.Params {
			if strings.HasPrefix(typeName(p.Type()), "io.Read") {
				conn = p
			}
		}
		if conn == nil {
			R.und("single-buffered-reader", entry, P.pos(fn.Pos()), "no connection parameter found")
			continue
		}
		type wrap struct {
			pos  string
			ins  ssa.Instruction // instruction in the entry function through which it happens
			desc string
		}
		var wraps []wrap
		var rawReads []wrap
		var walk func(f *ssa.Function, connVal ssa.Value, via ssa.Instruction, depth int)
		walk = func(f *ssa.Function, connVal ssa.Value, via ssa.Instruction, depth int) {
			if depth > 3 {
				return
			}
			// the connection seen through io.LimitReader / io.TeeReader is still the connection
			alias := map[ssa.Value]bool{connVal: true}
			for changed := true; changed; {
				changed = false
				for _, ci := range callsIn(f) {
					c := ci.Common()
					if n := calleeName(c); (n == "io.LimitReader" || n == "io.TeeReader") && len(c.Args) > 0 && alias[stripConv(c.Args[0])] {
						if v, ok := ci.(ssa.Value); ok && !alias[v] {
							alias[v] = true
							changed = true
						}
					}
				}
			}
			for _, ci := range callsIn(f) {
				c := ci.Common()
				top := via
				if top == nil {
					top = ci.(ssa.Instruction)
				}
				uses := false
				argIdx := -1
				for i, a := range c.Args {
					if alias[stripConv(a)] {
						uses = true
						argIdx = i
					}
				}
				if c.IsInvoke() && alias[stripConv(c.Value)] {
					if c.Method.Name() == "Read" {
						rawReads = append(rawReads, wrap{P.ipos(ci), top, "Read"})
					}
					continue
				}
				if !uses {
					continue
				}
				switch n := calleeName(c); n {
				case "bufio.NewScanner", "bufio.NewReader", "bufio.NewReaderSize":
					wraps = append(wraps, wrap{P.ipos(ci), top, n})
				case "io.ReadFull", "io.ReadAtLeast", "encoding/binary.Read", "io.ReadAll":
					if argIdx == 0 {
						rawReads = append(rawReads, wrap{P.ipos(ci), top, n})
					}
				case "io.Copy", "io.CopyN", "io.TeeReader", "io.LimitReader":
					if (n == "io.TeeReader" || n == "io.LimitReader") && argIdx == 0 || (n != "io.TeeReader" && n != "io.LimitReader") && argIdx == 1 {
						rawReads = append(rawReads, wrap{P.ipos(ci), top, n})
					}
				default:
					for _, cal := range P.callees(ci) {
						if argIdx < len(cal.Params) {
							walk(cal, cal.Params[argIdx], top, depth+1)
						}
					}
				}
			}
			// a buffering reader created inside a function literal of f that captures the connection (an iterator, a
			// deferred step): it is created anew every time the literal runs
			for _, af := range f.AnonFuncs {
				var mc *ssa.MakeClosure
				eachInstr(f, func(ins ssa.Instruction) {
					if m, ok := ins.(*ssa.MakeClosure); ok && m.Fn == ssa.Value(af) {
						mc = m
					}
				})
				if mc == nil {
					continue
				}
				inner := map[ssa.Value]bool{}
				for i, b := range mc.Bindings {
					if i >= len(af.FreeVars) {
						continue
					}
					bound := false
					if alias[stripConv(b)] {
						bound = true
					} else if al, isA := b.(*ssa.Alloc); isA {
						if v, single := singleStore(al); single && alias[stripConv(v)] {
							bound = true
						}
					}
					if !bound {
						continue
					}
					fv := af.FreeVars[i]
					inner[fv] = true
					if fv.Referrers() != nil {
						for _, r := range *fv.Referrers() {
							if u, isU := r.(*ssa.UnOp); isU && u.Op == token.MUL {
								inner[u] = true
							}
						}
					}
				}
				if len(inner) == 0 {
					continue
				}
				for _, ci := range callsIn(af) {
					c := ci.Common()
					n := calleeName(c)
					if n != "bufio.NewScanner" && n != "bufio.NewReader" && n != "bufio.NewReaderSize" || len(c.Args) == 0 || !inner[stripConv(c.Args[0])] {
						continue
					}
					// how often can the literal run? once if its value (or the result of the helper that returns it) has one use
					var holder ssa.Value = mc
					top := via
					if via != nil {
						if v, ok := via.(ssa.Value); ok {
							holder = v
						}
					} else {
						top = mc
					}
					uses := 0
					if holder.Referrers() != nil {
						for _, r := range *holder.Referrers() {
							if _, dbg := r.(*ssa.DebugRef); !dbg {
								uses++
							}
						}
					}
					// … or the value travels through variables and is called (ranged over) at more than one place
					dyn := 0
					for _, g := range withAnons(rootFn(f)) {
						for _, cj := range callsIn(g) {
							cc := cj.Common()
							if cc.IsInvoke() || cc.StaticCallee() != nil {
								continue
							}
							if _, isB := cc.Value.(*ssa.Builtin); isB {
								continue
							}
							if sg, ok := cc.Value.Type().Underlying().(*types.Signature); ok && types.Identical(sg, af.Signature) {
								dyn++
							}
						}
					}
					if dyn > 1 && uses <= 1 {
						uses = dyn
					}
					wraps = append(wraps, wrap{P.ipos(ci), top, n + " inside a function literal"})
					if uses > 1 {
						wraps = append(wraps, wrap{P.ipos(ci), top, n + " inside a function literal that is used more than once (a new reader each time it runs)"})
					}
				}
			}
		}
		walk(fn, conn, nil, 0)
		R.analysed(entry)
		var problems []string
		if len(wraps) > 1 {
			var ps []string
			for _, w := range wraps {
				ps = append(ps, w.desc+" at "+w.pos)
			}
			problems = append(problems, "the connection is wrapped by more than one buffering reader ("+strings.Join(ps, ", ")+"): bytes that arrived in the same read as one message and were buffered by the first are lost to the second")
		}
		if len(wraps) >= 1 {
			first := wraps[0]
			for _, r := range rawReads {
				if r.ins != first.ins && instrDominates(first.ins, r.ins) {
					problems = append(problems, fmt.Sprintf("%s at %s reads the raw connection after the buffering reader created at %s may already have consumed those bytes", r.desc, r.pos, first.pos))
				}
			}
		}
		R.check(len(problems) == 0, "single-buffered-reader", entry, P.pos(fn.Pos()), fmt.Sprintf("%d buffering reader(s), %d raw reads before it", len(wraps), len(rawReads)), strings.Join(problems, "; "))
	}
}
