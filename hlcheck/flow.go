package main

// flow.go — E-flow: backward provenance over SSA def-use chains (store→load forwarding on local
// cells, field-based abstraction across functions, parameters to call sites, closures to bindings),
// and a forward "reaches" query.

import (
	"fmt"
	"go/ast"
	"go/constant"
	"go/token"
	"go/types"

	"golang.org/x/tools/go/ssa"
)

type Flow struct {
	seenCell map[string]bool
	P        *Prog
	// Inter: follow parameters to the arguments at every call site, free variables to closure
	// bindings, loads of struct fields to every store to that (type, field) in the repository, and calls to
	// repo functions into their returned values.
	Inter bool
	// NoFieldStores: with Inter, do not follow loads of struct fields to the stores of that field elsewhere.
	NoFieldStores bool
	// Visit is called for every value reached; returning false stops the descent below that value.
	Visit func(v ssa.Value) bool
	// Call decides what to follow below a call (nil = nothing for non-repo callees).
	// It returns the values to continue with and whether the call was handled; unhandled calls to repo
	// functions are followed into their results when Inter is set.
	Call func(c *ssa.Call, resultIdx int) (follow []ssa.Value, handled bool)

	seen map[ssa.Value]bool
}

func (F *Flow) Back(v ssa.Value) {
	if F.seen == nil {
		F.seen = map[ssa.Value]bool{}
	}
	F.back(v, -1)
}

func rootCell(addr ssa.Value) ssa.Value {
	for {
		switch x := addr.(type) {
		case *ssa.FieldAddr:
			addr = x.X
		case *ssa.IndexAddr:
			addr = x.X
		case *ssa.Slice:
			addr = x.X
		case *ssa.ChangeType:
			addr = x.X
		case *ssa.Convert:
			addr = x.X
		default:
			return addr
		}
	}
}

// sameFieldPath: two addresses denote the same sub-cell of a local root (field indices equal, any index).
func addrPath(addr ssa.Value) (root ssa.Value, path []int) {
	for {
		switch x := addr.(type) {
		case *ssa.FieldAddr:
			path = append([]int{x.Field}, path...)
			addr = x.X
		case *ssa.IndexAddr:
			path = append([]int{-1}, path...)
			addr = x.X
		default:
			return addr, path
		}
	}
}

func pathPrefixCompatible(a, b []int) bool {
	n := len(a)
	if len(b) < n {
		n = len(b)
	}
	for i := 0; i < n; i++ {
		if a[i] != b[i] && a[i] != -1 && b[i] != -1 {
			return false
		}
	}
	return true
}

func (F *Flow) back(v ssa.Value, resIdx int) {
	if v == nil {
		return
	}
	if resIdx < 0 {
		if F.seen[v] {
			return
		}
		F.seen[v] = true
	}
	if F.Visit != nil && !F.Visit(v) {
		return
	}
	switch x := v.(type) {
	case *ssa.Phi:
		for _, e := range x.Edges {
			F.back(e, -1)
		}
	case *ssa.ChangeType:
		F.back(x.X, -1)
	case *ssa.Convert:
		F.back(x.X, -1)
	case *ssa.MakeInterface:
		F.back(x.X, -1)
	case *ssa.ChangeInterface:
		F.back(x.X, -1)
	case *ssa.TypeAssert:
		F.back(x.X, -1)
	case *ssa.SliceToArrayPointer:
		F.back(x.X, -1)
	case *ssa.Slice:
		F.back(x.X, -1)
	case *ssa.Field:
		F.back(x.X, -1)
	case *ssa.Index:
		F.back(x.X, -1)
	case *ssa.Lookup:
		F.back(x.X, -1)
	case *ssa.Extract:
		if c, ok := x.Tuple.(*ssa.Call); ok {
			F.backCall(c, x.Index)
		} else {
			F.back(x.Tuple, -1)
		}
	case *ssa.BinOp:
		F.back(x.X, -1)
		F.back(x.Y, -1)
	case *ssa.UnOp:
		if x.Op == token.MUL {
			F.backLoad(x)
		} else {
			F.back(x.X, -1)
		}
	case *ssa.Call:
		F.backCall(x, 0)
	case *ssa.Alloc:
		// value of an address: everything stored into the cell
		F.backCell(x, nil, x.Parent())
	case *ssa.FieldAddr, *ssa.IndexAddr:
		// let the visitor see the intermediate addresses of a chain such as &x.A.B[i]
		for inner := v; ; {
			var next ssa.Value
			switch y := inner.(type) {
			case *ssa.FieldAddr:
				next = y.X
			case *ssa.IndexAddr:
				next = y.X
			}
			if next == nil {
				break
			}
			switch next.(type) {
			case *ssa.FieldAddr, *ssa.IndexAddr:
				if F.Visit != nil && !F.seen[next] {
					F.seen[next] = true
					if !F.Visit(next) {
						return
					}
				}
			}
			inner = next
		}
		root, path := addrPath(v)
		if a, ok := root.(*ssa.Alloc); ok {
			F.backCell(a, path, a.Parent())
		} else {
			F.back(root, -1)
			if fa, ok := v.(*ssa.FieldAddr); ok && F.Inter && !F.NoFieldStores {
				F.backFieldStores(fa)
			}
		}
	case *ssa.MakeClosure:
		for _, b := range x.Bindings {
			F.back(b, -1)
		}
	case *ssa.Parameter:
		if F.Inter {
			F.backParam(x)
		}
	case *ssa.FreeVar:
		if F.Inter {
			F.backFreeVar(x)
		}
	case *ssa.Next:
		F.back(x.Iter, -1)
	case *ssa.Range:
		F.back(x.X, -1)
	}
}

func (F *Flow) backLoad(u *ssa.UnOp) {
	addr := u.X
	root, path := addrPath(addr)
	switch r := root.(type) {
	case *ssa.Alloc:
		if F.Visit != nil && !F.Visit(r) {
			return
		}
		F.backCell(r, path, r.Parent())
		return
	case *ssa.Global:
		F.back(r, -1)
		return
	}
	// load through a pointer that is not a local cell
	if fa, ok := addr.(*ssa.FieldAddr); ok {
		F.back(fa, -1) // lets the visitor see the FieldAddr (field-based sources)
		return
	}
	F.back(addr, -1)
}

// backCell follows every store into the local cell (alloc) at a compatible sub-path, including stores made
// through closures that capture the cell.
func (F *Flow) backCell(a *ssa.Alloc, path []int, fn *ssa.Function) {
	if fn == nil {
		return
	}
	for _, f := range withAnons(fn) {
		eachInstr(f, func(ins ssa.Instruction) {
			switch s := ins.(type) {
			case *ssa.Store:
				root, p := addrPath(s.Addr)
				if F.sameCell(root, a) && pathPrefixCompatible(p, path) {
					// a struct copied whole from another local cell: the part asked for is that part of the source
					if len(p) < len(path) {
						if ld, ok := s.Val.(*ssa.UnOp); ok && ld.Op == token.MUL {
							if r2, p2 := addrPath(ld.X); r2 != nil {
								if b, ok := r2.(*ssa.Alloc); ok {
									full := append(append([]int{}, p2...), path[len(p):]...)
									key := fmt.Sprint(b.Name(), b.Pos(), full)
									if F.seenCell == nil {
										F.seenCell = map[string]bool{}
									}
									if !F.seenCell[key] {
										F.seenCell[key] = true
										if F.Visit == nil || F.Visit(ld) {
											F.backCell(b, full, b.Parent())
										}
									}
									return
								}
							}
						}
					}
					F.back(s.Val, -1)
				}
			case ssa.CallInstruction:
				// calls that fill a buffer / struct through a pointer to the cell are reported to the visitor via Call
				if c, ok := ins.(*ssa.Call); ok && F.Call != nil {
					for _, arg := range c.Call.Args {
						root, ap := addrPath(stripSlice(arg))
						// (a pointer to another field of the struct cannot write the part asked for)
						if F.sameCell(root, a) && pathPrefixCompatible(ap, path) {
							if follow, handled := F.Call(c, -2); handled {
								for _, x := range follow {
									F.back(x, -1)
								}
							}
						}
					}
				}
			}
		})
	}
}

func stripSlice(v ssa.Value) ssa.Value {
	for {
		switch x := v.(type) {
		case *ssa.Slice:
			v = x.X
		case *ssa.ChangeType:
			v = x.X
		case *ssa.MakeInterface:
			v = x.X
		default:
			return v
		}
	}
}

// sameCell: root is the alloc itself or a free variable / load bound to it.
func (F *Flow) sameCell(root ssa.Value, a *ssa.Alloc) bool {
	if root == a {
		return true
	}
	if fv, ok := root.(*ssa.FreeVar); ok {
		// find binding in parent closures
		fn := fv.Parent()
		idx := -1
		for i, x := range fn.FreeVars {
			if x == fv {
				idx = i
			}
		}
		if idx < 0 || fn.Parent() == nil {
			return false
		}
		found := false
		for _, pf := range withAnons(rootFn(fn)) {
			eachInstr(pf, func(ins ssa.Instruction) {
				if mc, ok := ins.(*ssa.MakeClosure); ok && mc.Fn == fn && idx < len(mc.Bindings) {
					if F.sameCell(mc.Bindings[idx], a) {
						found = true
					}
				}
			})
		}
		return found
	}
	return false
}

func rootFn(fn *ssa.Function) *ssa.Function {
	for fn.Parent() != nil {
		fn = fn.Parent()
	}
	return fn
}

func (F *Flow) backCall(c *ssa.Call, idx int) {
	if F.Call != nil {
		if follow, handled := F.Call(c, idx); handled {
			for _, x := range follow {
				F.back(x, -1)
			}
			return
		}
	}
	if !F.Inter {
		return
	}
	for _, callee := range F.P.callees(c) {
		for _, r := range returnsOf(callee) {
			if idx < len(r.Results) {
				F.back(r.Results[idx], -1)
			}
		}
	}
}

func (F *Flow) backParam(p *ssa.Parameter) {
	fn := p.Parent()
	idx := -1
	for i, x := range fn.Params {
		if x == p {
			idx = i
		}
	}
	if idx < 0 {
		return
	}
	for _, ci := range F.P.callers[fn] {
		c := ci.Common()
		args := c.Args
		if c.IsInvoke() {
			// receiver is c.Value, params shift by one
			if idx == 0 {
				F.back(c.Value, -1)
				continue
			}
			if idx-1 < len(args) {
				F.back(args[idx-1], -1)
			}
			continue
		}
		if idx < len(args) {
			F.back(args[idx], -1)
		}
	}
}

func (F *Flow) backFreeVar(fv *ssa.FreeVar) {
	fn := fv.Parent()
	idx := -1
	for i, x := range fn.FreeVars {
		if x == fv {
			idx = i
		}
	}
	if idx < 0 || fn.Parent() == nil {
		return
	}
	for _, pf := range withAnons(rootFn(fn)) {
		eachInstr(pf, func(ins ssa.Instruction) {
			if mc, ok := ins.(*ssa.MakeClosure); ok && mc.Fn == fn && idx < len(mc.Bindings) {
				F.back(mc.Bindings[idx], -1)
			}
		})
	}
}

// backFieldStores: field-based abstraction — every store to the same (struct type, field) anywhere in the repo.
func (F *Flow) backFieldStores(fa *ssa.FieldAddr) {
	key, _ := fieldOf(fa)
	for _, s := range F.P.fieldStores()[key] {
		F.back(s.Val, -1)
	}
}

var fieldStoreIdx map[*Prog]map[string][]*ssa.Store

func (P *Prog) fieldStores() map[string][]*ssa.Store {
	if fieldStoreIdx == nil {
		fieldStoreIdx = map[*Prog]map[string][]*ssa.Store{}
	}
	if m, ok := fieldStoreIdx[P]; ok {
		return m
	}
	m := map[string][]*ssa.Store{}
	for _, fn := range P.Funcs {
		eachInstr(fn, func(ins ssa.Instruction) {
			if s, ok := ins.(*ssa.Store); ok {
				if fa, ok := s.Addr.(*ssa.FieldAddr); ok {
					k, _ := fieldOf(fa)
					m[k] = append(m[k], s)
				}
			}
		})
	}
	fieldStoreIdx[P] = m
	return m
}

// ---------------------------------------------------------------------------------------------
// forward reachability of a value (within one function and its closures): does v (or something
// computed from it) reach an instruction satisfying sink?

func forwardReaches(v ssa.Value, sink func(user ssa.Instruction, operand ssa.Value) bool) (bool, ssa.Instruction) {
	seen := map[ssa.Value]bool{}
	var hit ssa.Instruction
	var walk func(x ssa.Value) bool
	walk = func(x ssa.Value) bool {
		if x == nil || seen[x] {
			return false
		}
		seen[x] = true
		refs := x.Referrers()
		if refs == nil {
			return false
		}
		for _, r := range *refs {
			if sink(r, x) {
				hit = r
				return true
			}
			switch u := r.(type) {
			case *ssa.Store:
				if u.Val == x {
					// flows into the cell: continue from the cell's root (loads of it)
					root := rootCell(u.Addr)
					if walk(root) {
						return true
					}
				}
			case *ssa.If, *ssa.Return, *ssa.Jump:
			case ssa.Value:
				if _, isCall := u.(*ssa.Call); isCall {
					// a call consuming x: result may carry x only for known pure wrappers; be conservative and follow
					if walk(u) {
						return true
					}
					continue
				}
				if walk(u) {
					return true
				}
			case *ssa.MapUpdate:
				if walk(u.Map) {
					return true
				}
			}
		}
		return false
	}
	ok := walk(v)
	return ok, hit
}

// ---------------------------------------------------------------------------------------------
// constants of package-level [N]byte variables (Tran*, Field*, NewsCategory ...) from the AST

func (P *Prog) globalBytes(pkgPath, name string) ([]byte, bool) {
	for _, p := range P.Pkgs {
		if p.PkgPath != pkgPath {
			continue
		}
		for _, f := range p.Syntax {
			for _, d := range f.Decls {
				gd, ok := d.(*ast.GenDecl)
				if !ok || gd.Tok != token.VAR {
					continue
				}
				for _, s := range gd.Specs {
					vs := s.(*ast.ValueSpec)
					for i, n := range vs.Names {
						if n.Name != name || i >= len(vs.Values) {
							continue
						}
						cl, ok := vs.Values[i].(*ast.CompositeLit)
						if !ok {
							return nil, false
						}
						var out []byte
						for _, e := range cl.Elts {
							tv, ok := p.TypesInfo.Types[e]
							if !ok || tv.Value == nil {
								return nil, false
							}
							iv, ok := constant.Int64Val(tv.Value)
							if !ok {
								return nil, false
							}
							out = append(out, byte(iv))
						}
						return out, true
					}
				}
			}
		}
	}
	return nil, false
}

// bytesOf resolves a [N]byte / []byte value to constant bytes: a load of a package-level variable with a
// literal initialiser, or a load of a local composite literal whose elements are constants.
func (P *Prog) bytesOf(v ssa.Value) ([]byte, bool) {
	v = stripConv(v)
	if s, ok := v.(*ssa.Slice); ok {
		if a, ok := s.X.(*ssa.Alloc); ok {
			return P.allocBytes(a)
		}
		v = s.X
	}
	u, ok := v.(*ssa.UnOp)
	if ok && u.Op == token.MUL {
		switch x := u.X.(type) {
		case *ssa.Global:
			if x.Pkg == nil {
				return nil, false
			}
			return P.globalBytes(x.Pkg.Pkg.Path(), x.Name())
		case *ssa.Alloc:
			return P.allocBytes(x)
		}
	}
	if c, ok := v.(*ssa.Const); ok {
		// zero value of an array type
		if arr, ok := c.Type().Underlying().(*types.Array); ok && c.Value == nil {
			return make([]byte, arr.Len()), true
		}
	}
	return nil, false
}

func (P *Prog) allocBytes(a *ssa.Alloc) ([]byte, bool) {
	arr, ok := derefType(a.Type()).Underlying().(*types.Array)
	if !ok {
		return nil, false
	}
	out := make([]byte, arr.Len())
	refs := a.Referrers()
	if refs == nil {
		return nil, false
	}
	for _, r := range *refs {
		switch x := r.(type) {
		case *ssa.IndexAddr:
			idx, ok := constInt(x.Index)
			if !ok || idx < 0 || idx >= arr.Len() {
				return nil, false
			}
			for _, rr := range *x.Referrers() {
				if st, ok := rr.(*ssa.Store); ok && st.Addr == x {
					cv, ok := constInt(st.Val)
					if !ok {
						return nil, false
					}
					out[idx] = byte(cv)
				}
			}
		case *ssa.UnOp, *ssa.Slice, *ssa.DebugRef:
		case *ssa.Store:
			if x.Addr == a {
				return nil, false
			}
		default:
			return nil, false
		}
	}
	return out, true
}

// resolveLocal looks through local struct variables that merely carry a value from where it was produced to where it
// is used: v = load of field f of a local struct (or of a local variable) that is written exactly once for that
// field — by a field store, or by a copy of a whole struct from another such local — and whose address is not handed
// to anything. The result is the value that was stored (resolved in turn); v itself when it is not of that form.
func resolveLocal(v ssa.Value) ssa.Value {
	for depth := 0; depth < 8; depth++ {
		// a field taken out of a struct value that was read whole from such a local
		if fx, isF := v.(*ssa.Field); isF {
			if whole, isLd := fx.X.(*ssa.UnOp); isLd && whole.Op == token.MUL {
				if cell, isA := whole.X.(*ssa.Alloc); isA {
					if next := localFieldSource(cell, fx.Field, 0); next != nil {
						v = next
						continue
					}
				}
			}
			return v
		}
		ld, ok := v.(*ssa.UnOp)
		if !ok || ld.Op != token.MUL {
			return v
		}
		var cell *ssa.Alloc
		field := -1
		switch a := ld.X.(type) {
		case *ssa.Alloc:
			cell = a
		case *ssa.FieldAddr:
			cell, _ = a.X.(*ssa.Alloc)
			field = a.Field
		case *ssa.IndexAddr:
			// an element of a local array at a constant index: like a field
			if k, isK := constInt(a.Index); isK && k >= 0 {
				if al, isA := a.X.(*ssa.Alloc); isA {
					if _, isArr := al.Type().Underlying().(*types.Pointer).Elem().Underlying().(*types.Array); isArr {
						cell, field = al, int(k)
					}
				}
			}
		}
		if cell == nil {
			return v
		}
		next := localFieldSource(cell, field, 0)
		if next == nil {
			return v
		}
		v = next
	}
	return v
}

// localFieldSource: the single value stored into field `field` of the local cell (-1: the cell itself), following
// whole-struct copies from other local cells; nil when there is not exactly one, or the cell's address escapes.
func localFieldSource(cell *ssa.Alloc, field int, depth int) ssa.Value {
	if depth > 6 {
		return nil
	}
	var src ssa.Value
	n := 0
	for _, r := range *cell.Referrers() {
		switch x := r.(type) {
		case *ssa.Store:
			if x.Addr != ssa.Value(cell) {
				return nil // the address itself is stored somewhere
			}
			n++
			if field < 0 {
				src = x.Val
				continue
			}
			// a whole-struct store: the field comes from the same field of the source
			switch y := x.Val.(type) {
			case *ssa.UnOp:
				if b, ok := y.X.(*ssa.Alloc); ok && y.Op == token.MUL {
					s2 := localFieldSource(b, field, depth+1)
					if n > 1 && s2 != nil && s2 == src {
						// the same struct handed over on several paths (`return req, err` / `return req, nil`)
						n--
						continue
					}
					src = s2
					continue
				}
			case *ssa.Phi:
				// the same local struct read on several paths (`return req, err` / `return req, nil` of an expanded helper)
				var b *ssa.Alloc
				same := len(y.Edges) > 0
				for _, e := range y.Edges {
					ld, isLd := e.(*ssa.UnOp)
					if !isLd || ld.Op != token.MUL {
						same = false
						break
					}
					a2, isA := ld.X.(*ssa.Alloc)
					if !isA || b != nil && a2 != b {
						same = false
						break
					}
					b = a2
				}
				if same && b != nil {
					src = localFieldSource(b, field, depth+1)
					continue
				}
			case *ssa.Call:
				_ = y
			}
			return nil
		case *ssa.IndexAddr:
			// an array cell: elements at constant indices are like fields; a write through a computed index may be any
			k, isK := constInt(x.Index)
			for _, rr := range *x.Referrers() {
				switch z := rr.(type) {
				case *ssa.Store:
					if z.Addr != ssa.Value(x) || !isK {
						return nil
					}
					if int(k) == field {
						n++
						src = z.Val
					}
				case *ssa.UnOp, *ssa.DebugRef:
				default:
					if !isK || int(k) == field || field < 0 {
						return nil
					}
				}
			}
		case *ssa.FieldAddr:
			for _, rr := range *x.Referrers() {
				switch z := rr.(type) {
				case *ssa.Store:
					if z.Addr != ssa.Value(x) {
						return nil
					}
					if x.Field == field {
						n++
						src = z.Val
					}
				case *ssa.UnOp, *ssa.DebugRef:
				case *ssa.Slice, *ssa.IndexAddr, *ssa.FieldAddr:
					if x.Field == field {
						return nil // the field is an aggregate that is accessed in parts
					}
				default:
					if x.Field == field || field < 0 {
						return nil
					}
					if _, isCall := rr.(ssa.CallInstruction); isCall {
						// the address of another field handed out: that call cannot write this field
						continue
					}
					return nil
				}
			}
		case *ssa.UnOp, *ssa.DebugRef:
		default:
			return nil
		}
	}
	if n != 1 {
		return nil
	}
	return src
}
