#!/bin/bash
# Builds the analyser from the sources in /verif/hlcheck, offline, and warms the Go build cache for /repo.
set -e
export GOFLAGS=-mod=mod GOPROXY=off GOSUMDB=off GOTOOLCHAIN=local GOWORK=off
cd "$(dirname "$0")"
mkdir -p bin evidence
(cd hlcheck && go build -o ../bin/hlcheck .)
# warm the cache go/packages needs (export data of the dependencies); failure here is not fatal
(cd /repo && go build ./... >/dev/null 2>&1) || true
echo "setup ok: $(./bin/hlcheck -list | wc -l) properties"
