package main

// c17.go — C17: disconnects and bans are enforced at the door.

import (
	"fmt"
	"go/constant"
	"go/token"
	"go/types"
	"sort"
	"strings"

	"golang.org/x/tools/go/ssa"
)

func checkC17(R *Run) {
	P := R.P
	R.rule("ban-gate", "in the login sequence BanMgr.IsBanned is evaluated after the handshake succeeded and before any login processing (Scan, Transaction.Write, Authenticate, registration); on the edges 'banned ∧ until == nil' and 'banned ∧ now.Before(until)' no login processing is reachable; on the edges 'not banned' and 'banned ∧ ¬now.Before(until)' (expired) it is")
	R.rule("ban-key-agree", "the key looked up by IsBanned and every key passed to BanMgr.Add are the same function strings.Split(addr, \":\")[0] of the connection's remote address (the address given to the login sequence is the one stored in ClientConn.RemoteAddr), and the address banned is that of the connection being disconnected")
	R.rule("ban-duration", "BanDuration folds to 30 minutes; ban option 1 stores now+BanDuration, option 2 stores no expiry (nil)")
	R.rule("ban-persist", "BanFile.Add inserts into the list, marshals that list and reaches a success return only through a write/rename onto the file that Load (called by NewBanFile) reads; IsBanned returns (true, stored expiry) exactly for present keys")
	R.rule("disconnect-effect", "the disconnect-user handler starts the target's Disconnect on every path that passed the privilege and protection tests; Disconnect removes the registry entry, notifies the others with the user's ID and closes the connection on every path")

	fn := R.mustFn("(*hotline.Server).handleNewConnection")
	if fn != nil {
		R.analysed(fname(fn))
		var isBanned *ssa.Call
		for _, ci := range callsIn(fn) {
			if calleeName(ci.Common()) == "(hotline.BanMgr).IsBanned" {
				isBanned, _ = ci.(*ssa.Call)
			}
		}
		if isBanned == nil {
			R.bad("ban-gate", fname(fn)+": IsBanned", P.pos(fn.Pos()), "the login sequence no longer consults BanMgr.IsBanned")
		} else {
			// atoms
			type atomFn func(f Fact) (string, bool, bool)
			atom := func(f Fact) (string, bool, bool) {
				switch f.Kind {
				case "truth":
					if e, ok := f.V.(*ssa.Extract); ok && e.Tuple == ssa.Value(isBanned) && e.Index == 0 {
						return "BANNED", f.Holds, true
					}
					if c, ok := f.V.(*ssa.Call); ok {
						n := calleeName(&c.Call)
						if (n == "(time.Time).Before" || n == "(time.Time).After") && len(c.Call.Args) == 2 {
							isNow := func(v ssa.Value) bool {
								cv := callValue(v)
								return cv != nil && calleeName(&cv.Call) == "time.Now"
							}
							isUntil := func(v ssa.Value) bool {
								u, ok := v.(*ssa.UnOp)
								if !ok || u.Op != token.MUL {
									return false
								}
								e, ok := u.X.(*ssa.Extract)
								return ok && e.Tuple == ssa.Value(isBanned) && e.Index == 1
							}
							a0, a1 := c.Call.Args[0], c.Call.Args[1]
							if isNow(a0) && isUntil(a1) {
								return "ACTIVE", f.Holds == (n == "(time.Time).Before"), true
							}
							if isUntil(a0) && isNow(a1) {
								return "ACTIVE", f.Holds == (n == "(time.Time).After"), true
							}
						}
					}
				case "nil":
					if e, ok := f.V.(*ssa.Extract); ok && e.Tuple == ssa.Value(isBanned) && e.Index == 1 {
						return "PERMANENT", f.Holds, true
					}
				}
				return "", false, false
			}
			var _ atomFn = atom
			cutsFor := func(req map[string]bool) map[Edge]bool {
				cut := map[Edge]bool{}
				factEdges(fn, func(e Edge, f Fact) {
					if a, v, ok := atom(f); ok {
						if want, has := req[a]; has && want != v {
							cut[e] = true
						}
					}
				})
				return cut
			}
			seen := map[string]bool{}
			factEdges(fn, func(e Edge, f Fact) {
				if a, _, ok := atom(f); ok {
					seen[a] = true
				}
			})
			R.check(seen["BANNED"] && seen["PERMANENT"] && seen["ACTIVE"], "ban-gate", fname(fn)+": ban tests", P.ipos(isBanned),
				"tests banned / permanent / now.Before(until) present", fmt.Sprintf("the login sequence lacks one of the ban tests (found %v): banned flag, until == nil, now.Before(until)", seen))
			// login processing sites
			var sites []ssa.CallInstruction
			for _, ci := range callsIn(fn) {
				switch calleeName(ci.Common()) {
				case "(*bufio.Scanner).Scan", "(*hotline.Transaction).Write", "(*hotline.ClientConn).Authenticate", "(hotline.ClientManager).Add", "(*hotline.Server).newClientConn", "(*hotline.Server).NewClientConn", "(*hotline.ClientConn).handleTransaction":
					sites = append(sites, ci)
				}
			}
			// after the handshake
			hsCut := map[Edge]bool{}
			factEdges(fn, func(e Edge, f Fact) {
				if f.Kind == "nil" && f.Holds {
					if c := callValue(f.V); c != nil && calleeName(&c.Call) == "hotline.performHandshake" {
						hsCut[e] = true
					}
				}
			})
			R.check(len(hsCut) > 0 && !reachable(fn, hsCut)[isBanned.Block()], "ban-gate", fname(fn)+": IsBanned after handshake", P.ipos(isBanned), "only evaluated once the handshake succeeded", "the ban list is consulted on a path where the handshake did not succeed")
			perm := reachable(fn, cutsFor(map[string]bool{"BANNED": true, "PERMANENT": true}))
			active := reachable(fn, cutsFor(map[string]bool{"BANNED": true, "PERMANENT": false, "ACTIVE": true}))
			notBanned := reachable(fn, cutsFor(map[string]bool{"BANNED": false}))
			expired := reachable(fn, cutsFor(map[string]bool{"BANNED": true, "PERMANENT": false, "ACTIVE": false}))
			for _, s := range sites {
				name := calleeName(s.Common())
				construct := fmt.Sprintf("%s: %s #%d", fname(fn), name, nCreateIn(fn, s))
				var bad []string
				if !instrDominates(isBanned, s) {
					bad = append(bad, "is not preceded by the ban check on every path")
				}
				if perm[s.Block()] {
					bad = append(bad, "is reachable for a permanently banned address")
				}
				if active[s.Block()] {
					bad = append(bad, "is reachable for an address whose temporary ban has not expired")
				}
				if !notBanned[s.Block()] {
					bad = append(bad, "is not reachable for an address that is not banned")
				}
				if !expired[s.Block()] {
					bad = append(bad, "is not reachable once a temporary ban has expired")
				}
				R.check(len(bad) == 0, "ban-gate", construct, P.ipos(s), "behind the ban gate in all four cases", "login processing step "+name+" "+strings.Join(bad, "; "))
			}
			R.floor("ban-gate", 6)

			// ban-key-agree (lookup side)
			keyLookup := P.sym(isBanned.Call.Args[0])
			var addrParam ssa.Value
			for _, p := range fn.Params {
				if strings.Contains(keyLookup, "param:"+p.Name()) {
					addrParam = p
				}
			}
			normLookup := keyLookup
			if addrParam != nil {
				normLookup = strings.ReplaceAll(keyLookup, "param:"+addrParam.Name(), "ADDR")
			}
			want := `strings.Split(ADDR,":")[0]`
			normLookup = hostPartNorm(normLookup)
			R.check(normLookup == want, "ban-key-agree", fname(fn)+": IsBanned key", P.ipos(isBanned), "key = Split(remote address, \":\")[0]", "the looked-up ban key is "+keyLookup+", not strings.Split(remoteAddr, \":\")[0]")
			// the address parameter is what ends up in ClientConn.RemoteAddr
			stored := false
			for _, ci := range callsIn(fn) {
				n := calleeName(ci.Common())
				if n == "(*hotline.Server).newClientConn" || n == "(*hotline.Server).NewClientConn" {
					args := ci.Common().Args
					for i, a := range args {
						if a == addrParam {
							for _, cal := range P.callees(ci) {
								stored = stored || paramStoredInField(P, cal, i, "hotline.ClientConn.RemoteAddr", 0)
							}
						}
					}
				}
			}
			R.check(stored, "ban-key-agree", fname(fn)+": address → ClientConn.RemoteAddr", P.pos(fn.Pos()), "the address checked at the door is the address recorded for the connection", "the remote address used for the ban lookup is not the value stored in ClientConn.RemoteAddr")
		}
	}

	// Add side
	regs := R.registeredHandlers()
	var disc *HandlerReg
	for i := range regs {
		if regs[i].Num == 110 {
			disc = &regs[i]
		}
	}
	bd := int64(-1)
	if c, ok := P.Hot.Pkg.Scope().Lookup("BanDuration").(*types.Const); ok {
		if v, ok := constant.Int64Val(c.Val()); ok {
			bd = v
		}
	}
	R.check(bd == 30*60*1_000_000_000, "ban-duration", "hotline.BanDuration", "hotline/ban.go", "30 minutes", fmt.Sprintf("BanDuration is %d ns, the protocol's temporary ban is 30 minutes", bd))
	if disc == nil {
		R.bad("disconnect-effect", "transaction 110", "-", "no handler registered for Disconnect User")
	} else {
		h := disc.Fn
		R.analysed(fname(h))
		var targetCell ssa.Value
		for _, f := range withAnons(h) {
			for _, ci := range callsIn(f) {
				if calleeName(ci.Common()) == "(*hotline.ClientConn).Disconnect" {
					targetCell = canon(ci.Common().Args[0])
				}
			}
		}
		nAdd := 0
		for _, ci := range callsIn(h) {
			if calleeName(ci.Common()) != "(hotline.BanMgr).Add" {
				continue
			}
			nAdd++
			args := ci.Common().Args
			key := P.sym(args[0])
			norm := stripRecv(key)
			norm = strings.ReplaceAll(norm, "field:hotline.ClientConn.RemoteAddr", "ADDR")
			okKey := hostPartNorm(norm) == `strings.Split(ADDR,":")[0]`
			// receiver of RemoteAddr is the disconnected target
			sameTarget := false
			F := &Flow{P: P, Visit: func(x ssa.Value) bool {
				if fa, ok := x.(*ssa.FieldAddr); ok {
					if f, _ := fieldOf(fa); f == "hotline.ClientConn.RemoteAddr" && targetCell != nil && canon(fa.X) == targetCell {
						sameTarget = true
					}
				}
				return true
			}, Call: func(c *ssa.Call, idx int) ([]ssa.Value, bool) {
				if calleeName(&c.Call) == "strings.Split" {
					return []ssa.Value{c.Call.Args[0]}, true
				}
				return nil, true
			}}
			F.Back(args[0])
			R.check(okKey && sameTarget, "ban-key-agree", fmt.Sprintf("%s: BanMgr.Add #%d key", fname(h), nCreateIn(h, ci)), P.ipos(ci),
				"key = Split(target.RemoteAddr, \":\")[0]", fmt.Sprintf("the banned key is %s (target is the disconnected connection: %v), not strings.Split(target.RemoteAddr, \":\")[0]", key, sameTarget))
			// duration by option
			opt := int64(-1)
			var optEdge *Edge
			factEdges(h, func(e Edge, f Fact) {
				if f.Kind == "eq" && f.Holds {
					if n, ok := constInt(f.C); ok && (e.To == ci.Block() && len(ci.Block().Preds) == 1 || edgeDominates(h, e, ci.Block())) {
						if isOptionByte(P, f.V) {
							opt = n
							ee := e
							optEdge = &ee
						}
					}
				}
			})
			// once the option selects a ban, the ban is recorded on every path to the reply (no further condition,
			// such as "already on the list", may skip it: a temporary ban would not be renewed or made permanent)
			if optEdge != nil {
				every, ret := mustPassFromBlock(optEdge.To, func(x ssa.Instruction) bool { return x == ci.(ssa.Instruction) })
				pos := P.ipos(ci)
				if ret != nil {
					pos = P.ipos(ret)
				}
				R.check(every, "ban-duration", fmt.Sprintf("%s: BanMgr.Add #%d unconditional", fname(h), nCreateIn(h, ci)), pos,
					"every path from the selected option to the reply records the ban", "with the ban option selected a path reaches the reply without BanMgr.Add: the requested ban (or its new expiry) is not recorded")
			}
			until := args[1]
			isNil := isNilConst(until)
			tempOK := false
			if !isNil {
				// pointer to a cell holding time.Now().Add(BanDuration)
				if a, ok := until.(*ssa.Alloc); ok {
					if val, ok := singleStore(a); ok {
						if c := callValue(val); c != nil && calleeName(&c.Call) == "(time.Time).Add" && len(c.Call.Args) == 2 {
							now := callValue(c.Call.Args[0])
							d, isC := constInt(c.Call.Args[1])
							tempOK = now != nil && calleeName(&now.Call) == "time.Now" && isC && d == bd
						}
					}
				}
			}
			good := (opt == 1 && tempOK) || (opt == 2 && isNil)
			tableNote := ""
			if opt == -1 {
				// table-driven: the expiry is selected by a boolean field of the entry that a constant table holds
				// for the option byte
				if okT, note := P.tableDrivenExpiry(h, ci, until, bd); okT {
					good, tableNote = true, note
					nAdd++ // one table-driven site stands for the temporary and the permanent ban
				} else if okT, note := P.tableFuncExpiry(h, ci, until, bd); okT {
					good, tableNote = true, note
					nAdd++
				}
			}
			if tableNote != "" {
				R.ok("ban-duration", fmt.Sprintf("%s: BanMgr.Add #%d expiry", fname(h), nCreateIn(h, ci)), P.ipos(ci), tableNote)
				continue
			}
			R.check(good, "ban-duration", fmt.Sprintf("%s: BanMgr.Add #%d expiry", fname(h), nCreateIn(h, ci)), P.ipos(ci),
				fmt.Sprintf("option %d → %s", opt, map[bool]string{true: "no expiry", false: "now+BanDuration"}[isNil]),
				fmt.Sprintf("ban option %d stores expiry nil=%v now+BanDuration=%v (option 1 must store now+BanDuration, option 2 nil)", opt, isNil, tempOK))
		}
		if nAdd < 2 {
			R.bad("ban-duration", fname(h)+": BanMgr.Add sites", P.pos(h.Pos()), fmt.Sprintf("%d ban sites found, expected the temporary and the permanent one", nAdd))
		}

		// disconnect-effect
		var startBlocks []*ssa.BasicBlock
		factEdges(h, func(e Edge, f Fact) {
			if f.Kind == "truth" && !f.Holds {
				if recv, p, _, ok := authorizeCall(f.V); ok && p == 23 && targetCell != nil && canon(recv) == targetCell {
					startBlocks = append(startBlocks, e.To)
				}
			}
		})
		memo := map[*ssa.Function]map[string][]string{}
		isDisc := func(ins ssa.Instruction) bool {
			ci, ok := ins.(ssa.CallInstruction)
			if !ok {
				return false
			}
			_, has := P.siteEffects(ci, h.Params[0], memo)["disconnect"]
			return has
		}
		if len(startBlocks) == 0 {
			R.bad("disconnect-effect", fname(h), P.pos(h.Pos()), "no 'target is not protected' edge found")
		}
		for _, b := range startBlocks {
			ok, ret := mustPassFromBlock(b, isDisc)
			pos := P.pos(h.Pos())
			if ret != nil {
				pos = P.ipos(ret)
			}
			R.check(ok, "disconnect-effect", fname(h)+": Disconnect on every permitted path", pos, "every path from the passed tests to a return starts the target's Disconnect", "a path from the passed privilege/protection tests returns without disconnecting the target")
		}
	}
	R.ruleDisconnectShape("disconnect-effect")
	R.floor("disconnect-effect", 2)

	// ---- ban-persist
	add := R.mustFn("(*mobius.BanFile).Add")
	load := R.mustFn("(*mobius.BanFile).Load")
	nb := R.mustFn("mobius.NewBanFile")
	isb := R.mustFn("(*mobius.BanFile).IsBanned")
	if add != nil {
		R.analysed(fname(add))
		// map update with (ip, until) parameters
		var upd *ssa.MapUpdate
		eachInstr(add, func(ins ssa.Instruction) {
			if mu, ok := ins.(*ssa.MapUpdate); ok {
				if f, ok := loadedField(mu.Map); ok && f == "mobius.BanFile.banList" && mu.Key == ssa.Value(add.Params[1]) && mu.Value == ssa.Value(add.Params[2]) {
					upd = mu
				}
			}
		})
		var marshal *ssa.Call
		for _, ci := range callsIn(add) {
			if calleeName(ci.Common()) == "gopkg.in/yaml.v3.Marshal" {
				if f, ok := loadedField(stripConv(ci.Common().Args[0])); ok && f == "mobius.BanFile.banList" {
					marshal, _ = ci.(*ssa.Call)
				}
			}
		}
		isPersist := func(ins ssa.Instruction) bool {
			ci, ok := ins.(ssa.CallInstruction)
			if !ok {
				return false
			}
			n := calleeName(ci.Common())
			if n != "os.Rename" && n != "os.WriteFile" {
				return false
			}
			args := ci.Common().Args
			dst := args[0]
			if n == "os.Rename" {
				dst = args[1]
			}
			s := stripRecv(P.sym(dst))
			return s == "field:mobius.BanFile.filePath" || s == "Join(field:mobius.BanFile.filePath)"
		}
		okAll := upd != nil && marshal != nil
		why := ""
		if upd == nil {
			why += "no banList[ip] = until; "
		}
		if marshal == nil {
			why += "the list is not what is marshalled; "
		}
		if okAll && !instrDominates(upd, marshal) {
			okAll = false
			why += "the list is marshalled before the entry is inserted; "
		}
		// the entry put into the list stays there whatever happens afterwards: a ban that could not be written to
		// disk is still enforced by the running server (the handler only logs the error)
		for _, ci := range callsIn(add) {
			if calleeName(ci.Common()) == "builtin.delete" {
				if f, ok := loadedField(ci.Common().Args[0]); ok && f == "mobius.BanFile.banList" {
					okAll = false
					why += "Add removes an entry from the in-memory list at " + P.ipos(ci) + " (a requested ban is dropped when the file cannot be written, and an earlier ban of the same address is lifted); "
				}
			}
		}
		if passOK, w, _ := successMustPass(add, isPersist); !passOK {
			okAll = false
			why += "a success return"
			if w != nil {
				why += " at " + P.ipos(w)
			}
			why += " is reachable without writing the ban file; "
		}
		// the list is written out while the ban list's mutex is held: otherwise two overlapping bans can rename the
		// older snapshot last and the file loses a ban that memory has (gone after a restart or reload)
		{
			L := newLockInfo(P)
			for _, ci := range callsIn(add) {
				if !isPersist(ci.(ssa.Instruction)) {
					continue
				}
				held := false
				for id := range L.at[ci.(ssa.Instruction)] {
					if strings.HasPrefix(id.Field, "mobius.BanFile") {
						held = true
					}
				}
				if !held {
					okAll = false
					why += "the ban file is written at " + P.ipos(ci) + " without the ban list's mutex held (held: " + fmt.Sprint(L.at[ci.(ssa.Instruction)].names()) + "): overlapping bans can leave the older snapshot on disk; "
				}
			}
		}
		// the data written is the marshalled list
		if marshal != nil {
			dataOK := false
			for _, ci := range callsIn(add) {
				if n := calleeName(ci.Common()); n == "os.WriteFile" || n == "(*os.File).Write" {
					if e, ok := stripConv(resolveLocal(ci.Common().Args[1])).(*ssa.Extract); ok && e.Tuple == ssa.Value(marshal) {
						dataOK = true
					}
				}
			}
			if !dataOK {
				okAll = false
				why += "what is written is not the marshalled list; "
			}
		}
		R.check(okAll, "ban-persist", fname(add), P.pos(add.Pos()), "insert → marshal → write/rename onto filePath before every success return", why)
	}
	if load != nil {
		// the loader only reads (a leftover temp file is a half-written one: it is never promoted)
		mut := ""
		for f := range P.reachFuncs(load) {
			if !P.isRepoPkg(pkgOf(f)) {
				continue
			}
			for _, ci := range callsIn(f) {
				switch n := calleeName(ci.Common()); n {
				case "os.Rename", "os.Remove", "os.RemoveAll", "os.WriteFile", "os.Create", "os.Truncate":
					mut = n + " at " + P.ipos(ci)
				}
			}
		}
		R.check(mut == "", "ban-persist", fname(load)+": read-only", P.pos(load.Pos()), "the loader performs no filesystem mutation", "the ban list loader changes the filesystem ("+mut+"): a restart can replace the recorded bans by something else (a temp file that a crash or write fault left half-written)")
	}
	if load != nil && nb != nil {
		R.analysed(fname(load))
		reads := false
		decodes := false
		for _, ci := range callsIn(load) {
			n := calleeName(ci.Common())
			if n == "os.Open" || n == "os.ReadFile" {
				if s := stripRecv(P.sym(ci.Common().Args[0])); s == "field:mobius.BanFile.filePath" || s == "Join(field:mobius.BanFile.filePath)" {
					reads = true
				}
			}
			if n == "(*gopkg.in/yaml.v3.Decoder).Decode" || n == "gopkg.in/yaml.v3.Unmarshal" {
				last := ci.Common().Args[len(ci.Common().Args)-1]
				if fa, ok := stripConv(last).(*ssa.FieldAddr); ok {
					if f, _ := fieldOf(fa); f == "mobius.BanFile.banList" {
						decodes = true
					}
				}
			}
		}
		calls := false
		for _, ci := range callsIn(nb) {
			if calleeName(ci.Common()) == "(*mobius.BanFile).Load" {
				calls = true
			}
		}
		R.check(reads && decodes && calls, "ban-persist", fname(load), P.pos(load.Pos()), "NewBanFile → Load reads filePath into banList", fmt.Sprintf("restart does not reload the ban list from the file Add writes (reads filePath=%v, decodes into banList=%v, NewBanFile calls Load=%v)", reads, decodes, calls))
	}
	if isb != nil {
		R.analysed(fname(isb))
		var lk *ssa.Lookup
		eachInstr(isb, func(ins ssa.Instruction) {
			if l, ok := ins.(*ssa.Lookup); ok && l.CommaOk {
				if f, ok := loadedField(l.X); ok && f == "mobius.BanFile.banList" && l.Index == ssa.Value(isb.Params[1]) {
					lk = l
				}
			}
		})
		good := lk != nil
		if lk != nil {
			cutPresent := map[Edge]bool{}
			factEdges(isb, func(e Edge, f Fact) {
				if ex, ok := f.V.(*ssa.Extract); ok && ex.Tuple == ssa.Value(lk) && ex.Index == 1 && f.Kind == "truth" {
					if !f.Holds {
						cutPresent[e] = true
					}
				}
			})
			present := reachable(isb, cutPresent) // paths where the key is present
			for _, ret := range returnsOf(isb) {
				b0 := retValue(ret, 0)
				u0 := retValue(ret, 1)
				isTrue := false
				if c, ok := b0.(*ssa.Const); ok && c.Value != nil {
					isTrue = c.Value.String() == "true"
				} else if ex, ok := b0.(*ssa.Extract); ok && ex.Tuple == ssa.Value(lk) && ex.Index == 1 {
					continue // returns (ok, value) directly
				} else if len(ret.Block().Preds) == 0 {
					continue // recover block
				} else {
					good = false
					continue
				}
				if isTrue {
					ex, ok := u0.(*ssa.Extract)
					if !ok || ex.Tuple != ssa.Value(lk) || ex.Index != 0 {
						good = false
					}
					// true only when present
					cutAbsent := map[Edge]bool{}
					factEdges(isb, func(e Edge, f Fact) {
						if ex, ok := f.V.(*ssa.Extract); ok && ex.Tuple == ssa.Value(lk) && ex.Index == 1 && f.Kind == "truth" && f.Holds {
							cutAbsent[e] = true
						}
					})
					if reachable(isb, cutAbsent)[ret.Block()] {
						good = false
					}
				} else if present[ret.Block()] && len(cutPresent) > 0 {
					// returns false although the key may be present
					cp := reachable(isb, cutPresent)
					if cp[ret.Block()] {
						good = false
					}
				}
			}
		}
		R.check(good, "ban-persist", fname(isb), P.pos(isb.Pos()), "(true, stored expiry) exactly for present keys", "IsBanned does not return (true, the stored expiry) exactly when the address is in the list")
	}
	R.floor("ban-persist", 3)
	R.floor("ban-key-agree", 3)
	R.floor("ban-duration", 2)
}

// isOptionByte: v is Data[1] of the request's options field (113).
func isOptionByte(P *Prog, v ssa.Value) bool {
	u, ok := v.(*ssa.UnOp)
	if !ok || u.Op != token.MUL {
		return false
	}
	ia, ok := u.X.(*ssa.IndexAddr)
	if !ok {
		return false
	}
	if n, ok := constInt(ia.Index); !ok || n != 1 {
		return false
	}
	return P.requestFieldOf(ia.X) == "FieldOptions"
}

// paramStoredInField: parameter #idx of fn is stored (directly, or via a callee it is passed to) into field.
func paramStoredInField(P *Prog, fn *ssa.Function, idx int, field string, depth int) bool {
	if fn == nil || idx >= len(fn.Params) || depth > 3 {
		return false
	}
	p := fn.Params[idx]
	found := false
	eachInstr(fn, func(ins ssa.Instruction) {
		switch x := ins.(type) {
		case *ssa.Store:
			if x.Val == ssa.Value(p) {
				if fa, ok := x.Addr.(*ssa.FieldAddr); ok {
					if f, _ := fieldOf(fa); f == field {
						found = true
					}
				}
			}
		case ssa.CallInstruction:
			for i, a := range x.Common().Args {
				if a == ssa.Value(p) {
					for _, cal := range P.callees(x) {
						if paramStoredInField(P, cal, i, field, depth+1) {
							found = true
						}
					}
				}
			}
		}
	})
	return found
}

func init() { register("C17", checkC17) }

// ruleDisconnectShape: Disconnect removes the registry entry, then notifies the others (302 with the user's ID)
// on every path and closes the connection.
func (R *Run) ruleDisconnectShape(rule string) {
	P := R.P
	if d := R.mustFn("(*hotline.ClientConn).Disconnect"); d != nil {
		R.analysed(fname(d))
		recv := d.Params[0]
		has := map[string]bool{}
		var firstDelete, firstNotify ssa.Instruction
		for _, ci := range callsIn(d) {
			c := ci.Common()
			switch calleeName(c) {
			case "(hotline.ClientManager).Delete":
				if f, ok := loadedField(c.Args[0]); ok && f == "hotline.ClientConn.ID" {
					if ok2, _ := mustPassFromBlock(d.Blocks[0], func(i ssa.Instruction) bool { return i == ci.(ssa.Instruction) }); ok2 {
						has["delete"] = true
						firstDelete = ci
					}
				}
			case "(*hotline.ClientConn).NotifyOthers":
				if c.Args[0] == ssa.Value(recv) {
					has["notify"] = true
					firstNotify = ci
					// the notification is TranNotifyDeleteUser carrying the user's ID
					nt := callValue(c.Args[1])
					if nt != nil && calleeName(&nt.Call) == "hotline.NewTransaction" {
						if g, ok := globalName(nt.Call.Args[0]); ok && g == "hotline.TranNotifyDeleteUser" {
							has["notify-type"] = true
						}
						for _, a := range callArgsFlat(&nt.Call)[2:] {
							if nf := callValue(a); nf != nil && calleeName(&nf.Call) == "hotline.NewField" {
								g, _ := globalName(nf.Call.Args[0])
								src := stripRecv(P.sym(nf.Call.Args[1]))
								if g == "hotline.FieldUserID" && strings.Contains(src, "hotline.ClientConn.ID") {
									has["notify-id"] = true
								}
							}
						}
					}
				}
			default:
				if c.IsInvoke() && c.Method.Name() == "Close" {
					if f, ok := loadedField(c.Value); ok && f == "hotline.ClientConn.Connection" {
						if ok2, _ := mustPassFromBlock(d.Blocks[0], func(i ssa.Instruction) bool { return i == ci.(ssa.Instruction) }); ok2 {
							has["close"] = true
						}
					}
				}
			}
		}
		eachInstr(d, func(ins ssa.Instruction) {
			if s, ok := ins.(*ssa.Send); ok {
				if f, ok := loadedField(s.Chan); ok && f == "hotline.Server.outbox" {
					has["send"] = true
				}
			}
		})
		if firstNotify != nil {
			if every, _ := mustPassFromBlock(d.Blocks[0], func(i ssa.Instruction) bool { return i == firstNotify }); !every {
				delete(has, "notify")
			}
		}
		order := firstDelete != nil && firstNotify != nil && instrDominates(firstDelete, firstNotify)
		var missing []string
		for _, k := range []string{"delete", "notify", "notify-type", "notify-id", "send", "close"} {
			if !has[k] {
				if k == "notify" {
					k = "user-left notice on every path (it is skipped on some)"
				}
				missing = append(missing, k)
			}
		}
		if !order {
			missing = append(missing, "registry removal before the notification")
		}
		R.check(len(missing) == 0, rule, fname(d), P.pos(d.Pos()), "removes the registry entry, then notifies the others (302 with the user's ID) and closes the connection on every path", "Disconnect lacks: "+strings.Join(missing, ", "))

		// Close is what releases a writer blocked on a client that stopped reading; it must therefore not wait for
		// a mutex that such a writer holds (the mutexes held around writes to ClientConn.Connection)
		L := newLockInfo(P)
		ioLocks := map[string]bool{}
		for _, fn := range P.Funcs {
			for _, ci := range callsIn(fn) {
				c := ci.Common()
				n := calleeName(c)
				if n != "io.Copy" && n != "encoding/binary.Write" && !(c.IsInvoke() && c.Method.Name() == "Write") {
					continue
				}
				dst := c.Value
				if !c.IsInvoke() {
					dst = c.Args[0]
				}
				if f, ok := loadedField(dst); !ok || f != "hotline.ClientConn.Connection" {
					continue
				}
				for id := range L.at[ci.(ssa.Instruction)] {
					ioLocks[id.Field] = true
				}
			}
		}
		blocked := ""
		for _, ci := range callsIn(d) {
			id, op, isLock := P.lockOp(d, ci.Common())
			if !isLock || op != "lock" || !ioLocks[id.Field] {
				continue
			}
			for _, cj := range callsIn(d) {
				c := cj.Common()
				if c.IsInvoke() && c.Method.Name() == "Close" {
					if f, ok := loadedField(c.Value); ok && f == "hotline.ClientConn.Connection" {
						if cj.Block() == ci.Block() && instrIndex(cj.(ssa.Instruction)) > instrIndex(ci.(ssa.Instruction)) || cj.Block() != ci.Block() && reachableFrom(ci.Block(), nil)[cj.Block()] {
							blocked = id.Field
						}
					}
				}
			}
		}
		var names []string
		for f := range ioLocks {
			names = append(names, shortField(f))
		}
		sort.Strings(names)
		R.check(blocked == "" && len(ioLocks) > 0, rule, fname(d)+": Close does not wait for a writer", P.pos(d.Pos()), "no mutex held around writes to the connection ("+strings.Join(names, ", ")+") is acquired before Close", "Disconnect acquires "+blocked+" before closing the connection; a sender blocked in a write to a client that stopped reading holds that mutex until the connection is closed, so the kicked or banned user is never disconnected")
	}
}

// globalTable evaluates a package-level `map[K]struct{…}` initialised by a composite literal with constant keys:
// key → field name → constant value (fields not given are absent = zero).  ok=false when the initialiser is not
// of that closed form or the variable is assigned anywhere else.
func (P *Prog) globalTable(g *ssa.Global) (map[int64]map[string]ssa.Value, bool) {
	var mk *ssa.MakeMap
	nStores := 0
	for _, sp := range P.RepoPkgs {
		for _, m := range sp.Members {
			fn, ok := m.(*ssa.Function)
			if !ok {
				continue
			}
			for _, f := range withAnons(fn) {
				eachInstr(f, func(ins ssa.Instruction) {
					if st, ok := ins.(*ssa.Store); ok && st.Addr == ssa.Value(g) {
						nStores++
						mk, _ = st.Val.(*ssa.MakeMap)
					}
				})
			}
		}
	}
	if nStores != 1 || mk == nil {
		return nil, false
	}
	out := map[int64]map[string]ssa.Value{}
	okAll := true
	for _, r := range *mk.Referrers() {
		mu, isMU := r.(*ssa.MapUpdate)
		if !isMU {
			if _, isStore := r.(*ssa.Store); !isStore {
				if _, dbg := r.(*ssa.DebugRef); !dbg {
					okAll = false
				}
			}
			continue
		}
		k, isK := constInt(mu.Key)
		if !isK {
			okAll = false
			continue
		}
		fields := map[string]ssa.Value{}
		ld, isLd := mu.Value.(*ssa.UnOp)
		if !isLd {
			okAll = false
			continue
		}
		cell, isCell := ld.X.(*ssa.Alloc)
		if !isCell {
			okAll = false
			continue
		}
		for _, cr := range *cell.Referrers() {
			fa, isFA := cr.(*ssa.FieldAddr)
			if !isFA {
				continue
			}
			name, _ := fieldOf(fa)
			for _, fr := range *fa.Referrers() {
				if st, isSt := fr.(*ssa.Store); isSt {
					switch fv := st.Val.(type) {
					case *ssa.Const, *ssa.Function:
					case *ssa.MakeClosure:
						if len(fv.Bindings) != 0 {
							okAll = false
						}
					default:
						okAll = false
					}
					fields[name[strings.LastIndex(name, ".")+1:]] = st.Val
				}
			}
		}
		out[k] = fields
	}
	return out, okAll && len(out) > 0
}

// tableDrivenExpiry: `if e, ok := table[optionByte]; ok { var until *time.Time; if e.flag { t := now+BanDuration;
// until = &t }; Add(ip, until) }` with table = {1: flag true, 2: flag false} and nothing else.
func (P *Prog) tableDrivenExpiry(h *ssa.Function, add ssa.CallInstruction, until ssa.Value, bd int64) (bool, string) {
	phi, ok := until.(*ssa.Phi)
	if !ok || len(phi.Edges) != 2 {
		return false, ""
	}
	var tempPred, nilPred *ssa.BasicBlock
	for i, e := range phi.Edges {
		if isNilConst(e) {
			nilPred = phi.Block().Preds[i]
			continue
		}
		if a, isA := e.(*ssa.Alloc); isA {
			if val, single := singleStore(a); single {
				if c := callValue(val); c != nil && calleeName(&c.Call) == "(time.Time).Add" && len(c.Call.Args) == 2 {
					now := callValue(c.Call.Args[0])
					d, isC := constInt(c.Call.Args[1])
					if now != nil && calleeName(&now.Call) == "time.Now" && isC && d == bd {
						tempPred = phi.Block().Preds[i]
					}
				}
			}
		}
	}
	if tempPred == nil || nilPred == nil {
		return false, ""
	}
	// the branch between the two: a Field of the looked-up entry
	iff, ok := nilPred.Instrs[len(nilPred.Instrs)-1].(*ssa.If)
	if !ok {
		return false, ""
	}
	if nilPred.Succs[0] != tempPred {
		return false, ""
	}
	// the flag: a field of the looked-up entry (read from the value, or from the local the entry was stored in)
	var fld ssa.Value
	var entry ssa.Value
	switch c := iff.Cond.(type) {
	case *ssa.Field:
		fld, entry = c, c.X
	case *ssa.UnOp:
		if fa, isFA := c.X.(*ssa.FieldAddr); isFA && c.Op == token.MUL {
			if a, isA := fa.X.(*ssa.Alloc); isA {
				if val, single := singleStore(a); single {
					fld, entry = fa, val
				}
			}
		}
	}
	if fld == nil {
		return false, ""
	}
	ex, ok := entry.(*ssa.Extract)
	if !ok || ex.Index != 0 {
		return false, ""
	}
	lk, ok := ex.Tuple.(*ssa.Lookup)
	if !ok || !lk.CommaOk || !isOptionByte(P, stripConv(lk.Index)) {
		return false, ""
	}
	ld, ok := lk.X.(*ssa.UnOp)
	if !ok {
		return false, ""
	}
	g, ok := ld.X.(*ssa.Global)
	if !ok {
		return false, ""
	}
	// the ban only on the edge where the option was found in the table
	guarded := false
	factEdges(h, func(e Edge, f Fact) {
		if f.Kind == "truth" && f.Holds {
			if x, isX := f.V.(*ssa.Extract); isX && x.Tuple == ssa.Value(lk) && x.Index == 1 && edgeDominates(h, e, add.Block()) {
				guarded = true
			}
		}
	})
	if !guarded {
		return false, ""
	}
	tbl, ok := P.globalTable(g)
	if !ok || len(tbl) != 2 {
		return false, ""
	}
	fname0, _ := fieldOf(fld)
	flag := fname0[strings.LastIndex(fname0, ".")+1:]
	val := func(k int64) (bool, bool) {
		e, has := tbl[k]
		if !has {
			return false, false
		}
		v, set := e[flag]
		if !set {
			return false, true
		}
		c, isC := v.(*ssa.Const)
		return isC && c.Value != nil && c.Value.String() == "true", true
	}
	t1, has1 := val(1)
	t2, has2 := val(2)
	if has1 && has2 && t1 && !t2 {
		return true, fmt.Sprintf("table %s: option 1 → %s=true → now+BanDuration, option 2 → %s=false → no expiry; other options not in the table", g.Name(), flag, flag)
	}
	return false, ""
}

// tableFuncExpiry: `if e, ok := table[optionByte]; ok { Add(ip, e.until()) }` where the constant table holds, for
// option 1, a function returning a pointer to time.Now().Add(BanDuration) and, for option 2, one returning nil.
func (P *Prog) tableFuncExpiry(h *ssa.Function, add ssa.CallInstruction, until ssa.Value, bd int64) (bool, string) {
	call, ok := until.(*ssa.Call)
	if !ok || call.Call.IsInvoke() || len(call.Call.Args) != 0 {
		return false, ""
	}
	var fld ssa.Value
	var entry ssa.Value
	switch c := call.Call.Value.(type) {
	case *ssa.Field:
		fld, entry = c, c.X
	case *ssa.UnOp:
		if fa, isFA := c.X.(*ssa.FieldAddr); isFA && c.Op == token.MUL {
			if a, isA := fa.X.(*ssa.Alloc); isA {
				if val, single := singleStore(a); single {
					fld, entry = fa, val
				}
			}
		}
	}
	if fld == nil {
		return false, ""
	}
	ex, ok := entry.(*ssa.Extract)
	if !ok || ex.Index != 0 {
		return false, ""
	}
	lk, ok := ex.Tuple.(*ssa.Lookup)
	if !ok || !lk.CommaOk || !isOptionByte(P, stripConv(lk.Index)) {
		return false, ""
	}
	ld, ok := lk.X.(*ssa.UnOp)
	if !ok {
		return false, ""
	}
	g, ok := ld.X.(*ssa.Global)
	if !ok {
		return false, ""
	}
	guarded := false
	factEdges(h, func(e Edge, f Fact) {
		if f.Kind == "truth" && f.Holds {
			if x, isX := f.V.(*ssa.Extract); isX && x.Tuple == ssa.Value(lk) && x.Index == 1 && edgeDominates(h, e, add.Block()) {
				guarded = true
			}
		}
	})
	if !guarded {
		return false, ""
	}
	tbl, ok := P.globalTable(g)
	if !ok || len(tbl) != 2 {
		return false, ""
	}
	fname0, _ := fieldOf(fld)
	name := fname0[strings.LastIndex(fname0, ".")+1:]
	kind := func(k int64) string {
		e, has := tbl[k]
		if !has {
			return ""
		}
		var fn *ssa.Function
		switch v := e[name].(type) {
		case *ssa.Function:
			fn = v
		case *ssa.MakeClosure:
			if len(v.Bindings) == 0 {
				fn, _ = v.Fn.(*ssa.Function)
			}
		}
		if fn == nil || len(fn.Params) != 0 {
			return ""
		}
		rets := returnsOf(fn)
		if len(rets) != 1 || len(rets[0].Results) != 1 {
			return ""
		}
		r := rets[0].Results[0]
		if isNilConst(r) {
			return "nil"
		}
		if a, isA := r.(*ssa.Alloc); isA {
			if val, single := singleStore(a); single {
				if c := callValue(val); c != nil && calleeName(&c.Call) == "(time.Time).Add" && len(c.Call.Args) == 2 {
					now := callValue(c.Call.Args[0])
					d, isC := constInt(c.Call.Args[1])
					if now != nil && calleeName(&now.Call) == "time.Now" && isC && d == bd {
						return "temp"
					}
				}
			}
		}
		return ""
	}
	if kind(1) == "temp" && kind(2) == "nil" {
		return true, fmt.Sprintf("table %s: option 1 → %s() = now+BanDuration, option 2 → %s() = nil; other options not in the table", g.Name(), name, name)
	}
	return false, ""
}

// hostPartNorm: the text before the first ":" written with strings.Cut is the same value as strings.Split(x, ":")[0].
func hostPartNorm(s string) string {
	const pre, suf = `strings.Cut(`, `,":")#0`
	if strings.HasPrefix(s, pre) && strings.HasSuffix(s, suf) {
		return `strings.Split(` + s[len(pre):len(s)-len(suf)] + `,":")[0]`
	}
	return s
}
