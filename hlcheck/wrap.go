package main

// wrap.go — guard summaries: when a branch tests the result of a small repo helper instead of the
// primitive call itself (`if !mayBroadcast(cc)`, `if denied := denyUnless(cc, t, bit, msg); denied != nil`),
// derive which primitive facts are *definitely* established on that edge, with the helper's parameters
// mapped back to the call site's arguments.

import (
	"go/token"

	"golang.org/x/tools/go/ssa"
)

type primFact struct {
	call  *ssa.Call   // the primitive call (inside the helper, or at the site itself)
	args  []ssa.Value // its arguments expressed in the caller's terms (nil when not expressible)
	kind  string      // truth | nil
	holds bool
	site  ssa.Value // the value tested at the original site
}

// domFactList: the facts on the edges that dominate block b.
func domFactList(fn *ssa.Function, b *ssa.BasicBlock) []Fact {
	var out []Fact
	factEdges(fn, func(e Edge, f Fact) {
		if (e.To == b && len(b.Preds) == 1) || edgeDominates(fn, e, b) {
			out = append(out, f)
		}
	})
	return out
}

func factKey(f Fact) [3]any {
	return [3]any{f.V, f.Kind, f.Holds}
}

// compatible: can return value rv occur when the tested outcome (kind, holds) is observed?
func compatible(rv ssa.Value, kind string, holds bool) int { // 1 yes, 0 no, 2 maybe
	switch kind {
	case "truth":
		if c, ok := rv.(*ssa.Const); ok && c.Value != nil {
			if (c.Value.String() == "true") == holds {
				return 1
			}
			return 0
		}
		return 2
	case "nil":
		if isNilConst(rv) {
			if holds {
				return 1
			}
			return 0
		}
		switch x := stripConv(rv).(type) {
		case *ssa.Alloc, *ssa.MakeSlice, *ssa.MakeMap, *ssa.MakeInterface, *ssa.Slice:
			if holds {
				return 0
			}
			return 1
		case *ssa.Call:
			switch calleeName(&x.Call) {
			case "(*hotline.ClientConn).NewErrReply", "fmt.Errorf", "errors.New", "builtin.append":
				if holds {
					return 0
				}
				return 1
			}
		}
		return 2
	}
	return 2
}

// expandFact returns the definite primitive facts implied by fact f observed in function fn.
// isPrim selects the primitive calls of interest.
func (P *Prog) expandFact(f Fact, isPrim func(c *ssa.Call) bool, depth int) []primFact {
	var out []primFact
	var c *ssa.Call
	idx := 0
	switch f.Kind {
	case "truth":
		c, _ = f.V.(*ssa.Call)
		if ex, ok := f.V.(*ssa.Extract); ok {
			c, _ = ex.Tuple.(*ssa.Call)
			idx = ex.Index
		}
	case "nil":
		v := stripConv(f.V)
		c, _ = v.(*ssa.Call)
		if ex, ok := v.(*ssa.Extract); ok {
			c, _ = ex.Tuple.(*ssa.Call)
			idx = ex.Index
		}
	}
	if c == nil {
		return nil
	}
	if isPrim(c) {
		return []primFact{{call: c, args: c.Call.Args, kind: f.Kind, holds: f.Holds, site: f.V}}
	}
	if depth > 2 {
		return nil
	}
	callee, ok := c.Call.Value.(*ssa.Function)
	if !ok || callee.Blocks == nil || !P.isRepoPkg(pkgOf(callee)) || len(callee.Blocks) > 12 {
		return nil
	}
	// must-facts over the compatible returns
	var must map[[3]any]Fact
	n := 0
	for _, ret := range returnsOf(callee) {
		if len(ret.Block().Preds) == 0 && ret.Block() != callee.Blocks[0] {
			continue
		}
		rv := retValue(ret, idx)
		if rv == nil {
			continue
		}
		comp := compatible(rv, f.Kind, f.Holds)
		if comp == 0 {
			continue
		}
		n++
		facts := domFactList(callee, ret.Block())
		// the returned value itself is a tested value
		if f.Kind == "truth" {
			v := rv
			h := f.Holds
			if u, ok := v.(*ssa.UnOp); ok && u.Op == token.NOT {
				v, h = u.X, !h
			}
			if _, isCall := v.(*ssa.Call); isCall {
				facts = append(facts, Fact{V: v, Kind: "truth", Holds: h})
			}
			if b, isBin := v.(*ssa.BinOp); isBin && (b.Op == token.EQL || b.Op == token.NEQ) {
				ff := ifFacts(&ssa.If{Cond: v})
				if !h {
					ff.Holds = !ff.Holds
				}
				facts = append(facts, ff)
			}
		}
		if f.Kind == "nil" && comp == 2 {
			// the value returned is itself some call's result: result nil ⟺ that call's result nil
			if cv := callValue(rv); cv != nil {
				facts = append(facts, Fact{V: rv, Kind: "nil", Holds: f.Holds})
			}
		}
		cur := map[[3]any]Fact{}
		for _, x := range facts {
			cur[factKey(x)] = x
		}
		if must == nil {
			must = cur
		} else {
			for k := range must {
				if _, ok := cur[k]; !ok {
					delete(must, k)
				}
			}
		}
	}
	if n == 0 {
		return nil
	}
	// map parameters of the callee back to the call site's arguments
	mapVal := func(v ssa.Value) ssa.Value {
		for i, p := range callee.Params {
			if v == ssa.Value(p) && i < len(c.Call.Args) {
				return c.Call.Args[i]
			}
		}
		if _, isConst := v.(*ssa.Const); isConst {
			return v
		}
		return nil
	}
	for _, mf := range must {
		for _, pf := range P.expandFact(mf, isPrim, depth+1) {
			mapped := make([]ssa.Value, len(pf.args))
			for i, a := range pf.args {
				if a != nil {
					mapped[i] = mapVal(a)
				}
			}
			pf.args = mapped
			pf.site = f.V
			out = append(out, pf)
		}
	}
	return out
}

// primCallsVia lists primitive calls made (directly or inside a small helper, with mapped arguments) at call
// sites of fn — for rules that count which primitives a function tests.
func (P *Prog) primCallsVia(fn *ssa.Function, isPrim func(c *ssa.Call) bool) []primFact {
	var out []primFact
	for _, ci := range callsIn(fn) {
		c, ok := ci.(*ssa.Call)
		if !ok {
			continue
		}
		if isPrim(c) {
			out = append(out, primFact{call: c, args: c.Call.Args})
			continue
		}
		callee, ok := c.Call.Value.(*ssa.Function)
		if !ok || callee.Blocks == nil || !P.isRepoPkg(pkgOf(callee)) || len(callee.Blocks) > 12 {
			continue
		}
		for _, cj := range callsIn(callee) {
			c2, ok := cj.(*ssa.Call)
			if !ok || !isPrim(c2) {
				continue
			}
			mapped := make([]ssa.Value, len(c2.Call.Args))
			for i, a := range c2.Call.Args {
				for k, p := range callee.Params {
					if a == ssa.Value(p) && k < len(c.Call.Args) {
						mapped[i] = c.Call.Args[k]
					}
				}
				if _, isConst := a.(*ssa.Const); isConst {
					mapped[i] = a
				}
			}
			out = append(out, primFact{call: c2, args: mapped, site: c})
		}
	}
	return out
}

func isAuthorizePrim(c *ssa.Call) bool {
	return calleeName(&c.Call) == "(*hotline.ClientConn).Authorize" && len(c.Call.Args) == 2
}

// ---------------------------------------------------------------------------------------------
// helper transparency for site-finding rules: a call made by a function directly, or inside a repo helper it
// calls statically (extract-function refactorings), with the helper's parameters mapped back to the site.

type deepCall struct {
	call  ssa.CallInstruction   // the call itself (possibly inside a helper)
	fn    *ssa.Function         // the function holding it
	site  ssa.CallInstruction   // the instruction of the root function that stands for it (== call when direct)
	chain []ssa.CallInstruction // call sites from the root down to fn (empty when direct)
}

// up maps a value of dc.fn to the root function: identity for a direct call or a constant, the call-site argument
// for a parameter of the helper; nil when the value is computed inside the helper.
func (dc deepCall) up(v ssa.Value) ssa.Value {
	if len(dc.chain) == 0 {
		return stripConv(resolveLocal(stripConv(v)))
	}
	for i := len(dc.chain) - 1; i >= 0; i-- {
		v = stripConv(resolveLocal(stripConv(v)))
		if _, isConst := v.(*ssa.Const); isConst {
			return v
		}
		p, ok := v.(*ssa.Parameter)
		if !ok {
			return nil
		}
		idx := -1
		for k, q := range p.Parent().Params {
			if q == p {
				idx = k
			}
		}
		args := dc.chain[i].Common().Args
		if idx < 0 || idx >= len(args) {
			return nil
		}
		v = args[idx]
	}
	return stripConv(resolveLocal(stripConv(v)))
}

func (P *Prog) deepCalls(root *ssa.Function, depth int) []deepCall {
	var out []deepCall
	seen := map[*ssa.Function]bool{root: true}
	var walk func(fn *ssa.Function, chain []ssa.CallInstruction)
	walk = func(fn *ssa.Function, chain []ssa.CallInstruction) {
		for _, ci := range callsIn(fn) {
			site := ci
			if len(chain) > 0 {
				site = chain[0]
			}
			out = append(out, deepCall{call: ci, fn: fn, site: site, chain: append([]ssa.CallInstruction(nil), chain...)})
			if len(chain) >= depth {
				continue
			}
			if _, isCall := ci.(*ssa.Call); !isCall {
				continue
			}
			h, ok := ci.Common().Value.(*ssa.Function)
			if !ok || h.Blocks == nil || !P.isRepoPkg(pkgOf(h)) || seen[h] || h.Parent() != nil {
				continue
			}
			seen[h] = true
			walk(h, append(append([]ssa.CallInstruction(nil), chain...), ci))
			delete(seen, h)
		}
	}
	walk(root, nil)
	return out
}

// before: a is executed before b on every path to b — by dominance of the sites in the root function, or, for two
// calls inside the same helper invocation, by dominance inside the helper.
func before(a, b deepCall) bool {
	if a.site != b.site {
		return instrDominates(a.site.(ssa.Instruction), b.site.(ssa.Instruction))
	}
	if a.fn == b.fn {
		return instrDominates(a.call.(ssa.Instruction), b.call.(ssa.Instruction))
	}
	return false
}
