package main

// c13.go — C13: presence converges and user IDs address one live user (structural part).

import (
	"fmt"
	"go/types"
	"sort"
	"strings"

	"golang.org/x/tools/go/ssa"
)

// isNotifyChangeUser: a construction / broadcast of TranNotifyChangeUser; returns the field list.
func notifyChangeUserFields(ci ssa.CallInstruction) ([]ssa.Value, bool) {
	c := ci.Common()
	switch calleeName(c) {
	case "hotline.NewTransaction":
		if g, ok := globalName(c.Args[0]); ok && g == "hotline.TranNotifyChangeUser" {
			return callArgsFlat(c)[2:], true
		}
	case "(*hotline.ClientConn).SendAll":
		if g, ok := globalName(c.Args[1]); ok && g == "hotline.TranNotifyChangeUser" {
			return callArgsFlat(c)[2:], true
		}
	case "(*hotline.Server).SendAll":
		if g, ok := globalName(c.Args[1]); ok && g == "hotline.TranNotifyChangeUser" {
			return callArgsFlat(c)[2:], true
		}
	}
	return nil, false
}

func checkC13(R *Run) {
	P := R.P
	R.rule("id-unique", "in every non-mock ClientManager.Add, the insertion into the registry map is only reachable on the 'absent' edge of a lookup of the same key in the same map, no write to the connection's ID lies between that lookup and the insertion, and the zero ID is never handed out")
	R.rule("refuse-pm", "in the private-message handler the message to the target is only delivered on the false edge of target.Flags.IsSet(refuse-PM), the refusal notice only on the true edge, the automatic reply only when the target's auto-reply text is non-empty, and the target is ClientMgr.Get(request's user ID)")
	R.rule("notify-after-change", "outside the login sequence, every store to a connection's UserName or Icon and every Flags.Set is followed on all paths to the function's return by a user-change notice addressed to every registered client including the changed one (SendAll of TranNotifyChangeUser, or NewTransaction inside the loop over ClientMgr.List(); NotifyOthers, which skips the connection itself, does not count)")
	R.rule("notify-fields", "every user-change notice carries fields 103 (ID), 102 (name), 104 (icon) and 112 (flags), each built from the ID, UserName, Icon and Flags of one and the same connection")
	R.rule("userlist-fields", "the user list reply builds each entry from the ID, Icon, Flags and UserName of the same registry element")

	R.rule("disconnect-notifies", "Disconnect removes the registry entry, then produces the user-left notice (302 carrying the user's ID) on every path, and closes the connection")
	R.ruleDisconnectShape("disconnect-notifies")
	R.ruleIDUnique()
	R.rule("layout", "(shared with C01) the user record of the fetched list has the protocol layout: 2-byte ID, 2-byte icon, 2-byte flags, 2-byte name length, name")
	checkLayoutsFiltered(R, func(typ string) bool { return typ == "hotline.User" })

	// ---- refuse-pm
	regs := R.registeredHandlers()
	byNum := map[int]*ssa.Function{}
	for _, r := range regs {
		byNum[r.Num] = r.Fn
	}
	if fn := byNum[108]; fn != nil {
		R.analysed(fname(fn))
		own := ssa.Value(fn.Params[0])
		// target = ClientMgr.Get(request user id)
		var target *ssa.Call
		for _, ci := range callsIn(fn) {
			if c, ok := ci.(*ssa.Call); ok && calleeName(&c.Call) == "(hotline.ClientManager).Get" {
				target = c
			}
		}
		okTarget := target != nil && P.requestOrigin(target.Call.Args[0]) == "FieldUserID"
		R.check(okTarget, "refuse-pm", fname(fn)+": target", P.pos(fn.Pos()), "target = ClientMgr.Get(request user ID)", "the target of a private message is not the client whose ID is the request's user-ID field")
		if target != nil {
			atom := func(f Fact) (string, bool, bool) {
				if f.Kind == "truth" {
					if c, ok := f.V.(*ssa.Call); ok && calleeName(&c.Call) == "(*hotline.UserFlags).IsSet" {
						if k, ok := constInt(c.Call.Args[1]); ok && k == 2 {
							if fa, ok := c.Call.Args[0].(*ssa.FieldAddr); ok && fa.X == ssa.Value(target) {
								return "REFUSE", f.Holds, true
							}
						}
					}
					if b, ok := f.V.(*ssa.BinOp); ok {
						if l, ok := b.X.(*ssa.Call); ok && calleeName(&l.Call) == "builtin.len" {
							if fl, ok := loadedField(l.Call.Args[0]); ok && fl == "hotline.ClientConn.AutoReply" {
								if k, ok := constInt(b.Y); ok && k == 0 && b.Op.String() == ">" {
									return "AUTOREPLY", f.Holds, true
								}
							}
						}
					}
				}
				return "", false, false
			}
			cutFor := func(req map[string]bool) map[Edge]bool {
				cut := map[Edge]bool{}
				factEdges(fn, func(e Edge, f Fact) {
					if a, v, ok := atom(f); ok {
						if want, has := req[a]; has && want != v {
							cut[e] = true
						}
					}
				})
				return cut
			}
			refusing := reachable(fn, cutFor(map[string]bool{"REFUSE": true}))
			accepting := reachable(fn, cutFor(map[string]bool{"REFUSE": false}))
			noAuto := reachable(fn, cutFor(map[string]bool{"AUTOREPLY": false}))
			// classify constructed transactions by recipient and content
			var msgCell ssa.Value
			n := 0
			for _, ci := range callsIn(fn) {
				c := ci.Common()
				if calleeName(c) != "hotline.NewTransaction" {
					continue
				}
				rc := P.recipientOf(c.Args[1], own)
				fields := callArgsFlat(c)[2:]
				dataSrc := ""
				for _, f := range fields {
					if nf := callValue(f); nf != nil && calleeName(&nf.Call) == "hotline.NewField" {
						if g, _ := globalName(nf.Call.Args[0]); g == "hotline.FieldData" {
							dataSrc = stripRecv(P.sym(nf.Call.Args[1]))
						}
					}
				}
				switch {
				case rc.kind == "TARGET(FieldUserID)":
					// the message itself: where is it delivered (appended to the result)?
					if call, ok := ci.(*ssa.Call); ok {
						for _, r := range *call.Referrers() {
							if st, ok := r.(*ssa.Store); ok {
								msgCell = st.Addr
							}
						}
					}
				case rc.kind == "SELF" && strings.Contains(dataSrc, "AutoReply"):
					n++
					R.check(!noAuto[ci.Block()], "refuse-pm", fname(fn)+": automatic reply", P.ipos(ci), "only when the target's auto-reply is non-empty", "an automatic reply is produced although the target has none set")
				case rc.kind == "SELF" && strings.Contains(dataSrc, "does not accept"):
					n++
					R.check(!accepting[ci.Block()], "refuse-pm", fname(fn)+": refusal notice", P.ipos(ci), "only when the target refuses private messages", "the refusal notice is produced although the target accepts private messages")
				}
			}
			// delivery of the message: loads of the message cell that flow into the result
			delivered := 0
			// the message may be handed from one local variable to the next (a copy of the whole value) before it is
			// appended: those copies are not deliveries, the variables they fill hold the message as well
			var cells []*ssa.Alloc
			if a, ok := msgCell.(*ssa.Alloc); ok {
				cells = append(cells, a)
			}
			for i := 0; i < len(cells) && i < 8; i++ {
				for _, r := range *cells[i].Referrers() {
					if u, ok := r.(*ssa.UnOp); ok {
						for _, rr := range *u.Referrers() {
							if st, ok := rr.(*ssa.Store); ok {
								if next, isLocal := st.Addr.(*ssa.Alloc); isLocal && next != cells[i] {
									dup := false
									for _, c := range cells {
										if c == next {
											dup = true
										}
									}
									if !dup {
										cells = append(cells, next)
									}
								}
							}
						}
					}
				}
			}
			for _, a := range cells {
				for _, r := range *a.Referrers() {
					if u, ok := r.(*ssa.UnOp); ok {
						// loaded as a whole value and stored into an append's varargs
						for _, rr := range *u.Referrers() {
							if st, ok := rr.(*ssa.Store); ok {
								if _, isLocal := st.Addr.(*ssa.Alloc); isLocal {
									continue
								}
								delivered++
								R.check(!refusing[st.Block()], "refuse-pm", fmt.Sprintf("%s: delivery of the message #%d", fname(fn), delivered), P.ipos(u), "only when the target does not refuse private messages", "the private message is delivered to a target that refuses private messages")
							}
						}
					}
				}
			}
			if delivered == 0 {
				R.bad("refuse-pm", fname(fn)+": delivery of the message", P.pos(fn.Pos()), "the message addressed to the target is never appended to the handler's result (or the idiom changed)")
			}
			// the automatic reply is honoured whenever the target has one set — whether or not it refuses messages
			{
				autoBlocks := map[*ssa.BasicBlock]bool{}
				for _, ci := range callsIn(fn) {
					c := ci.Common()
					if calleeName(c) != "hotline.NewTransaction" {
						continue
					}
					for _, f := range callArgsFlat(c)[2:] {
						if nf := callValue(f); nf != nil && calleeName(&nf.Call) == "hotline.NewField" {
							if g, _ := globalName(nf.Call.Args[0]); g == "hotline.FieldData" && strings.Contains(stripRecv(P.sym(nf.Call.Args[1])), "AutoReply") {
								autoBlocks[ci.Block()] = true
							}
						}
					}
				}
				var start *ssa.BasicBlock
				for _, ci := range callsIn(fn) {
					if c, ok := ci.(*ssa.Call); ok {
						if a, _, isAtom := atom(Fact{V: c, Kind: "truth", Holds: true}); isAtom && a == "REFUSE" {
							start = c.Block()
						}
					}
				}
				if start != nil && len(autoBlocks) > 0 {
					for _, refuse := range []bool{false, true} {
						missed := ""
						explore([]psItem{{start, nilState{}}}, cutFor(map[string]bool{"AUTOREPLY": true, "REFUSE": refuse}), false, func(b *ssa.BasicBlock, _ nilState) bool {
							if autoBlocks[b] {
								return false
							}
							if len(b.Instrs) > 0 {
								if r, isRet := b.Instrs[len(b.Instrs)-1].(*ssa.Return); isRet {
									missed = P.ipos(r)
								}
							}
							return true
						})
						R.check(missed == "", "refuse-pm", fmt.Sprintf("%s: automatic reply honoured (target refuses messages: %v)", fname(fn), refuse), P.pos(fn.Pos()),
							"every path with a non-empty auto-reply produces it", "the handler can return at "+missed+" without producing the target's automatic reply although one is set (the recipient's automatic response is dropped)")
					}
				}
			}
			if n < 2 {
				R.bad("refuse-pm", fname(fn)+": notices", P.pos(fn.Pos()), "refusal notice or automatic reply not found")
			}
		}
	} else {
		R.bad("refuse-pm", "transaction 108", "-", "no handler registered")
	}
	R.floor("refuse-pm", 6)

	// ---- notify-after-change / notify-fields
	nStores := 0
	nNotices := 0
	for _, fn := range P.Funcs {
		if fn.Pkg == nil || fn.Pkg.Pkg.Path() == cmdPath {
			continue
		}
		name := fname(fn)
		if name == "(*hotline.Server).handleNewConnection" || name == "(*hotline.Server).newClientConn" || name == "(*hotline.Server).NewClientConn" || strings.HasPrefix(name, "(*hotline.Client)") || name == "hotline.NewClient" {
			continue
		}
		// notice constructions in fn
		var notices []ssa.CallInstruction
		for _, ci := range callsIn(fn) {
			if fields, ok := notifyChangeUserFields(ci); ok {
				notices = append(notices, ci)
				nNotices++
				R.checkNotifyFields(fn, ci, fields)
			}
		}
		isThrough := func(ins ssa.Instruction) bool {
			ci, ok := ins.(ssa.CallInstruction)
			if !ok {
				return false
			}
			if _, ok := notifyChangeUserFields(ci); ok && (!feedsNotifyOthers(ci) || loginTailFns[fname(fn)]) {
				return true
			}
			// the loop over the registry that contains a notice
			if calleeName(ci.Common()) == "(hotline.ClientManager).List" {
				for _, n := range notices {
					if ci.Block().Dominates(n.Block()) {
						return true
					}
				}
			}
			// NotifyOthers is deliberately not accepted here: it leaves out the changed connection itself, whose own
			// client also shows the roster (set-away by the keepalive and clear-away must reach the same audience)
			// a helper that produces the notice on every one of its paths
			for _, cal := range P.callees(ci) {
				if isNotifierFn(P, cal, 0) {
					return true
				}
			}
			return false
		}
		eachInstr(fn, func(ins ssa.Instruction) {
			what := ""
			switch x := ins.(type) {
			case *ssa.Store:
				if fa, ok := x.Addr.(*ssa.FieldAddr); ok {
					if f, _ := fieldOf(fa); f == "hotline.ClientConn.UserName" || f == "hotline.ClientConn.Icon" {
						what = "store " + shortField(f)
					}
				}
			case *ssa.Call:
				if calleeName(&x.Call) == "(*hotline.UserFlags).Set" {
					if fa, ok := x.Call.Args[0].(*ssa.FieldAddr); ok {
						if f, _ := fieldOf(fa); f == "hotline.ClientConn.Flags" {
							what = "Flags.Set"
						}
					}
				}
			}
			if what == "" {
				return
			}
			nStores++
			ok, ret := mustPassAfter(ins, isThrough)
			// a notice constructed earlier in the same block does not count; but one in a dominating loop header does
			pos := P.ipos(ins)
			why := "a roster-visible change of the connection (" + what + ") can reach the function's return without a user-change notice being produced"
			if ret != nil {
				why += " (return at " + P.ipos(ret) + ")"
			}
			R.check(ok, "notify-after-change", fmt.Sprintf("%s: %s #%d", name, what, nStores), pos, "followed by a user-change notice on every path", why)
		})
	}
	R.floor("notify-after-change", 10)
	R.floor("notify-fields", 5)

	// ---- userlist-fields
	if fn := byNum[300]; fn != nil {
		R.analysed(fname(fn))
		// the User literal: stores into fields of an Alloc of type hotline.User
		src := map[string]string{}
		var elems []ssa.Value
		eachInstr(fn, func(ins ssa.Instruction) {
			st, ok := ins.(*ssa.Store)
			if !ok {
				return
			}
			fa, ok := st.Addr.(*ssa.FieldAddr)
			if !ok {
				return
			}
			f, _ := fieldOf(fa)
			if !strings.HasPrefix(f, "hotline.User.") {
				return
			}
			P.reaches(st.Val, func(x ssa.Value) bool {
				if fa2, ok := x.(*ssa.FieldAddr); ok {
					if f2, _ := fieldOf(fa2); strings.HasPrefix(f2, "hotline.ClientConn.") {
						src[shortField(f)] = shortField(f2)
						elems = append(elems, fa2.X)
						return true
					}
				}
				return false
			})
		})
		same := len(elems) > 0
		for _, e := range elems {
			if !sameElem(e, elems[0]) {
				same = false
			}
		}
		fromList := false
		if len(elems) > 0 {
			if c, _ := elemOfCall(elems[0]); c != nil && calleeName(&c.Call) == "(hotline.ClientManager).List" {
				fromList = true
			}
		}
		want := map[string]string{"ID": "ID", "Icon": "Icon", "Flags": "Flags", "Name": "UserName"}
		good := same && fromList
		for k, v := range want {
			if src[k] != v {
				good = false
			}
		}
		R.check(good, "userlist-fields", fname(fn), P.pos(fn.Pos()), "entry = (ID, Icon, Flags, UserName) of one registry element", fmt.Sprintf("the user list entry is not built from ID/Icon/Flags/UserName of the same registry element: %v (same element %v, from ClientMgr.List %v)", src, same, fromList))
	} else {
		R.bad("userlist-fields", "transaction 300", "-", "no handler registered")
	}
}

// writesClientID: a store / PutUint into ClientConn.ID.
func writesClientID(ins ssa.Instruction) bool {
	switch x := ins.(type) {
	case *ssa.Store:
		root := x.Addr
		for {
			switch a := root.(type) {
			case *ssa.IndexAddr:
				root = a.X
				continue
			}
			break
		}
		if fa, ok := root.(*ssa.FieldAddr); ok {
			f, _ := fieldOf(fa)
			return f == "hotline.ClientConn.ID"
		}
	case *ssa.Call:
		if putUintWidth(calleeName(&x.Call)) > 0 || calleeName(&x.Call) == "builtin.copy" {
			for _, a := range x.Call.Args {
				if sl, ok := a.(*ssa.Slice); ok {
					if fa, ok := sl.X.(*ssa.FieldAddr); ok {
						if f, _ := fieldOf(fa); f == "hotline.ClientConn.ID" {
							return true
						}
					}
				}
			}
		}
	}
	return false
}

// mustPassAfterUntil: no instruction matching bad is executed on any path from `from` to `to`.
func mustPassAfterUntil(from, to ssa.Instruction, bad func(ssa.Instruction) bool) (bool, ssa.Instruction) {
	type st struct {
		b   *ssa.BasicBlock
		idx int
	}
	seen := map[*ssa.BasicBlock]bool{}
	work := []st{{from.Block(), instrIndex(from) + 1}}
	for len(work) > 0 {
		s := work[len(work)-1]
		work = work[:len(work)-1]
		stop := false
		for i := s.idx; i < len(s.b.Instrs); i++ {
			ins := s.b.Instrs[i]
			if ins == to || ins == from {
				stop = true
				break
			}
			if bad(ins) {
				// only a problem if `to` is reachable afterwards without the test `from` being executed again
				if reachesWithout(s.b, i+1, to, from) {
					return false, ins
				}
			}
		}
		if stop {
			continue
		}
		for _, n := range s.b.Succs {
			if !seen[n] {
				seen[n] = true
				work = append(work, st{n, 0})
			}
		}
	}
	return true, nil
}

// checkNotifyFields: the four fields of a user-change notice come from one connection.
func (R *Run) checkNotifyFields(fn *ssa.Function, ci ssa.CallInstruction, fields []ssa.Value) {
	P := R.P
	want := map[string]string{"hotline.FieldUserID": "ID", "hotline.FieldUserName": "UserName", "hotline.FieldUserIconID": "Icon", "hotline.FieldUserFlags": "Flags"}
	got := map[string]bool{}
	var bases []ssa.Value
	var problems []string
	for _, f := range fields {
		nf := callValue(f)
		if nf == nil || calleeName(&nf.Call) != "hotline.NewField" {
			continue
		}
		g, _ := globalName(nf.Call.Args[0])
		wantField, ok := want[g]
		if !ok {
			continue
		}
		got[g] = true
		found := false
		P.reaches(nf.Call.Args[1], func(x ssa.Value) bool {
			if fa, ok := x.(*ssa.FieldAddr); ok {
				if f2, _ := fieldOf(fa); f2 == "hotline.ClientConn."+wantField {
					found = true
					bases = append(bases, fa.X)
					return true
				}
			}
			return false
		})
		if !found {
			problems = append(problems, strings.TrimPrefix(g, "hotline.")+" is not built from the connection's "+wantField)
		}
	}
	var missing []string
	for g := range want {
		if !got[g] {
			missing = append(missing, strings.TrimPrefix(g, "hotline."))
		}
	}
	sort.Strings(missing)
	if len(missing) > 0 {
		problems = append(problems, "missing fields "+strings.Join(missing, ", "))
	}
	for _, b := range bases {
		if !sameElem(b, bases[0]) && b != bases[0] {
			problems = append(problems, "the fields describe different connections")
			break
		}
	}
	R.check(len(problems) == 0, "notify-fields", fmt.Sprintf("%s: user-change notice #%d", fname(fn), nthNotice(fn, ci)), P.ipos(ci), "carries ID, name, icon and flags of one connection", strings.Join(problems, "; "))
}

func nthNotice(fn *ssa.Function, target ssa.CallInstruction) int {
	n := 0
	for _, ci := range callsIn(fn) {
		if _, ok := notifyChangeUserFields(ci); ok {
			n++
			if ci == target {
				return n
			}
		}
	}
	return 0
}

func init() { register("C13", checkC13) }

// reachesWithout: starting after instruction index idx of block b, can `to` be executed before `avoid`?
func reachesWithout(b *ssa.BasicBlock, idx int, to, avoid ssa.Instruction) bool {
	return reachesWithoutAny(b, idx, to, map[ssa.Instruction]bool{avoid: true})
}

func reachesWithoutAny(b *ssa.BasicBlock, idx int, to ssa.Instruction, avoid map[ssa.Instruction]bool) bool {
	// the rest of the first block, then the path-sensitive traversal (infeasible "error recorded, yet the
	// success branch taken" paths are not walked)
	for i := idx; i < len(b.Instrs); i++ {
		if b.Instrs[i] == to {
			return true
		}
		if avoid[b.Instrs[i]] {
			return false
		}
	}
	var start []psItem
	for _, s := range feasibleSuccs(b, nilState{}, false) {
		start = append(start, psItem{s.blk, enterBlock(b, s.blk, s.st)})
	}
	hit := false
	explore(start, nil, false, func(blk *ssa.BasicBlock, _ nilState) bool {
		if hit {
			return false
		}
		for _, ins := range blk.Instrs {
			if ins == to {
				hit = true
				return false
			}
			if avoid[ins] {
				return false
			}
		}
		return true
	})
	return hit
}

var notifierMemo = map[*ssa.Function]bool{}

// in the tail of the login sequence the connection announces itself to the others only (its own client has just
// sent these values and receives the roster separately)
var loginTailFns = map[string]bool{"mobius.HandleTranAgreed": true}

// feedsNotifyOthers: the transaction built by this call is handed to NotifyOthers (which leaves out the connection
// itself) rather than sent to everybody.
func feedsNotifyOthers(ci ssa.CallInstruction) bool {
	v, ok := ci.(ssa.Value)
	if !ok || v.Referrers() == nil {
		return false
	}
	for _, r := range *v.Referrers() {
		if c, ok := r.(ssa.CallInstruction); ok && calleeName(c.Common()) == "(*hotline.ClientConn).NotifyOthers" {
			return true
		}
	}
	return false
}

// isNotifierFn: every path from the function's entry to a return constructs / broadcasts a user-change notice.
func isNotifierFn(P *Prog, fn *ssa.Function, depth int) bool {
	if v, ok := notifierMemo[fn]; ok {
		return v
	}
	if fn == nil || len(fn.Blocks) == 0 || depth > 2 {
		return false
	}
	notifierMemo[fn] = false
	ok, _ := mustPassFromBlock(fn.Blocks[0], func(ins ssa.Instruction) bool {
		ci, isCall := ins.(ssa.CallInstruction)
		if !isCall {
			return false
		}
		if _, isN := notifyChangeUserFields(ci); isN {
			return true
		}
		for _, cal := range P.callees(ci) {
			if cal != fn && isNotifierFn(P, cal, depth+1) {
				return true
			}
		}
		return false
	})
	notifierMemo[fn] = ok
	return ok
}

// ruleIDUnique (C13, shared with C14: a reply is correlated with its request through the client ID).
func (R *Run) ruleIDUnique() {
	P := R.P
	_ = P
	nAdd := 0
	for _, fn := range P.Funcs {
		if fn.Name() != "Add" || fn.Signature.Recv() == nil || len(fn.Params) != 2 || typeName(fn.Params[1].Type()) != "*hotline.ClientConn" {
			continue
		}
		nAdd++
		R.analysed(fname(fn))
		var updates []*ssa.MapUpdate
		eachInstr(fn, func(i ssa.Instruction) {
			if mu, ok := i.(*ssa.MapUpdate); ok && mu.Value == ssa.Value(fn.Params[1]) {
				updates = append(updates, mu)
			}
		})
		if len(updates) == 0 {
			R.und("id-unique", fname(fn), P.pos(fn.Pos()), "no registry insertion of the connection found")
			continue
		}
		for i, mu := range updates {
			construct := fmt.Sprintf("%s: registry insert #%d", fname(fn), i+1)
			mapField, _ := loadedField(mu.Map)
			keySym := stripRecv(P.sym(mu.Key))
			// a key that was chosen between alternatives beforehand (the ID found, or the zero ID when none was): only the
			// alternatives with which the insertion can be reached count
			if phi, isPhi := stripConv(resolveLocal(stripConv(mu.Key))).(*ssa.Phi); isPhi {
				alts := map[string]bool{}
				for i, e := range phi.Edges {
					if i < len(phi.Block().Preds) && reachesViaEdge(phi.Block().Preds[i], phi.Block(), mu.Block()) {
						alts[stripRecv(P.sym(e))] = true
					}
				}
				if len(alts) == 1 {
					for a := range alts {
						keySym = a
					}
				}
			}
			// lookups of the same key in the same map
			var lk *ssa.Lookup
			cut := map[Edge]bool{}
			zeroCut := map[Edge]bool{}
			keyIsField := strings.Contains(keySym, "hotline.ClientConn.ID")
			factEdgesImplied(fn, func(e Edge, f Fact) {
				if f.Kind == "truth" {
					if ex, ok := f.V.(*ssa.Extract); ok && ex.Index == 1 {
						if l, ok := ex.Tuple.(*ssa.Lookup); ok && l.CommaOk {
							if mf, _ := loadedField(l.X); mf == mapField && stripRecv(P.sym(l.Index)) == keySym {
								lk = l
								if !f.Holds { // keep only the paths on which the ID is present: no insertion may be reachable
									cut[e] = true
								}
							}
						}
					}
					// cc.ID != ClientID{} against a literal
					if b, ok := f.V.(*ssa.BinOp); ok {
						for _, pair := range [][2]ssa.Value{{b.X, b.Y}, {b.Y, b.X}} {
							if fl, ok := loadedField(pair[0]); (ok && fl == "hotline.ClientConn.ID") || (!keyIsField && stripRecv(P.sym(pair[0])) == keySym) {
								if bs, ok := P.bytesOf(pair[1]); ok && len(bs) == 2 && bs[0] == 0 && bs[1] == 0 {
									isZero := f.Holds == (b.Op.String() == "==")
									if !isZero {
										zeroCut[e] = true // keep only "ID is zero" paths
									}
								}
							}
						}
					}
				}
			})
			factEdgesImplied(fn, func(e Edge, f Fact) {
				// comparison with the zero value ClientID{} is rendered as a nil-kind fact
				if f.Kind == "nil" {
					if fl, ok := loadedField(f.V); (ok && fl == "hotline.ClientConn.ID") || (!keyIsField && stripRecv(P.sym(f.V)) == keySym) {
						if !f.Holds {
							zeroCut[e] = true
						}
					}
				}
			})
			var problems []string
			if lk == nil {
				problems = append(problems, "the registry entry is written without first testing whether that ID is already held by a connected client (the 16-bit counter wraps after 65535 connections and evicts a live user)")
			} else {
				if reachable(fn, cut)[mu.Block()] {
					problems = append(problems, "the insertion is reachable on the edge where the ID is already present")
				}
				// no ID write between lookup and update
				if keyIsField {
					ok, _ := mustPassAfterUntil(lk, mu, func(ins ssa.Instruction) bool { return writesClientID(ins) })
					if !ok {
						problems = append(problems, "the connection's ID is rewritten between the membership test and the insertion")
					}
				} else {
					// the key is a local value (symbolically the same at the test and at the insertion): the connection
					// must be given exactly that value as its ID before it is registered under it
					given := false
					eachInstr(fn, func(ins ssa.Instruction) {
						if st, ok := ins.(*ssa.Store); ok && writesClientID(ins) {
							if st.Block() != mu.Block() && !reachableFrom(st.Block(), nil)[mu.Block()] {
								return // a write from which the insertion cannot be reached (the give-up path)
							}
							if (stripRecv(P.sym(st.Val)) == keySym || st.Val == mu.Key) && instrDominates(st, mu) {
								given = true
							} else {
								given = false
								problems = append(problems, "the connection's ID is written with something else than the key it is registered under at "+P.ipos(st))
							}
						}
					})
					if !given {
						problems = append(problems, "the connection is registered under a key that is not stored as its ID")
					}
				}
				if len(zeroCut) == 0 || reachable(fn, zeroCut)[mu.Block()] {
					problems = append(problems, "the reserved zero ID can be handed out")
				}
			}
			R.check(len(problems) == 0, "id-unique", construct, P.ipos(mu), "insert only for an ID that is absent and non-zero", strings.Join(problems, "; "))
		}
	}
	if nAdd == 0 {
		R.bad("id-unique", "ClientManager.Add implementations", "-", "no non-mock Add(cc *ClientConn) method found")
	}
	// the ID counter only moves forward: an ID that was handed out is not handed out again while private chats,
	// pending transfers and other users' lists may still refer to the connection that held it
	nCtr := 0
	for _, fn := range P.Funcs {
		if isClientLibrary(fn) {
			continue
		}
		for _, ci := range callsIn(fn) {
			c := ci.Common()
			m := c.StaticCallee()
			if m == nil || m.Signature.Recv() == nil || len(c.Args) == 0 || !strings.HasPrefix(calleeName(c), "(*sync/atomic.") {
				continue
			}
			fa, ok := c.Args[0].(*ssa.FieldAddr)
			if !ok {
				continue
			}
			if f, _ := fieldOf(fa); f != "hotline.MemClientMgr.nextClientID" {
				// the counter kept in a struct type of its own that the manager holds (a type the reference tree does not have)
				outer, isFA := fa.X.(*ssa.FieldAddr)
				if !isFA || refTypes == nil {
					continue
				}
				of, _ := fieldOf(outer)
				it := outer.Type().Underlying().(*types.Pointer).Elem()
				if !strings.HasPrefix(of, "hotline.MemClientMgr.") || fullTypeName(it) == "" || refTypes[fullTypeName(it)] {
					continue
				}
			}
			nCtr++
			good := false
			switch m.Name() {
			case "Load":
				good = true
			case "Add":
				if k, isK := constInt(c.Args[1]); isK && k == 1 {
					good = true
				}
			}
			R.check(good, "id-unique", fmt.Sprintf("%s: nextClientID.%s #%d", fname(fn), m.Name(), nCreateIn(fn, ci)), P.ipos(ci), "the counter is read or advanced by one",
				"the client ID counter is "+m.Name()+"-ed with something else than +1: IDs that were handed out are issued again, and whatever still refers to the old holder (private chat membership, transactions in flight) reaches the newcomer")
		}
	}
	if nCtr == 0 {
		R.und("id-unique", "MemClientMgr.nextClientID", "-", "no use of the ID counter found (mechanism moved)")
	}

}
