package main

// sym.go — symbolic normal forms of string/path expressions (for "same expression" comparisons) and
// helpers for variadic argument lists and spilled return values.

import (
	"fmt"
	"go/token"
	"go/types"
	"sort"
	"strings"

	"golang.org/x/tools/go/ssa"
)

// varargElems returns the elements of a variadic argument slice built by the compiler
// (`new [N]T (varargs)`, stores to each index, slice) or nil.
func varargElems(v ssa.Value) ([]ssa.Value, bool) {
	s, ok := v.(*ssa.Slice)
	if !ok {
		if c, ok := v.(*ssa.Const); ok && c.Value == nil {
			return nil, true // nil slice: no elements
		}
		return nil, false
	}
	a, ok := s.X.(*ssa.Alloc)
	if !ok {
		return nil, false
	}
	arr, ok := derefType(a.Type()).Underlying().(*types.Array)
	if !ok {
		return nil, false
	}
	out := make([]ssa.Value, arr.Len())
	for _, r := range *a.Referrers() {
		ia, ok := r.(*ssa.IndexAddr)
		if !ok {
			continue
		}
		idx, ok := constInt(ia.Index)
		if !ok || idx < 0 || idx >= arr.Len() {
			return nil, false
		}
		for _, rr := range *ia.Referrers() {
			if st, ok := rr.(*ssa.Store); ok && st.Addr == ssa.Value(ia) {
				out[idx] = st.Val
			}
		}
	}
	for _, x := range out {
		if x == nil {
			return nil, false
		}
	}
	return out, true
}

// callArgsFlat returns the arguments of a call with a trailing compiler-built variadic slice expanded.
func callArgsFlat(c *ssa.CallCommon) []ssa.Value {
	args := c.Args
	sig := c.Signature()
	if sig != nil && sig.Variadic() && len(args) > 0 {
		if el, ok := varargElems(args[len(args)-1]); ok {
			return append(append([]ssa.Value{}, args[:len(args)-1]...), el...)
		}
	}
	return args
}

// sym renders a normal form of a (string-like) value. Loads of local single-assignment cells are
// forwarded to the stored value; struct fields are named by (type, field); everything unknown is
// rendered by its SSA name so that different unknowns never compare equal by accident.
func (P *Prog) sym(v ssa.Value) string { return P.symD(v, 0) }

func (P *Prog) symD(v ssa.Value, d int) string {
	if v == nil {
		return "nil"
	}
	if d > 12 {
		return "…" + v.Name()
	}
	switch x := v.(type) {
	case *ssa.Const:
		if s, ok := constString(x); ok {
			return fmt.Sprintf("%q", s)
		}
		if x.Value != nil {
			return x.Value.ExactString()
		}
		return "nil"
	case *ssa.Parameter:
		return "param:" + x.Name()
	case *ssa.FreeVar:
		return "free:" + x.Name()
	case *ssa.Convert:
		return P.symD(x.X, d+1)
	case *ssa.ChangeType:
		return P.symD(x.X, d+1)
	case *ssa.MakeInterface:
		return P.symD(x.X, d+1)
	case *ssa.BinOp:
		if x.Op == token.ADD {
			return P.symD(x.X, d+1) + "+" + P.symD(x.Y, d+1)
		}
		return "(" + P.symD(x.X, d+1) + x.Op.String() + P.symD(x.Y, d+1) + ")"
	case *ssa.Phi:
		var parts []string
		for _, e := range x.Edges {
			parts = append(parts, P.symD(e, d+1))
		}
		sort.Strings(parts)
		return "phi(" + strings.Join(uniq(parts), "|") + ")"
	case *ssa.UnOp:
		if x.Op == token.MUL {
			switch a := x.X.(type) {
			case *ssa.FieldAddr:
				// a field of a local struct that merely carries a value from where it was built to here
				if _, isLocal := a.X.(*ssa.Alloc); isLocal {
					if r := resolveLocal(x); r != ssa.Value(x) {
						return P.symD(r, d+1)
					}
				}
				f, _ := fieldOf(a)
				return "field:" + f + "@" + P.symD(a.X, d+1)
			case *ssa.Alloc:
				if val, ok := singleStore(a); ok {
					return P.symD(val, d+1)
				}
				// struct-valued local (e.g. parameter spilled to memory): name the cell
				return "cell:" + a.Comment + a.Name()
			case *ssa.Global:
				return "global:" + a.Name()
			case *ssa.IndexAddr:
				// an element of a local array that merely carries a value
				if _, isLocal := a.X.(*ssa.Alloc); isLocal {
					if r := resolveLocal(x); r != ssa.Value(x) {
						return P.symD(r, d+1)
					}
				}
				return P.symD(a.X, d+1) + "[" + P.symD(a.Index, d+1) + "]"
			case *ssa.FreeVar:
				c := cellOf(x)
				if al, ok := c.(*ssa.Alloc); ok {
					if val, ok := singleStore(al); ok {
						return P.symD(val, d+1)
					}
				}
				return "free:" + a.Name()
			}
		}
		return x.Op.String() + P.symD(x.X, d+1)
	case *ssa.Alloc:
		return "cell:" + x.Comment + x.Name()
	case *ssa.FieldAddr:
		f, _ := fieldOf(x)
		return "&field:" + f + "@" + P.symD(x.X, d+1)
	case *ssa.Field:
		f, _ := fieldOf(x)
		return "field:" + f + "@" + P.symD(x.X, d+1)
	case *ssa.Extract:
		return P.symD(x.Tuple, d+1) + "#" + fmt.Sprint(x.Index)
	case *ssa.Call:
		name := calleeName(&x.Call)
		args := callArgsFlat(&x.Call)
		var parts []string
		for _, a := range args {
			parts = append(parts, P.symD(a, d+1))
		}
		switch name {
		case "path/filepath.Join", "path.Join":
			// Join with a single argument is Clean(arg); keep the wrapper (it matters for anchoring)
			return "Join(" + strings.Join(parts, ",") + ")"
		}
		if x.Call.IsInvoke() {
			return name + "(" + P.symD(x.Call.Value, d+1) + ";" + strings.Join(parts, ",") + ")"
		}
		return name + "(" + strings.Join(parts, ",") + ")"
	case *ssa.Slice:
		return P.symD(x.X, d+1) + "[:]"
	case *ssa.Index:
		return P.symD(x.X, d+1) + "[" + P.symD(x.Index, d+1) + "]"
	case *ssa.Lookup:
		return P.symD(x.X, d+1) + "[" + P.symD(x.Index, d+1) + "]"
	}
	return v.Name() + ":" + fmt.Sprintf("%T", v)
}

func uniq(s []string) []string {
	var out []string
	for i, x := range s {
		if i == 0 || x != s[i-1] {
			out = append(out, x)
		}
	}
	return out
}

// symNoRecv drops the "@receiver" parts so that the same field reached through different
// loads of the same receiver compares equal.
func stripRecv(s string) string {
	// remove "@param:xyz" / "@..." up to the next delimiter
	var b strings.Builder
	i := 0
	for i < len(s) {
		if s[i] == '@' {
			depth := 0
			j := i + 1
			for j < len(s) {
				ch := s[j]
				if ch == '(' || ch == '[' {
					depth++
				}
				if ch == ')' || ch == ']' {
					if depth == 0 {
						break
					}
					depth--
				}
				if depth == 0 && (ch == ',' || ch == '+' || ch == '|' || ch == ';') {
					break
				}
				j++
			}
			i = j
			continue
		}
		b.WriteByte(s[i])
		i++
	}
	return b.String()
}

// retValue resolves the idx-th result of a Return, looking through the named-result spill that go/ssa
// uses in functions with defers (`*r = v; rundefers; return *r`).
func retValue(ret *ssa.Return, idx int) ssa.Value {
	if idx >= len(ret.Results) {
		return nil
	}
	v := ret.Results[idx]
	u, ok := v.(*ssa.UnOp)
	if !ok || u.Op != token.MUL {
		return v
	}
	a, ok := u.X.(*ssa.Alloc)
	if !ok {
		return v
	}
	b := ret.Block()
	var last ssa.Value
	for _, ins := range b.Instrs {
		if st, ok := ins.(*ssa.Store); ok && st.Addr == ssa.Value(a) {
			last = st.Val
		}
	}
	if last != nil {
		// `return err` of a named result that a deferred function shares: what is stored back is a reload of the variable
		if ld, isLd := last.(*ssa.UnOp); isLd && ld.Op == token.MUL {
			if _, isA := ld.X.(*ssa.Alloc); isA {
				return blockLocalValue(ld)
			}
		}
		return last
	}
	// stored in a dominating block: follow single predecessor chain
	cur := b
	for len(cur.Preds) == 1 {
		cur = cur.Preds[0]
		for i := len(cur.Instrs) - 1; i >= 0; i-- {
			if st, ok := cur.Instrs[i].(*ssa.Store); ok && st.Addr == ssa.Value(a) {
				return st.Val
			}
		}
	}
	return v
}

// isSuccessReturn: the error result (last result) of ret is the nil constant.
func isSuccessReturn(ret *ssa.Return) bool {
	n := len(ret.Results)
	if n == 0 {
		return true
	}
	last := ret.Results[n-1]
	if !isErrorType(last.Type()) {
		return true
	}
	return isNilConst(retValue(ret, n-1))
}

// mayBeSuccessReturn: the error result is nil, or the result of a call that may return nil (anything but
// fmt.Errorf / errors.New) and the return is not on the branch where that result was found non-nil.
func mayBeSuccessReturn(fn *ssa.Function, ret *ssa.Return) bool {
	n := len(ret.Results)
	if n == 0 {
		return true
	}
	if !isErrorType(ret.Results[n-1].Type()) {
		return true
	}
	v := retValue(ret, n-1)
	if isNilConst(v) {
		return true
	}
	c := callValue(v)
	if c == nil {
		return false
	}
	switch calleeName(&c.Call) {
	case "fmt.Errorf", "errors.New", "errors.Join":
		return false
	}
	nonNil := false
	factEdges(fn, func(e Edge, f Fact) {
		if f.Kind == "nil" && !f.Holds && callValue(f.V) == c {
			if (e.To == ret.Block() && len(ret.Block().Preds) == 1) || edgeDominates(fn, e, ret.Block()) {
				nonNil = true
			}
		}
	})
	return !nonNil
}
