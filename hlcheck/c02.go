package main

// c02.go — C02: segmentation-independent parsing of client byte streams.

import (
	"fmt"
	"go/token"
	"go/types"
	"regexp"
	"sort"
	"strings"

	"golang.org/x/tools/go/ssa"
)

// positionalDecoders: repo types whose Write([]byte) parses its argument by position (frame decoders).
func (P *Prog) positionalDecoders() map[string]*ssa.Function {
	out := map[string]*ssa.Function{}
	for _, fn := range P.Funcs {
		if fn.Name() != "Write" || fn.Signature.Recv() == nil || fn.Parent() != nil || len(fn.Params) != 2 {
			continue
		}
		if typeName(fn.Params[1].Type()) != "[]byte" {
			continue
		}
		positional := P.positionalUse(fn.Params[1], 0)
		if positional {
			out[typeName(derefType(fn.Params[0].Type()))] = fn
		}
	}
	return out
}

// positionalUse: the byte slice parameter is taken apart by position (sliced / indexed with bounds, compared in
// length with a constant, handed to a binary.Read buffer) — here or in a repo function it is passed on to whole.
func (P *Prog) positionalUse(p *ssa.Parameter, depth int) bool {
	for _, r := range *p.Referrers() {
		switch x := r.(type) {
		case *ssa.Slice:
			if x.Low != nil || x.High != nil {
				return true
			}
		case *ssa.IndexAddr, *ssa.Index:
			return true
		case *ssa.Call:
			n := calleeName(&x.Call)
			if n == "bytes.NewReader" || n == "bytes.NewBuffer" {
				return true // handed to binary.Read
			}
			if n == "builtin.len" {
				for _, rr := range *x.Referrers() {
					if b, ok := rr.(*ssa.BinOp); ok {
						if _, isC := constInt(b.X); isC {
							return true
						}
						if _, isC := constInt(b.Y); isC && (b.Op == token.NEQ || b.Op == token.LSS || b.Op == token.EQL || b.Op == token.GTR) {
							return true
						}
					}
				}
			}
			if h, ok := x.Call.Value.(*ssa.Function); ok && h.Blocks != nil && P.isRepoPkg(pkgOf(h)) && depth < 2 {
				for j, a := range x.Call.Args {
					if a == ssa.Value(p) && j < len(h.Params) && P.positionalUse(h.Params[j], depth+1) {
						return true
					}
				}
			}
		}
	}
	return false
}

// concreteBelowInterface returns the static type of the value that was converted to an interface.
func concreteBelowInterface(v ssa.Value) (types.Type, ssa.Value) {
	for {
		switch x := v.(type) {
		case *ssa.MakeInterface:
			return x.X.Type(), x.X
		case *ssa.ChangeInterface:
			v = x.X
		case *ssa.ChangeType:
			v = x.X
		default:
			return v.Type(), v
		}
	}
}

func isWholeBufferReader(t types.Type) bool {
	switch typeName(t) {
	case "*bytes.Reader", "*bytes.Buffer", "*strings.Reader":
		return true
	}
	return false
}

func isStreamType(t types.Type) bool {
	if _, ok := t.Underlying().(*types.Interface); ok {
		return true
	}
	switch typeName(t) {
	case "*bufio.Reader", "*net.TCPConn", "*os.File":
		return typeName(t) != "*os.File"
	}
	return false
}

func checkC02(R *Run) {
	P := R.P
	R.rule("frame-feed", "a positional frame decoder (a repo type whose Write slices/indexes its argument, hands it to binary.Read or tests its length against a constant) is only ever fed through io.Copy/CopyN/CopyBuffer/TeeReader from a whole-buffer reader (*bytes.Reader, *bytes.Buffer, *strings.Reader); a stream source (connection, io.Reader parameter) would hand it whatever one read returned")
	R.rule("bare-read", "in the functions reachable from the two connection entry points no Read method of a stream (interface reader, *bufio.Reader) is called directly: bytes are obtained only through io.ReadFull, binary.Read, io.CopyN/io.Copy into an accumulating sink, bufio.Scanner, or io.ReadAtLeast with min = len(buf)")
	R.rule("split-guard", "for every split function installed on a scanner that reads a stream: a token data[a:b] is only returned where b <= len(data) has been established by a dominating comparison, constant-bound reads of data are covered by a dominating len(data) >= K test, and the 'need more data' returns are (0, nil, nil)")
	R.rule("preamble-read", "the handshake and the file transfer preamble are accumulated with io.ReadFull into a buffer of exactly the frame size (12 / 16 bytes) before being decoded")

	R.rule("single-buffered-reader", "per connection entry point at most one buffering reader (bufio.Scanner / bufio.Reader) wraps the connection (also through helpers that are handed the connection), and no raw read of the connection is dominated by its creation: a second reader never sees what the first one buffered")
	R.ruleSingleBufferedReader()
	R.floor("single-buffered-reader", 2)
	R.ruleFrameFeed()

	// server-side call tree
	var roots []*ssa.Function
	for _, n := range []string{"(*hotline.Server).handleNewConnection", "(*hotline.Server).handleFileTransfer", "(*hotline.Server).Serve", "(*hotline.Server).ServeFileTransfers"} {
		if f := R.mustFn(n); f != nil {
			roots = append(roots, f)
		}
	}
	// handlers are reached through the handler table
	for _, reg := range R.registeredHandlers() {
		roots = append(roots, reg.Fn)
	}
	server := P.reachFuncs(roots...)
	nReadSites := 0
	var consumption []string
	for fn := range server {
		for _, ci := range callsIn(fn) {
			c := ci.Common()
			name := calleeName(c)
			isRead := false
			var recvT types.Type
			if c.IsInvoke() && c.Method.Name() == "Read" && c.Signature().Params().Len() == 1 {
				isRead = true
				recvT = c.Value.Type()
			} else if name == "(*bufio.Reader).Read" || name == "(*net.TCPConn).Read" {
				isRead = true
				recvT = c.Args[0].Type()
			}
			if isRead && isStreamType(recvT) {
				nReadSites++
				R.bad("bare-read", fmt.Sprintf("%s: %s.Read #%d", fname(fn), typeName(recvT), nCreateIn(fn, ci)), P.ipos(ci),
					"a single Read of a stream is used directly; it may return fewer bytes than requested, so the result depends on how TCP segmented the data")
				continue
			}
			if name == "io.ReadAtLeast" && len(c.Args) == 3 {
				nReadSites++
				minSym := P.sym(c.Args[2])
				bufLen := "builtin.len(" + P.sym(c.Args[1]) + ")"
				R.check(minSym == bufLen || isLenOf(c.Args[2], c.Args[1]), "bare-read", fmt.Sprintf("%s: io.ReadAtLeast #%d", fname(fn), nCreateIn(fn, ci)), P.ipos(ci), "min = len(buf)", "io.ReadAtLeast with min "+minSym+" < len(buf) accepts a short read")
				continue
			}
			switch name {
			case "io.ReadFull", "encoding/binary.Read", "io.CopyN", "io.Copy", "bufio.NewScanner", "io.ReadAll":
				// consumption of a stream operand?
				for _, a := range c.Args {
					t, _ := concreteBelowInterface(a)
					if _, isIface := a.Type().Underlying().(*types.Interface); isIface && isStreamType(t) && !isWholeBufferReader(t) && (name != "io.Copy" && name != "io.CopyN" || a == c.Args[1]) {
						nReadSites++
						consumption = append(consumption, fmt.Sprintf("%s at %s", name, P.ipos(ci)))
						break
					}
				}
			}
		}
	}
	sort.Strings(consumption)
	R.ok("bare-read", "server-side call tree", "-", fmt.Sprintf("%d functions reachable from the connection entry points; %d stream consumption sites, all whole-read primitives: %s", len(server), len(consumption), strings.Join(consumption, "; ")))
	if len(consumption) < 10 {
		R.bad("bare-read", "floor", "-", fmt.Sprintf("only %d stream consumption sites found in the server-side call tree (>= 10 on the reference tree)", len(consumption)))
	}
	R.countSites(nReadSites)

	// ---- preamble-read
	for _, it := range []struct {
		fn, decoder string
		size        int64
	}{{"hotline.performHandshake", "(*hotline.handshake).Write", 12}, {"(*hotline.Server).handleFileTransfer", "(*hotline.transfer).Write", 16}} {
		fn := R.mustFn(it.fn)
		if fn == nil {
			continue
		}
		R.analysed(fname(fn))
		var wr, rf *ssa.Call
		for _, ci := range callsIn(fn) {
			if c, ok := ci.(*ssa.Call); ok {
				switch calleeName(&c.Call) {
				case it.decoder:
					wr = c
				case "io.ReadFull":
					if rf == nil {
						rf = c
					}
				case "io.ReadAtLeast":
					// io.ReadAtLeast(r, buf, len(buf)) is the body of io.ReadFull
					if rf == nil && len(c.Call.Args) == 3 && isLenOf(c.Call.Args[2], c.Call.Args[1]) {
						rf = c
					}
				}
			}
		}
		construct := it.fn + ": frame of " + fmt.Sprint(it.size) + " bytes"
		// second idiom: binary.Read(stream, order, &frame) with frame the decoder's fixed-size struct — binary.Read
		// itself does io.ReadFull into a buffer of exactly binary.Size(frame) bytes
		if wr == nil {
			done := false
			for _, ci := range callsIn(fn) {
				c, ok := ci.(*ssa.Call)
				if !ok || calleeName(&c.Call) != "encoding/binary.Read" || len(c.Call.Args) != 3 {
					continue
				}
				dt, _ := concreteBelowInterface(c.Call.Args[2])
				st, _ := concreteBelowInterface(c.Call.Args[0])
				if dt == nil || !strings.HasPrefix(it.decoder, "(*"+typeName(derefType(dt))+")") {
					continue
				}
				size := fixedWireSize(derefType(dt))
				R.check(size == it.size && isStreamType(st), "preamble-read", construct, P.ipos(c),
					fmt.Sprintf("binary.Read of the %d-byte frame struct straight from the stream (reads exactly that many bytes)", size),
					fmt.Sprintf("binary.Read into %s reads %d bytes, the frame has %d (stream source: %v)", typeName(derefType(dt)), size, it.size, isStreamType(st)))
				done = true
				break
			}
			if done {
				continue
			}
		}
		if wr == nil || rf == nil {
			R.bad("preamble-read", construct, P.pos(fn.Pos()), "the frame is not read with io.ReadFull (or io.ReadAtLeast with min = len(buf)) and then decoded with "+it.decoder+" (accepted idiom: buf := make([]byte, N); io.ReadFull(r, buf); x.Write(buf))")
			continue
		}
		// the decoded bytes are (a prefix slice of) the buffer ReadFull filled, whose size is N, and ReadFull comes first
		bufRoot := rootCell(stripSlice(rf.Call.Args[1]))
		decRoot := rootCell(stripSlice(wr.Call.Args[1]))
		size := int64(-1)
		if a, ok := bufRoot.(*ssa.Alloc); ok {
			if arr, ok := derefType(a.Type()).Underlying().(*types.Array); ok {
				size = arr.Len()
			}
		}
		if ms, ok := bufRoot.(*ssa.MakeSlice); ok {
			if n, ok := constInt(ms.Len); ok {
				size = n
			}
		}
		readsConn := false
		if t, _ := concreteBelowInterface(rf.Call.Args[0]); isStreamType(t) {
			readsConn = true
		}
		R.check(bufRoot == decRoot && size == it.size && instrDominates(rf, wr) && readsConn, "preamble-read", construct, P.ipos(rf),
			fmt.Sprintf("io.ReadFull into a %d-byte buffer, then decoded", size),
			fmt.Sprintf("frame handling is not 'ReadFull into a %d-byte buffer, then decode that buffer' (buffer size %d, same buffer %v, read first %v)", it.size, size, bufRoot == decRoot, instrDominates(rf, wr)))
	}
	R.floor("preamble-read", 2)

	// ---- split-guard
	nSplit := 0
	for _, fn := range P.Funcs {
		for _, ci := range callsIn(fn) {
			c := ci.Common()
			if calleeName(c) != "(*bufio.Scanner).Split" {
				continue
			}
			sf, _ := stripConv(c.Args[1]).(*ssa.Function)
			if sf == nil || sf.Blocks == nil {
				continue
			}
			// the scanner's source
			stream := true
			if ns := callValue(c.Args[0]); ns != nil && calleeName(&ns.Call) == "bufio.NewScanner" {
				t, _ := concreteBelowInterface(ns.Call.Args[0])
				stream = !isWholeBufferReader(t)
			}
			if !stream {
				continue
			}
			if !server[fn] {
				R.note("split function " + fname(sf) + " is installed on a stream only in " + fname(fn) + ", which belongs to the client library (not reachable from the server's connection entry points): out of scope for this property.")
				continue
			}
			nSplit++
			R.analysed(fname(sf))
			R.checkSplit(sf, fmt.Sprintf("%s (installed in %s)", fname(sf), fname(fn)))
		}
	}
	R.floor("split-guard", 1)
	_ = nSplit
}

// checkSplit verifies the guard discipline of one bufio.SplitFunc.
func (R *Run) checkSplit(sf *ssa.Function, construct string) {
	P := R.P
	data := sf.Params[0]
	// knownLE(b, x): block b is dominated by an edge establishing x <= len(data) (x an SSA value) ;
	// knownMin(b): the largest constant K with len(data) >= K established.
	isLenData := func(v ssa.Value) bool {
		c, ok := v.(*ssa.Call)
		return ok && calleeName(&c.Call) == "builtin.len" && c.Call.Args[0] == ssa.Value(data)
	}
	type bound struct {
		e      Edge
		val    ssa.Value // val <= len(data)
		constK int64     // len(data) >= K
	}
	var bounds []bound
	factEdges(sf, func(e Edge, f0 Fact) {
		for _, f := range impliedFacts(f0, 0) {
			if f.Kind != "truth" {
				continue
			}
			b, ok := f.V.(*ssa.BinOp)
			if !ok {
				continue
			}
			// normalise to: len(data) OP y   (holds)
			op := b.Op
			var other ssa.Value
			switch {
			case isLenData(b.X):
				other = b.Y
			case isLenData(b.Y):
				other = b.X
				switch op {
				case token.LSS:
					op = token.GTR
				case token.GTR:
					op = token.LSS
				case token.LEQ:
					op = token.GEQ
				case token.GEQ:
					op = token.LEQ
				}
			default:
				continue
			}
			if !f.Holds {
				switch op {
				case token.LSS:
					op = token.GEQ
				case token.GEQ:
					op = token.LSS
				case token.GTR:
					op = token.LEQ
				case token.LEQ:
					op = token.GTR
				default:
					continue
				}
			}
			// now: len(data) op other holds on edge e
			switch op {
			case token.GEQ: // len >= other
				if k, ok := constInt(other); ok {
					bounds = append(bounds, bound{e: e, constK: k})
				} else {
					bounds = append(bounds, bound{e: e, val: other})
				}
			case token.GTR: // len > other
				if k, ok := constInt(other); ok {
					bounds = append(bounds, bound{e: e, constK: k + 1})
				} else {
					bounds = append(bounds, bound{e: e, val: other})
				}
			}
		}
	})
	dominatedBy := func(e Edge, b *ssa.BasicBlock) bool {
		return (e.To == b && len(b.Preds) == 1) || edgeDominates(sf, e, b)
	}
	minLen := func(b *ssa.BasicBlock) int64 {
		var k int64
		for _, bd := range bounds {
			if bd.val == nil && bd.constK > k && dominatedBy(bd.e, b) {
				k = bd.constK
			}
		}
		return k
	}
	leLen := func(v ssa.Value, b *ssa.BasicBlock) bool {
		if k, ok := constInt(v); ok {
			return k <= minLen(b)
		}
		for _, bd := range bounds {
			if bd.val != nil && (bd.val == v || P.sym(bd.val) == P.sym(v) || P.symInl(bd.val, 0) == P.symInl(v, 0)) && dominatedBy(bd.e, b) {
				return true
			}
		}
		return false
	}
	var problems []string
	// constant-bound reads of data
	eachInstr(sf, func(ins ssa.Instruction) {
		switch x := ins.(type) {
		case *ssa.Slice:
			if x.X != ssa.Value(data) || x.High == nil {
				return
			}
			// token return or header read
			if !leLen(x.High, x.Block()) {
				problems = append(problems, fmt.Sprintf("data[..:%s] at %s is not covered by a dominating test that %s <= len(data)", P.sym(x.High), P.ipos(x), P.sym(x.High)))
			}
		case *ssa.IndexAddr:
			if x.X != ssa.Value(data) {
				return
			}
			if k, ok := constInt(x.Index); ok {
				if k+1 > minLen(x.Block()) {
					problems = append(problems, fmt.Sprintf("data[%d] at %s is read without a dominating len(data) >= %d test", k, P.ipos(x), k+1))
				}
			}
		}
	})
	// returns: token nil ⇒ (0, nil, nil) unless an error is returned
	nTok := 0
	for _, rt := range returnTuples(sf) {
		ret := rt.ret
		adv, tok, errv := rt.vals[0], rt.vals[1], rt.vals[2]
		if isNilConst(tok) {
			if a, ok := constInt(adv); (!ok || a != 0) && isNilConst(errv) {
				problems = append(problems, "a 'need more data' return advances the input at "+P.ipos(ret))
			}
			continue
		}
		nTok++
		sl, ok := stripConv(tok).(*ssa.Slice)
		if !ok || sl.X != ssa.Value(data) {
			problems = append(problems, "token is not a slice of data at "+P.ipos(ret))
			continue
		}
		// advance must equal the token's upper bound (no bytes skipped or re-read)
		if sl.High != nil && adv != sl.High {
			if !(P.sym(adv) == P.sym(sl.High)) {
				problems = append(problems, fmt.Sprintf("advance %s differs from the token's end %s at %s", P.sym(adv), P.sym(sl.High), P.ipos(ret)))
			}
		}
	}
	if nTok == 0 {
		problems = append(problems, "no token-returning path")
	}
	R.check(len(problems) == 0, "split-guard", construct, P.pos(sf.Pos()), "every token and header read is covered by a dominating length test", strings.Join(problems, "; "))
}

func init() { register("C02", checkC02) }

// isLenOf: n is len(buf) of the same slice value, or the constant length the slice was made with.
func isLenOf(n, buf ssa.Value) bool {
	if c, ok := n.(*ssa.Call); ok {
		if b, ok := c.Call.Value.(*ssa.Builtin); ok && b.Name() == "len" && len(c.Call.Args) == 1 {
			return c.Call.Args[0] == buf || rootCell(stripSlice(c.Call.Args[0])) == rootCell(stripSlice(buf)) && !isSliced(c.Call.Args[0]) && !isSliced(buf)
		}
	}
	if k, ok := constInt(n); ok {
		// buf is arr[:] of an array of k bytes (len of an array is folded to a constant)
		if sl, ok := buf.(*ssa.Slice); ok && sl.Low == nil && sl.High == nil {
			if pt, ok := sl.X.Type().Underlying().(*types.Pointer); ok {
				if arr, ok := pt.Elem().Underlying().(*types.Array); ok {
					return arr.Len() == k
				}
			}
		}
		switch r := rootCell(stripSlice(buf)).(type) {
		case *ssa.MakeSlice:
			if m, ok := constInt(r.Len); ok && !isSliced(buf) {
				return m == k
			}
		case *ssa.Alloc:
			if arr, ok := derefType(r.Type()).Underlying().(*types.Array); ok && isWholeSlice(buf) {
				return arr.Len() == k
			}
		}
	}
	return false
}

// isSliced: v is a proper sub-slice expression (low or high bound given) rather than the slice itself.
func isSliced(v ssa.Value) bool {
	if s, ok := v.(*ssa.Slice); ok {
		if _, isPtrArr := s.X.Type().Underlying().(*types.Pointer); isPtrArr {
			return s.Low != nil || s.High != nil
		}
		return true
	}
	return false
}

func isWholeSlice(v ssa.Value) bool {
	if s, ok := v.(*ssa.Slice); ok {
		return s.Low == nil && s.High == nil
	}
	return true
}

// ruleFrameFeed (C02, shared with C01: "decoding those bytes yields the original object" needs the decoder to see
// the whole frame).
func (R *Run) ruleFrameFeed() {
	P := R.P
	dec := P.positionalDecoders()
	var decNames []string
	for n := range dec {
		decNames = append(decNames, n)
	}
	sort.Strings(decNames)
	R.note("positional frame decoders: " + strings.Join(decNames, ", ") + ".")
	if len(dec) < 10 {
		R.bad("frame-feed", "decoder inventory", "-", fmt.Sprintf("only %d positional decoders recognised (%v); 10 were confirmed on the reference tree", len(dec), decNames))
	}
	nFeed := 0
	for _, fn := range P.Funcs {
		for _, ci := range callsIn(fn) {
			c := ci.Common()
			name := calleeName(c)
			var dst, src ssa.Value
			switch name {
			case "io.Copy", "io.CopyN", "io.CopyBuffer":
				dst, src = c.Args[0], c.Args[1]
			case "io.TeeReader":
				dst, src = c.Args[1], c.Args[0]
			default:
				// a direct call of the decoder's Write hands over its argument in one piece; what must not happen is that
				// the argument is what a single Read of a stream happened to return (buf[:n] with n from a Read)
				if callee := c.StaticCallee(); callee != nil && callee.Name() == "Write" && callee.Signature.Recv() != nil && len(c.Args) == 2 && !isClientLibrary(fn) {
					dname := typeName(derefType(callee.Signature.Recv().Type()))
					if _, isDec := dec[dname]; isDec && fn != callee {
						nFeed++
						R.analysed(fname(fn))
						partial := ""
						if sl, ok := stripConv(c.Args[1]).(*ssa.Slice); ok && sl.High != nil {
							if ex, ok := sl.High.(*ssa.Extract); ok {
								if rc, ok := ex.Tuple.(*ssa.Call); ok && ex.Index == 0 {
									if n := calleeName(rc.Common()); strings.HasSuffix(n, ".Read") || rc.Common().IsInvoke() && rc.Common().Method.Name() == "Read" {
										partial = n
									}
								}
							}
						}
						R.check(partial == "", "frame-feed", fmt.Sprintf("%s: %s.Write called directly #%d", fname(fn), dname, nCreateIn(fn, ci)), P.ipos(ci),
							"the argument is handed over in one Write and is not the result of a single stream Read",
							fmt.Sprintf("positional decoder %s is given buf[:n] with n returned by one %s: a frame split across TCP segments is rejected or mis-parsed", dname, partial))
					}
				}
				continue
			}
			dt, _ := concreteBelowInterface(dst)
			dname := typeName(derefType(dt))
			if _, isDec := dec[dname]; !isDec {
				continue
			}
			nFeed++
			R.analysed(fname(fn))
			st, sv := concreteBelowInterface(src)
			construct := fmt.Sprintf("%s: %s into %s #%d", fname(fn), name, dname, nCreateIn(fn, ci))
			R.check(isWholeBufferReader(st), "frame-feed", construct, P.ipos(ci),
				"source is "+typeName(st)+" (hands over the whole frame in one Write)",
				fmt.Sprintf("positional decoder %s is fed by %s from a %s (%s): each Write receives whatever one read of the stream returned, so a frame split across TCP segments is rejected or mis-parsed", dname, name, typeName(st), P.sym(sv)))
		}
	}
	R.floor("frame-feed", 2)
}

// fixedWireSize: the number of bytes encoding/binary reads for a value of type t (fixed-size integers, arrays and
// structs of them); -1 when t has no fixed size.
func fixedWireSize(t types.Type) int64 {
	switch u := t.Underlying().(type) {
	case *types.Basic:
		switch u.Kind() {
		case types.Int8, types.Uint8, types.Bool:
			return 1
		case types.Int16, types.Uint16:
			return 2
		case types.Int32, types.Uint32, types.Float32:
			return 4
		case types.Int64, types.Uint64, types.Float64:
			return 8
		}
	case *types.Array:
		if e := fixedWireSize(u.Elem()); e >= 0 {
			return e * u.Len()
		}
	case *types.Struct:
		n := int64(0)
		for i := 0; i < u.NumFields(); i++ {
			e := fixedWireSize(u.Field(i).Type())
			if e < 0 {
				return -1
			}
			n += e
		}
		return n
	}
	return -1
}

// returnTuples lists what a function can return as tuples of values that belong together: a return whose results
// are phis of its own block (the shape a function with several return statements takes once its body was expanded
// in place, or when it collects its results in variables) is split into one tuple per incoming edge.
type retTuple struct {
	ret  *ssa.Return
	vals []ssa.Value
}

func returnTuples(fn *ssa.Function) []retTuple {
	var out []retTuple
	var expand func(ret *ssa.Return, vals []ssa.Value, blk *ssa.BasicBlock, depth int)
	expand = func(ret *ssa.Return, vals []ssa.Value, blk *ssa.BasicBlock, depth int) {
		split := false
		for _, v := range vals {
			if phi, ok := v.(*ssa.Phi); ok && phi.Block() == blk {
				split = true
			}
		}
		if !split || depth > 3 {
			out = append(out, retTuple{ret, vals})
			return
		}
		for i, pred := range blk.Preds {
			nv := make([]ssa.Value, len(vals))
			for k, v := range vals {
				nv[k] = v
				if phi, ok := v.(*ssa.Phi); ok && phi.Block() == blk {
					nv[k] = phi.Edges[i]
				}
			}
			expand(ret, nv, pred, depth+1)
		}
	}
	for _, ret := range returnsOf(fn) {
		vals := make([]ssa.Value, len(ret.Results))
		for i := range ret.Results {
			vals[i] = retValue(ret, i)
		}
		expand(ret, vals, ret.Block(), 0)
	}
	return out
}

// symInl: the symbolic form of v with calls of small pure repository helpers (one block, one result, no calls but
// conversions and encoding/binary readers) replaced by what they return, so that `frameLen(data)` tested in one place
// and the same expression spelled out in another compare equal.
func (P *Prog) symInl(v ssa.Value, d int) string {
	if d > 6 {
		return P.sym(v)
	}
	switch x := v.(type) {
	case *ssa.Convert:
		return P.symInl(x.X, d+1)
	case *ssa.ChangeType:
		return P.symInl(x.X, d+1)
	case *ssa.BinOp:
		if x.Op == token.ADD {
			return P.symInl(x.X, d+1) + "+" + P.symInl(x.Y, d+1)
		}
		return "(" + P.symInl(x.X, d+1) + x.Op.String() + P.symInl(x.Y, d+1) + ")"
	case *ssa.Call:
		fn := x.Call.StaticCallee()
		if fn == nil || len(fn.Blocks) != 1 || !P.isRepoPkg(pkgOf(fn)) || fn.Signature.Results().Len() != 1 || len(fn.Params) != len(x.Call.Args) {
			break
		}
		pure := true
		for _, ci := range callsIn(fn) {
			n := calleeName(ci.Common())
			if !strings.HasPrefix(n, "builtin.") && !strings.HasPrefix(n, "(encoding/binary.") {
				pure = false
			}
		}
		rets := returnsOf(fn)
		if !pure || len(rets) != 1 {
			break
		}
		r := P.symInl(rets[0].Results[0], d+1)
		for i, prm := range fn.Params {
			re := regexp.MustCompile(`param:` + regexp.QuoteMeta(prm.Name()) + `\b`)
			arg := P.symInl(x.Call.Args[i], d+1)
			r = re.ReplaceAllLiteralString(r, arg)
		}
		return r
	}
	return P.sym(v)
}

// impliedFacts: the comparison facts a fact implies. `p` true with p = `a && b` (in SSA: a phi whose operands are the
// constant false, arriving from the block that tested a, and b) implies a and b; dually `p` false with p = `a || b`
// implies !a and !b. Other facts imply themselves.
func impliedFacts(f Fact, depth int) []Fact {
	out := []Fact{f}
	if f.Kind != "truth" || depth > 4 {
		return out
	}
	phi, ok := f.V.(*ssa.Phi)
	if !ok {
		return out
	}
	if bt, isB := phi.Type().Underlying().(*types.Basic); !isB || bt.Info()&types.IsBoolean == 0 {
		return out
	}
	// operands that are the absorbing constant (false for &&-true, true for ||-false) and the one that is not
	var rest []int
	var absorbed []int
	for i, e := range phi.Edges {
		if c, isC := e.(*ssa.Const); isC && c.Value != nil && (c.Value.String() == "true") == !f.Holds {
			absorbed = append(absorbed, i)
			continue
		}
		rest = append(rest, i)
	}
	if len(rest) != 1 || len(absorbed) == 0 {
		return out
	}
	out = append(out, impliedFacts(ifFacts(&ssa.If{Cond: phi.Edges[rest[0]]}).withHolds(f.Holds), depth+1)...)
	for _, i := range absorbed {
		pred := phi.Block().Preds[i]
		iff, isIf := pred.Instrs[len(pred.Instrs)-1].(*ssa.If)
		if !isIf || len(pred.Succs) != 2 {
			continue
		}
		ft := ifFacts(iff)
		// the edge pred→phi block was NOT taken (it would have made the phi the absorbing constant)
		if pred.Succs[0] == phi.Block() && pred.Succs[1] != phi.Block() {
			ft.Holds = !ft.Holds
		} else if !(pred.Succs[1] == phi.Block() && pred.Succs[0] != phi.Block()) {
			continue
		}
		out = append(out, impliedFacts(ft, depth+1)...)
	}
	return out
}

func (f Fact) withHolds(want bool) Fact {
	// ifFacts describes the true edge; the fact for "the condition evaluates to want"
	if !want {
		f.Holds = !f.Holds
	}
	return f
}

// factEdgesImplied: factEdges, with every fact that the branch fact implies (conjuncts of `a && b` on its true edge,
// negated disjuncts of `a || b` on its false edge) reported on the same edge.
func factEdgesImplied(fn *ssa.Function, f func(e Edge, fact Fact)) {
	factEdges(fn, func(e Edge, f0 Fact) {
		for _, ft := range impliedFacts(f0, 0) {
			f(e, ft)
		}
	})
}
