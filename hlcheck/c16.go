package main

// c16.go — C16: a privilege bit means the same on the wire, in memory and on disk.

import (
	"fmt"
	"go/ast"
	"go/constant"
	"go/token"
	"go/types"
	"reflect"
	"sort"
	"strconv"
	"strings"

	"golang.org/x/tools/go/packages"
	"golang.org/x/tools/go/ssa"
)

// foldInt evaluates an integer SSA expression in which param stands for the concrete value i.
func foldInt(v ssa.Value, param ssa.Value, i int64) (int64, bool) {
	return foldIntEnv(v, map[ssa.Value]int64{param: i}, 0)
}

// foldIntEnv folds integer arithmetic under an assignment of constants to parameters; a call to a single-block
// repo function that only computes (an extracted mask/index helper) is folded through its return expression.
func foldIntEnv(v ssa.Value, env map[ssa.Value]int64, depth int) (int64, bool) {
	if n, ok := env[v]; ok {
		return n, true
	}
	param, i := ssa.Value(nil), int64(0)
	_ = i
	foldInt := func(v ssa.Value, _ ssa.Value, _ int64) (int64, bool) { return foldIntEnv(v, env, depth) }
	switch x := v.(type) {
	case *ssa.Call:
		h, ok := x.Call.Value.(*ssa.Function)
		if !ok || depth > 2 || len(h.Blocks) != 1 || len(h.Params) != len(x.Call.Args) {
			return 0, false
		}
		ret, ok := h.Blocks[0].Instrs[len(h.Blocks[0].Instrs)-1].(*ssa.Return)
		if !ok || len(ret.Results) != 1 {
			return 0, false
		}
		inner := map[ssa.Value]int64{}
		for k, a := range x.Call.Args {
			n, ok := foldIntEnv(a, env, depth)
			if !ok {
				return 0, false
			}
			inner[h.Params[k]] = truncTo(n, h.Params[k].Type())
		}
		return foldIntEnv(ret.Results[0], inner, depth+1)
	case *ssa.Const:
		if x.Value == nil || x.Value.Kind() != constant.Int {
			return 0, false
		}
		n, ok := constant.Int64Val(x.Value)
		return n, ok
	case *ssa.Convert:
		n, ok := foldInt(x.X, param, i)
		if !ok {
			return 0, false
		}
		return truncTo(n, x.Type()), true
	case *ssa.ChangeType:
		return foldInt(x.X, param, i)
	case *ssa.BinOp:
		a, ok1 := foldInt(x.X, param, i)
		b, ok2 := foldInt(x.Y, param, i)
		if !ok1 || !ok2 {
			return 0, false
		}
		var r int64
		switch x.Op {
		case token.ADD:
			r = a + b
		case token.SUB:
			r = a - b
		case token.MUL:
			r = a * b
		case token.QUO:
			if b == 0 {
				return 0, false
			}
			r = a / b
		case token.REM:
			if b == 0 {
				return 0, false
			}
			r = a % b
		case token.SHL:
			if b < 0 || b > 63 {
				return 0, false
			}
			r = a << uint(b)
		case token.SHR:
			if b < 0 || b > 63 {
				return 0, false
			}
			r = a >> uint(b)
		case token.AND:
			r = a & b
		case token.OR:
			r = a | b
		case token.XOR:
			r = a ^ b
		case token.AND_NOT:
			r = a &^ b
		default:
			return 0, false
		}
		return truncTo(r, x.Type()), true
	}
	return 0, false
}

func truncTo(n int64, t types.Type) int64 {
	b, ok := t.Underlying().(*types.Basic)
	if !ok {
		return n
	}
	switch b.Kind() {
	case types.Uint8:
		return int64(uint8(n))
	case types.Int8:
		return int64(int8(n))
	case types.Uint16:
		return int64(uint16(n))
	case types.Int16:
		return int64(int16(n))
	case types.Uint32:
		return int64(uint32(n))
	case types.Int32:
		return int64(int32(n))
	}
	return n
}

// bitAccess describes `bits[IDX] op MASK` found in Set / IsSet.
type bitAccess struct {
	idx, mask ssa.Value
	op        token.Token
}

func findBitAccess(fn *ssa.Function, wantStore bool) (*bitAccess, string) {
	recv := fn.Params[0]
	var res *bitAccess
	n := 0
	eachInstr(fn, func(ins ssa.Instruction) {
		b, ok := ins.(*ssa.BinOp)
		if !ok || (b.Op != token.AND && b.Op != token.OR && b.Op != token.AND_NOT && b.Op != token.XOR) {
			return
		}
		for _, pair := range [][2]ssa.Value{{b.X, b.Y}, {b.Y, b.X}} {
			u, ok := pair[0].(*ssa.UnOp)
			if !ok || u.Op != token.MUL {
				continue
			}
			ia, ok := u.X.(*ssa.IndexAddr)
			if !ok || ia.X != ssa.Value(recv) {
				continue
			}
			n++
			res = &bitAccess{idx: ia.Index, mask: pair[1], op: b.Op}
			if wantStore {
				// the result must be stored back to the same element
				stored := false
				for _, r := range *b.Referrers() {
					if st, ok := r.(*ssa.Store); ok && st.Val == ssa.Value(b) {
						if ia2, ok := st.Addr.(*ssa.IndexAddr); ok && ia2.X == ssa.Value(recv) && ia2.Index == ia.Index {
							stored = true
						}
					}
				}
				if !stored {
					res = nil
				}
			}
		}
	})
	if n != 1 || res == nil {
		return nil, fmt.Sprintf("expected exactly one `bits[idx] op mask` expression on the receiver, found %d", n)
	}
	return res, ""
}

func hotSyntax(P *Prog) *packages.Package {
	for _, p := range P.Pkgs {
		if p.PkgPath == hotPath {
			return p
		}
	}
	return nil
}

func findMethodDecl(p *packages.Package, recvType, name string) *ast.FuncDecl {
	for _, f := range p.Syntax {
		for _, d := range f.Decls {
			fd, ok := d.(*ast.FuncDecl)
			if !ok || fd.Recv == nil || fd.Name.Name != name || len(fd.Recv.List) != 1 {
				continue
			}
			t := fd.Recv.List[0].Type
			if s, ok := t.(*ast.StarExpr); ok {
				t = s.X
			}
			if id, ok := t.(*ast.Ident); ok && id.Name == recvType {
				return fd
			}
		}
	}
	return nil
}

func constIntOf(p *packages.Package, e ast.Expr) (int, string, bool) {
	tv, ok := p.TypesInfo.Types[e]
	if !ok || tv.Value == nil || tv.Value.Kind() != constant.Int {
		return 0, "", false
	}
	n, _ := constant.Int64Val(tv.Value)
	name := types.ExprString(e)
	return int(n), name, true
}

func checkC16(R *Run) {
	P := R.P
	defer R.ruleLoadIndependent()
	R.rule("access-bits", "AccessBitmap.Set and IsSet each consist of one `bits[IDX] op MASK` expression on the receiver; folding IDX and MASK for i = 0..63 gives IDX = i/8 and MASK = 0x80 >> (i%8) in both; Set ORs into and stores back the same element, IsSet ANDs and compares with 0")
	R.rule("access-tables", "closed-world parse of UnmarshalYAML's named-flag case (only `if v[KEY] is true { bits.Set(CONST) }` statements), of MarshalYAML (one literal `FIELD: bits.IsSet(CONST)` per accessFlags field) and of the accessFlags yaml tags: load table = save table, both bijections between keys and privilege numbers, equal to spec/access.json (protocol numbering), covering every Access* constant")
	R.rule("legacy-array", "the numeric-array case of UnmarshalYAML copies element i of the list into byte i of the bitmap, unmodified")
	R.rule("wire-raw", "every NewField(FieldUserAccess, x) takes x unmodified from an Account's Access bytes or from the request's own access field")
	R.rule("access-writers", "the bytes of an AccessBitmap are only written by Set, by the two UnmarshalYAML cases, by builtin copy from request data, or by whole-value assignment")

	// ---- access-bits
	setFn := R.mustFn("(*hotline.AccessBitmap).Set")
	isSetFn := R.mustFn("(*hotline.AccessBitmap).IsSet")
	nbytes := int64(8)
	if tn, ok := P.Hot.Pkg.Scope().Lookup("AccessBitmap").(*types.TypeName); ok {
		if arr, ok := tn.Type().Underlying().(*types.Array); ok {
			nbytes = arr.Len()
		}
	}
	for _, it := range []struct {
		fn    *ssa.Function
		store bool
		op    token.Token
	}{{setFn, true, token.OR}, {isSetFn, false, token.AND}} {
		if it.fn == nil {
			continue
		}
		R.analysed(fname(it.fn))
		ba, why := findBitAccess(it.fn, it.store)
		if ba == nil {
			R.und("access-bits", fname(it.fn), P.pos(it.fn.Pos()), "body is not a single foldable bit expression: "+why)
			continue
		}
		ok := ba.op == it.op
		var bad []string
		if !ok {
			bad = append(bad, fmt.Sprintf("operator is %s, expected %s", ba.op, it.op))
		}
		for i := int64(0); i < nbytes*8; i++ {
			idx, ok1 := foldInt(ba.idx, it.fn.Params[1], i)
			mask, ok2 := foldInt(ba.mask, it.fn.Params[1], i)
			if !ok1 || !ok2 {
				R.und("access-bits", fname(it.fn), P.pos(it.fn.Pos()), "index or mask expression cannot be folded")
				bad = nil
				ok = false
				break
			}
			if idx != i/8 || uint8(mask) != uint8(0x80>>(uint(i)%8)) || mask != int64(uint8(mask)) {
				ok = false
				if len(bad) < 4 {
					bad = append(bad, fmt.Sprintf("privilege %d touches byte %d mask 0x%02x, the protocol's bit is byte %d mask 0x%02x", i, idx, mask, i/8, 0x80>>(uint(i)%8)))
				}
			}
		}
		if !it.store {
			// result: (x & mask) != 0
			good := false
			for _, ret := range returnsOf(it.fn) {
				if b, ok := ret.Results[0].(*ssa.BinOp); ok && b.Op == token.NEQ {
					if c, ok := constInt(b.Y); ok && c == 0 {
						if inner, ok := b.X.(*ssa.BinOp); ok && inner.Op == token.AND {
							good = true
						}
					}
				}
			}
			if !good {
				ok = false
				bad = append(bad, "IsSet does not return (bits[idx] & mask) != 0")
			}
		}
		if ok || len(bad) > 0 {
			R.check(ok, "access-bits", fname(it.fn), P.pos(it.fn.Pos()), fmt.Sprintf("folded for i=0..%d: byte i/8, mask 0x80>>(i%%8)", nbytes*8-1), "bit numbering differs from the protocol's: "+strings.Join(bad, "; "))
		}
	}
	R.floor("access-bits", 2)

	// ---- access-tables
	hp := hotSyntax(P)
	var accSpec struct {
		Privileges []struct {
			Bit int    `json:"bit"`
			Key string `json:"key"`
		} `json:"privileges"`
	}
	if err := readSpec("access.json", &accSpec); err != nil {
		R.und("access-tables", "spec/access.json", "-", err.Error())
		return
	}
	specKey := map[string]int{}
	for _, p := range accSpec.Privileges {
		specKey[p.Key] = p.Bit
	}
	load := map[string]int{}
	loadConst := map[string]string{}
	um := findMethodDecl(hp, "AccessBitmap", "UnmarshalYAML")
	if um == nil {
		R.und("access-tables", "AccessBitmap.UnmarshalYAML", "-", "method not found")
	} else {
		cases := typeCasesOf(hp, um.Body)
		if len(cases) == 0 {
			R.und("access-tables", "AccessBitmap.UnmarshalYAML", P.pos(um.Pos()), "no dispatch on the dynamic type of the decoded value (accepted idioms: switch v := flags.(type) with a map case and a list case, or the if / else-if chain of comma-ok assertions)")
		} else {
			recvName := ""
			if len(um.Recv.List[0].Names) > 0 {
				recvName = um.Recv.List[0].Names[0].Name
			}
			for _, tc := range cases {
				switch tc.typ.Underlying().(type) {
				case *types.Map:
					dup := false
					closed := true
					var odd []string
					for _, st := range flattenExpansion(tc.body) {
						key, cval, cname, ok := parseFlagIf(hp, st, recvName)
						if !ok {
							rows, isLoop := parseFlagLoop(hp, st, recvName)
							if !isLoop {
								rows, isLoop = parseFlagMapLoop(hp, st, recvName, nil)
							}
							if !isLoop {
								rows, isLoop = parseFlagIndexLoop(hp, st, recvName)
							}
							if isLoop {
								for _, r := range rows {
									k := r[0].(string)
									if _, seen := load[k]; seen {
										dup = true
										odd = append(odd, "duplicate key "+k)
									}
									load[k] = r[1].(int)
									loadConst[k] = r[2].(string)
								}
								continue
							}
						}
						if !ok {
							closed = false
							odd = append(odd, P.pos(st.Pos()))
							continue
						}
						if _, seen := load[key]; seen {
							dup = true
							odd = append(odd, "duplicate key "+key)
						}
						load[key] = cval
						loadConst[key] = cname
					}
					if !closed || dup {
						R.und("access-tables", "UnmarshalYAML named-flag case", P.pos(tc.pos), "the case contains statements other than `if f, ok := v[KEY].(bool); ok && f { bits.Set(CONST) }` or duplicate keys: "+strings.Join(odd, ", "))
					}
				}
			}
		}
	}
	// accessFlags tags
	fieldKey := map[string]string{}
	if tn, ok := P.Hot.Pkg.Scope().Lookup("accessFlags").(*types.TypeName); ok {
		if st, ok := tn.Type().Underlying().(*types.Struct); ok {
			for i := 0; i < st.NumFields(); i++ {
				tag := reflect.StructTag(st.Tag(i)).Get("yaml")
				k := strings.Split(tag, ",")[0]
				if k == "" {
					k = strings.ToLower(st.Field(i).Name())
				}
				fieldKey[st.Field(i).Name()] = k
			}
		}
	} else {
		R.und("access-tables", "accessFlags", "-", "struct type accessFlags not found")
	}
	save := map[string]int{}
	mm := findMethodDecl(hp, "AccessBitmap", "MarshalYAML")
	if mm == nil {
		R.und("access-tables", "AccessBitmap.MarshalYAML", "-", "method not found")
	} else {
		var lit *ast.CompositeLit
		ast.Inspect(mm.Body, func(n ast.Node) bool {
			if cl, ok := n.(*ast.CompositeLit); ok && lit == nil {
				if t := hp.TypesInfo.TypeOf(cl); t != nil && strings.HasSuffix(t.String(), ".accessFlags") {
					lit = cl
				}
			}
			return true
		})
		if rows, ok := parseSaveTableLoop(hp, mm); lit == nil && ok {
			// the table-driven form: for _, e := range TABLE { *e.field(&flags) = bits.IsSet(e.access) }
			seen := map[string]bool{}
			for _, r := range rows {
				f, n := r.field, r.bit
				if seen[f] {
					R.bad("access-tables", "MarshalYAML: field "+f, P.pos(mm.Pos()), "field assigned twice")
				}
				seen[f] = true
				save[fieldKey[f]] = n
			}
			for f := range fieldKey {
				if !seen[f] {
					R.bad("access-tables", "MarshalYAML: field "+f, P.pos(mm.Pos()), "accessFlags."+f+" is never filled in: the privilege is lost on save")
				}
			}
		} else if lit == nil {
			R.und("access-tables", "AccessBitmap.MarshalYAML", P.pos(mm.Pos()), "does not return an accessFlags literal (accepted idioms: the literal `FIELD: bits.IsSet(CONST)`, or a loop over a package-level table of (CONST, func(f *accessFlags) *bool { return &f.FIELD }) pairs that assigns *e.field(&flags) = bits.IsSet(e.access))")
		} else {
			recvName := mm.Recv.List[0].Names[0].Name
			// a local bound once to the method value `bits.IsSet` stands for it
			isSetAlias := map[types.Object]bool{}
			reassigned := map[types.Object]bool{}
			ast.Inspect(mm.Body, func(n ast.Node) bool {
				as, ok := n.(*ast.AssignStmt)
				if !ok {
					return true
				}
				for i, l := range as.Lhs {
					id, ok := l.(*ast.Ident)
					if !ok {
						continue
					}
					if as.Tok == token.DEFINE && i < len(as.Rhs) && len(as.Lhs) == len(as.Rhs) {
						if sel, ok := as.Rhs[i].(*ast.SelectorExpr); ok && sel.Sel.Name == "IsSet" {
							if x, ok := sel.X.(*ast.Ident); ok && x.Name == recvName {
								if o := hp.TypesInfo.Defs[id]; o != nil {
									isSetAlias[o] = true
								}
							}
						}
					} else if o := hp.TypesInfo.Uses[id]; o != nil {
						reassigned[o] = true
					}
				}
				return true
			})
			// parameters of expanded helpers that are bound to the receiver: `__pN_x := (*AccessBitmap)(&(bits))`
			recvAliases := map[string]bool{}
			ast.Inspect(mm.Body, func(n ast.Node) bool {
				as, ok := n.(*ast.AssignStmt)
				if !ok || as.Tok != token.DEFINE || len(as.Lhs) != len(as.Rhs) {
					return true
				}
				for i, l := range as.Lhs {
					id, ok := l.(*ast.Ident)
					if !ok || !strings.HasPrefix(id.Name, "__p") {
						continue
					}
					r := ast.Unparen(as.Rhs[i])
					for {
						if c, ok := r.(*ast.CallExpr); ok && len(c.Args) == 1 {
							if tv, ok := hp.TypesInfo.Types[c.Fun]; ok && tv.IsType() {
								r = ast.Unparen(c.Args[0])
								continue
							}
						}
						if u, ok := r.(*ast.UnaryExpr); ok && u.Op == token.AND {
							r = ast.Unparen(u.X)
							continue
						}
						break
					}
					if rid, ok := r.(*ast.Ident); ok && (rid.Name == recvName || recvAliases[rid.Name]) {
						recvAliases[id.Name] = true
					}
				}
				return true
			})
			seenField := map[string]bool{}
			for _, e := range lit.Elts {
				kv, ok := e.(*ast.KeyValueExpr)
				if !ok {
					R.und("access-tables", "MarshalYAML literal", P.pos(e.Pos()), "positional element")
					continue
				}
				fieldName := kv.Key.(*ast.Ident).Name
				call, ok := kv.Value.(*ast.CallExpr)
				good := false
				if ok && len(call.Args) == 1 {
					viaRecv := false
					if sel, ok := call.Fun.(*ast.SelectorExpr); ok && sel.Sel.Name == "IsSet" {
						if id, ok := sel.X.(*ast.Ident); ok && (id.Name == recvName || recvAliases[id.Name]) {
							viaRecv = true
						}
					}
					if id, ok := call.Fun.(*ast.Ident); ok {
						if o := hp.TypesInfo.Uses[id]; o != nil && isSetAlias[o] && !reassigned[o] {
							viaRecv = true
						}
					}
					if viaRecv {
						{
							if n, _, ok := constIntOf(hp, call.Args[0]); ok {
								good = true
								if seenField[fieldName] {
									R.bad("access-tables", "MarshalYAML: field "+fieldName, P.pos(kv.Pos()), "field assigned twice")
								}
								seenField[fieldName] = true
								save[fieldKey[fieldName]] = n
							}
						}
					}
				}
				if !good {
					R.und("access-tables", "MarshalYAML: field "+fieldName, P.pos(kv.Pos()), "value is not bits.IsSet(CONST)")
				}
			}
			for f := range fieldKey {
				if !seenField[f] {
					R.bad("access-tables", "MarshalYAML: field "+f, P.pos(lit.Pos()), "accessFlags."+f+" is never filled in: the privilege is lost on save")
				}
			}
		}
	}
	consts := P.accessConsts()
	constByVal := map[int]string{}
	for n, v := range consts {
		constByVal[v] = n
	}
	// per key obligations
	keys := map[string]bool{}
	for k := range load {
		keys[k] = true
	}
	for k := range save {
		keys[k] = true
	}
	for k := range specKey {
		keys[k] = true
	}
	var ks []string
	for k := range keys {
		ks = append(ks, k)
	}
	sort.Strings(ks)
	usedLoad := map[int]string{}
	usedSave := map[int]string{}
	for _, k := range ks {
		l, inL := load[k]
		s, inS := save[k]
		sp, inSp := specKey[k]
		var bad []string
		if !inL {
			bad = append(bad, "not loaded by UnmarshalYAML")
		}
		if !inS {
			bad = append(bad, "not saved by MarshalYAML")
		}
		if !inSp {
			bad = append(bad, "not a privilege name of the protocol table")
		}
		if inL && inS && l != s {
			bad = append(bad, fmt.Sprintf("loads privilege %d but saves privilege %d", l, s))
		}
		if inL && inSp && l != sp {
			bad = append(bad, fmt.Sprintf("loads privilege %d, protocol number is %d", l, sp))
		}
		if inS && inSp && s != sp {
			bad = append(bad, fmt.Sprintf("saves privilege %d, protocol number is %d", s, sp))
		}
		if inL {
			if o, dup := usedLoad[l]; dup {
				bad = append(bad, fmt.Sprintf("privilege %d is also loaded from key %s", l, o))
			}
			usedLoad[l] = k
			if _, ok := constByVal[l]; !ok {
				bad = append(bad, fmt.Sprintf("privilege %d is not a declared Access constant", l))
			}
		}
		if inS {
			if o, dup := usedSave[s]; dup {
				bad = append(bad, fmt.Sprintf("privilege %d is also saved under key %s", s, o))
			}
			usedSave[s] = k
		}
		R.check(len(bad) == 0, "access-tables", "key "+k, "hotline/access.go", "load = save = protocol number "+strconv.Itoa(sp), "privilege name "+k+": "+strings.Join(bad, "; "))
	}
	for name, v := range consts {
		_, l := usedLoad[v]
		_, s := usedSave[v]
		R.check(l && s, "access-tables", "const "+name, "hotline/access.go", "has a YAML name in both directions", fmt.Sprintf("%s = %d has no YAML name on load (%v) or save (%v): the privilege cannot be stored", name, v, l, s))
	}
	R.floor("access-tables", 80)

	// ---- legacy-array (on the SSA form, so that the loop may be a range or an index loop)
	if uf := R.mustFn("(*hotline.AccessBitmap).UnmarshalYAML"); uf != nil {
		ok, why := legacyCopy(uf)
		// every other write to the bitmap is a Set decided by a lookup in the named-flag map
		for _, ci := range callsIn(uf) {
			c := ci.Common()
			if calleeName(c) != "(*hotline.AccessBitmap).Set" || c.Args[0] != ssa.Value(uf.Params[0]) {
				continue
			}
			fromTable := false
			eachInstr(uf, func(ins ssa.Instruction) {
				if lk, isLk := ins.(*ssa.Lookup); isLk {
					if _, isMap := lk.X.Type().Underlying().(*types.Map); isMap && (lk.Block() == ci.Block() || lk.Block().Dominates(ci.Block())) {
						fromTable = true
					}
				}
			})
			if !fromTable && why != "none" {
				ok = false
				why = "a privilege is set at " + P.ipos(ci) + " that is not read from the file's named flags (derived from other bits): the loaded bitmap differs from the stored one"
			}
		}
		if why == "none" {
			R.und("legacy-array", "UnmarshalYAML list case", "hotline/access.go", "no store of a list element into the bitmap found")
		} else {
			R.check(ok, "legacy-array", "UnmarshalYAML list case", "hotline/access.go", "bits[i] = byte(list[i]) for every i < len(list)", "legacy numeric form is not a byte-for-byte copy: "+why)
		}
	}

	// ---- wire-raw
	nWire := 0
	for _, fn := range P.Funcs {
		for _, ci := range callsIn(fn) {
			c := ci.Common()
			if calleeName(c) != "hotline.NewField" || len(c.Args) != 2 {
				continue
			}
			if g, ok := globalName(c.Args[0]); !ok || g != "hotline.FieldUserAccess" {
				continue
			}
			nWire++
			R.analysed(fname(fn))
			src := ""
			modified := ""
			F := &Flow{P: P, Inter: false, Visit: func(x ssa.Value) bool {
				switch y := x.(type) {
				case *ssa.BinOp:
					modified = "arithmetic on the access bytes at " + P.ipos(y)
				case *ssa.FieldAddr:
					f, _ := fieldOf(y)
					if f == "hotline.Account.Access" {
						src = f
						return false
					}
					if f == "hotline.Field.Data" {
						if rf := P.requestFieldOf(&ssa.UnOp{Op: token.MUL, X: y}); rf == "FieldUserAccess" {
							src = "request field 110"
						} else if src == "" {
							src = "?request field " + rf
						}
						return false
					}
				case *ssa.Call:
					if src == "" {
						src = "?" + calleeName(&y.Call)
					}
				}
				return true
			}}
			F.Back(c.Args[1])
			good := modified == "" && (src == "hotline.Account.Access" || src == "request field 110")
			// the bitmap pushed to a session is that session's (or the edited account's), not the requester's own
			if good && len(fn.Params) > 0 && typeName(derefType(fn.Params[0].Type())) == "hotline.ClientConn" {
				ownsSrc := false
				(&Flow{P: P, Visit: func(x ssa.Value) bool {
					if fa, ok := x.(*ssa.FieldAddr); ok {
						if f, _ := fieldOf(fa); f == "hotline.ClientConn.Account" && fa.X == ssa.Value(fn.Params[0]) {
							ownsSrc = true
						}
					}
					return true
				}}).Back(c.Args[1])
				if ownsSrc {
					if v, ok := ci.(ssa.Value); ok && v.Referrers() != nil {
						for _, r := range *v.Referrers() {
							_ = r
						}
					}
					// find the NewTransaction this field goes into and its recipient
					for _, cj := range callsIn(fn) {
						cc2 := cj.Common()
						if calleeName(cc2) != "hotline.NewTransaction" || len(cc2.Args) < 2 {
							continue
						}
						uses := false
						for _, a := range callArgsFlat(cc2) {
							if a == ci.(ssa.Value) {
								uses = true
							}
						}
						if !uses {
							continue
						}
						recOwn := false
						(&Flow{P: P, Visit: func(x ssa.Value) bool {
							if fa, ok := x.(*ssa.FieldAddr); ok {
								if f, _ := fieldOf(fa); f == "hotline.ClientConn.ID" && fa.X == ssa.Value(fn.Params[0]) {
									recOwn = true
								}
							}
							return true
						}}).Back(cc2.Args[1])
						if !recOwn {
							good = false
							src = "the REQUESTER's own account, sent to another session"
						}
					}
				}
			}
			R.check(good, "wire-raw", fmt.Sprintf("%s: NewField(FieldUserAccess) #%d", fname(fn), nCreateIn(fn, ci)), P.ipos(ci),
				"bytes come unmodified from "+src, "the access bitmap put on the wire does not come unmodified from an account's Access or the request's access field (source: "+src+" "+modified+")")
		}
	}
	R.floor("wire-raw", 4)
	R.rule("authorize-sound", "(shared with C05) Authorize(i) is exactly Account.Access.IsSet(i) of the connection's current account: the meaning of bit i at decision time is the one in memory")
	R.ruleAuthorizeSound()

	// ---- wire-in-raw: the incoming direction — bytes are laid into an AccessBitmap from offset 0 to offset 0
	R.rule("wire-in-raw", "every copy into an AccessBitmap (builtin copy with the bitmap's bytes as destination) starts at byte 0 of the bitmap and at byte 0 of its source: privilege k of the wire field stays privilege k in memory whatever the field's length")
	nIn := 0
	isBitmap := func(v ssa.Value) bool {
		t := v.Type()
		if p, ok := t.Underlying().(*types.Pointer); ok {
			t = p.Elem()
		}
		return typeName(t) == "hotline.AccessBitmap"
	}
	zeroLow := func(v ssa.Value) bool {
		sl, ok := v.(*ssa.Slice)
		if !ok || sl.Low == nil {
			return true
		}
		k, isK := constInt(sl.Low)
		return isK && k == 0
	}
	for _, fn := range P.Funcs {
		if fn.Pkg == nil || fn.Pkg.Pkg.Path() == cmdPath {
			continue
		}
		for _, ci := range callsIn(fn) {
			c := ci.Common()
			if calleeName(c) != "builtin.copy" {
				continue
			}
			dst, ok := c.Args[0].(*ssa.Slice)
			if !ok || !isBitmap(dst.X) {
				continue
			}
			nIn++
			R.analysed(fname(fn))
			R.check(zeroLow(dst) && zeroLow(c.Args[1]), "wire-in-raw", fmt.Sprintf("%s: copy into AccessBitmap #%d", fname(fn), nCreateIn(fn, ci)), P.ipos(ci),
				"copy(bitmap[0:], src[0:])", "the bytes are copied into the bitmap at a shifted position (destination or source does not start at byte 0): a short or long access field moves every privilege to another bit")
		}
	}
	R.floor("wire-in-raw", 1)

	// ---- access-writers
	nW := 0
	for _, fn := range P.Funcs {
		name := fname(fn)
		allowed := name == "(*hotline.AccessBitmap).Set" || name == "(*hotline.AccessBitmap).UnmarshalYAML"
		eachInstr(fn, func(ins ssa.Instruction) {
			st, ok := ins.(*ssa.Store)
			if !ok {
				return
			}
			ia, ok := st.Addr.(*ssa.IndexAddr)
			if !ok {
				return
			}
			if typeName(derefType(ia.X.Type())) != "hotline.AccessBitmap" {
				return
			}
			nW++
			R.check(allowed, "access-writers", name+": element store", P.ipos(st), "inside Set/UnmarshalYAML", "a byte of an AccessBitmap is written outside Set / UnmarshalYAML")
		})
	}
	if nW == 0 {
		R.bad("access-writers", "floor", "-", "no element store to AccessBitmap found at all (Set must have one)")
	}
}

// parseFlagIf recognises `if f, ok := v["KEY"].(bool); ok && f { bits.Set(CONST) }`.
func parseFlagIf(p *packages.Package, st ast.Stmt, recv string) (key string, val int, cname string, ok bool) {
	is, isIf := st.(*ast.IfStmt)
	if !isIf || is.Else != nil || is.Init == nil {
		return
	}
	as, isAs := is.Init.(*ast.AssignStmt)
	if !isAs || len(as.Lhs) != 2 || len(as.Rhs) != 1 {
		return
	}
	ta, isTA := as.Rhs[0].(*ast.TypeAssertExpr)
	if !isTA {
		return
	}
	if id, isID := ta.Type.(*ast.Ident); !isID || id.Name != "bool" {
		return
	}
	ix, isIx := ta.X.(*ast.IndexExpr)
	if !isIx {
		return
	}
	var k string
	if flagKeyOf != nil {
		kk, kok := flagKeyOf(ix.Index)
		if !kok {
			return
		}
		k = kk
	} else {
		lit, isLit := ix.Index.(*ast.BasicLit)
		if !isLit || lit.Kind != token.STRING {
			return
		}
		kk, err := strconv.Unquote(lit.Value)
		if err != nil {
			return
		}
		k = kk
	}
	fName := as.Lhs[0].(*ast.Ident).Name
	okName := as.Lhs[1].(*ast.Ident).Name
	// condition ok && f (either order)
	be, isBE := is.Cond.(*ast.BinaryExpr)
	if !isBE || be.Op != token.LAND {
		return
	}
	a, aok := be.X.(*ast.Ident)
	b, bok := be.Y.(*ast.Ident)
	if !aok || !bok || !((a.Name == okName && b.Name == fName) || (a.Name == fName && b.Name == okName)) {
		return
	}
	if len(is.Body.List) != 1 {
		return
	}
	es, isES := is.Body.List[0].(*ast.ExprStmt)
	if !isES {
		return
	}
	call, isCall := es.X.(*ast.CallExpr)
	if !isCall || len(call.Args) != 1 {
		return
	}
	sel, isSel := call.Fun.(*ast.SelectorExpr)
	if !isSel || sel.Sel.Name != "Set" {
		return
	}
	// the receiver itself, or (in the normalised view) the name an expanded helper gave it
	if id, isID := sel.X.(*ast.Ident); !isID || (id.Name != recv && !(strings.HasPrefix(id.Name, "__p") && strings.HasSuffix(types.TypeString(p.TypesInfo.TypeOf(id), nil), "hotline.AccessBitmap"))) {
		return
	}
	if flagValOf != nil {
		name, vok := flagValOf(call.Args[0])
		if !vok {
			return
		}
		return k, 0, name, true
	}
	n, name, cok := constIntOf(p, call.Args[0])
	if !cok {
		return
	}
	return k, n, name, true
}

// flagKeyOf / flagValOf: when set, parseFlagIf takes the key and the privilege from these instead of requiring a
// string literal and a constant (used for the body of a loop over a constant table: they name the element's fields).
var flagKeyOf func(e ast.Expr) (string, bool)
var flagValOf func(e ast.Expr) (string, bool)

// parseFlagLoop: `for _, e := range TABLE { if f, ok := v[e.NAME].(bool); ok && f { bits.Set(e.BIT) } }` with TABLE a
// package-level slice / array of struct literals with constant fields that nothing else touches. Returns the
// (key, privilege, constant name) rows of the table.
func parseFlagLoop(p *packages.Package, st ast.Stmt, recv string) (rows [][3]any, ok bool) {
	rs, isRange := st.(*ast.RangeStmt)
	if !isRange || rs.Value == nil || len(rs.Body.List) != 1 {
		return nil, false
	}
	if rs.Key != nil {
		if k, isID := rs.Key.(*ast.Ident); !isID || k.Name != "_" {
			return nil, false
		}
	}
	elem, isID := rs.Value.(*ast.Ident)
	tbl, isTbl := ast.Unparen(rs.X).(*ast.Ident)
	if !isID || !isTbl {
		return nil, false
	}
	tv, _ := p.TypesInfo.Uses[tbl].(*types.Var)
	if tv == nil || tv.Parent() != p.Types.Scope() {
		return nil, false
	}
	fieldOfElem := func(e ast.Expr) (string, bool) {
		sel, isSel := ast.Unparen(e).(*ast.SelectorExpr)
		if !isSel {
			return "", false
		}
		x, isX := sel.X.(*ast.Ident)
		if !isX || p.TypesInfo.Uses[x] != p.TypesInfo.Defs[elem] {
			return "", false
		}
		return sel.Sel.Name, true
	}
	flagKeyOf, flagValOf = fieldOfElem, fieldOfElem
	nameField, _, bitField, okIf := parseFlagIf(p, rs.Body.List[0], recv)
	flagKeyOf, flagValOf = nil, nil
	if !okIf || nameField == "" || bitField == "" {
		return nil, false
	}
	// the table: declared once with a literal, used nowhere but in range statements
	var lit *ast.CompositeLit
	uses := 0
	for _, f := range p.Syntax {
		ast.Inspect(f, func(n ast.Node) bool {
			switch x := n.(type) {
			case *ast.ValueSpec:
				for i, nm := range x.Names {
					if p.TypesInfo.Defs[nm] == types.Object(tv) && i < len(x.Values) {
						lit, _ = x.Values[i].(*ast.CompositeLit)
					}
				}
			case *ast.RangeStmt:
				if id, ok := ast.Unparen(x.X).(*ast.Ident); ok && p.TypesInfo.Uses[id] == types.Object(tv) {
					uses--
				}
			case *ast.Ident:
				if p.TypesInfo.Uses[x] == types.Object(tv) {
					uses++
				}
			}
			return true
		})
	}
	if lit == nil || uses != 0 {
		return nil, false
	}
	var stt *types.Struct
	switch t := tv.Type().Underlying().(type) {
	case *types.Slice:
		stt, _ = t.Elem().Underlying().(*types.Struct)
	case *types.Array:
		stt, _ = t.Elem().Underlying().(*types.Struct)
	}
	if stt == nil {
		return nil, false
	}
	idxOf := func(name string) int {
		for i := 0; i < stt.NumFields(); i++ {
			if stt.Field(i).Name() == name {
				return i
			}
		}
		return -1
	}
	ni, bi := idxOf(nameField), idxOf(bitField)
	if ni < 0 || bi < 0 {
		return nil, false
	}
	for _, el := range lit.Elts {
		cl, isCL := el.(*ast.CompositeLit)
		if !isCL {
			return nil, false
		}
		var ne, be ast.Expr
		for i, fe := range cl.Elts {
			if kv, isKV := fe.(*ast.KeyValueExpr); isKV {
				switch kv.Key.(*ast.Ident).Name {
				case nameField:
					ne = kv.Value
				case bitField:
					be = kv.Value
				}
				continue
			}
			if i == ni {
				ne = fe
			}
			if i == bi {
				be = fe
			}
		}
		if ne == nil || be == nil {
			return nil, false
		}
		ntv, has := p.TypesInfo.Types[ne]
		if !has || ntv.Value == nil || ntv.Value.Kind() != constant.String {
			return nil, false
		}
		n, cname, cok := constIntOf(p, be)
		if !cok {
			return nil, false
		}
		rows = append(rows, [3]any{constant.StringVal(ntv.Value), n, cname})
	}
	return rows, len(rows) > 0
}

// typeCase: one arm of a dispatch on the dynamic type of a value.
type typeCase struct {
	typ  types.Type
	body []ast.Stmt
	pos  token.Pos
}

// typeCasesOf finds the first dispatch on a dynamic type in body: a type switch, or an if / else-if chain whose
// arms are `if x, ok := E.(T); ok { … }`.
func typeCasesOf(p *packages.Package, body *ast.BlockStmt) []typeCase {
	var out []typeCase
	ast.Inspect(body, func(n ast.Node) bool {
		if out != nil {
			return false
		}
		switch t := n.(type) {
		case *ast.TypeSwitchStmt:
			for _, cc := range t.Body.List {
				clause := cc.(*ast.CaseClause)
				if len(clause.List) != 1 {
					continue
				}
				if tt := p.TypesInfo.TypeOf(clause.List[0]); tt != nil {
					out = append(out, typeCase{tt, clause.Body, clause.Pos()})
				}
			}
			return false
		case *ast.IfStmt:
			var arms []typeCase
			for cur := t; cur != nil; {
				as, ok := cur.Init.(*ast.AssignStmt)
				if !ok || len(as.Lhs) != 2 || len(as.Rhs) != 1 {
					break
				}
				ta, ok := as.Rhs[0].(*ast.TypeAssertExpr)
				okID, ok2 := as.Lhs[1].(*ast.Ident)
				cond, ok3 := cur.Cond.(*ast.Ident)
				if !ok || !ok2 || !ok3 || ta.Type == nil || cond.Name != okID.Name {
					break
				}
				if tt := p.TypesInfo.TypeOf(ta.Type); tt != nil {
					arms = append(arms, typeCase{tt, cur.Body.List, cur.Pos()})
				}
				next, _ := cur.Else.(*ast.IfStmt)
				cur = next
			}
			if len(arms) >= 2 {
				out = arms
				return false
			}
		}
		return true
	})
	return out
}

// legacyCopy: the method stores byte(list[i].(int)) into bits[i] with the same i, i running over 0..len(list)-1,
// list being the decoded value asserted to a slice.  why == "none" when no such store exists at all.
func legacyCopy(fn *ssa.Function) (bool, string) {
	bits := fn.Params[0]
	found := false
	why := "none"
	eachInstr(fn, func(ins ssa.Instruction) {
		st, ok := ins.(*ssa.Store)
		if !ok {
			return
		}
		dst, ok := st.Addr.(*ssa.IndexAddr)
		if !ok || dst.X != ssa.Value(bits) {
			return
		}
		// byte(elem.(int))
		conv, ok := st.Val.(*ssa.Convert)
		if !ok {
			why = "the stored value is not a conversion of the element"
			return
		}
		ta, ok := conv.X.(*ssa.TypeAssert)
		if !ok {
			why = "the stored value is not byte(element.(int)): it is modified on the way"
			return
		}
		var list, idx ssa.Value
		switch e := ta.X.(type) {
		case *ssa.UnOp:
			if ia, ok := e.X.(*ssa.IndexAddr); ok && e.Op == token.MUL {
				list, idx = ia.X, ia.Index
			}
		case *ssa.Index:
			list, idx = e.X, e.Index
		}
		if list == nil {
			why = "the stored value is not an element of the list"
			return
		}
		if idx != dst.Index {
			why = "element i of the list is not stored into byte i of the bitmap (different indices)"
			return
		}
		if _, isSlice := list.Type().Underlying().(*types.Slice); !isSlice {
			why = "the source is not the decoded list"
			return
		}
		lo, hi, ok := indexRange(idx)
		if !ok || lo != 0 {
			why = "the loop index does not start at 0 with step 1"
			return
		}
		lc, ok := hi.(*ssa.Call)
		if !ok || calleeName(&lc.Call) != "builtin.len" || lc.Call.Args[0] != list {
			why = "the loop does not run to len(list)"
			return
		}
		found = true
	})
	if found {
		return true, ""
	}
	return false, why
}

// indexRange: idx takes the values lo, lo+1, … while idx < hi, in either of go/ssa's loop shapes (`for i := lo;
// i < hi; i++` — test on the phi; `for i := range xs` — idx = phi+1 with phi starting at lo-1, test on idx).
func indexRange(idx ssa.Value) (lo int64, hi ssa.Value, ok bool) {
	test := func(blk *ssa.BasicBlock, v ssa.Value) (ssa.Value, bool) {
		if len(blk.Instrs) == 0 {
			return nil, false
		}
		iff, ok := blk.Instrs[len(blk.Instrs)-1].(*ssa.If)
		if !ok {
			return nil, false
		}
		c, ok := iff.Cond.(*ssa.BinOp)
		if !ok || c.Op != token.LSS || c.X != v {
			return nil, false
		}
		return c.Y, true
	}
	switch x := idx.(type) {
	case *ssa.Phi:
		var init int64
		haveInit, haveStep := false, false
		for _, e := range x.Edges {
			if k, ok := constInt(e); ok {
				init, haveInit = k, true
			} else if b, ok := e.(*ssa.BinOp); ok && b.Op == token.ADD && b.X == ssa.Value(x) {
				if one, ok := constInt(b.Y); ok && one == 1 {
					haveStep = true
				}
			} else {
				return 0, nil, false
			}
		}
		if h, ok := test(x.Block(), x); ok && haveInit && haveStep {
			return init, h, true
		}
	case *ssa.BinOp:
		phi, isPhi := x.X.(*ssa.Phi)
		one, isOne := constInt(x.Y)
		if x.Op != token.ADD || !isPhi || !isOne || one != 1 {
			return 0, nil, false
		}
		var init int64
		haveInit := false
		for _, e := range phi.Edges {
			if k, ok := constInt(e); ok {
				init, haveInit = k, true
			} else if e != ssa.Value(x) {
				return 0, nil, false
			}
		}
		if h, ok := test(x.Block(), x); ok && haveInit {
			return init + 1, h, true
		}
	}
	return 0, nil, false
}

func init() { register("C16", checkC16) }

// parseFlagMapLoop: the named-flag case written as a loop over the entries of the file's map with a constant
// name→bit table:
//
//	for name, value := range v {
//		bit, known := TABLE[name]
//		if !known { continue }
//		if enabled, isBool := value.(bool); isBool && enabled { bits.Set(bit) }
//	}
//
// (or with the lookup as the header of an enclosing `if bit, known := TABLE[name]; known {…}`). TABLE is a
// package-level map literal with constant keys and values that is only ever indexed. Returns the table's rows.
func parseFlagMapLoop(p *packages.Package, st ast.Stmt, recv string, mapVar types.Object) (rows [][3]any, ok bool) {
	rs, isRange := st.(*ast.RangeStmt)
	if !isRange || rs.Key == nil || rs.Value == nil || rs.Tok != token.DEFINE {
		return nil, false
	}
	kid, ok1 := rs.Key.(*ast.Ident)
	vid, ok2 := rs.Value.(*ast.Ident)
	xid, ok3 := ast.Unparen(rs.X).(*ast.Ident)
	if !ok1 || !ok2 || !ok3 || (mapVar != nil && p.TypesInfo.Uses[xid] != mapVar) {
		return nil, false
	}
	keyObj, valObj := p.TypesInfo.Defs[kid], p.TypesInfo.Defs[vid]
	// the lookup `bit, known := TABLE[name]`
	lookup := func(s ast.Stmt) (tbl *types.Var, bit, known types.Object, ok bool) {
		as, isAs := s.(*ast.AssignStmt)
		if !isAs || as.Tok != token.DEFINE || len(as.Lhs) != 2 || len(as.Rhs) != 1 {
			return
		}
		ix, isIx := as.Rhs[0].(*ast.IndexExpr)
		if !isIx {
			return
		}
		tid, isT := ast.Unparen(ix.X).(*ast.Ident)
		iid, isI := ast.Unparen(ix.Index).(*ast.Ident)
		if !isT || !isI || p.TypesInfo.Uses[iid] != keyObj {
			return
		}
		tv, _ := p.TypesInfo.Uses[tid].(*types.Var)
		if tv == nil || tv.Parent() != p.Types.Scope() {
			return
		}
		b, isB := as.Lhs[0].(*ast.Ident)
		k, isK := as.Lhs[1].(*ast.Ident)
		if !isB || !isK {
			return
		}
		return tv, p.TypesInfo.Defs[b], p.TypesInfo.Defs[k], true
	}
	// the guarded set `if enabled, isBool := value.(bool); isBool && enabled { recv.Set(bit) }`
	setIf := func(s ast.Stmt, bit types.Object) bool {
		is, isIf := s.(*ast.IfStmt)
		if !isIf || is.Else != nil || is.Init == nil || len(is.Body.List) != 1 {
			return false
		}
		as, isAs := is.Init.(*ast.AssignStmt)
		if !isAs || len(as.Lhs) != 2 || len(as.Rhs) != 1 {
			return false
		}
		ta, isTA := as.Rhs[0].(*ast.TypeAssertExpr)
		if !isTA {
			return false
		}
		if tid, isID := ta.Type.(*ast.Ident); !isID || tid.Name != "bool" {
			return false
		}
		if x, isX := ast.Unparen(ta.X).(*ast.Ident); !isX || p.TypesInfo.Uses[x] != valObj {
			return false
		}
		f, okf := as.Lhs[0].(*ast.Ident)
		o, oko := as.Lhs[1].(*ast.Ident)
		be, isBE := is.Cond.(*ast.BinaryExpr)
		if !okf || !oko || !isBE || be.Op != token.LAND {
			return false
		}
		a, aok := be.X.(*ast.Ident)
		b, bok := be.Y.(*ast.Ident)
		if !aok || !bok || !((a.Name == o.Name && b.Name == f.Name) || (a.Name == f.Name && b.Name == o.Name)) {
			return false
		}
		es, isES := is.Body.List[0].(*ast.ExprStmt)
		if !isES {
			return false
		}
		call, isCall := es.X.(*ast.CallExpr)
		if !isCall || len(call.Args) != 1 {
			return false
		}
		sel, isSel := call.Fun.(*ast.SelectorExpr)
		if !isSel || sel.Sel.Name != "Set" {
			return false
		}
		if id, isID := sel.X.(*ast.Ident); !isID || (id.Name != recv && !strings.HasPrefix(id.Name, "__p")) {
			return false
		}
		arg, isArg := ast.Unparen(call.Args[0]).(*ast.Ident)
		return isArg && p.TypesInfo.Uses[arg] == bit
	}
	var tv *types.Var
	body := rs.Body.List
	switch {
	case len(body) == 3 || len(body) == 2:
		t, bit, known, okL := lookup(body[0])
		if !okL {
			return nil, false
		}
		rest := body[1:]
		if len(rest) == 2 {
			// if !known { continue }
			g, isIf := rest[0].(*ast.IfStmt)
			if !isIf || g.Init != nil || g.Else != nil || len(g.Body.List) != 1 {
				return nil, false
			}
			u, isU := g.Cond.(*ast.UnaryExpr)
			if !isU || u.Op != token.NOT {
				return nil, false
			}
			if id, isID := u.X.(*ast.Ident); !isID || p.TypesInfo.Uses[id] != known {
				return nil, false
			}
			if br, isBr := g.Body.List[0].(*ast.BranchStmt); !isBr || br.Tok != token.CONTINUE || br.Label != nil {
				return nil, false
			}
			if !setIf(rest[1], bit) {
				return nil, false
			}
		} else {
			// if known { if … { Set } }
			g, isIf := rest[0].(*ast.IfStmt)
			if !isIf || g.Init != nil || g.Else != nil || len(g.Body.List) != 1 {
				return nil, false
			}
			if id, isID := g.Cond.(*ast.Ident); !isID || p.TypesInfo.Uses[id] != known {
				return nil, false
			}
			if !setIf(g.Body.List[0], bit) {
				return nil, false
			}
		}
		tv = t
	case len(body) == 1:
		g, isIf := body[0].(*ast.IfStmt)
		if !isIf || g.Init == nil || g.Else != nil || len(g.Body.List) != 1 {
			return nil, false
		}
		t, bit, known, okL := lookup(g.Init)
		if !okL {
			return nil, false
		}
		if id, isID := g.Cond.(*ast.Ident); !isID || p.TypesInfo.Uses[id] != known {
			return nil, false
		}
		if !setIf(g.Body.List[0], bit) {
			return nil, false
		}
		tv = t
	default:
		return nil, false
	}
	// the table: a map literal with constant keys and values, only ever indexed
	var lit *ast.CompositeLit
	okUses := true
	for _, f := range p.Syntax {
		indexed := map[*ast.Ident]bool{}
		ast.Inspect(f, func(n ast.Node) bool {
			switch x := n.(type) {
			case *ast.ValueSpec:
				for i, nm := range x.Names {
					if p.TypesInfo.Defs[nm] == types.Object(tv) && i < len(x.Values) {
						lit, _ = x.Values[i].(*ast.CompositeLit)
					}
				}
			case *ast.IndexExpr:
				if id, ok := ast.Unparen(x.X).(*ast.Ident); ok {
					indexed[id] = true
				}
			case *ast.AssignStmt:
				// an assignment through an index expression writes the table
				for _, l := range x.Lhs {
					if ix, ok := l.(*ast.IndexExpr); ok {
						if id, ok := ast.Unparen(ix.X).(*ast.Ident); ok && p.TypesInfo.Uses[id] == types.Object(tv) {
							okUses = false
						}
					}
				}
			}
			return true
		})
		ast.Inspect(f, func(n ast.Node) bool {
			if id, ok := n.(*ast.Ident); ok && p.TypesInfo.Uses[id] == types.Object(tv) && !indexed[id] {
				okUses = false
			}
			return true
		})
	}
	if lit == nil || !okUses {
		return nil, false
	}
	for _, el := range lit.Elts {
		kv, isKV := el.(*ast.KeyValueExpr)
		if !isKV {
			return nil, false
		}
		ktv, has := p.TypesInfo.Types[kv.Key]
		if !has || ktv.Value == nil || ktv.Value.Kind() != constant.String {
			return nil, false
		}
		n, cname, cok := constIntOf(p, kv.Value)
		if !cok {
			return nil, false
		}
		rows = append(rows, [3]any{constant.StringVal(ktv.Value), n, cname})
	}
	return rows, len(rows) > 0
}

// ruleLoadIndependent (C16, shared with C15): every account file is decoded into a fresh account. The named-flag form
// of UnmarshalYAML only sets bits, so a decoder target that survives from one file to the next hands the earlier
// account's privileges to the later one.
func (R *Run) ruleLoadIndependent() {
	P := R.P
	R.rule("load-independent", "in NewYAMLAccountManager, nothing that one iteration of the loop over the account files decodes or computes is still in a variable that the next iteration decodes into or reads (other than the manager that is being filled): each file is loaded into a fresh account")
	fn := R.mustFn("mobius.NewYAMLAccountManager")
	if fn == nil {
		return
	}
	R.analysed(fname(fn))
	var header *ssa.BasicBlock
	eachInstr(fn, func(ins ssa.Instruction) {
		if header != nil {
			return
		}
		ia, ok := ins.(*ssa.IndexAddr)
		if !ok {
			return
		}
		from := false
		P.reaches(ia.X, func(x ssa.Value) bool {
			if c := callValue(x); c != nil && calleeName(&c.Call) == "path/filepath.Glob" {
				from = true
				return true
			}
			return false
		})
		if !from {
			return
		}
		if _, _, ok := indexRange(ia.Index); ok {
			header = ia.Index.(ssa.Instruction).Block()
		}
	})
	if header == nil {
		R.und("load-independent", fname(fn), P.pos(fn.Pos()), "the loop over the account files (filepath.Glob result) was not recognised")
		return
	}
	returned := map[*ssa.Alloc]bool{}
	for _, ret := range returnsOf(fn) {
		for _, v := range ret.Results {
			if a, ok := stripConv(v).(*ssa.Alloc); ok {
				returned[a] = true
			}
		}
	}
	carried := P.carriedCells(fn, header, func(a *ssa.Alloc) bool { return returned[a] })
	R.check(len(carried) == 0, "load-independent", fname(fn)+": loop over the account files", P.pos(fn.Pos()), "every file is decoded into a fresh account",
		"state survives from one account file to the next: "+strings.Join(carried, "; ")+" — the named-flag decoder only sets bits, so the later account inherits the earlier one's privileges")
	R.floor("load-independent", 1)
}

type saveRow struct {
	field string
	bit   int
}

// parseSaveTableLoop: MarshalYAML of the form
//
//	var flags accessFlags
//	for _, e := range TABLE { *e.F(&flags) = recv.IsSet(e.A) }
//	return flags, nil
//
// with TABLE a package-level variable declared once as a literal of pairs (CONST, func(p *accessFlags) *bool { return &p.FIELD }),
// used nowhere else. Closed world: every element must have exactly that form.
func parseSaveTableLoop(p *packages.Package, mm *ast.FuncDecl) ([]saveRow, bool) {
	if mm.Recv == nil || len(mm.Recv.List) == 0 || len(mm.Recv.List[0].Names) == 0 {
		return nil, false
	}
	recv := mm.Recv.List[0].Names[0].Name
	var rs *ast.RangeStmt
	nRange := 0
	ast.Inspect(mm.Body, func(n ast.Node) bool {
		if r, ok := n.(*ast.RangeStmt); ok {
			rs = r
			nRange++
		}
		return true
	})
	if rs == nil || nRange != 1 || rs.Value == nil || len(rs.Body.List) != 1 {
		return nil, false
	}
	if k := identOf(rs.Key); rs.Key != nil && (k == nil || k.Name != "_") {
		return nil, false
	}
	elem := identOf(rs.Value)
	tbl := identOf(ast.Unparen(rs.X))
	if elem == nil || tbl == nil {
		return nil, false
	}
	tv, _ := p.TypesInfo.Uses[tbl].(*types.Var)
	if tv == nil || tv.Parent() != p.Types.Scope() {
		return nil, false
	}
	// the loop body
	as, ok := rs.Body.List[0].(*ast.AssignStmt)
	if !ok || as.Tok != token.ASSIGN || len(as.Lhs) != 1 || len(as.Rhs) != 1 {
		return nil, false
	}
	star, ok := ast.Unparen(as.Lhs[0]).(*ast.StarExpr)
	if !ok {
		return nil, false
	}
	fcall, ok := ast.Unparen(star.X).(*ast.CallExpr)
	if !ok || len(fcall.Args) != 1 {
		return nil, false
	}
	fsel, ok := ast.Unparen(fcall.Fun).(*ast.SelectorExpr)
	if !ok || identOf(fsel.X) == nil || p.TypesInfo.Uses[identOf(fsel.X)] != p.TypesInfo.Defs[elem] {
		return nil, false
	}
	addr, ok := ast.Unparen(fcall.Args[0]).(*ast.UnaryExpr)
	if !ok || addr.Op != token.AND || identOf(addr.X) == nil {
		return nil, false
	}
	target := p.TypesInfo.Uses[identOf(addr.X)]
	if target == nil || !strings.HasSuffix(target.Type().String(), ".accessFlags") {
		return nil, false
	}
	icall, ok := ast.Unparen(as.Rhs[0]).(*ast.CallExpr)
	if !ok || len(icall.Args) != 1 {
		return nil, false
	}
	isel, ok := ast.Unparen(icall.Fun).(*ast.SelectorExpr)
	if !ok || isel.Sel.Name != "IsSet" || identOf(isel.X) == nil || identOf(isel.X).Name != recv {
		return nil, false
	}
	asel, ok := ast.Unparen(icall.Args[0]).(*ast.SelectorExpr)
	if !ok || identOf(asel.X) == nil || p.TypesInfo.Uses[identOf(asel.X)] != p.TypesInfo.Defs[elem] {
		return nil, false
	}
	// what is returned is the struct that was filled
	okRet := true
	ast.Inspect(mm.Body, func(n ast.Node) bool {
		if r, isR := n.(*ast.ReturnStmt); isR && len(r.Results) > 0 {
			if id := identOf(ast.Unparen(r.Results[0])); id == nil || p.TypesInfo.Uses[id] != target {
				okRet = false
			}
		}
		return true
	})
	if !okRet {
		return nil, false
	}
	// the table
	var lit *ast.CompositeLit
	uses := 0
	for _, f := range p.Syntax {
		ast.Inspect(f, func(n ast.Node) bool {
			switch x := n.(type) {
			case *ast.ValueSpec:
				for i, nm := range x.Names {
					if p.TypesInfo.Defs[nm] == types.Object(tv) && i < len(x.Values) {
						lit, _ = x.Values[i].(*ast.CompositeLit)
					}
				}
			case *ast.Ident:
				if p.TypesInfo.Uses[x] == types.Object(tv) {
					uses++
				}
			}
			return true
		})
	}
	if lit == nil || uses != 1 {
		return nil, false
	}
	var stt *types.Struct
	switch t := tv.Type().Underlying().(type) {
	case *types.Slice:
		stt, _ = t.Elem().Underlying().(*types.Struct)
	case *types.Array:
		stt, _ = t.Elem().Underlying().(*types.Struct)
	}
	if stt == nil || stt.NumFields() != 2 {
		return nil, false
	}
	idx := func(name string) int {
		for i := 0; i < stt.NumFields(); i++ {
			if stt.Field(i).Name() == name {
				return i
			}
		}
		return -1
	}
	ai, fi := idx(asel.Sel.Name), idx(fsel.Sel.Name)
	if ai < 0 || fi < 0 || ai == fi {
		return nil, false
	}
	var rows []saveRow
	for _, el := range lit.Elts {
		cl, isCL := el.(*ast.CompositeLit)
		if !isCL || len(cl.Elts) != 2 {
			return nil, false
		}
		vals := make([]ast.Expr, 2)
		for i, fe := range cl.Elts {
			if kv, isKV := fe.(*ast.KeyValueExpr); isKV {
				k := identOf(kv.Key)
				if k == nil || idx(k.Name) < 0 {
					return nil, false
				}
				vals[idx(k.Name)] = kv.Value
			} else {
				vals[i] = fe
			}
		}
		if vals[ai] == nil || vals[fi] == nil {
			return nil, false
		}
		n, _, okN := constIntOf(p, vals[ai])
		fl, isFL := ast.Unparen(vals[fi]).(*ast.FuncLit)
		if !okN || !isFL || fl.Type.Params == nil || len(fl.Type.Params.List) != 1 || len(fl.Type.Params.List[0].Names) != 1 || len(fl.Body.List) != 1 {
			return nil, false
		}
		ret, isRet := fl.Body.List[0].(*ast.ReturnStmt)
		if !isRet || len(ret.Results) != 1 {
			return nil, false
		}
		ad, isAd := ast.Unparen(ret.Results[0]).(*ast.UnaryExpr)
		if !isAd || ad.Op != token.AND {
			return nil, false
		}
		fs, isFS := ast.Unparen(ad.X).(*ast.SelectorExpr)
		if !isFS || identOf(fs.X) == nil || p.TypesInfo.Uses[identOf(fs.X)] != p.TypesInfo.Defs[fl.Type.Params.List[0].Names[0]] {
			return nil, false
		}
		rows = append(rows, saveRow{fs.Sel.Name, n})
	}
	return rows, len(rows) > 0
}

// flattenExpansion: the statements of a case body without what an expansion of the normalised view put around them —
// result variables, the binding of parameters, `_ = x` markers, the labelled `switch { default: … }` and its breaks.
func flattenExpansion(list []ast.Stmt) []ast.Stmt {
	var out []ast.Stmt
	for _, st := range list {
		switch x := st.(type) {
		case *ast.DeclStmt:
			if gd, ok := x.Decl.(*ast.GenDecl); ok && gd.Tok == token.VAR {
				all := true
				for _, sp := range gd.Specs {
					vs, isVS := sp.(*ast.ValueSpec)
					if !isVS {
						all = false
						continue
					}
					for _, nm := range vs.Names {
						if !strings.HasPrefix(nm.Name, "__r") && !strings.HasPrefix(nm.Name, "__p") && !strings.HasPrefix(nm.Name, "__v") {
							all = false
						}
					}
				}
				if all {
					continue
				}
			}
		case *ast.AssignStmt:
			all := true
			for _, l := range x.Lhs {
				id := identOf(l)
				if id == nil || !(id.Name == "_" || strings.HasPrefix(id.Name, "__p") || strings.HasPrefix(id.Name, "__v")) {
					all = false
				}
			}
			if all {
				continue
			}
		case *ast.LabeledStmt:
			if sw, ok := x.Stmt.(*ast.SwitchStmt); ok && strings.HasPrefix(x.Label.Name, "__L") && sw.Tag == nil && sw.Init == nil && len(sw.Body.List) == 1 {
				if cc, isCC := sw.Body.List[0].(*ast.CaseClause); isCC && cc.List == nil {
					out = append(out, flattenExpansion(cc.Body)...)
					continue
				}
			}
		case *ast.BranchStmt:
			if x.Tok == token.BREAK && x.Label != nil && strings.HasPrefix(x.Label.Name, "__L") {
				continue
			}
		case *ast.EmptyStmt:
			continue
		case *ast.BlockStmt:
			if len(x.List) == 0 {
				continue
			}
		}
		out = append(out, st)
	}
	return out
}

// parseFlagIndexLoop: `for bit, key := range NAMES { [if key == "" { continue }] if f, ok := v[key].(bool); ok && f { bits.Set(bit) } }`
// with NAMES a package-level array / slice of strings declared once as an index-keyed literal `CONST: "Name"` and used
// nowhere but in range statements: row (Name, CONST) for every element with a name.
func parseFlagIndexLoop(p *packages.Package, st ast.Stmt, recv string) (rows [][3]any, ok bool) {
	rs, isRange := st.(*ast.RangeStmt)
	if !isRange || rs.Key == nil || rs.Value == nil {
		return nil, false
	}
	bitID, keyID := identOf(rs.Key), identOf(rs.Value)
	tbl := identOf(ast.Unparen(rs.X))
	if bitID == nil || keyID == nil || tbl == nil || bitID.Name == "_" || keyID.Name == "_" {
		return nil, false
	}
	tv, _ := p.TypesInfo.Uses[tbl].(*types.Var)
	if tv == nil || tv.Parent() != p.Types.Scope() {
		return nil, false
	}
	var elemT types.Type
	switch t := tv.Type().Underlying().(type) {
	case *types.Slice:
		elemT = t.Elem()
	case *types.Array:
		elemT = t.Elem()
	}
	if b, isB := elemT.(*types.Basic); elemT == nil || !isB || b.Kind() != types.String {
		return nil, false
	}
	body := rs.Body.List
	// optional skip of the unnamed bits
	if len(body) == 2 {
		is, isIf := body[0].(*ast.IfStmt)
		if !isIf || is.Init != nil || is.Else != nil || len(is.Body.List) != 1 {
			return nil, false
		}
		be, isBE := is.Cond.(*ast.BinaryExpr)
		br, isBr := is.Body.List[0].(*ast.BranchStmt)
		if !isBE || be.Op != token.EQL || !isBr || br.Tok != token.CONTINUE || br.Label != nil {
			return nil, false
		}
		x, y := identOf(ast.Unparen(be.X)), ast.Unparen(be.Y)
		if lit, isLit := y.(*ast.BasicLit); x == nil || p.TypesInfo.Uses[x] != p.TypesInfo.Defs[keyID] || !isLit || lit.Value != `""` {
			return nil, false
		}
		body = body[1:]
	}
	skipsUnnamed := len(rs.Body.List) == 2
	if len(body) != 1 {
		return nil, false
	}
	flagKeyOf = func(e ast.Expr) (string, bool) {
		id := identOf(ast.Unparen(e))
		return "KEY", id != nil && p.TypesInfo.Uses[id] == p.TypesInfo.Defs[keyID]
	}
	flagValOf = func(e ast.Expr) (string, bool) {
		id := identOf(ast.Unparen(e))
		return "BIT", id != nil && p.TypesInfo.Uses[id] == p.TypesInfo.Defs[bitID]
	}
	k, _, v, okIf := parseFlagIf(p, body[0], recv)
	flagKeyOf, flagValOf = nil, nil
	if !okIf || k != "KEY" || v != "BIT" {
		return nil, false
	}
	var lit *ast.CompositeLit
	uses := 0
	for _, f := range p.Syntax {
		ast.Inspect(f, func(n ast.Node) bool {
			switch x := n.(type) {
			case *ast.ValueSpec:
				for i, nm := range x.Names {
					if p.TypesInfo.Defs[nm] == types.Object(tv) && i < len(x.Values) {
						lit, _ = x.Values[i].(*ast.CompositeLit)
					}
				}
			case *ast.RangeStmt:
				if id := identOf(ast.Unparen(x.X)); id != nil && p.TypesInfo.Uses[id] == types.Object(tv) {
					uses--
				}
			case *ast.Ident:
				if p.TypesInfo.Uses[x] == types.Object(tv) {
					uses++
				}
			}
			return true
		})
	}
	if lit == nil || uses != 0 {
		return nil, false
	}
	maxIdx := -1
	for _, el := range lit.Elts {
		kv, isKV := el.(*ast.KeyValueExpr)
		if !isKV {
			return nil, false // positional: the index is not spelled with the privilege constant
		}
		n, cname, okN := constIntOf(p, kv.Key)
		sl, isLit := ast.Unparen(kv.Value).(*ast.BasicLit)
		if !okN || !isLit || sl.Kind != token.STRING {
			return nil, false
		}
		name, err := strconv.Unquote(sl.Value)
		if err != nil {
			return nil, false
		}
		if name == "" {
			if !skipsUnnamed {
				return nil, false
			}
			continue
		}
		if n > maxIdx {
			maxIdx = n
		}
		rows = append(rows, [3]any{name, n, cname})
	}
	if !skipsUnnamed && len(rows) != maxIdx+1 {
		// a bit without a name has the key "": without the skip an entry `"": true` of the file would grant it
		return nil, false
	}
	return rows, len(rows) > 0
}
