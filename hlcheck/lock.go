package main

// lock.go — E-lock: must-hold lock sets per instruction (forward dataflow over the CFG, entry sets
// from the call sites), lock naming by (struct type, mutex field, base object).

import (
	"sort"
	"strings"

	"golang.org/x/tools/go/ssa"
)

type LockID struct {
	Field string // "hotline.MemClientMgr.mu"
	Base  string // "this" for the function's receiver / a sym of the base object
}

func (l LockID) String() string { return l.Field + "@" + l.Base }

type lockSet map[LockID]bool

func (s lockSet) clone() lockSet {
	o := lockSet{}
	for k := range s {
		o[k] = true
	}
	return o
}

func intersect(a, b lockSet) lockSet {
	o := lockSet{}
	for k := range a {
		if b[k] {
			o[k] = true
		}
	}
	return o
}

func (s lockSet) names() []string {
	var out []string
	for k := range s {
		out = append(out, k.String())
	}
	sort.Strings(out)
	return out
}

func (s lockSet) hasField(field string) bool {
	for k := range s {
		if k.Field == field {
			return true
		}
	}
	return false
}

type LockInfo struct {
	P     *Prog
	entry map[*ssa.Function]lockSet
	at    map[ssa.Instruction]lockSet // lock set holding *before* the instruction executes
	done  map[*ssa.Function]bool
}

// baseName names the object a field address belongs to, relative to fn.
func (P *Prog) baseName(fn *ssa.Function, x ssa.Value) string {
	if len(fn.Params) > 0 && x == ssa.Value(fn.Params[0]) && fn.Signature.Recv() != nil {
		return "this"
	}
	return stripRecv(P.sym(x))
}

// lockOp classifies a call as lock/unlock of a mutex field.
func (P *Prog) lockOp(fn *ssa.Function, c *ssa.CallCommon) (id LockID, op string, ok bool) {
	name := calleeName(c)
	switch name {
	case "(*sync.Mutex).Lock", "(*sync.RWMutex).Lock", "(*sync.RWMutex).RLock":
		op = "lock"
	case "(*sync.Mutex).Unlock", "(*sync.RWMutex).Unlock", "(*sync.RWMutex).RUnlock":
		op = "unlock"
	default:
		return LockID{}, "", false
	}
	fa, isFA := c.Args[0].(*ssa.FieldAddr)
	if !isFA {
		return LockID{Field: "?" + P.sym(c.Args[0]), Base: "?"}, op, true
	}
	f, _ := fieldOf(fa)
	return LockID{Field: f, Base: P.baseName(fn, fa.X)}, op, true
}

func newLockInfo(P *Prog) *LockInfo {
	L := &LockInfo{P: P, entry: map[*ssa.Function]lockSet{}, at: map[ssa.Instruction]lockSet{}, done: map[*ssa.Function]bool{}}
	// iterate: entry sets start empty for functions without repo callers, "unknown" (nil) otherwise
	for iter := 0; iter < 6; iter++ {
		changed := false
		for _, fn := range P.Funcs {
			var entry lockSet
			callers := P.callers[fn]
			usable := 0
			for _, ci := range callers {
				// a call made with `go` starts a new goroutine: nothing is held there
				if _, isGo := ci.(*ssa.Go); isGo {
					entry = lockSet{}
					usable++
					continue
				}
				held, known := L.at[ci.(ssa.Instruction)]
				if !known {
					continue
				}
				usable++
				// translate caller-side bases: a lock on base B held at the call is "this" in the callee when B is the receiver argument
				tr := lockSet{}
				args := ci.Common().Args
				for k := range held {
					nk := k
					if len(args) > 0 && fn.Signature.Recv() != nil {
						if k.Base == L.P.baseName(ci.Parent(), args[0]) {
							nk.Base = "this"
						} else {
							nk.Base = "caller:" + k.Base
						}
					} else {
						nk.Base = "caller:" + k.Base
					}
					tr[nk] = true
				}
				if entry == nil {
					entry = tr
				} else {
					entry = intersect(entry, tr)
				}
			}
			if entry == nil || usable < len(callers) && iter == 0 {
				if entry == nil {
					entry = lockSet{}
				}
			}
			if fn.Parent() != nil {
				// closures: start from the enclosing function's set at the MakeClosure unless started as goroutine / deferred
				entry = L.closureEntry(fn, entry)
			}
			old, had := L.entry[fn]
			if !had || !sameSet(old, entry) {
				L.entry[fn] = entry
				changed = true
			}
			L.analyse(fn)
		}
		if !changed {
			break
		}
	}
	return L
}

func (L *LockInfo) closureEntry(fn *ssa.Function, fromCallers lockSet) lockSet {
	// find the MakeClosure and how it is used
	parent := fn.Parent()
	var res lockSet
	found := false
	eachInstr(parent, func(ins ssa.Instruction) {
		mc, ok := ins.(*ssa.MakeClosure)
		if !ok || mc.Fn != fn {
			return
		}
		found = true
		for _, r := range *mc.Referrers() {
			switch r.(type) {
			case *ssa.Go:
				res = lockSet{}
				return
			}
		}
		held := L.at[mc]
		tr := lockSet{}
		for k := range held {
			nk := k
			nk.Base = "outer:" + k.Base
			tr[nk] = true
		}
		// the closure handed to a repo helper that calls it (`withLock(func() …)`): what the helper holds at that call
		for _, r := range *mc.Referrers() {
			call, ok := r.(*ssa.Call)
			if !ok {
				continue
			}
			h, ok := call.Call.Value.(*ssa.Function)
			if !ok || h.Blocks == nil || !L.P.isRepoPkg(pkgOf(h)) {
				continue
			}
			for j, a := range call.Call.Args {
				if a != ssa.Value(mc) || j >= len(h.Params) {
					continue
				}
				var inside lockSet
				for _, ci := range callsIn(h) {
					if _, isGo := ci.(*ssa.Go); isGo {
						continue
					}
					if ci.Common().Value != ssa.Value(h.Params[j]) {
						continue
					}
					hs := lockSet{}
					for k := range L.at[ci.(ssa.Instruction)] {
						nk := k
						if k.Base == "this" && h.Signature.Recv() != nil && len(call.Call.Args) > 0 {
							nk.Base = "outer:" + L.P.baseName(parent, call.Call.Args[0])
						} else {
							nk.Base = "outer:callee:" + k.Base
						}
						hs[nk] = true
					}
					if inside == nil {
						inside = hs
					} else {
						inside = intersect(inside, hs)
					}
				}
				for k := range inside {
					tr[k] = true
				}
			}
		}
		if res == nil {
			res = tr
		} else {
			res = intersect(res, tr)
		}
	})
	if !found || res == nil {
		return fromCallers
	}
	return res
}

func sameSet(a, b lockSet) bool {
	if len(a) != len(b) {
		return false
	}
	for k := range a {
		if !b[k] {
			return false
		}
	}
	return true
}

// analyse computes the lock set before every instruction of fn.
func (L *LockInfo) analyse(fn *ssa.Function) {
	if len(fn.Blocks) == 0 {
		return
	}
	in := map[*ssa.BasicBlock]lockSet{}
	in[fn.Blocks[0]] = L.entry[fn].clone()
	work := []*ssa.BasicBlock{fn.Blocks[0]}
	visits := 0
	for len(work) > 0 && visits < 10000 {
		visits++
		b := work[0]
		work = work[1:]
		cur := in[b].clone()
		for _, ins := range b.Instrs {
			L.at[ins] = cur.clone()
			if ci, ok := ins.(ssa.CallInstruction); ok {
				if _, isDefer := ins.(*ssa.Defer); isDefer {
					continue // deferred unlock: the lock stays held to the end
				}
				if _, isGo := ins.(*ssa.Go); isGo {
					continue
				}
				if id, op, ok := L.P.lockOp(fn, ci.Common()); ok {
					if op == "lock" {
						cur[id] = true
					} else {
						delete(cur, id)
					}
				}
			}
		}
		for _, s := range b.Succs {
			old, seen := in[s]
			var nw lockSet
			if !seen {
				nw = cur.clone()
			} else {
				nw = intersect(old, cur)
			}
			if !seen || !sameSet(old, nw) {
				in[s] = nw
				work = append(work, s)
			}
		}
	}
}

// held reports whether a lock of the given mutex field on the given base is held before ins.
func (L *LockInfo) held(ins ssa.Instruction, field, base string) bool {
	for k := range L.at[ins] {
		if k.Field != field {
			continue
		}
		b := strings.TrimPrefix(strings.TrimPrefix(strings.TrimPrefix(k.Base, "outer:"), "caller:"), "outer:")
		if k.Base == base || b == base {
			return true
		}
		// inside a closure the receiver of the enclosing method is named by its parameter
		if root := rootFn(ins.Parent()); root != ins.Parent() && root.Signature.Recv() != nil && len(root.Params) > 0 {
			if base == "param:"+root.Params[0].Name() && b == "this" {
				return true
			}
		}
	}
	return false
}

func (L *LockInfo) heldAnyBase(ins ssa.Instruction, field string) bool {
	return L.at[ins].hasField(field)
}
