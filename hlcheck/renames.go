package main

// renames.go — names of the reference tree that a maintenance edit changed are put back on the normalised copy.
//
// The rules name the functions, methods and struct fields of the reference tree. spec/decls.txt records, for each of
// them, what identifies it besides its name: receiver and signature for a function, position-independent type for a
// field. When the tree lacks a recorded name and has exactly one unrecorded declaration of the same kind in the same
// place with the same signature / type (and no other recorded name competes for it), the declaration was renamed:
// every identifier that denotes it is spelled with the recorded name on the scratch copy before anything else is
// done. A renaming changes no behaviour; if the pairing were wrong the rules would look at the wrong function and
// report, they would not pass.

import (
	"fmt"
	"go/ast"
	"go/printer"
	"go/token"
	"go/types"
	"os"
	"path/filepath"
	"sort"
	"strings"

	"golang.org/x/tools/go/packages"
)

type refDecls struct {
	funcs  map[string]string      // full name → signature
	fields map[string][][2]string // pkg.Type → [(name, type)] in order
	vars   map[string][2]string   // pkg.name → (kind+type, constant value or initialiser text)
	types  map[string][2]string   // pkg.Name → (underlying type, number of methods)
}

func qual(p *types.Package) string { return p.Name() }

func readDecls(verifDir string) (*refDecls, error) {
	b, err := os.ReadFile(filepath.Join(verifDir, "spec", "decls.txt"))
	if err != nil {
		return nil, err
	}
	d := &refDecls{funcs: map[string]string{}, fields: map[string][][2]string{}, vars: map[string][2]string{}, types: map[string][2]string{}}
	for _, l := range strings.Split(string(b), "\n") {
		f := strings.Split(l, "\t")
		switch {
		case len(f) == 3 && f[0] == "func":
			d.funcs[f[1]] = f[2]
		case len(f) == 4 && f[0] == "field":
			d.fields[f[1]] = append(d.fields[f[1]], [2]string{f[2], f[3]})
		case len(f) == 4 && f[0] == "type":
			d.types[f[1]] = [2]string{f[2], f[3]}
		case len(f) == 4 && (f[0] == "var" || f[0] == "const"):
			d.vars[f[1]] = [2]string{f[0] + " " + f[2], f[3]}
		}
	}
	return d, nil
}

// printDecls writes the reference declarations (hlcheck -decls > spec/decls.txt).
func printDecls(pkgs []*packages.Package) {
	fmt.Println("# declarations of the reference tree: what identifies a function or field besides its name (hlcheck -decls)")
	var lines []string
	for _, c := range newFunctions(pkgs, map[string]bool{}) {
		lines = append(lines, "func\t"+c.name+"\t"+sigKey(c.obj.Type()))
	}
	for _, p := range pkgs {
		if !strings.HasPrefix(p.PkgPath, "github.com/jhalter/mobius") {
			continue
		}
		sc := p.Types.Scope()
		for _, n := range sc.Names() {
			tn, ok := sc.Lookup(n).(*types.TypeName)
			if !ok {
				continue
			}
			st, ok := tn.Type().Underlying().(*types.Struct)
			if !ok {
				continue
			}
			for i := 0; i < st.NumFields(); i++ {
				lines = append(lines, "field\t"+shortName(p.PkgPath)+"."+n+"\t"+st.Field(i).Name()+"\t"+types.TypeString(st.Field(i).Type(), qual))
			}
		}
	}
	for _, gv := range globalDecls(pkgs) {
		lines = append(lines, gv.kind+"\t"+gv.full+"\t"+gv.typ+"\t"+gv.val)
	}
	for _, td := range typeDecls(pkgs) {
		lines = append(lines, "type\t"+td.full+"\t"+td.under+"\t"+td.nmeth)
	}
	sort.SliceStable(lines, func(i, j int) bool {
		// keep the field order of a struct: sort by kind and owner only
		a, b := strings.SplitN(lines[i], "\t", 3), strings.SplitN(lines[j], "\t", 3)
		if a[0] != b[0] {
			return a[0] < b[0]
		}
		if a[0] == "func" {
			return lines[i] < lines[j]
		}
		return a[1] < b[1]
	})
	for _, l := range lines {
		fmt.Println(l)
	}
}

type globalDecl struct {
	kind, full, typ, val string
	obj                  types.Object
}

// globalDecls: package-level constants (with their value) and variables (with the text of their initialiser).
func globalDecls(pkgs []*packages.Package) []globalDecl {
	var out []globalDecl
	for _, p := range pkgs {
		if !strings.HasPrefix(p.PkgPath, "github.com/jhalter/mobius") {
			continue
		}
		for _, f := range p.Syntax {
			for _, dcl := range f.Decls {
				gd, ok := dcl.(*ast.GenDecl)
				if !ok {
					continue
				}
				for _, sp := range gd.Specs {
					vs, ok := sp.(*ast.ValueSpec)
					if !ok {
						continue
					}
					for i, nm := range vs.Names {
						o := p.TypesInfo.Defs[nm]
						if o == nil || nm.Name == "_" {
							continue
						}
						full := shortName(p.PkgPath) + "." + nm.Name
						typ := types.TypeString(o.Type(), qual)
						switch x := o.(type) {
						case *types.Const:
							out = append(out, globalDecl{"const", full, typ, x.Val().ExactString(), o})
						case *types.Var:
							val := ""
							if i < len(vs.Values) {
								var sb strings.Builder
								_ = printer.Fprint(&sb, p.Fset, vs.Values[i])
								val = strings.Join(strings.Fields(sb.String()), " ")
							}
							if val == "" {
								continue // nothing to tell it from its siblings of the same type
							}
							out = append(out, globalDecl{"var", full, typ, val, o})
						}
					}
				}
			}
		}
	}
	return out
}

type typeDecl struct {
	full, under, nmeth string
	obj                *types.TypeName
}

// typeDecls: the named (non-alias) types of the repository packages with their underlying type, in which the type's
// own name is written "·" so that a renamed self-reference still compares equal.
func typeDecls(pkgs []*packages.Package) []typeDecl {
	var out []typeDecl
	for _, p := range pkgs {
		if !strings.HasPrefix(p.PkgPath, "github.com/jhalter/mobius") {
			continue
		}
		sc := p.Types.Scope()
		for _, n := range sc.Names() {
			tn, ok := sc.Lookup(n).(*types.TypeName)
			if !ok || tn.IsAlias() {
				continue
			}
			named, ok := tn.Type().(*types.Named)
			if !ok {
				continue
			}
			u := types.TypeString(named.Underlying(), func(q *types.Package) string { return q.Name() })
			u = strings.ReplaceAll(u, p.Types.Name()+"."+n, "·")
			out = append(out, typeDecl{shortName(p.PkgPath) + "." + n, u, fmt.Sprint(named.NumMethods()), tn})
		}
	}
	return out
}

// sigKey: a signature by its parameter and result types (names left out: renaming a parameter changes nothing).
func sigKey(t types.Type) string {
	sig, ok := t.(*types.Signature)
	if !ok {
		return types.TypeString(t, qual)
	}
	var ps, rs []string
	for i := 0; i < sig.Params().Len(); i++ {
		ps = append(ps, types.TypeString(sig.Params().At(i).Type(), qual))
	}
	for i := 0; i < sig.Results().Len(); i++ {
		rs = append(rs, types.TypeString(sig.Results().At(i).Type(), qual))
	}
	v := ""
	if sig.Variadic() {
		v = "..."
	}
	return "func(" + strings.Join(ps, ", ") + v + ") (" + strings.Join(rs, ", ") + ")"
}

// groupOf: the place of a function — its package for a plain function, its receiver for a method.
func groupOf(full string) (group, bare string) {
	if i := strings.LastIndex(full, ")."); i >= 0 && strings.HasPrefix(full, "(") {
		return full[:i+1], full[i+2:]
	}
	i := strings.LastIndex(full, ".")
	return full[:i], full[i+1:]
}

// computeRenames pairs recorded names that the tree lacks with unrecorded declarations of the tree.
func computeRenames(pkgs []*packages.Package, d *refDecls) (map[types.Object]string, []string) {
	out := map[types.Object]string{}
	var notes []string
	// ---- named types first: signatures and receivers are spelled with them, so when one is found it is put back
	// alone and everything else is looked at again on the result
	{
		cur := typeDecls(pkgs)
		have := map[string]bool{}
		for _, t := range cur {
			have[t.full] = true
		}
		pkgOfName := func(full string) string { return full[:strings.LastIndex(full, ".")] }
		for name, ref := range d.types {
			if have[name] {
				continue
			}
			var cs []typeDecl
			for _, t := range cur {
				if _, recorded := d.types[t.full]; recorded {
					continue
				}
				if pkgOfName(t.full) == pkgOfName(name) && t.under == ref[0] && t.nmeth == ref[1] {
					cs = append(cs, t)
				}
			}
			competing := 0
			for n2, r2 := range d.types {
				if !have[n2] && pkgOfName(n2) == pkgOfName(name) && r2 == ref {
					competing++
				}
			}
			if len(cs) == 1 && competing == 1 {
				out[cs[0].obj] = name[strings.LastIndex(name, ".")+1:]
				notes = append(notes, fmt.Sprintf("type %s is %s of the reference tree", cs[0].full, name))
			}
		}
		if len(out) > 0 {
			sort.Strings(notes)
			return out, notes
		}
	}
	// ---- functions and methods
	type cand struct {
		obj  types.Object
		sig  string
		bare string
	}
	have := map[string]bool{}
	newBy := map[string][]cand{}
	for _, c := range newFunctions(pkgs, map[string]bool{}) {
		have[c.name] = true
		if _, recorded := d.funcs[c.name]; recorded {
			continue
		}
		g, bare := groupOf(c.name)
		newBy[g] = append(newBy[g], cand{c.obj, sigKey(c.obj.Type()), bare})
	}
	missingBy := map[string][][2]string{} // group → (bare, sig)
	for n, sig := range d.funcs {
		if !have[n] {
			g, bare := groupOf(n)
			missingBy[g] = append(missingBy[g], [2]string{bare, sig})
		}
	}
	for g, ms := range missingBy {
		for _, m := range ms {
			var cs []cand
			for _, c := range newBy[g] {
				if c.sig == m[1] {
					cs = append(cs, c)
				}
			}
			competing := 0
			for _, m2 := range ms {
				if m2[1] == m[1] {
					competing++
				}
			}
			if len(cs) == 1 && competing == 1 {
				out[cs[0].obj] = m[0]
				notes = append(notes, fmt.Sprintf("%s.%s is %s.%s of the reference tree", g, cs[0].bare, g, m[0]))
			}
		}
	}
	// ---- struct fields
	for _, p := range pkgs {
		if !strings.HasPrefix(p.PkgPath, "github.com/jhalter/mobius") {
			continue
		}
		sc := p.Types.Scope()
		for _, n := range sc.Names() {
			tn, ok := sc.Lookup(n).(*types.TypeName)
			if !ok {
				continue
			}
			st, ok := tn.Type().Underlying().(*types.Struct)
			if !ok {
				continue
			}
			ref, recorded := d.fields[shortName(p.PkgPath)+"."+n]
			if !recorded {
				continue
			}
			cur := map[string]*types.Var{}
			for i := 0; i < st.NumFields(); i++ {
				cur[st.Field(i).Name()] = st.Field(i)
			}
			refNames := map[string]bool{}
			for _, rf := range ref {
				refNames[rf[0]] = true
			}
			for _, rf := range ref {
				if cur[rf[0]] != nil {
					continue // still there
				}
				var cs []*types.Var
				for name, v := range cur {
					if !refNames[name] && types.TypeString(v.Type(), qual) == rf[1] {
						cs = append(cs, v)
					}
				}
				competing := 0
				for _, rf2 := range ref {
					if cur[rf2[0]] == nil && rf2[1] == rf[1] {
						competing++
					}
				}
				if len(cs) == 1 && competing == 1 {
					out[cs[0]] = rf[0]
					notes = append(notes, fmt.Sprintf("field %s.%s.%s is %s of the reference tree", shortName(p.PkgPath), n, cs[0].Name(), rf[0]))
				}
			}
		}
	}
	// ---- package-level constants and variables: same package, same type, same value / initialiser
	{
		cur := globalDecls(pkgs)
		have := map[string]bool{}
		for _, g := range cur {
			have[g.full] = true
		}
		pkgOfName := func(full string) string { return full[:strings.LastIndex(full, ".")] }
		for name, ref := range d.vars {
			if have[name] {
				continue
			}
			var cs []globalDecl
			for _, g := range cur {
				if _, recorded := d.vars[g.full]; recorded {
					continue
				}
				if pkgOfName(g.full) == pkgOfName(name) && g.kind+" "+g.typ == ref[0] && g.val == ref[1] {
					cs = append(cs, g)
				}
			}
			competing := 0
			for n2, r2 := range d.vars {
				if !have[n2] && pkgOfName(n2) == pkgOfName(name) && r2 == ref {
					competing++
				}
			}
			if len(cs) == 1 && competing == 1 {
				out[cs[0].obj] = name[strings.LastIndex(name, ".")+1:]
				notes = append(notes, fmt.Sprintf("%s is %s of the reference tree", cs[0].full, name))
			}
		}
	}
	sort.Strings(notes)
	return out, notes
}

// renameEdits spells every identifier that denotes a renamed declaration with its recorded name.
func renameEdits(N *normaliser, pkgs []*packages.Package, ren map[types.Object]string) {
	done := map[string]bool{}
	for _, p := range pkgs {
		if !strings.HasPrefix(p.PkgPath, "github.com/jhalter/mobius") {
			continue
		}
		for _, f := range p.Syntax {
			ast.Inspect(f, func(n ast.Node) bool {
				id, ok := n.(*ast.Ident)
				if !ok {
					return true
				}
				o := p.TypesInfo.ObjectOf(id)
				if o == nil {
					return true
				}
				// a method / field of an instantiated or embedded use denotes the declared object through Origin
				if v, isV := o.(*types.Var); isV {
					o = v.Origin()
				}
				if fn, isF := o.(*types.Func); isF {
					o = fn.Origin()
				}
				name, ok := ren[o]
				if !ok || id.Name == name {
					return true
				}
				pos := N.fset.Position(id.Pos())
				k := fmt.Sprintf("%s:%d", pos.Filename, pos.Offset)
				if done[k] {
					return true
				}
				done[k] = true
				N.edits[pos.Filename] = append(N.edits[pos.Filename], textEdit{pos.Offset, len(id.Name), name})
				return true
			})
		}
	}
}

// conversion: a recorded method that the tree lacks, and one unrecorded plain function of the same package whose
// parameters are the method's receiver followed by the method's parameters (same results): the method was turned
// into a function (and possibly renamed). On the copy the declaration gets its receiver back and every call f(x, a…)
// is spelled (x).m(a…).
type conversion struct {
	fn      *types.Func
	oldName string
	note    string
}

func computeConversions(pkgs []*packages.Package, d *refDecls) []conversion {
	var out []conversion
	have := map[string]bool{}
	type cand struct {
		obj *types.Func
		sig *types.Signature
		pkg string
	}
	var news []cand
	for _, c := range newFunctions(pkgs, map[string]bool{}) {
		have[c.name] = true
		if _, recorded := d.funcs[c.name]; recorded {
			continue
		}
		sig := c.obj.Type().(*types.Signature)
		if sig.Recv() == nil {
			news = append(news, cand{c.obj, sig, shortName(c.pkg.PkgPath)})
		}
	}
	for name, refSig := range d.funcs {
		if have[name] || !strings.HasPrefix(name, "(") {
			continue
		}
		g, bare := groupOf(name) // "(*pkg.T)" or "(pkg.T)"
		inner := strings.TrimSuffix(strings.TrimPrefix(g, "("), ")")
		ptr := strings.HasPrefix(inner, "*")
		inner = strings.TrimPrefix(inner, "*")
		pkgPath := inner[:strings.LastIndex(inner, ".")]
		typeName := inner[strings.LastIndex(inner, ".")+1:]
		var cs []cand
		for _, c := range news {
			if c.pkg != pkgPath || c.sig.Params().Len() == 0 {
				continue
			}
			t0 := c.sig.Params().At(0).Type()
			isPtr := false
			if p, ok := t0.(*types.Pointer); ok {
				t0, isPtr = p.Elem(), true
			}
			nt, ok := t0.(*types.Named)
			if !ok || nt.Obj().Name() != typeName || isPtr != ptr || nt.Obj().Pkg() == nil || shortName(nt.Obj().Pkg().Path()) != pkgPath {
				continue
			}
			// the remaining parameters and the results are the method's
			var ps, rs []string
			for i := 1; i < c.sig.Params().Len(); i++ {
				ps = append(ps, types.TypeString(c.sig.Params().At(i).Type(), qual))
			}
			for i := 0; i < c.sig.Results().Len(); i++ {
				rs = append(rs, types.TypeString(c.sig.Results().At(i).Type(), qual))
			}
			v := ""
			if c.sig.Variadic() {
				v = "..."
			}
			if "func("+strings.Join(ps, ", ")+v+") ("+strings.Join(rs, ", ")+")" == refSig {
				cs = append(cs, c)
			}
		}
		if len(cs) == 1 {
			out = append(out, conversion{cs[0].obj, bare, fmt.Sprintf("function %s.%s is method %s of the reference tree", pkgPath, cs[0].obj.Name(), name)})
		}
	}
	sort.Slice(out, func(i, j int) bool { return out[i].note < out[j].note })
	return out
}

// conversionEdits gives the function its receiver back and spells its calls as method calls; false when some use of
// the function is not a plain call (the conversion is then left alone).
func conversionEdits(N *normaliser, pkgs []*packages.Package, cv conversion) bool {
	type edit struct {
		file string
		e    textEdit
	}
	var eds []edit
	off := func(p token.Pos) int { return N.fset.Position(p).Offset }
	fileOf := func(p token.Pos) string { return N.fset.Position(p).Filename }
	okAll := true
	for _, p := range pkgs {
		if !strings.HasPrefix(p.PkgPath, "github.com/jhalter/mobius") {
			continue
		}
		for _, f := range p.Syntax {
			callFun := map[*ast.Ident]*ast.CallExpr{}
			ast.Inspect(f, func(n ast.Node) bool {
				if c, ok := n.(*ast.CallExpr); ok {
					switch x := c.Fun.(type) {
					case *ast.Ident:
						callFun[x] = c
					case *ast.SelectorExpr:
						callFun[x.Sel] = c
					}
				}
				return true
			})
			for _, dcl := range f.Decls {
				fd, ok := dcl.(*ast.FuncDecl)
				if !ok || p.TypesInfo.Defs[fd.Name] != types.Object(cv.fn) {
					continue
				}
				first := fd.Type.Params.List[0]
				if len(first.Names) != 1 {
					okAll = false
					continue
				}
				src := N.src(fileOf(fd.Pos()))
				recvText := string(src[off(first.Pos()):off(first.End())])
				// func NAME(first, rest…) → func (first) OLD(rest…)
				eds = append(eds, edit{fileOf(fd.Pos()), textEdit{off(fd.Name.Pos()), len(fd.Name.Name), "(" + recvText + ") " + cv.oldName}})
				end := off(first.End())
				if len(fd.Type.Params.List) > 1 {
					end = off(fd.Type.Params.List[1].Pos())
				}
				eds = append(eds, edit{fileOf(fd.Pos()), textEdit{off(first.Pos()), end - off(first.Pos()), ""}})
			}
			for id, o := range p.TypesInfo.Uses {
				if o != types.Object(cv.fn) {
					continue
				}
				if fileOf(id.Pos()) != fileOf(f.Pos()) {
					continue
				}
				c := callFun[id]
				if c == nil || len(c.Args) == 0 || c.Ellipsis.IsValid() && len(c.Args) == 1 {
					okAll = false
					continue
				}
				src := N.src(fileOf(c.Pos()))
				a0 := string(src[off(c.Args[0].Pos()):off(c.Args[0].End())])
				eds = append(eds, edit{fileOf(c.Pos()), textEdit{off(c.Fun.Pos()), off(c.Fun.End()) - off(c.Fun.Pos()), "(" + a0 + ")." + cv.oldName}})
				end := off(c.Args[0].End())
				if len(c.Args) > 1 {
					end = off(c.Args[1].Pos())
				}
				eds = append(eds, edit{fileOf(c.Pos()), textEdit{off(c.Args[0].Pos()), end - off(c.Args[0].Pos()), ""}})
			}
		}
	}
	if !okAll {
		return false
	}
	for _, e := range eds {
		N.edits[e.file] = append(N.edits[e.file], e.e)
	}
	return true
}
