package main

// c08.go / C09 / C10 — structural parts of the transfer properties.

import "golang.org/x/tools/go/ssa"

func checkC08(R *Run) {
	R.rule("resume-skip", "in every function that parses a client's resume offset (ForkInfoList.DataSize), that value reaches the amount of a Seek / Discard / CopyN(io.Discard) on the very reader whose bytes are then copied to the client, the skip dominating the copy")
	R.rule("header-gate", "the flattened-file header is written only when the transfer has no options (not a preview); the data fork is written in both cases; order header → data fork → resource-fork header → resource fork")
	R.rule("reply-consistency", "the download reply takes the resume offset from the request, reports field 207 as the data fork header's size (file size − offset) and field 108 as TransferSize(0), or the data size under the preview option; TransferSize = data + resource + emitted header length − offset")
	R.rule("layout", "(shared with C01) wire layout of the flattened file object and its information fork")
	R.rule("prefix", "(shared with C01) information fork size = Σ fixed widths + len(Name) + len(Comment); name length computed from the name")
	R.ruleResumeSkip("hotline.DownloadHandler")
	R.ruleHeaderGate()
	R.ruleReplyConsistency()
	checkLayouts(R)
	R.floor("resume-skip", 1)
	R.floor("header-gate", 3)
}

func checkC09(R *Run) {
	R.rule("publish-after-success", "every rename '<x>.incomplete → <x>' is unreachable once the edges on which the receiveFile call returned nil are deleted, and is never deferred")
	R.rule("incomplete-append", "the data-fork target handed to receiveFile is opened on the .incomplete name with O_APPEND|O_CREATE|O_WRONLY and without O_TRUNC (constant-folded flags)")
	R.rule("no-overwrite", "opening/receiving/renaming in UploadHandler and granting the transfer in HandleUploadFile are unreachable on the edge where Stat of the final name succeeded")
	R.rule("declared-size-copy", "receiveFile copies with io.CopyN exactly dataSize() bytes, dataSize() being the DataSize of the data-fork header that ReadFrom read from the same stream just before")
	R.rule("resume-offset-reply", "the resume offset reported to the client is Size() of the Stat of the .incomplete file")
	n := R.rulePublishAfterSuccess("hotline.UploadHandler", "hotline.UploadFolderHandler")
	_ = n
	R.floor("publish-after-success", 3)
	R.ruleIncompleteAppend(3, "hotline.UploadHandler", "hotline.UploadFolderHandler")
	R.ruleNoOverwrite()
	R.ruleDeclaredSizeCopy()
	R.ruleResumeOffsetReply()
	R.ruleShiftEncoding()
	R.floor("resume-offset-reply", 2)
	R.rulePartialPreserved()
	R.ruleReceiveErrors()
}

func checkC10(R *Run) {
	R.rule("resume-skip", "(as C08) on the folder download: the per-item resume offset must be skipped on the file that is copied")
	R.rule("publish-after-success", "(as C09) on the folder upload's two receive branches")
	R.rule("incomplete-append", "(as C09) on the folder upload's partial files")
	R.rule("resume-offset-reply", "(as C09) on the folder upload's resume branch")
	R.rule("walk-filter-agree", "CalcItemCount and the sending walker use the same name-prefix skip predicate; the counter counts only non-skipped entries and subtracts the root; the walker sends no header for skipped entries nor for the root; neither prunes sub-trees")
	R.ruleResumeSkip("hotline.DownloadFolderHandler")
	R.rulePublishAfterSuccess("hotline.UploadFolderHandler")
	R.floor("publish-after-success", 2)
	R.ruleIncompleteAppend(2, "hotline.UploadFolderHandler")
	R.ruleResumeOffsetReply()
	R.rule("declared-size-copy", "(as C09) each item's data fork is copied with io.CopyN for exactly the size its header declares")
	R.rule("receive-errors-propagate", "(as C09) a stream that ends inside an item is an error, so the item stays a partial file")
	R.rule("partial-preserved", "(as C09) nothing removes or truncates an item's partial file")
	R.ruleDeclaredSizeCopy()
	R.ruleReceiveErrors()
	R.rulePartialPreserved()
	R.rule("path-taint", "(as C07) restricted to the folder transfer handlers: item paths read from the transfer connection are anchored before they are joined to the upload folder")
	R.rulePathTaint("path-taint", func(fn *ssa.Function) bool {
		n := fname(rootFn(fn))
		return n == "hotline.UploadFolderHandler" || n == "hotline.DownloadFolderHandler"
	}, 12)
	R.rule("fresh-decoder", "(as C01) restricted to the folder handlers: the per-item resume data is decoded into a value created for that item")
	R.ruleFreshDecoder(func(fn *ssa.Function) bool {
		n := fname(rootFn(fn))
		return n == "hotline.DownloadFolderHandler" || n == "hotline.UploadFolderHandler"
	})
	R.rule("skip-sends-once", "in the folder upload's item loop, on the edge where the action written to the client equals 'next file' (item already complete) no further action word is written before the next item header is read")
	R.ruleSkipSendsOnce()
	R.ruleAnnouncedForksSent()
	R.ruleWalkFilterAgree()
	R.floor("walk-filter-agree", 6)
	R.floor("resume-skip", 1)
}

func init() {
	register("C08", checkC08)
	register("C09", checkC09)
	register("C10", checkC10)
}
