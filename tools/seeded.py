#!/usr/bin/env python3
"""Ingests an independently seeded change produced by a sub-agent: re-verifies every claim in a fresh
scratch worktree of /repo (outside /repo and /verif, removed afterwards) and stores it under
/verif/seeded/<name>/ (patch.diff, demo/, meta.json).

usage: seeded.py ingest <agent dir> <n> <property id>       (expects seed<n>.diff, seed<n>_demo/, seed<n>.md)
       seeded.py index                                       (re-generates seeded/INDEX.md)
       seeded.py recheck                                     (re-runs all checks on all kept changes, updates meta.json)
"""
import sys, os, json, subprocess, tempfile, shutil, glob, re
VERIF = os.path.dirname(os.path.dirname(os.path.abspath(__file__)))
ENV = dict(os.environ, GOFLAGS="-mod=mod", GOPROXY="off", GOSUMDB="off", GOTOOLCHAIN="local", GOWORK="off")

def use_private_cache():
    """Scratch builds, test runs and analyses get a build cache of their own that is removed at exit (hundreds of
    scratch trees would otherwise fill the disk)."""
    import atexit
    d = tempfile.mkdtemp(prefix="hl-gocache-", dir="/tmp")
    ENV["GOCACHE"] = d
    atexit.register(lambda: shutil.rmtree(d, ignore_errors=True))
PROPS = [f"C{i:02d}" for i in range(1, 21)]

def sh(cmd, cwd, timeout=900):
    r = subprocess.run(cmd, cwd=cwd, env=ENV, capture_output=True, text=True, shell=isinstance(cmd, str), timeout=timeout)
    return r.returncode, (r.stdout + r.stderr)

def scratch_wt():
    d = tempfile.mkdtemp(prefix="seedwt-", dir="/tmp")
    os.rmdir(d)
    rc, out = sh(["git", "-C", "/repo", "worktree", "add", "-f", "--detach", d, "HEAD"], "/")
    if rc != 0: raise SystemExit("worktree add failed: " + out)
    return d

def drop_wt(d):
    sh(["git", "-C", "/repo", "worktree", "remove", "--force", d], "/")
    shutil.rmtree(d, ignore_errors=True)

def run_checks(tree):
    """all 20 checks on a tree in one analyser process (one load, one normalised view)"""
    det = {}
    out = tempfile.mkdtemp(prefix="seed-ev-", dir="/tmp")
    r = subprocess.run([os.path.join(VERIF, "bin", "hlcheck"), "-prop", "all", "-repo", tree, "-verif", VERIF, "-out", out], env=ENV, capture_output=True, text=True)
    shutil.rmtree(out, ignore_errors=True)
    if "== C" not in r.stdout:
        for p in PROPS:
            det[p] = dict(rules=["CHECKER-ERROR"], first_report=(r.stdout + r.stderr)[-300:])
        return det
    sections = {}
    cur = None
    for l in r.stdout.splitlines():
        if l.startswith("== "):
            cur = l[3:].strip(); sections[cur] = []
        elif cur:
            sections[cur].append(l)
    for p, lines in sections.items():
        rep = [l.strip() for l in lines if l.strip().startswith(("VIOLATED", "UNDECIDED"))]
        if any(l.startswith("VIOLATION property=") for l in lines):
            det[p] = dict(rules=sorted(set(l.split()[1].rstrip(":") for l in rep)), first_report=(rep[0][:300] if rep else ""))
        elif any("CHECKER-ERROR" in l for l in lines):
            det[p] = dict(rules=["CHECKER-ERROR"], first_report="\n".join(lines)[-300:])
    return det

def ingest(agent_dir, n, prop, offset=0):
    diff = os.path.join(agent_dir, f"seed{n}.diff"); demo = os.path.join(agent_dir, f"seed{n}_demo"); md = os.path.join(agent_dir, f"seed{n}.md")
    for f in (diff, demo, md):
        if not os.path.exists(f): raise SystemExit("missing " + f)
    name = f"{prop}-{int(n) + int(offset)}"
    wt = scratch_wt()
    ran = []
    try:
        rc, out = sh(["git", "apply", "--check", diff], wt); ran.append(("git apply --check", rc))
        if rc != 0: raise SystemExit("patch does not apply: " + out)
        sh(["git", "apply", diff], wt)
        changed = sh(["git", "diff", "--stat"], wt)[1]
        rc, out = sh("go build ./...", wt); ran.append(("go build ./...", rc))
        if rc != 0: raise SystemExit("does not build: " + out[-500:])
        rc, out = sh("go test -vet=off -count=1 ./...", wt); ran.append(("go test -vet=off -count=1 ./... (with change, existing tests)", rc))
        if rc != 0: raise SystemExit("existing tests fail with the change: " + out[-800:])
        sh("git checkout -- internal/mobius/test", wt)
        # demo files
        demo_files = []
        for root, _, files in os.walk(demo):
            for f in files:
                rel = os.path.relpath(os.path.join(root, f), demo)
                if rel in ("go.mod", "go.sum"):
                    continue  # only there to hide the demo copy from ./... in the author's worktree
                os.makedirs(os.path.dirname(os.path.join(wt, rel)) or wt, exist_ok=True)
                shutil.copy(os.path.join(root, f), os.path.join(wt, rel)); demo_files.append(rel)
        pkgs = sorted(set("./" + os.path.dirname(f) for f in demo_files if f.endswith("_test.go")))
        runpat = "Seed|seed|Demo|demo"
        if pkgs:
            democmd = f"go test -vet=off -count=1 -run '{runpat}' " + " ".join(pkgs)
        else:
            mains = sorted(set("./" + os.path.dirname(f) for f in demo_files if f.endswith(".go")))
            democmd = "go run " + " ".join(mains)
        rc_with, out_with = sh(democmd, wt); ran.append((democmd + " (with change)", rc_with))
        sh("git checkout -- internal/mobius/test", wt)
        det = run_checks(wt)
        sh(["git", "apply", "-R", diff], wt)
        rc_without, out_without = sh(democmd, wt); ran.append((democmd + " (without change)", rc_without))
        sh("git checkout -- internal/mobius/test", wt)
        if rc_with == 0: raise SystemExit("demonstration does not fail with the change:\n" + out_with[-600:])
        if rc_without != 0: raise SystemExit("demonstration does not pass without the change:\n" + out_without[-800:])
        dst = os.path.join(VERIF, "seeded", name)
        shutil.rmtree(dst, ignore_errors=True); os.makedirs(os.path.join(dst, "demo"))
        shutil.copy(diff, os.path.join(dst, "patch.diff"))
        for f in demo_files:
            os.makedirs(os.path.dirname(os.path.join(dst, "demo", f)), exist_ok=True)
            shutil.copy(os.path.join(demo, f), os.path.join(dst, "demo", f))
        shutil.copy(md, os.path.join(dst, "notes.md"))
        meta = dict(name=name, breaks=prop, properties=sorted(set([prop] + list(det.keys()))), source="independent sub-agent given only the property text and a scratch worktree",
                    needs_to_manifest=first_para(open(md).read()), files_changed=changed.strip().splitlines(),
                    verified=[dict(cmd=c, exit=rc) for c, rc in ran], demo_fails_with_change=True, demo_passes_without_change=True,
                    detected_by={p: ", ".join(v["rules"]) for p, v in det.items()}, first_reports={p: v["first_report"] for p, v in det.items()},
                    detected=bool(det), detected_for_target=prop in det, demo_cmd=democmd)
        json.dump(meta, open(os.path.join(dst, "meta.json"), "w"), indent=1)
        print(f"{name}: kept. detected by: {meta['detected_by'] or 'NOTHING'}")
    finally:
        drop_wt(wt)

def first_para(s):
    s = s.strip()
    return s[:1200]

def index():
    rows = []
    for m in sorted(glob.glob(os.path.join(VERIF, "seeded", "*", "meta.json"))):
        d = json.load(open(m))
        det = "; ".join(f"{p}: {r}" for p, r in sorted(d["detected_by"].items())) or "**not detected**"
        rows.append(f"| {d['name']} | {d['breaks']} | {', '.join(x.split('|')[0].strip() for x in d['files_changed'][:-1])} | {det} |")
    open(os.path.join(VERIF, "seeded", "INDEX.md"), "w").write(
        "# Independently seeded changes and the checks that report them\n\nEach directory holds patch.diff (the change), demo/ (a test or program that fails with the change and passes without), notes.md (the author's description) and meta.json (what was re-verified here and which checks report the change). Generated by tools/seeded.py.\n\n| change | breaks | files | reported by (property: rules) |\n|---|---|---|---|\n" + "\n".join(rows) + "\n")
    print(len(rows), "entries")

def recheck(only=None):
    for m in sorted(glob.glob(os.path.join(VERIF, "seeded", "*", "meta.json"))):
        d = json.load(open(m)); dst = os.path.dirname(m)
        if only and only not in d["name"]: continue
        wt = scratch_wt()
        try:
            rc, out = sh(["git", "apply", os.path.join(dst, "patch.diff")], wt)
            if rc != 0:
                print(d["name"], "STALE"); continue
            det = run_checks(wt)
        finally:
            drop_wt(wt)
        d["detected_by"] = {p: ", ".join(v["rules"]) for p, v in det.items()}
        d["first_reports"] = {p: v["first_report"] for p, v in det.items()}
        d["properties"] = sorted(set([d["breaks"]] + list(det.keys())))
        d["detected"] = bool(det); d["detected_for_target"] = d["breaks"] in det
        json.dump(d, open(m, "w"), indent=1)
        print(d["name"], "->", d["detected_by"] or "NOT DETECTED")

if __name__ == "__main__":
    use_private_cache()
    if sys.argv[1] == "ingest": ingest(sys.argv[2], sys.argv[3], sys.argv[4], sys.argv[5] if len(sys.argv) > 5 else 0)
    elif sys.argv[1] == "index": index()
    elif sys.argv[1] == "recheck": recheck(sys.argv[2] if len(sys.argv) > 2 else None)
